import RpgpModel.SecretKey
/-!
# SecretKey — helper lemmas for C08

* S2K specifier codec (`S2k.parse` / `S2k.ser`) round trips
* wire form: `parseSecret (serEncrypted …)` for every variant and key version
* `Laws` (functional laws of the primitives) and the idealised security predicates, as
  *hypotheses* of theorems — nothing here is an axiom
* lock / unlock round trip, the exact gap between what `lock` accepts and `unlock` is willing to
  open, tamper / wrong-key reductions
* toy primitives (`toyPrims`) that satisfy the laws, used for non-vacuity and for the witnesses
-/
namespace Rpgp.SK
open Rpgp

theorem takeN_append (a b : Bytes) : takeN a.length (a ++ b) = some (a, b) := by
  simp [takeN]

theorem takeN_append' (n : Nat) (a b : Bytes) (h : a.length = n) : takeN n (a ++ b) = some (a, b) := by
  subst h; exact takeN_append a b

theorem takeN_some {n : Nat} {bs a b : Bytes} (h : takeN n bs = some (a, b)) : bs = a ++ b ∧ a.length = n := by
  unfold takeN at h
  split at h
  · simp at h
    obtain ⟨h1, h2⟩ := h
    subst h1 h2
    simp; omega
  · simp at h

/-- the S2K kinds whose length is known (everything but the opaque reserved / private / unknown) -/
def S2k.Known : S2k → Prop
  | .simple _ | .salted _ _ | .iterated _ _ _ | .argon2 _ _ _ _ => True
  | _ => False

theorem s2k_parse_ser (s : S2k) (hk : s.Known) (hw : s.WF) (rest : Bytes) :
    S2k.parse (s.ser ++ rest) = some (s, rest) := by
  cases s with
  | simple h => simp [S2k.ser, S2k.id, S2k.parse, Gen.s2kIdSimple, Gen.s2kRdSimple]
  | salted h salt =>
    simp only [S2k.WF] at hw
    simp [S2k.ser, S2k.id, S2k.parse, Gen.s2kIdSalted, Gen.s2kRdSimple, Gen.s2kRdSalted]
    rw [takeN_append' _ salt rest (hw.trans (by decide))]
  | iterated h salt c =>
    simp only [S2k.WF] at hw
    simp [S2k.ser, S2k.id, S2k.parse, Gen.s2kIdIterated, Gen.s2kRdSimple, Gen.s2kRdSalted, Gen.s2kRdReserved, Gen.s2kRdIterated]
    rw [takeN_append' _ salt (c :: rest) (hw.trans (by decide))]
  | argon2 salt t p m =>
    simp only [S2k.WF] at hw
    simp [S2k.ser, S2k.id, S2k.parse, Gen.s2kIdArgon2, Gen.s2kRdSimple, Gen.s2kRdSalted, Gen.s2kRdReserved, Gen.s2kRdIterated, Gen.s2kRdArgon2]
    rw [takeN_append' _ salt (t :: p :: m :: rest) (hw.trans (by decide))]
  | reserved u => exact absurd hk (by simp [S2k.Known])
  | priv t u => exact absurd hk (by simp [S2k.Known])
  | other t u => exact absurd hk (by simp [S2k.Known])


theorem toUInt8_toNat_small (n : Nat) (h : n < 256) : n.toUInt8.toNat = n := by
  simp [Nat.toUInt8, UInt8.toNat, UInt8.ofNat]; omega

theorem byte_eq_of_toNat {b : Byte} {n : Nat} (h : b.toNat = n) : b = n.toUInt8 := by
  subst h; simp

theorem s2k_ser_parse (b : Bytes) (s : S2k) (rest : Bytes) (h : S2k.parse b = some (s, rest)) :
    s.ser ++ rest = b ∧ s.WF := by
  unfold S2k.parse at h
  split at h
  · simp at h
  · rename_i typ r
    split at h
    · rename_i ht
      split at h
      · simp at h; obtain ⟨rfl, rfl⟩ := h
        simp [S2k.ser, S2k.id, S2k.WF, byte_eq_of_toNat ht]; decide
      · simp at h
    · split at h
      · rename_i ht
        split at h
        · rename_i hh r'
          simp [Option.map] at h
          split at h
          · rename_i x hx
            obtain ⟨s', r''⟩ := x
            simp at h; obtain ⟨rfl, rfl⟩ := h
            obtain ⟨h1, h2⟩ := takeN_some hx
            simp [S2k.ser, S2k.id, S2k.WF, byte_eq_of_toNat ht, h1, h2]; decide
          · simp at h
        · simp at h
      · split at h
        · rename_i ht
          simp at h; obtain ⟨rfl, rfl⟩ := h
          simp [S2k.ser, S2k.id, S2k.WF, byte_eq_of_toNat ht]; decide
        · split at h
          · rename_i ht
            split at h
            · split at h
              · rename_i s' c r'' hx
                simp at h; obtain ⟨rfl, rfl⟩ := h
                obtain ⟨h1, h2⟩ := takeN_some hx
                simp [S2k.ser, S2k.id, S2k.WF, byte_eq_of_toNat ht, h1, h2]; decide
              · simp at h
            · simp at h
          · split at h
            · rename_i ht
              split at h
              · rename_i s' t p m r' hx
                simp at h; obtain ⟨rfl, rfl⟩ := h
                obtain ⟨h1, h2⟩ := takeN_some hx
                simp [S2k.ser, S2k.id, S2k.WF, byte_eq_of_toNat ht, h1, h2]; decide
              · simp at h
            · split at h
              · simp at h; obtain ⟨rfl, rfl⟩ := h
                simp [S2k.ser, S2k.id, S2k.WF]
              · simp at h; obtain ⟨rfl, rfl⟩ := h
                simp [S2k.ser, S2k.id, S2k.WF]

theorem s2k_len_ser (s : S2k) (hw : s.WF) (n : Nat) (h : s.len = some n) : s.ser.length = n := by
  cases s <;> simp [S2k.len] at h <;> subst h <;> simp [S2k.WF] at hw <;>
    simp [S2k.ser, hw] <;> decide


/-- what `parse_secret_fields` makes of parameters it reads back (the arm for usage 255
constructs the variant extracted from the source) -/
def Params.asParsed : Params → Params
  | .malleableCfb sym s2k iv =>
    if armBuilds .malleableCfb = .malleableCfb then .malleableCfb sym s2k iv else .cfb sym s2k iv
  | p => p

/-- parameters in the shape the wire format can carry for key version `ver` -/
def Params.WireWF (ver : Byte) : Params → Prop
  | .unprotected => False
  | .legacyCfb sym iv =>
    isV6 ver = false ∧ 1 ≤ sym.toNat ∧ sym.toNat ≤ 252 ∧ iv.length = Gen.c08SymBlockSize sym.toNat
  | .aead _ mode s2k nonce => s2k.Known ∧ s2k.WF ∧ nonce.length = Gen.c08AeadNonceSize mode.toNat
  | .cfb sym s2k iv => s2k.Known ∧ s2k.WF ∧ iv.length = Gen.c08SymBlockSize sym.toNat
  | .malleableCfb sym s2k iv => s2k.Known ∧ s2k.WF ∧ iv.length = Gen.c08SymBlockSize sym.toNat

theorem known_len (s : S2k) (hk : s.Known) : ∃ n, s.len = some n ∧ n < 256 := by
  cases s <;> simp [S2k.Known] at hk <;> simp [S2k.len] <;> decide

theorem usageOfOctet_legacy (sym : Byte) (h1 : 1 ≤ sym.toNat) (h2 : sym.toNat ≤ 252) :
    usageOfOctet sym.toNat = .legacyCfb := by
  unfold usageOfOctet
  have : ¬ sym.toNat = Gen.rdUsageUnprotected := by
    have : Gen.rdUsageUnprotected = 0 := by decide
    omega
  have h3 : Gen.rdUsageLegacyMin ≤ sym.toNat ∧ sym.toNat ≤ Gen.rdUsageLegacyMax := by
    have : Gen.rdUsageLegacyMin = 1 := by decide
    have : Gen.rdUsageLegacyMax = 252 := by decide
    omega
  simp [*]

theorem parse_ser_legacy {Mat} (A : KeyAlg Mat) (ver : Byte) (sym : Byte) (iv data bytes : Bytes)
    (hw : (Params.legacyCfb sym iv).WireWF ver)
    (hs : serEncrypted ver (.legacyCfb sym iv) data = some bytes) :
    parseSecret A ver bytes = some (.encrypted (.legacyCfb sym iv) data) := by
  obtain ⟨hv, h1, h2, hiv⟩ := hw
  simp [serEncrypted, Params.fields, hv, Params.usageOctet, Params.variant, Params.sym, writeOctet] at hs
  subst hs
  simp [parseSecret, parseSecretFields, hv, usageOfOctet_legacy sym h1 h2, takeN_append' _ iv data hiv,
    Secret.usageId]


theorem usageOfOctet_aead : usageOfOctet Gen.wrUsageAead.toUInt8.toNat = .aead := by decide
theorem usageOfOctet_cfb : usageOfOctet Gen.wrUsageCfb.toUInt8.toNat = .cfb := by decide
theorem usageOfOctet_malleable : usageOfOctet Gen.wrUsageMalleable.toUInt8.toNat = .malleableCfb := by decide

theorem length_toUInt8_ne_zero (n : Nat) (h1 : 1 ≤ n) (h2 : n ≤ 255) : n.toUInt8 ≠ 0 := by
  intro h
  have := congrArg UInt8.toNat h
  rw [toUInt8_toNat_small n (by omega)] at this
  simp at this; omega


theorem fields_aead {Mat} (A : KeyAlg Mat) (ver o : Byte) (ho : usageOfOctet o.toNat = .aead)
    (hv : isV6 ver = false) (sym mode : Byte) (s2k : S2k) (nonce data : Bytes)
    (hk : s2k.Known) (hwf : s2k.WF) (hn : nonce.length = Gen.c08AeadNonceSize mode.toNat) :
    parseSecretFields A ver (o :: sym :: mode :: (s2k.ser ++ (nonce ++ data))) =
      some (.encrypted (.aead sym mode s2k nonce) data) := by
  simp [parseSecretFields, hv, ho, s2k_parse_ser s2k hk hwf, takeN_append' _ nonce data hn]

theorem fields_aead_v6 {Mat} (A : KeyAlg Mat) (ver o l lb : Byte) (ho : usageOfOctet o.toNat = .aead)
    (hv : isV6 ver = true) (hl : l ≠ 0) (sym mode : Byte) (s2k : S2k) (nonce data : Bytes)
    (hk : s2k.Known) (hwf : s2k.WF) (hn : nonce.length = Gen.c08AeadNonceSize mode.toNat)
    (n : Nat) (hlen : s2k.len = some n) (hlb : lb.toNat = n) :
    parseSecretFields A ver (o :: l :: sym :: mode :: lb :: (s2k.ser ++ (nonce ++ data))) =
      some (.encrypted (.aead sym mode s2k nonce) data) := by
  simp [parseSecretFields, hv, ho, hl, s2k_parse_ser s2k hk hwf, takeN_append' _ nonce data hn, hlen, hlb]


theorem serEncrypted_v6 (ver : Byte) (p : Params) (data f bytes : Bytes) (hv : isV6 ver = true)
    (hf : p.fields ver = some f) (hs : serEncrypted ver p data = some bytes) :
    f.length ≤ 255 ∧ bytes = p.usageOctet.toUInt8 :: f.length.toUInt8 :: (f ++ data) := by
  simp only [serEncrypted, hf, hv, if_true] at hs
  split at hs
  · rename_i hle; injection hs with hs; exact ⟨hle, hs.symm⟩
  · simp at hs

theorem serEncrypted_nonv6 (ver : Byte) (p : Params) (data f bytes : Bytes) (hv : isV6 ver = false)
    (hf : p.fields ver = some f) (hs : serEncrypted ver p data = some bytes) :
    bytes = p.usageOctet.toUInt8 :: (f ++ data) := by
  simp [serEncrypted, hf, hv] at hs
  exact hs.symm

theorem parse_ser_aead {Mat} (A : KeyAlg Mat) (ver : Byte) (sym mode : Byte) (s2k : S2k) (nonce data bytes : Bytes)
    (hw : (Params.aead sym mode s2k nonce).WireWF ver)
    (hs : serEncrypted ver (.aead sym mode s2k nonce) data = some bytes) :
    parseSecret A ver bytes = some (.encrypted (.aead sym mode s2k nonce) data) := by
  obtain ⟨hk, hwf, hn⟩ := hw
  obtain ⟨n, hlen, hn256⟩ := known_len s2k hk
  have hid : v6UsageAllowed (writeOctet .aead sym.toNat) = true := by simp [writeOctet]; decide
  cases hv : isV6 ver
  · have hf : (Params.aead sym mode s2k nonce).fields ver = some (sym :: mode :: (s2k.ser ++ nonce)) := by
      simp [Params.fields, hv]
    have hb := serEncrypted_nonv6 ver _ data _ bytes hv hf hs
    subst hb
    have := fields_aead A ver _ usageOfOctet_aead hv sym mode s2k nonce data hk hwf hn
    simp only [Params.usageOctet, Params.variant, writeOctet, List.append_assoc, List.cons_append] at this ⊢
    simp [parseSecret, this, hv]
  · have hf : (Params.aead sym mode s2k nonce).fields ver = some (sym :: mode :: n.toUInt8 :: (s2k.ser ++ nonce)) := by
      simp [Params.fields, hv, hlen]
    obtain ⟨hle, hb⟩ := serEncrypted_v6 ver _ data _ bytes hv hf hs
    subst hb
    have hne := length_toUInt8_ne_zero _ (by simp) hle
    have := fields_aead_v6 A ver _ _ n.toUInt8 usageOfOctet_aead hv hne sym mode s2k nonce data hk hwf hn n hlen
      (toUInt8_toNat_small n hn256)
    simp only [Params.usageOctet, Params.variant, writeOctet, List.append_assoc, List.cons_append] at this ⊢
    simp only [parseSecret, this, hv, Secret.usageId, Params.usageOctet, Params.variant, Params.sym, hid]
    simp


theorem readSymS2kIv_nolen (sym : Byte) (s2k : S2k) (iv data : Bytes)
    (hk : s2k.Known) (hwf : s2k.WF) (hiv : iv.length = Gen.c08SymBlockSize sym.toNat) :
    readSymS2kIv false (sym :: (s2k.ser ++ (iv ++ data))) = some (sym, s2k, iv, data) := by
  simp [readSymS2kIv, s2k_parse_ser s2k hk hwf, takeN_append' _ iv data hiv]

theorem readSymS2kIv_len (sym lb : Byte) (s2k : S2k) (iv data : Bytes)
    (hk : s2k.Known) (hwf : s2k.WF) (hiv : iv.length = Gen.c08SymBlockSize sym.toNat)
    (n : Nat) (hlen : s2k.len = some n) (hlb : lb.toNat = n) :
    readSymS2kIv true (sym :: lb :: (s2k.ser ++ (iv ++ data))) = some (sym, s2k, iv, data) := by
  simp [readSymS2kIv, s2k_parse_ser s2k hk hwf, takeN_append' _ iv data hiv, hlen, hlb]


theorem fields_cfb {Mat} (A : KeyAlg Mat) (ver o : Byte) (ho : usageOfOctet o.toNat = .cfb)
    (hv : isV6 ver = false) (sym : Byte) (s2k : S2k) (iv data : Bytes)
    (hk : s2k.Known) (hwf : s2k.WF) (hiv : iv.length = Gen.c08SymBlockSize sym.toNat) :
    parseSecretFields A ver (o :: sym :: (s2k.ser ++ (iv ++ data))) =
      some (.encrypted (.cfb sym s2k iv) data) := by
  simp [parseSecretFields, hv, ho, readSymS2kIv_nolen sym s2k iv data hk hwf hiv]

theorem fields_cfb_v6 {Mat} (A : KeyAlg Mat) (ver o l lb : Byte) (ho : usageOfOctet o.toNat = .cfb)
    (hv : isV6 ver = true) (hl : l ≠ 0) (sym : Byte) (s2k : S2k) (iv data : Bytes)
    (hk : s2k.Known) (hwf : s2k.WF) (hiv : iv.length = Gen.c08SymBlockSize sym.toNat)
    (n : Nat) (hlen : s2k.len = some n) (hlb : lb.toNat = n) :
    parseSecretFields A ver (o :: l :: sym :: lb :: (s2k.ser ++ (iv ++ data))) =
      some (.encrypted (.cfb sym s2k iv) data) := by
  simp [parseSecretFields, hv, ho, hl, readSymS2kIv_len sym lb s2k iv data hk hwf hiv n hlen hlb]

theorem fields_malleable {Mat} (A : KeyAlg Mat) (ver o : Byte) (ho : usageOfOctet o.toNat = .malleableCfb)
    (hv : isV6 ver = false) (sym : Byte) (s2k : S2k) (iv data : Bytes)
    (hk : s2k.Known) (hwf : s2k.WF) (hiv : iv.length = Gen.c08SymBlockSize sym.toNat) :
    parseSecretFields A ver (o :: sym :: (s2k.ser ++ (iv ++ data))) =
      some (.encrypted (Params.malleableCfb sym s2k iv).asParsed data) := by
  simp only [parseSecretFields, hv, ho, Params.asParsed]
  by_cases hb : armBuilds Variant.malleableCfb = Variant.malleableCfb <;>
    simp [hb, readSymS2kIv_nolen sym s2k iv data hk hwf hiv]

theorem fields_malleable_v6 {Mat} (A : KeyAlg Mat) (ver o l : Byte) (ho : usageOfOctet o.toNat = .malleableCfb)
    (hv : isV6 ver = true) (hl : l ≠ 0) (sym : Byte) (s2k : S2k) (iv data : Bytes)
    (hk : s2k.Known) (hwf : s2k.WF) (hiv : iv.length = Gen.c08SymBlockSize sym.toNat) :
    parseSecretFields A ver (o :: l :: sym :: (s2k.ser ++ (iv ++ data))) =
      some (.encrypted (Params.malleableCfb sym s2k iv).asParsed data) := by
  simp only [parseSecretFields, hv, ho, Params.asParsed]
  by_cases hb : armBuilds Variant.malleableCfb = Variant.malleableCfb <;>
    simp [hb, hl, readSymS2kIv_nolen sym s2k iv data hk hwf hiv]

theorem parse_ser_cfb {Mat} (A : KeyAlg Mat) (ver : Byte) (sym : Byte) (s2k : S2k) (iv data bytes : Bytes)
    (hw : (Params.cfb sym s2k iv).WireWF ver)
    (hs : serEncrypted ver (.cfb sym s2k iv) data = some bytes) :
    parseSecret A ver bytes = some (.encrypted (.cfb sym s2k iv) data) := by
  obtain ⟨hk, hwf, hiv⟩ := hw
  obtain ⟨n, hlen, hn256⟩ := known_len s2k hk
  have hid : v6UsageAllowed (writeOctet .cfb sym.toNat) = true := by simp [writeOctet]; decide
  cases hv : isV6 ver
  · have hf : (Params.cfb sym s2k iv).fields ver = some (sym :: (s2k.ser ++ iv)) := by
      simp [Params.fields, hv]
    have hb := serEncrypted_nonv6 ver _ data _ bytes hv hf hs
    subst hb
    have := fields_cfb A ver _ usageOfOctet_cfb hv sym s2k iv data hk hwf hiv
    simp only [Params.usageOctet, Params.variant, writeOctet, List.append_assoc, List.cons_append] at this ⊢
    simp [parseSecret, this, hv]
  · have hf : (Params.cfb sym s2k iv).fields ver = some (sym :: n.toUInt8 :: (s2k.ser ++ iv)) := by
      simp [Params.fields, hv, hlen]
    obtain ⟨hle, hb⟩ := serEncrypted_v6 ver _ data _ bytes hv hf hs
    subst hb
    have hne := length_toUInt8_ne_zero _ (by simp) hle
    have := fields_cfb_v6 A ver _ _ n.toUInt8 usageOfOctet_cfb hv hne sym s2k iv data hk hwf hiv n hlen
      (toUInt8_toNat_small n hn256)
    simp only [Params.usageOctet, Params.variant, writeOctet, List.append_assoc, List.cons_append] at this ⊢
    simp only [parseSecret, this, hv, Secret.usageId, Params.usageOctet, Params.variant, Params.sym, hid]
    simp

/-- usage 255: the bytes written for `MalleableCfb` are read back as whatever variant the source's
arm for 255 constructs (`Params.asParsed`) -/
theorem parse_ser_malleable {Mat} (A : KeyAlg Mat) (ver : Byte) (sym : Byte) (s2k : S2k) (iv data bytes : Bytes)
    (hw : (Params.malleableCfb sym s2k iv).WireWF ver)
    (hadm : isV6 ver = true → v6UsageAllowed (Params.malleableCfb sym s2k iv).asParsed.usageOctet = true)
    (hs : serEncrypted ver (.malleableCfb sym s2k iv) data = some bytes) :
    parseSecret A ver bytes = some (.encrypted (Params.malleableCfb sym s2k iv).asParsed data) := by
  obtain ⟨hk, hwf, hiv⟩ := hw
  have hf : (Params.malleableCfb sym s2k iv).fields ver = some (sym :: (s2k.ser ++ iv)) := by
    simp [Params.fields]
  cases hv : isV6 ver
  · have hb := serEncrypted_nonv6 ver _ data _ bytes hv hf hs
    subst hb
    have := fields_malleable A ver _ usageOfOctet_malleable hv sym s2k iv data hk hwf hiv
    simp only [Params.usageOctet, Params.variant, writeOctet, List.append_assoc, List.cons_append] at this ⊢
    simp [parseSecret, this, hv]
  · obtain ⟨hle, hb⟩ := serEncrypted_v6 ver _ data _ bytes hv hf hs
    subst hb
    have hne := length_toUInt8_ne_zero _ (by simp) hle
    have := fields_malleable_v6 A ver _ _ usageOfOctet_malleable hv hne sym s2k iv data hk hwf hiv
    simp only [Params.usageOctet, Params.variant, writeOctet, List.append_assoc, List.cons_append] at this ⊢
    simp only [parseSecret, this, hv, Secret.usageId, hadm hv]
    simp


/-! ## laws of the primitives (hypotheses, never axioms) -/

structure Laws (P : Prims) : Prop where
  /-- CFB decryption inverts CFB encryption (same cipher, key, IV) -/
  cfb_dec_enc : ∀ sym k iv pt ct, P.cfbEnc sym k iv pt = some ct → P.cfbDec sym k iv ct = some pt
  /-- CFB is length preserving -/
  cfb_enc_len : ∀ sym k iv pt ct, P.cfbEnc sym k iv pt = some ct → ct.length = pt.length
  /-- SHA-1 digests have the length `unlock` splits off -/
  sha1_len : ∀ x h, P.sha1 x = some h → h.length = Gen.unlockSha1Len
  /-- AEAD open inverts seal (same cipher, mode, key, nonce, associated data) -/
  open_seal : ∀ sym mode k n ad pt ct, P.aseal sym mode k n ad pt = some ct → P.aopen sym mode k n ad ct = some pt
  /-- a mode that seals has a tag size, and the ciphertext carries the tag -/
  seal_tag : ∀ sym mode k n ad pt ct, P.aseal sym mode k n ad pt = some ct →
    ∃ ts, Gen.c08AeadTagSize mode.toNat = some ts ∧ ts ≤ ct.length

/-- the S2K kinds `unlock` accepts under AEAD (`Argon2`, `IteratedAndSalted`) -/
def aeadS2kOk : Params → Bool
  | .aead _ _ (.argon2 _ _ _ _) _ => true
  | .aead _ _ (.iterated _ _ _) _ => true
  | .aead _ _ _ _ => false
  | _ => true

/-- `unlock` does not refuse the parameters before touching the data -/
def unlockAccepts (ver : Byte) (p : Params) : Bool := unlockWilling ver p && aeadS2kOk p

theorem parseNoCk_ser {Mat} (A : KeyAlg Mat) (hA : ∀ m, A.parse (A.ser m) = some (m, [])) (m : Mat) :
    parseNoCk A (A.ser m) = some m := by
  simp [parseNoCk, hA m]

/-- what a successful `lock` with CFB parameters did (the only lemma that unfolds `lock` on CFB) -/
theorem lock_cfb_inv {Mat} (P : Prims) (A : KeyAlg Mat) (ver tag : Byte) (pub : Bytes)
    (sym : Byte) (s2k : S2k) (iv pw : Bytes) (m : Mat) (blob : Bytes)
    (hl : lock P A ver tag pub (.cfb sym s2k iv) pw m = some blob) :
    s2k.weak = false ∧ s2k.isArgon2 = false ∧ isV4V6 ver = true ∧
    ∃ key h, P.derive s2k pw (Gen.c08SymKeySize sym.toNat) = some key ∧ P.sha1 (A.ser m) = some h ∧
      P.cfbEnc sym key iv (A.ser m ++ h) = some blob := by
  simp only [lock] at hl
  split at hl; · simp at hl
  rename_i h1
  split at hl; · simp at hl
  rename_i h2
  split at hl; · simp at hl
  split at hl; · simp at hl
  rename_i key hkey
  split at hl
  · rename_i hv
    split at hl; · simp at hl
    rename_i h hh
    exact ⟨by simpa using h1, by simpa using h2, hv, key, h, hkey, hh, hl⟩
  · simp at hl

/-- … and the S2K kind is one `unlock` opens for that key version -/
theorem lock_cfb_guard {Mat} (P : Prims) (A : KeyAlg Mat) (ver tag : Byte) (pub : Bytes)
    (sym : Byte) (s2k : S2k) (iv pw : Bytes) (m : Mat) (blob : Bytes)
    (hl : lock P A ver tag pub (.cfb sym s2k iv) pw m = some blob) :
    (isV6 ver && !s2k.cfbV6Ok) = false := by
  simp only [lock] at hl
  split at hl; · simp at hl
  split at hl; · simp at hl
  split at hl; · simp at hl
  rename_i h3
  simpa using h3

/-- what a successful `lock` with AEAD parameters did (the only lemma that unfolds `lock` on AEAD) -/
theorem lock_aead_inv {Mat} (P : Prims) (A : KeyAlg Mat) (ver tag : Byte) (pub : Bytes)
    (sym mode : Byte) (s2k : S2k) (nonce pw : Bytes) (m : Mat) (blob : Bytes)
    (hl : lock P A ver tag pub (.aead sym mode s2k nonce) pw m = some blob) :
    s2k.weak = false ∧ isV4V6 ver = true ∧
    ∃ dk, P.derive s2k pw (Gen.c08SymKeySize sym.toNat) = some dk ∧
      P.aseal sym mode (P.hkdf dk (aeadInfo tag ver sym mode)) nonce (aeadAd tag pub) (A.ser m) = some blob := by
  simp only [lock] at hl
  split at hl; · simp at hl
  rename_i h1
  split at hl; · simp at hl
  split at hl; · simp at hl
  rename_i dk hdk
  split at hl
  · rename_i hv
    exact ⟨by simpa using h1, hv, dk, hdk, hl⟩
  · simp at hl

/-- … and the S2K kind is one `unlock` opens under AEAD -/
theorem lock_aead_guard {Mat} (P : Prims) (A : KeyAlg Mat) (ver tag : Byte) (pub : Bytes)
    (sym mode : Byte) (s2k : S2k) (nonce pw : Bytes) (m : Mat) (blob : Bytes)
    (hl : lock P A ver tag pub (.aead sym mode s2k nonce) pw m = some blob) :
    s2k.aeadOk = true := by
  simp only [lock] at hl
  split at hl; · simp at hl
  split at hl; · simp at hl
  rename_i h2
  simpa using h2

/-- **lock → unlock** for every configuration `lock` accepts and `unlock` is willing to open -/
theorem lock_unlock_core {Mat} (P : Prims) (L : Laws P) (A : KeyAlg Mat)
    (hA : ∀ m, A.parse (A.ser m) = some (m, []))
    (ver tag : Byte) (pub : Bytes) (p : Params) (pw : Bytes) (m : Mat) (blob : Bytes)
    (hl : lock P A ver tag pub p pw m = some blob) (hw : unlockAccepts ver p = true) :
    unlock P A ver tag pub p blob pw = some m := by
  simp only [unlockAccepts, Bool.and_eq_true] at hw
  obtain ⟨hw, hs⟩ := hw
  cases p with
  | unprotected => simp [lock] at hl
  | legacyCfb sym iv => simp [lock] at hl
  | malleableCfb sym s2k iv => simp [lock] at hl
  | cfb sym s2k iv =>
    obtain ⟨_, _, _, key, h, hkey, hh, hl⟩ := lock_cfb_inv P A ver tag pub sym s2k iv pw m blob hl
    have hdec := L.cfb_dec_enc _ _ _ _ _ hl
    have hlen := L.cfb_enc_len _ _ _ _ _ hl
    have hhl := L.sha1_len _ _ hh
    have h20 : Gen.unlockSha1Split = Gen.unlockSha1Len := by decide
    simp only [unlock, hw, Bool.not_true, Bool.false_eq_true, if_false, hkey, hdec]
    have h1 : ¬ (A.ser m ++ h).length < Gen.unlockSha1Len := by simp [hhl]
    have h2 : blob.length - Gen.unlockSha1Split = (A.ser m).length := by
      rw [hlen, h20]; simp [hhl]
    simp only [h1, if_false, h2, List.take_left', List.drop_left', hh, if_true, parseNoCk_ser A hA m]
  | aead sym mode s2k nonce =>
    obtain ⟨_, _, dk, hdk, hl⟩ := lock_aead_inv P A ver tag pub sym mode s2k nonce pw m blob hl
    have hopen := L.open_seal _ _ _ _ _ _ _ hl
    obtain ⟨ts, hts, htl⟩ := L.seal_tag _ _ _ _ _ _ _ hl
    have h1 : ¬ blob.length < ts := by omega
    cases s2k <;> simp [aeadS2kOk] at hs <;>
      simp only [unlock, hw, Bool.not_true, Bool.false_eq_true, if_false, hts, h1, hdk, s2kUsageAead, hopen,
        parseNoCk_ser A hA m]

/-- whatever the data: parameters that are not accepted are refused -/
theorem unlock_refuses {Mat} (P : Prims) (A : KeyAlg Mat) (ver tag : Byte) (pub : Bytes) (p : Params)
    (data pw : Bytes) (h : unlockAccepts ver p = false) : unlock P A ver tag pub p data pw = none := by
  simp only [unlockAccepts, Bool.and_eq_false_iff] at h
  rcases h with h | h
  · simp [unlock, h]
  · cases p with
    | aead sym mode s2k nonce =>
      cases s2k <;> simp [aeadS2kOk] at h <;> (unfold unlock; split <;> simp)
    | _ => simp [aeadS2kOk] at h

/-- whatever `lock` accepts, `unlock` does not refuse on the parameters -/
theorem lock_implies_unlockAccepts {Mat} (P : Prims) (A : KeyAlg Mat) (ver tag : Byte) (pub : Bytes) (p : Params)
    (pw : Bytes) (m : Mat) (blob : Bytes) (hl : lock P A ver tag pub p pw m = some blob) :
    unlockAccepts ver p = true := by
  cases p with
  | unprotected => simp [lock] at hl
  | legacyCfb sym iv => simp [lock] at hl
  | malleableCfb sym s2k iv => simp [lock] at hl
  | cfb sym s2k iv =>
    obtain ⟨hweak, harg, _, _⟩ := lock_cfb_inv P A ver tag pub sym s2k iv pw m blob hl
    have hg := lock_cfb_guard P A ver tag pub sym s2k iv pw m blob hl
    cases hv : isV6 ver <;> cases s2k <;>
      simp_all [unlockAccepts, unlockWilling, aeadS2kOk, S2k.isArgon2, S2k.weak, S2k.cfbV6Ok]
  | aead sym mode s2k nonce =>
    obtain ⟨hweak, _, _⟩ := lock_aead_inv P A ver tag pub sym mode s2k nonce pw m blob hl
    have hg := lock_aead_guard P A ver tag pub sym mode s2k nonce pw m blob hl
    cases hv : isV6 ver <;> cases s2k <;>
      simp_all [unlockAccepts, unlockWilling, aeadS2kOk, S2k.weak, S2k.aeadOk]

/-! ## the RFC layout (`protect`) is opened by `unlock`, for every usage -/

theorem be16_decode (n : Nat) (h : n < 65536) :
    ∃ a b : Byte, be16 n = [a, b] ∧ a.toNat * 256 + b.toNat = n := by
  refine ⟨(n / 256 % 256).toUInt8, (n % 256).toUInt8, by simp [be16, beBytes], ?_⟩
  rw [toUInt8_toNat_small _ (Nat.mod_lt _ (by decide)), toUInt8_toNat_small _ (Nat.mod_lt _ (by decide))]
  omega

theorem sum16_lt (bs : Bytes) : sum16 bs < 65536 := by
  unfold sum16; exact Nat.mod_lt _ (by decide)

/-- the repair of D8e is present in the tree the model was generated from -/
theorem fixD8e_on : Gen.fixD8eChecksumOverStoredOctets = 1 := by decide

theorem parseCk_eq_stored {Mat} (A : KeyAlg Mat) (ver : Byte) (bs : Bytes) :
    parseCk A ver bs = parseCkStored A ver bs := by
  simp [parseCk, fixD8e_on]

/-- any stored encoding `mat` of the material that the parser reads completely, followed by the
16-bit sum of *those octets*, is accepted (the encoding need not be the one the library writes) -/
theorem parseCkStored_any_encoding {Mat} (A : KeyAlg Mat) (ver : Byte) (mat : Bytes) (m : Mat)
    (hp : A.parse mat = some (m, [])) :
    parseCkStored A ver (mat ++ (if isV3V4 ver then be16 (sum16 mat) else [])) = some m := by
  cases hv : isV3V4 ver
  · simp [parseCkStored, hv, hp]
  · obtain ⟨a, b, hab, hsum⟩ := be16_decode _ (sum16_lt mat)
    have h2 : Gen.plainChecksumLen = 2 := by decide
    simp only [parseCkStored, hv, if_true, hab, h2]
    have hl : ¬ (mat ++ [a, b]).length < 2 := by simp
    have ht : (mat ++ [a, b]).length - 2 = mat.length := by simp
    simp only [hl, if_false, ht, List.take_left', List.drop_left', hp, hsum, if_true]

theorem parseCk_ser {Mat} (A : KeyAlg Mat) (hA : ∀ m rest, A.parse (A.ser m ++ rest) = some (m, rest))
    (ver : Byte) (m : Mat) :
    parseCk A ver (A.ser m ++ be16 (sum16 (A.ser m))) = some m := by
  rw [parseCk_eq_stored]
  cases hv : isV3V4 ver
  · simp [parseCkStored, hv, hA]
  · have h0 : A.parse (A.ser m) = some (m, []) := by simpa using hA m []
    have := parseCkStored_any_encoding A ver (A.ser m) m h0
    simpa [hv] using this

theorem lock_eq_protect {Mat} (P : Prims) (A : KeyAlg Mat) (ver tag : Byte) (pub : Bytes) (p : Params)
    (pw : Bytes) (m : Mat) (blob : Bytes) (hl : lock P A ver tag pub p pw m = some blob) :
    protect P A ver tag pub p pw m = some blob := by
  cases p with
  | unprotected => simp [lock] at hl
  | legacyCfb sym iv => simp [lock] at hl
  | malleableCfb sym s2k iv => simp [lock] at hl
  | cfb sym s2k iv =>
    obtain ⟨_, _, _, key, h, hkey, hh, hl⟩ := lock_cfb_inv P A ver tag pub sym s2k iv pw m blob hl
    simp only [protect, hkey, hh]; exact hl
  | aead sym mode s2k nonce =>
    obtain ⟨_, _, dk, hdk, hl⟩ := lock_aead_inv P A ver tag pub sym mode s2k nonce pw m blob hl
    simp only [protect, hdk, s2kUsageAead]; exact hl

/-- a blob laid out as RFC 9580 prescribes for the usage of `p` is opened by `unlock` with the
same password — all four protected usages, 255 and the legacy cipher octets included -/
theorem protect_unlock {Mat} (P : Prims) (L : Laws P) (A : KeyAlg Mat)
    (hA : ∀ m rest, A.parse (A.ser m ++ rest) = some (m, rest))
    (ver tag : Byte) (pub : Bytes) (p : Params) (pw : Bytes) (m : Mat) (blob : Bytes)
    (hp : protect P A ver tag pub p pw m = some blob) (hw : unlockAccepts ver p = true) :
    unlock P A ver tag pub p blob pw = some m := by
  have hA0 : ∀ m, A.parse (A.ser m) = some (m, []) := fun m => by simpa using hA m []
  simp only [unlockAccepts, Bool.and_eq_true] at hw
  obtain ⟨hw, hs⟩ := hw
  cases p with
  | unprotected => simp [protect] at hp
  | legacyCfb sym iv =>
    simp only [protect] at hp
    have hdec := L.cfb_dec_enc _ _ _ _ _ hp
    have h2 : ¬ (A.ser m ++ be16 (sum16 (A.ser m))).length < Gen.unlockLegacyMin := by
      have : Gen.unlockLegacyMin = 2 := by decide
      simp [be16, beBytes]; omega
    simp only [unlock, hw, Bool.not_true, Bool.false_eq_true, if_false, hdec, h2, parseCk_ser A hA ver m]
  | malleableCfb sym s2k iv =>
    simp only [protect] at hp
    split at hp; · simp at hp
    rename_i key hkey
    have hdec := L.cfb_dec_enc _ _ _ _ _ hp
    have h2 : ¬ (A.ser m ++ be16 (sum16 (A.ser m))).length < Gen.unlockMalleableMin := by
      have : Gen.unlockMalleableMin = 2 := by decide
      simp [be16, beBytes]; omega
    simp only [unlock, hw, Bool.not_true, Bool.false_eq_true, if_false, hkey, hdec, h2, parseCk_ser A hA ver m]
  | cfb sym s2k iv =>
    simp only [protect] at hp
    split at hp; · simp at hp
    rename_i key hkey
    split at hp; · simp at hp
    rename_i h hh
    have hdec := L.cfb_dec_enc _ _ _ _ _ hp
    have hlen := L.cfb_enc_len _ _ _ _ _ hp
    have hhl := L.sha1_len _ _ hh
    have h20 : Gen.unlockSha1Split = Gen.unlockSha1Len := by decide
    simp only [unlock, hw, Bool.not_true, Bool.false_eq_true, if_false, hkey, hdec]
    have h1 : ¬ (A.ser m ++ h).length < Gen.unlockSha1Len := by simp [hhl]
    have h2 : blob.length - Gen.unlockSha1Split = (A.ser m).length := by
      rw [hlen, h20]; simp [hhl]
    simp only [h1, if_false, h2, List.take_left', List.drop_left', hh, if_true, parseNoCk_ser A hA0 m]
  | aead sym mode s2k nonce =>
    simp only [protect] at hp
    split at hp; · simp at hp
    rename_i dk hdk
    simp only [s2kUsageAead] at hp
    have hopen := L.open_seal _ _ _ _ _ _ _ hp
    obtain ⟨ts, hts, htl⟩ := L.seal_tag _ _ _ _ _ _ _ hp
    have h1 : ¬ blob.length < ts := by omega
    cases s2k <;> simp [aeadS2kOk] at hs <;>
      simp only [unlock, hw, Bool.not_true, Bool.false_eq_true, if_false, hts, h1, hdk, s2kUsageAead, hopen,
        parseNoCk_ser A hA0 m]

theorem or192 : ∀ n, n < 64 → n ||| 192 = n + 192 := by decide

theorem typeId_toNat (tag : Byte) (h : tag.toNat < 64) : (typeId tag).toNat = tag.toNat + 192 := by
  have : Gen.aeadTypeIdMask = 192 := by decide
  simp only [typeId, this, UInt8.toNat_or]
  have : (Nat.toUInt8 192).toNat = 192 := by decide
  rw [this]
  exact or192 _ h

theorem typeId_inj (tag tag' : Byte) (h : tag.toNat < 64) (h' : tag'.toNat < 64)
    (he : typeId tag = typeId tag') : tag = tag' := by
  have := congrArg UInt8.toNat he
  rw [typeId_toNat tag h, typeId_toNat tag' h'] at this
  exact UInt8.toNat_inj.mp (by omega)

/-! ## what the AEAD associated data and HKDF info bind -/

theorem aeadAd_inj (tag tag' : Byte) (pub pub' : Bytes) (h : tag.toNat < 64) (h' : tag'.toNat < 64)
    (he : aeadAd tag pub = aeadAd tag' pub') : tag = tag' ∧ pub = pub' := by
  simp only [aeadAd, List.cons.injEq] at he
  exact ⟨typeId_inj tag tag' h h' he.1, he.2⟩

theorem aeadInfo_inj (tag tag' ver ver' sym sym' mode mode' : Byte) (h : tag.toNat < 64) (h' : tag'.toNat < 64)
    (he : aeadInfo tag ver sym mode = aeadInfo tag' ver' sym' mode') :
    tag = tag' ∧ ver = ver' ∧ sym = sym' ∧ mode = mode' := by
  simp only [aeadInfo, List.cons.injEq, and_true] at he
  exact ⟨typeId_inj tag tag' h h' he.1, he.2.1, he.2.2.1, he.2.2.2⟩

theorem beBytes_length (k n : Nat) : (beBytes k n).length = k := by
  induction k with
  | zero => simp [beBytes]
  | succ k ih => simp [beBytes, ih]

theorem be32_inj (a b : Nat) (ha : a < 4294967296) (hb : b < 4294967296) (h : be32 a = be32 b) : a = b := by
  simp only [be32, beBytes, List.cons.injEq, and_true, Nat.pow_zero, Nat.div_one] at h
  obtain ⟨h3, h2, h1, h0⟩ := h
  have e3 := congrArg UInt8.toNat h3
  have e2 := congrArg UInt8.toNat h2
  have e1 := congrArg UInt8.toNat h1
  have e0 := congrArg UInt8.toNat h0
  rw [toUInt8_toNat_small _ (Nat.mod_lt _ (by decide)), toUInt8_toNat_small _ (Nat.mod_lt _ (by decide))] at e3 e2 e1 e0
  omega

/-- the public key packet body (v4 / v6) determines every public field: version, creation time,
algorithm, public parameters -/
theorem pubKeyBody_inj (ver ver' : Byte) (c c' e e' : Nat) (alg alg' : Byte) (pp pp' : Bytes)
    (hv : isV4V6 ver = true) (hv' : isV4V6 ver' = true) (hc : c < 4294967296) (hc' : c' < 4294967296)
    (h : pubKeyBody ver c e alg pp = pubKeyBody ver' c' e' alg' pp') :
    ver = ver' ∧ c = c' ∧ alg = alg' ∧ pp = pp' := by
  simp only [pubKeyBody, hv, hv', if_true, List.cons.injEq] at h
  obtain ⟨rfl, h⟩ := h
  have hl : (be32 c).length = (be32 c').length := by simp [be32, beBytes_length]
  obtain ⟨h1, h2⟩ := List.append_inj h hl
  simp only [List.cons.injEq] at h2
  obtain ⟨rfl, h2⟩ := h2
  refine ⟨rfl, be32_inj c c' hc hc' h1, rfl, ?_⟩
  cases hv6 : isV6 ver
  · simpa [hv6] using h2
  · simp only [hv6, if_true] at h2
    have hl : (be32 pp.length).length = (be32 pp'.length).length := by simp [be32, beBytes_length]
    exact (List.append_inj h2 hl).2

/-! ## idealised security predicates (hypotheses of the negative theorems) -/

/-- ideal ciphertext integrity: whatever opens under (key, nonce, ad) is the sealing of the
returned plaintext under the same (key, nonce, ad) -/
def IntCtxt (P : Prims) : Prop :=
  ∀ sym mode k n ad ct pt, P.aopen sym mode k n ad ct = some pt → P.aseal sym mode k n ad pt = some ct

/-- ideal context binding: a ciphertext is the sealing of at most one (nonce, ad, plaintext) under a key -/
def CtxBinding (P : Prims) : Prop :=
  ∀ sym mode k n ad pt n' ad' pt' ct, P.aseal sym mode k n ad pt = some ct →
    P.aseal sym mode k n' ad' pt' = some ct → n' = n ∧ ad' = ad ∧ pt' = pt

/-- ideal key separation: a ciphertext sealed under `k` does not open under another key -/
def WrongKeyFails (P : Prims) : Prop :=
  ∀ sym mode k k' n ad pt ct n' ad', P.aseal sym mode k n ad pt = some ct → k' ≠ k →
    P.aopen sym mode k' n' ad' ct = none

/-- collision freeness of the (checked) SHA-1 -/
def CollisionFree (P : Prims) : Prop := ∀ a b h, P.sha1 a = some h → P.sha1 b = some h → a = b

/-- what `unlock` computes on AEAD parameters, when it returns something -/
theorem unlock_aead_sound {Mat} (P : Prims) (A : KeyAlg Mat) (ver tag : Byte) (pub : Bytes)
    (sym mode : Byte) (s2k : S2k) (nonce data pw : Bytes) (m : Mat)
    (h : unlock P A ver tag pub (.aead sym mode s2k nonce) data pw = some m) :
    ∃ dk pt, P.derive s2k pw (Gen.c08SymKeySize sym.toNat) = some dk ∧
      P.aopen sym mode (P.hkdf dk (aeadInfo tag ver sym mode)) nonce (aeadAd tag pub) data = some pt ∧
      parseNoCk A pt = some m := by
  unfold unlock at h
  split at h; · simp at h
  cases s2k <;> simp only at h <;> (try (simp at h; done)) <;>
  · split at h; · simp at h
    split at h; · simp at h
    split at h; · simp at h
    rename_i dk hdk
    simp only [s2kUsageAead] at h
    split at h; · simp at h
    rename_i pt hpt
    exact ⟨dk, pt, hdk, hpt, h⟩

/-- **AEAD (253): the blob is bound to the nonce and to the public key packet body.**  With the
locked blob unchanged, the same password, S2K, cipher, mode and packet type: any change of the
nonce or of the public key packet body (version, creation time, algorithm, public parameters —
`pubKeyBody_inj`) makes `unlock` fail. -/
theorem aead_context_change_fails {Mat} (P : Prims) (hI : IntCtxt P) (hB : CtxBinding P) (A : KeyAlg Mat)
    (ver tag : Byte) (pub pub' : Bytes) (sym mode : Byte) (s2k : S2k) (nonce nonce' pw : Bytes)
    (m : Mat) (blob : Bytes) (ht : tag.toNat < 64)
    (hl : lock P A ver tag pub (.aead sym mode s2k nonce) pw m = some blob)
    (hch : nonce' ≠ nonce ∨ pub' ≠ pub) :
    unlock P A ver tag pub' (.aead sym mode s2k nonce') blob pw = none := by
  cases hu : unlock P A ver tag pub' (.aead sym mode s2k nonce') blob pw with
  | none => rfl
  | some m' =>
    exfalso
    obtain ⟨dk', pt', hdk', hopen, _⟩ := unlock_aead_sound P A ver tag pub' sym mode s2k nonce' blob pw m' hu
    obtain ⟨_, _, dk, hdk, hl⟩ := lock_aead_inv P A ver tag pub sym mode s2k nonce pw m blob hl
    rw [hdk] at hdk'; injection hdk' with hdk'; subst hdk'
    have hseal' := hI _ _ _ _ _ _ _ hopen
    obtain ⟨hn, had, _⟩ := hB _ _ _ _ _ _ _ _ _ _ hl hseal'
    have := (aeadAd_inj tag tag pub' pub ht ht had).2
    rcases hch with hch | hch
    · exact hch hn
    · exact hch this

/-- **AEAD (253): anything accepted is an honest sealing.**  If `unlock` returns material for some
data, that data is the sealing — under the key derived from the password and the HKDF info
(tag, version, cipher, mode), this nonce and this associated data — of bytes that parse to exactly
that material. -/
theorem aead_accepts_only_sealings {Mat} (P : Prims) (hI : IntCtxt P) (A : KeyAlg Mat)
    (ver tag : Byte) (pub : Bytes) (sym mode : Byte) (s2k : S2k) (nonce data pw : Bytes) (m : Mat)
    (h : unlock P A ver tag pub (.aead sym mode s2k nonce) data pw = some m) :
    ∃ dk pt, P.derive s2k pw (Gen.c08SymKeySize sym.toNat) = some dk ∧
      P.aseal sym mode (P.hkdf dk (aeadInfo tag ver sym mode)) nonce (aeadAd tag pub) pt = some data ∧
      parseNoCk A pt = some m := by
  obtain ⟨dk, pt, hdk, hopen, hp⟩ := unlock_aead_sound P A ver tag pub sym mode s2k nonce data pw m h
  exact ⟨dk, pt, hdk, hI _ _ _ _ _ _ _ hopen, hp⟩

/-- **AEAD (253): another key never opens the blob.**  Whatever password, S2K, packet type,
version, nonce and public key are presented: if the HKDF output differs from the one the blob was
sealed under, `unlock` fails (blob, cipher and mode unchanged). -/
theorem aead_other_key_fails {Mat} (P : Prims) (hK : WrongKeyFails P) (A : KeyAlg Mat)
    (ver ver' tag tag' : Byte) (pub pub' : Bytes) (sym mode : Byte) (s2k s2k' : S2k) (nonce nonce' pw pw' : Bytes)
    (m : Mat) (blob dk : Bytes)
    (hdk : P.derive s2k pw (Gen.c08SymKeySize sym.toNat) = some dk)
    (hl : lock P A ver tag pub (.aead sym mode s2k nonce) pw m = some blob)
    (hne : ∀ dk', P.derive s2k' pw' (Gen.c08SymKeySize sym.toNat) = some dk' →
      P.hkdf dk' (aeadInfo tag' ver' sym mode) ≠ P.hkdf dk (aeadInfo tag ver sym mode)) :
    unlock P A ver' tag' pub' (.aead sym mode s2k' nonce') blob pw' = none := by
  cases hu : unlock P A ver' tag' pub' (.aead sym mode s2k' nonce') blob pw' with
  | none => rfl
  | some m' =>
    exfalso
    obtain ⟨dk', pt', hdk', hopen, _⟩ := unlock_aead_sound P A ver' tag' pub' sym mode s2k' nonce' blob pw' m' hu
    obtain ⟨_, _, dk0, hdk0, hl⟩ := lock_aead_inv P A ver tag pub sym mode s2k nonce pw m blob hl
    rw [hdk] at hdk0; injection hdk0 with hdk0; subst hdk0
    have := hK _ _ _ _ _ _ _ _ nonce' (aeadAd tag' pub') hl (hne dk' hdk')
    rw [this] at hopen
    simp at hopen

/-- HKDF as an injection (collision freeness of the KDF, idealised) -/
def HkdfInj (P : Prims) : Prop := ∀ a i a' i', P.hkdf a i = P.hkdf a' i' → a = a' ∧ i = i'

/-- the S2K as an injection in the password (collision freeness of the S2K hash, idealised) -/
def DeriveInj (P : Prims) : Prop := ∀ s pw pw' n k, P.derive s pw n = some k → P.derive s pw' n = some k → pw = pw'

/-- **AEAD (253): wrong password, or a changed packet type / key version, fails.** -/
theorem aead_wrong_password_or_info_fails {Mat} (P : Prims) (hK : WrongKeyFails P) (hH : HkdfInj P)
    (hD : DeriveInj P) (A : KeyAlg Mat)
    (ver ver' tag tag' : Byte) (pub pub' : Bytes) (sym mode : Byte) (s2k : S2k) (nonce nonce' pw pw' : Bytes)
    (m : Mat) (blob : Bytes) (ht : tag.toNat < 64) (ht' : tag'.toNat < 64)
    (hl : lock P A ver tag pub (.aead sym mode s2k nonce) pw m = some blob)
    (hch : pw' ≠ pw ∨ tag' ≠ tag ∨ ver' ≠ ver) :
    unlock P A ver' tag' pub' (.aead sym mode s2k nonce') blob pw' = none := by
  obtain ⟨_, _, dk, hdk, _⟩ := lock_aead_inv P A ver tag pub sym mode s2k nonce pw m blob hl
  refine aead_other_key_fails P hK A ver ver' tag tag' pub pub' sym mode s2k s2k nonce nonce' pw pw' m blob dk hdk hl ?_
  intro dk' hdk' heq
  obtain ⟨h1, h2⟩ := hH _ _ _ _ heq
  subst h1
  obtain ⟨e1, e2, _, _⟩ := aeadInfo_inj tag' tag ver' ver sym sym mode mode ht' ht h2
  rcases hch with hch | hch | hch
  · exact hch (hD _ _ _ _ _ hdk' hdk)
  · exact hch e1
  · exact hch e2

/-! ## CFB + SHA-1 (254) -/

/-- what `unlock` computes on CFB+SHA-1 parameters, when it returns something: the decrypted
bytes are a body followed by that body's SHA-1, and the material is the complete parse of the body -/
theorem unlock_cfb_sound {Mat} (P : Prims) (A : KeyAlg Mat) (ver tag : Byte) (pub : Bytes)
    (sym : Byte) (s2k : S2k) (iv data pw : Bytes) (m : Mat)
    (h : unlock P A ver tag pub (.cfb sym s2k iv) data pw = some m) :
    ∃ key pt, P.derive s2k pw (Gen.c08SymKeySize sym.toNat) = some key ∧
      P.cfbDec sym key iv data = some pt ∧
      P.sha1 (pt.take (data.length - Gen.unlockSha1Split)) = some (pt.drop (data.length - Gen.unlockSha1Split)) ∧
      parseNoCk A (pt.take (data.length - Gen.unlockSha1Split)) = some m := by
  unfold unlock at h
  split at h; · simp at h
  simp only at h
  split at h; · simp at h
  rename_i key hkey
  split at h; · simp at h
  rename_i pt hpt
  split at h; · simp at h
  split at h; · simp at h
  rename_i hh hsha
  split at h
  · rename_i heq
    exact ⟨key, pt, hkey, hpt, by rw [heq]; exact hsha, h⟩
  · simp at h

/-- **CFB+SHA-1 (254): never different material behind the same digest.**  Two successful unlocks
(any data, any parameters, any passwords) whose decrypted SHA-1 fields are equal return the same
material — under collision freeness of SHA-1.  In particular a tampered blob that leaves the
decrypted digest intact cannot yield different key material. -/
theorem cfb254_same_digest_same_material {Mat} (P : Prims) (hC : CollisionFree P) (A : KeyAlg Mat)
    (ver ver' tag tag' : Byte) (pub pub' : Bytes) (sym sym' : Byte) (s2k s2k' : S2k) (iv iv' data data' pw pw' : Bytes)
    (m m' : Mat) (key key' pt pt' : Bytes)
    (hk : P.derive s2k pw (Gen.c08SymKeySize sym.toNat) = some key)
    (hk' : P.derive s2k' pw' (Gen.c08SymKeySize sym'.toNat) = some key')
    (hd : P.cfbDec sym key iv data = some pt) (hd' : P.cfbDec sym' key' iv' data' = some pt')
    (hu : unlock P A ver tag pub (.cfb sym s2k iv) data pw = some m)
    (hu' : unlock P A ver' tag' pub' (.cfb sym' s2k' iv') data' pw' = some m')
    (hdig : pt.drop (data.length - Gen.unlockSha1Split) = pt'.drop (data'.length - Gen.unlockSha1Split)) :
    m = m' := by
  obtain ⟨k1, p1, hk1, hd1, hs1, hp1⟩ := unlock_cfb_sound P A ver tag pub sym s2k iv data pw m hu
  obtain ⟨k2, p2, hk2, hd2, hs2, hp2⟩ := unlock_cfb_sound P A ver' tag' pub' sym' s2k' iv' data' pw' m' hu'
  rw [hk] at hk1; injection hk1 with hk1; subst hk1
  rw [hk'] at hk2; injection hk2 with hk2; subst hk2
  rw [hd] at hd1; injection hd1 with hd1; subst hd1
  rw [hd'] at hd2; injection hd2 with hd2; subst hd2
  rw [hdig] at hs1
  have := hC _ _ _ hs1 hs2
  rw [this] at hp1
  rw [hp1] at hp2
  injection hp2

/-- further laws of CFB used by the digest-tamper theorem -/
structure CfbLaws (P : Prims) : Prop where
  /-- decryption is length preserving -/
  dec_len : ∀ sym k iv ct pt, P.cfbDec sym k iv ct = some pt → pt.length = ct.length
  /-- encryption inverts decryption -/
  enc_dec : ∀ sym k iv ct pt, P.cfbDec sym k iv ct = some pt → P.cfbEnc sym k iv pt = some ct
  /-- CFB is causal: the decryption of a prefix is the prefix of the decryption -/
  dec_prefix : ∀ sym k iv a b pt, P.cfbDec sym k iv (a ++ b) = some pt →
    ∃ pa, P.cfbDec sym k iv a = some pa ∧ pa = pt.take a.length

/-- **CFB+SHA-1 (254): any change confined to the encrypted digest is rejected.**  If the locked
blob is `a ++ b` with `b` the last 20 octets, replacing `b` by any other 20 octets makes `unlock`
(same password) fail. -/
theorem cfb254_digest_tamper_rejected {Mat} (P : Prims) (L : Laws P) (C : CfbLaws P) (A : KeyAlg Mat)
    (ver tag : Byte) (pub : Bytes) (sym : Byte) (s2k : S2k) (iv pw : Bytes) (m : Mat) (a b b' : Bytes)
    (hl : lock P A ver tag pub (.cfb sym s2k iv) pw m = some (a ++ b))
    (hb : b.length = Gen.unlockSha1Split) (hb' : b'.length = Gen.unlockSha1Split) (hne : b' ≠ b) :
    unlock P A ver tag pub (.cfb sym s2k iv) (a ++ b') pw = none := by
  cases hu : unlock P A ver tag pub (.cfb sym s2k iv) (a ++ b') pw with
  | none => rfl
  | some m' =>
    exfalso
    obtain ⟨key', pt', hk', hd', hs', _⟩ := unlock_cfb_sound P A ver tag pub sym s2k iv (a ++ b') pw m' hu
    obtain ⟨_, _, _, key, h, hkey, hh, hl⟩ := lock_cfb_inv P A ver tag pub sym s2k iv pw m (a ++ b) hl
    rw [hkey] at hk'; injection hk' with hk'; subst hk'
    have hdec := L.cfb_dec_enc _ _ _ _ _ hl
    have hlen := L.cfb_enc_len _ _ _ _ _ hl
    have hhl := L.sha1_len _ _ hh
    have h20 : Gen.unlockSha1Split = Gen.unlockSha1Len := by decide
    -- |a| = |ser m|
    have hal : a.length = (A.ser m).length := by
      have := hlen; simp only [List.length_append] at this; omega
    -- both decryptions agree on the first |a| octets
    obtain ⟨pa, hpa, hpae⟩ := C.dec_prefix _ _ _ _ _ _ hdec
    obtain ⟨pa', hpa', hpae'⟩ := C.dec_prefix _ _ _ _ _ _ hd'
    rw [hpa] at hpa'; injection hpa' with hpa'
    have hx : pt'.take a.length = A.ser m := by
      rw [← hpae', ← hpa', hpae, hal]; simp
    have hcut : (a ++ b').length - Gen.unlockSha1Split = a.length := by
      simp only [List.length_append, hb']; omega
    rw [hcut, hx, hh] at hs'
    injection hs' with hs'
    -- so pt' = ser m ++ h, hence a ++ b' = a ++ b
    have hpt' : pt' = A.ser m ++ h := by
      rw [← List.take_append_drop a.length pt', hx, ← hs']
    have := C.enc_dec _ _ _ _ _ hd'
    rw [hpt', hl] at this
    injection this with this
    exact hne (List.append_cancel_left this).symm

/-! ## the 16-bit sum (255 and the legacy cipher octets), stated honestly -/

/-- `parseCkStored` on a v3/v4 key, when it returns something: the input is some stored encoding of
the material, read completely by the parser, followed by exactly two octets that equal the 16-bit
sum of *those stored octets* -/
theorem parseCkStored_sound {Mat} (A : KeyAlg Mat) (ver : Byte) (pt : Bytes) (m : Mat)
    (hv : isV3V4 ver = true) (h : parseCkStored A ver pt = some m) :
    ∃ mat a b, pt = mat ++ [a, b] ∧ A.parse mat = some (m, []) ∧
      a.toNat * 256 + b.toNat = sum16 mat := by
  have h2 : Gen.plainChecksumLen = 2 := by decide
  simp only [parseCkStored, hv, if_true, h2] at h
  split at h; · simp at h
  rename_i hlen
  split at h
  · rename_i m0 a b hparse hdrop
    split at h
    · rename_i hsum
      injection h with h; subst h
      refine ⟨pt.take (pt.length - 2), a, b, ?_, hparse, hsum⟩
      have := List.take_append_drop (pt.length - 2) pt
      rw [hdrop] at this
      exact this.symm
    · simp at h
  · simp at h

/-- what `unlock` computes on usage-255 parameters for a v3/v4 key when it returns something: the
decrypted bytes are a stored encoding of the material followed by exactly two octets that equal the
16-bit sum of the stored octets.  Nothing stronger than the 16-bit sum protects the material. -/
theorem unlock_sum16_sound {Mat} (P : Prims) (A : KeyAlg Mat) (ver tag : Byte) (pub : Bytes)
    (sym : Byte) (s2k : S2k) (iv data pw : Bytes) (m : Mat) (hv : isV3V4 ver = true)
    (h : unlock P A ver tag pub (.malleableCfb sym s2k iv) data pw = some m) :
    ∃ key mat a b, P.derive s2k pw (Gen.c08SymKeySize sym.toNat) = some key ∧
      P.cfbDec sym key iv data = some (mat ++ [a, b]) ∧ A.parse mat = some (m, []) ∧
      a.toNat * 256 + b.toNat = sum16 mat := by
  unfold unlock at h
  split at h; · simp at h
  simp only at h
  split at h; · simp at h
  rename_i key hkey
  split at h; · simp at h
  rename_i pt hpt
  split at h; · simp at h
  rw [parseCk_eq_stored] at h
  obtain ⟨mat, a, b, hpt', hparse, hsum⟩ := parseCkStored_sound A ver pt m hv h
  exact ⟨key, mat, a, b, hkey, hpt' ▸ hpt, hparse, hsum⟩

theorem unlock_legacy_sound {Mat} (P : Prims) (A : KeyAlg Mat) (ver tag : Byte) (pub : Bytes)
    (sym : Byte) (iv data pw : Bytes) (m : Mat) (hv : isV3V4 ver = true)
    (h : unlock P A ver tag pub (.legacyCfb sym iv) data pw = some m) :
    ∃ mat a b, P.cfbDec sym (P.md5 pw) iv data = some (mat ++ [a, b]) ∧ A.parse mat = some (m, []) ∧
      a.toNat * 256 + b.toNat = sum16 mat := by
  unfold unlock at h
  split at h; · simp at h
  simp only at h
  split at h; · simp at h
  rename_i pt hpt
  split at h; · simp at h
  rw [parseCk_eq_stored] at h
  obtain ⟨mat, a, b, hpt', hparse, hsum⟩ := parseCkStored_sound A ver pt m hv h
  exact ⟨mat, a, b, hpt' ▸ hpt, hparse, hsum⟩

/-- **whichever encoding the material was stored in** (D8e): under usage 255 a blob whose decryption
is any encoding `mat` that the parser reads completely, followed by the sum of those octets, is opened
by the right password -/
theorem unlock_sum16_any_encoding {Mat} (P : Prims) (A : KeyAlg Mat) (ver tag : Byte) (pub : Bytes)
    (sym : Byte) (s2k : S2k) (iv data pw key mat : Bytes) (m : Mat) (hv : isV3V4 ver = true)
    (hw : unlockWilling ver (.malleableCfb sym s2k iv) = true)
    (hk : P.derive s2k pw (Gen.c08SymKeySize sym.toNat) = some key)
    (hd : P.cfbDec sym key iv data = some (mat ++ be16 (sum16 mat)))
    (hp : A.parse mat = some (m, [])) :
    unlock P A ver tag pub (.malleableCfb sym s2k iv) data pw = some m := by
  have h2 : ¬ (mat ++ be16 (sum16 mat)).length < Gen.unlockMalleableMin := by
    have : Gen.unlockMalleableMin = 2 := by decide
    simp [be16, beBytes]; omega
  have := parseCkStored_any_encoding A ver mat m hp
  simp only [hv, if_true] at this
  simp only [unlock, hw, Bool.not_true, Bool.false_eq_true, if_false, hk, hd, h2, parseCk_eq_stored, this]

theorem unlock_legacy_any_encoding {Mat} (P : Prims) (A : KeyAlg Mat) (ver tag : Byte) (pub : Bytes)
    (sym : Byte) (iv data pw mat : Bytes) (m : Mat) (hv : isV3V4 ver = true)
    (hw : unlockWilling ver (.legacyCfb sym iv) = true)
    (hd : P.cfbDec sym (P.md5 pw) iv data = some (mat ++ be16 (sum16 mat)))
    (hp : A.parse mat = some (m, [])) :
    unlock P A ver tag pub (.legacyCfb sym iv) data pw = some m := by
  have h2 : ¬ (mat ++ be16 (sum16 mat)).length < Gen.unlockLegacyMin := by
    have : Gen.unlockLegacyMin = 2 := by decide
    simp [be16, beBytes]; omega
  have := parseCkStored_any_encoding A ver mat m hp
  simp only [hv, if_true] at this
  simp only [unlock, hw, Bool.not_true, Bool.false_eq_true, if_false, hd, h2, parseCk_eq_stored, this]

/-- toy material for the regression witness: one octet `x` behind a declared bit count, which may
overstate (`8`, as other implementations write it) or be exact; written back with the exact count -/
def toyAlgBitCount : KeyAlg Byte :=
  { ser := fun x => [(Nat.log2 x.toNat + 1).toUInt8, x]
    parse := fun bs => match bs with
      | n :: x :: r => if Nat.log2 x.toNat + 1 ≤ n.toNat ∧ n.toNat ≤ 8 then some (x, r) else none
      | _ => none }

/-- regression witness for D8e: the pre-repair check (sum over the re-serialised material) refuses an
intact key whose material carries a rounded-up bit count; the repaired check accepts it -/
theorem reencoded_checksum_refuses_noncanonical_witness :
    parseCkReencoded toyAlgBitCount 4 ([8, 7] ++ be16 (sum16 [8, 7])) = none ∧
    parseCkStored toyAlgBitCount 4 ([8, 7] ++ be16 (sum16 [8, 7])) = some 7 ∧
    parseCkReencoded toyAlgBitCount 4 ([3, 7] ++ be16 (sum16 [3, 7])) = some 7 := by decide

/-! ## policy: key-version and hash restrictions -/

theorem parseCk_plain {Mat} (A : KeyAlg Mat) (hA : ∀ m rest, A.parse (A.ser m ++ rest) = some (m, rest))
    (ver : Byte) (m : Mat) : parseCk A ver (serPlain A ver m) = some m := by
  unfold serPlain
  cases hv : isV3V4 ver
  · simp only [Bool.false_eq_true, if_false, List.append_nil]
    have := hA m []
    simp only [List.append_nil] at this
    simp [parseCk_eq_stored, parseCkStored, this, hv]
  · simp only [if_true]
    exact parseCk_ser A hA ver m

/-- unprotected secret part: serialize → parse (the v3/v4 checksum is written and checked) -/
theorem parse_ser_plain {Mat} (A : KeyAlg Mat) (hA : ∀ m rest, A.parse (A.ser m ++ rest) = some (m, rest))
    (ver : Byte) (m : Mat) (bytes : Bytes) (hs : serSecret A ver (.plain m) = some bytes) :
    ∃ m', parseSecret A ver bytes = some (.plain m') ∧ m' = m := by
  simp only [serSecret, Option.some.injEq] at hs
  subst hs
  have h0 : usageOfOctet (Gen.wrUsageUnprotected.toUInt8).toNat = .unprotected := by decide
  have hid : v6UsageAllowed Gen.wrUsageUnprotected = true := by decide
  refine ⟨m, ?_, rfl⟩
  simp only [parseSecret, parseSecretFields, h0]
  cases hv : isV6 ver <;> simp [parseCk_plain A hA ver m, Secret.usageId, hid]

/-- whatever bytes a version 6 key packet carries: what the parser returns has usage id 0, 253 or 254 -/
theorem v6_parsed_usage {Mat} (A : KeyAlg Mat) (ver : Byte) (b : Bytes) (s : Secret Mat) (hv : isV6 ver = true)
    (h : parseSecret A ver b = some s) : v6UsageAllowed s.usageId = true := by
  unfold parseSecret at h
  split at h
  · simp at h
  · rename_i s' _
    simp only [hv, Bool.true_and] at h
    split at h
    · simp at h
    · rename_i hn
      injection h with h; subst h
      simpa using hn

/-- parameters `unlock` opens for a version 6 key: AEAD with Argon2 / iterated S2K, CFB+SHA-1 with
iterated / salted S2K, never over MD5 / SHA-1 / RIPEMD-160 -/
def v6Unlockable : Params → Bool
  | .aead _ _ (.argon2 _ _ _ _) _ => true
  | .aead _ _ (.iterated h _ _) _ => !weakHash h
  | .cfb _ (.iterated h _ _) _ => !weakHash h
  | .cfb _ (.salted h _) _ => !weakHash h
  | _ => false

/-- parameters `unlock` opens for the other key versions: everything but Argon2 outside AEAD and
AEAD with a simple / salted / opaque S2K -/
def nonV6Unlockable : Params → Bool
  | .unprotected => true
  | .legacyCfb _ _ => true
  | .aead _ _ (.argon2 _ _ _ _) _ => true
  | .aead _ _ (.iterated _ _ _) _ => true
  | .aead _ _ _ _ => false
  | .cfb _ s2k _ => !s2k.isArgon2
  | .malleableCfb _ s2k _ => !s2k.isArgon2

theorem unlockAccepts_table (ver : Byte) (p : Params) :
    unlockAccepts ver p = if isV6 ver then v6Unlockable p else nonV6Unlockable p := by
  cases hv : isV6 ver <;> cases p <;>
    simp [unlockAccepts, unlockWilling, aeadS2kOk, v6Unlockable, nonV6Unlockable, hv] <;>
    (rename_i s2k _; cases s2k <;> simp [S2k.weak, S2k.isArgon2])

theorem unlock_some_accepts {Mat} (P : Prims) (A : KeyAlg Mat) (ver tag : Byte) (pub : Bytes) (p : Params)
    (data pw : Bytes) (m : Mat) (h : unlock P A ver tag pub p data pw = some m) : unlockAccepts ver p = true := by
  cases ha : unlockAccepts ver p
  · rw [unlock_refuses P A ver tag pub p data pw ha] at h; simp at h
  · rfl

/-- `lock` never produces: weak-hash S2K, Argon2 outside AEAD, usage 255 or a legacy cipher octet,
keys of a version other than 4 / 6 -/
theorem lock_policy {Mat} (P : Prims) (A : KeyAlg Mat) (ver tag : Byte) (pub : Bytes) (p : Params)
    (pw : Bytes) (m : Mat) (blob : Bytes) (hl : lock P A ver tag pub p pw m = some blob) :
    isV4V6 ver = true ∧
    ((∃ sym mode s2k nonce, p = .aead sym mode s2k nonce ∧ s2k.weak = false) ∨
     (∃ sym s2k iv, p = .cfb sym s2k iv ∧ s2k.weak = false ∧ s2k.isArgon2 = false)) := by
  cases p with
  | unprotected => simp [lock] at hl
  | legacyCfb sym iv => simp [lock] at hl
  | malleableCfb sym s2k iv => simp [lock] at hl
  | cfb sym s2k iv =>
    obtain ⟨h1, h2, h3, _⟩ := lock_cfb_inv P A ver tag pub sym s2k iv pw m blob hl
    exact ⟨h3, Or.inr ⟨sym, s2k, iv, rfl, h1, h2⟩⟩
  | aead sym mode s2k nonce =>
    obtain ⟨h1, h3, _⟩ := lock_aead_inv P A ver tag pub sym mode s2k nonce pw m blob hl
    exact ⟨h3, Or.inl ⟨sym, mode, s2k, nonce, rfl, h1⟩⟩

/-! ## the packet level (`packet/key/secret.rs`) -/

theorem set_password_roundtrip {Mat} (P : Prims) (L : Laws P) (A : KeyAlg Mat)
    (hA : ∀ m, A.parse (A.ser m) = some (m, []))
    (k k' : SecretKey Mat) (pw : Bytes) (p : Params)
    (hs : setPasswordWithS2k P A k pw p = some k') (hw : unlockAccepts k.ver p = true) :
    ∃ m, k.secret = .plain m ∧ unlockKey P A k' pw = some m ∧ removePassword P A k' pw = some k := by
  obtain ⟨ver, tag, pub, secret⟩ := k
  cases secret with
  | encrypted p0 d0 => simp [setPasswordWithS2k] at hs
  | plain m =>
    simp only [setPasswordWithS2k, Option.map_eq_some_iff] at hs
    obtain ⟨blob, hl, rfl⟩ := hs
    have hu := lock_unlock_core P L A hA ver tag pub p pw m blob hl hw
    exact ⟨m, rfl, by simp [unlockKey, hu], by simp [removePassword, hu]⟩

/-- a locked packet cannot be locked again (`Secret Key packet must be unlocked`) -/
theorem set_password_on_locked_fails {Mat} (P : Prims) (A : KeyAlg Mat) (k : SecretKey Mat) (pw : Bytes)
    (p p0 : Params) (d0 : Bytes) (h : k.secret = .encrypted p0 d0) : setPasswordWithS2k P A k pw p = none := by
  simp [setPasswordWithS2k, h]

/-! ## toy primitives: the laws are satisfiable, and concrete witnesses -/

def toySha1 (x : Bytes) : Bytes := be16 (sum16 x) ++ List.replicate 18 0
def toyTag (k n ad pt : Bytes) : Bytes := be16 (sum16 (k ++ n ++ ad ++ pt)) ++ List.replicate 14 0

/-- identity "CFB", checksum "SHA-1", checksum-tag "AEAD", concatenating "HKDF" -/
def toyPrims : Prims where
  derive := fun _ pw _ => some pw
  md5 := fun pw => pw
  sha1 := fun x => some (toySha1 x)
  cfbEnc := fun _ _ _ pt => some pt
  cfbDec := fun _ _ _ ct => some ct
  hkdf := fun ikm info => ikm ++ info
  aseal := fun _ mode k n ad pt =>
    if (Gen.c08AeadTagSize mode.toNat).isSome then some (pt ++ toyTag k n ad pt) else none
  aopen := fun _ mode k n ad ct =>
    if (Gen.c08AeadTagSize mode.toNat).isSome ∧ 16 ≤ ct.length ∧
        ct.drop (ct.length - 16) = toyTag k n ad (ct.take (ct.length - 16)) then
      some (ct.take (ct.length - 16))
    else none

/-- two-octet material -/
def toyAlg : KeyAlg (Byte × Byte) where
  ser := fun m => [m.1, m.2]
  parse := fun bs => match bs with
    | a :: b :: r => some ((a, b), r)
    | _ => none

theorem toyAlg_law (m : Byte × Byte) (rest : Bytes) : toyAlg.parse (toyAlg.ser m ++ rest) = some (m, rest) := by
  simp [toyAlg]

theorem toyTag_length (k n ad pt : Bytes) : (toyTag k n ad pt).length = 16 := by
  simp [toyTag, be16, beBytes]

theorem aeadTagSize_16 (o ts : Nat) (h : Gen.c08AeadTagSize o = some ts) : ts = 16 := by
  unfold Gen.c08AeadTagSize at h
  split at h
  · injection h with h; subst h; decide
  · split at h
    · injection h with h; subst h; decide
    · split at h
      · injection h with h; subst h; decide
      · simp at h

theorem toyLaws : Laws toyPrims where
  cfb_dec_enc := by intro sym k iv pt ct h; simp [toyPrims] at h ⊢; exact h.symm
  cfb_enc_len := by intro sym k iv pt ct h; simp [toyPrims] at h; subst h; rfl
  sha1_len := by
    intro x h hh; simp [toyPrims] at hh; subst hh
    simp [toySha1, be16, beBytes]; decide
  open_seal := by
    intro sym mode k n ad pt ct h
    simp only [toyPrims] at h ⊢
    split at h
    · rename_i hs
      injection h with h; subst h
      have hl := toyTag_length k n ad pt
      simp [hs, hl]
    · simp at h
  seal_tag := by
    intro sym mode k n ad pt ct h
    simp only [toyPrims] at h
    split at h
    · rename_i hs
      injection h with h; subst h
      obtain ⟨ts, hts⟩ := Option.isSome_iff_exists.mp hs
      refine ⟨ts, hts, ?_⟩
      have := aeadTagSize_16 _ _ hts
      simp [toyTag_length]; omega
    · simp at h


/-- witness parameters -/
def wPub : Bytes := [4, 0, 0, 0, 1, 22, 1, 2, 3]
def wPw : Bytes := [112, 119]
def wAeadSalted : Params := .aead 9 2 (.salted 8 (List.replicate 8 7)) (List.replicate 15 3)
def wCfbSimpleV6 : Params := .cfb 9 (.simple 8) (List.replicate 16 3)
def wMalleable : Params := .malleableCfb 9 (.iterated 8 (List.replicate 8 7) 96) (List.replicate 16 3)

set_option maxRecDepth 100000 in
/-- AEAD with salted S2K, v6 CFB with simple S2K: refused by `lock` (as by `unlock`) -/
theorem w_lock_refuses_what_unlock_refuses :
    lock toyPrims toyAlg 4 5 wPub wAeadSalted wPw (1, 2) = none ∧
    lock toyPrims toyAlg 6 5 wPub wCfbSimpleV6 wPw (1, 2) = none := by decide

/-- a usage-255 key laid out as the RFC prescribes -/
def w255Blob : Bytes := (protect toyPrims toyAlg 4 5 wPub wMalleable wPw (1, 2)).getD []
def w255Wire : Bytes := (serEncrypted 4 wMalleable w255Blob).getD []

set_option maxRecDepth 100000 in
theorem w255_in_memory_unlocks :
    unlock toyPrims toyAlg 4 5 wPub wMalleable w255Blob wPw = some (1, 2) := by decide

set_option maxRecDepth 100000 in
theorem w255_first_octet : w255Wire.head? = some 255 := by decide

set_option maxRecDepth 100000 in
theorem w255_from_wire_unlocks :
    (match parseSecret toyAlg 4 w255Wire with
     | some (.encrypted p d) => (p.variant, p.usageOctet, unlock toyPrims toyAlg 4 5 wPub p d wPw)
     | _ => (.unprotected, 0, none)) = (.malleableCfb, 255, some (1, 2)) := by decide

set_option maxRecDepth 100000 in
theorem w255_rejected_for_v6 :
    (parseSecret toyAlg 6 ((serEncrypted 6 wMalleable w255Blob).getD [])).isNone = true := by decide

/-- the 16-bit sum does not bind the material: a tampered usage-255 blob is accepted and yields
DIFFERENT key material (identity CFB: swapping the two material octets keeps the sum) -/
def w255Tampered : Bytes := [2, 1] ++ w255Blob.drop 2

set_option maxRecDepth 100000 in
theorem w255_tampered_accepted_other_material :
    w255Tampered ≠ w255Blob ∧
    unlock toyPrims toyAlg 4 5 wPub wMalleable w255Tampered wPw = some (2, 1) := by decide

/-! ## ideal primitives: the security predicates are jointly satisfiable with the laws -/

/-- self-delimiting encoding: length in unary, a zero, the bytes -/
def enc (x : Bytes) : Bytes := List.replicate x.length 1 ++ 0 :: x

theorem unary_inj (n n' : Nat) (y y' : Bytes)
    (h : List.replicate n (1 : Byte) ++ 0 :: y = List.replicate n' 1 ++ 0 :: y') : n = n' ∧ y = y' := by
  induction n generalizing n' with
  | zero =>
    cases n' with
    | zero => simpa using h
    | succ k => simp [List.replicate_succ] at h
  | succ k ih =>
    cases n' with
    | zero => simp [List.replicate_succ] at h
    | succ k' =>
      simp only [List.replicate_succ, List.cons_append, List.cons.injEq, true_and] at h
      obtain ⟨h1, h2⟩ := ih k' h
      exact ⟨by omega, h2⟩

theorem enc_append_inj (x x' r r' : Bytes) (h : enc x ++ r = enc x' ++ r') : x = x' ∧ r = r' := by
  simp only [enc, List.append_assoc, List.cons_append] at h
  obtain ⟨hl, h2⟩ := unary_inj _ _ _ _ h
  exact List.append_inj h2 hl

def idealSeal (mode : Byte) (k n ad pt : Bytes) : Option Bytes :=
  if (Gen.c08AeadTagSize mode.toNat).isSome then
    some (enc k ++ (enc n ++ (enc ad ++ (pt ++ List.replicate 16 0))))
  else none

theorem idealSeal_inj (mode : Byte) (k n ad pt k' n' ad' pt' ct : Bytes)
    (h : idealSeal mode k n ad pt = some ct) (h' : idealSeal mode k' n' ad' pt' = some ct) :
    k' = k ∧ n' = n ∧ ad' = ad ∧ pt' = pt := by
  unfold idealSeal at h h'
  split at h
  · rename_i hs
    rw [if_pos hs] at h'
    injection h with h
    injection h' with h'
    rw [← h] at h'
    obtain ⟨e1, h'⟩ := enc_append_inj _ _ _ _ h'
    obtain ⟨e2, h'⟩ := enc_append_inj _ _ _ _ h'
    obtain ⟨e3, h'⟩ := enc_append_inj _ _ _ _ h'
    exact ⟨e1, e2, e3, List.append_cancel_right h'⟩
  · simp at h

open Classical in
/-- an "ideal" instance: the ciphertext spells out key, nonce and associated data; `open` accepts
exactly the sealings.  HKDF and the S2K are injective encodings, SHA-1 is defined (and the
identity) on 20-octet inputs only — total collision-free hashes into 20 octets do not exist. -/
noncomputable def idealPrims : Prims where
  derive := fun _ pw _ => some pw
  md5 := fun pw => pw
  sha1 := fun x => if x.length = 20 then some x else none
  cfbEnc := fun _ _ _ pt => some pt
  cfbDec := fun _ _ _ ct => some ct
  hkdf := fun ikm info => enc ikm ++ info
  aseal := fun _ mode k n ad pt => idealSeal mode k n ad pt
  aopen := fun _ mode k n ad ct =>
    if h : ∃ pt, idealSeal mode k n ad pt = some ct then some (Classical.choose h) else none

theorem ideal_intCtxt : IntCtxt idealPrims := by
  intro sym mode k n ad ct pt h
  simp only [idealPrims] at h ⊢
  split at h
  · rename_i hex
    injection h with h; subst h
    exact Classical.choose_spec hex
  · simp at h

theorem ideal_laws : Laws idealPrims where
  cfb_dec_enc := by intro sym k iv pt ct h; simp [idealPrims] at h ⊢; exact h.symm
  cfb_enc_len := by intro sym k iv pt ct h; simp [idealPrims] at h; subst h; rfl
  sha1_len := by
    intro x h hh; simp only [idealPrims] at hh
    split at hh
    · injection hh with hh; subst hh
      have : Gen.unlockSha1Len = 20 := by decide
      omega
    · simp at hh
  open_seal := by
    intro sym mode k n ad pt ct h
    simp only [idealPrims] at h ⊢
    have hex : ∃ pt, idealSeal mode k n ad pt = some ct := ⟨pt, h⟩
    rw [dif_pos hex]
    have := (idealSeal_inj mode k n ad pt k n ad _ ct h (Classical.choose_spec hex)).2.2.2
    rw [this]
  seal_tag := by
    intro sym mode k n ad pt ct h
    simp only [idealPrims, idealSeal] at h
    split at h
    · rename_i hs
      injection h with h; subst h
      obtain ⟨ts, hts⟩ := Option.isSome_iff_exists.mp hs
      refine ⟨ts, hts, ?_⟩
      have := aeadTagSize_16 _ _ hts
      simp; omega
    · simp at h

theorem ideal_ctxBinding : CtxBinding idealPrims := by
  intro sym mode k n ad pt n' ad' pt' ct h h'
  obtain ⟨_, e2, e3, e4⟩ := idealSeal_inj mode k n ad pt k n' ad' pt' ct h h'
  exact ⟨e2, e3, e4⟩

theorem ideal_wrongKeyFails : WrongKeyFails idealPrims := by
  intro sym mode k k' n ad pt ct n' ad' h hne
  simp only [idealPrims] at h ⊢
  split
  · rename_i hex
    obtain ⟨pt', hpt'⟩ := hex
    exact absurd (idealSeal_inj mode k n ad pt k' n' ad' pt' ct h hpt').1 hne
  · rfl

theorem ideal_collisionFree : CollisionFree idealPrims := by
  intro a b h ha hb
  simp only [idealPrims] at ha hb
  split at ha <;> split at hb <;> simp_all

theorem ideal_hkdfInj : HkdfInj idealPrims := by
  intro a i a' i' h
  exact enc_append_inj a a' i i' h

theorem ideal_deriveInj : DeriveInj idealPrims := by
  intro s pw pw' n k h h'
  simp only [idealPrims, Option.some.injEq] at h h'
  rw [h, h']

theorem ideal_cfbLaws : CfbLaws idealPrims where
  dec_len := by intro sym k iv ct pt h; simp [idealPrims] at h; subst h; rfl
  enc_dec := by intro sym k iv ct pt h; simp [idealPrims] at h ⊢; exact h.symm
  dec_prefix := by
    intro sym k iv a b pt h
    simp only [idealPrims, Option.some.injEq] at h
    subst h
    exact ⟨a, rfl, by simp⟩

end Rpgp.SK
