use std::collections::{BTreeMap, HashSet};
use std::fs::File;
use std::hash::{Hash, Hasher};
use std::io::{BufWriter, Write};

use rand::SeedableRng;
use rand_chacha::ChaCha8Rng;

#[derive(Clone, Copy, PartialEq, Eq, Debug)]
pub enum Tier {
    Quick,
    Thorough,
}

pub struct Ctx {
    pub prop: String,
    pub tier: Tier,
    pub seed: u64,
    pub rng: ChaCha8Rng,
    out_dir: String,
    req: BufWriter<File>,
    imp: BufWriter<File>,
    orc: BufWriter<File>,
    n_cases: u64,
    distinct: HashSet<u64>,
    nontrivial: HashSet<u64>,
    stats: BTreeMap<String, u64>,
    samples: Vec<String>,
    oracle_evals: u64,
    oracle_fails: u64,
    oracle_names: BTreeMap<String, u64>,
    notes: Vec<String>,
}

fn h64(s: &str) -> u64 {
    let mut h = std::collections::hash_map::DefaultHasher::new();
    s.hash(&mut h);
    h.finish()
}

impl Ctx {
    pub fn new(prop: &str, tier: Tier, seed: u64, out_dir: &str) -> Self {
        std::fs::create_dir_all(out_dir).expect("out dir");
        let f = |n: &str| BufWriter::new(File::create(format!("{out_dir}/{n}")).expect("create"));
        Self {
            prop: prop.to_string(),
            tier,
            seed,
            rng: ChaCha8Rng::seed_from_u64(seed ^ h64(prop)),
            out_dir: out_dir.to_string(),
            req: f("requests.txt"),
            imp: f("impl.txt"),
            orc: f("oracle.txt"),
            n_cases: 0,
            distinct: HashSet::new(),
            nontrivial: HashSet::new(),
            stats: BTreeMap::new(),
            samples: Vec::new(),
            oracle_evals: 0,
            oracle_fails: 0,
            oracle_names: BTreeMap::new(),
            notes: Vec::new(),
        }
    }

    /// directory the run writes to (scratch files of a property module go here too)
    /// number of correspondence cases emitted so far
    pub fn cases(&self) -> u64 {
        self.n_cases
    }

    pub fn out_dir(&self) -> &str {
        &self.out_dir
    }

    pub fn thorough(&self) -> bool {
        self.tier == Tier::Thorough
    }

    /// pick by tier
    pub fn pick<T>(&self, quick: T, thorough: T) -> T {
        if self.thorough() { thorough } else { quick }
    }

    /// One correspondence case: the model is asked `req` and must answer `ans`.
    pub fn case(&mut self, req: String, ans: String) {
        debug_assert!(!req.contains('\n') && !ans.contains('\n'));
        let h = h64(&req);
        if self.distinct.insert(h) && !ans.starts_with("err:") {
            self.nontrivial.insert(h);
        } else if ans.starts_with("err:") {
            // distinct error classes count once each
            self.nontrivial.insert(h64(&format!("{}|{}", req.split(' ').next().unwrap_or(""), ans)));
        }
        let op = req.split(' ').next().unwrap_or("").to_string();
        *self.stats.entry(format!("op:{op}")).or_insert(0) += 1;
        let class = ans.split(':').next().unwrap_or("").to_string();
        *self.stats.entry(format!("answer:{op}:{class}")).or_insert(0) += 1;
        if self.samples.len() < 6 || (self.n_cases % 997 == 0 && self.samples.len() < 24) {
            let clip = |s: &str| if s.len() > 240 { format!("{}…", &s[..240]) } else { s.to_string() };
            self.samples.push(format!("{} => {}", clip(&req), clip(&ans)));
        }
        writeln!(self.req, "{req}").expect("write");
        writeln!(self.imp, "{ans}").expect("write");
        self.n_cases += 1;
    }

    /// One evaluation of the property's executable restatement on the real code.
    /// `site` names the call site / interface pairing, `input` is the replayable input (hex or
    /// a request line).
    pub fn oracle(&mut self, name: &str, site: &str, input: &str, ok: bool, detail: &str) {
        self.oracle_evals += 1;
        *self.oracle_names.entry(name.to_string()).or_insert(0) += 1;
        if !ok {
            self.oracle_fails += 1;
            let d = detail.replace('\n', " ");
            writeln!(self.orc, "FAIL\t{name}\t{site}\t{input}\t{d}").expect("write");
        }
    }

    pub fn stat(&mut self, key: &str) {
        *self.stats.entry(key.to_string()).or_insert(0) += 1;
    }

    pub fn stat_n(&mut self, key: &str, n: u64) {
        *self.stats.entry(key.to_string()).or_insert(0) += n;
    }

    pub fn note(&mut self, s: &str) {
        if !self.notes.iter().any(|n| n == s) {
            self.notes.push(s.to_string());
        }
    }

    pub fn finish(mut self) {
        self.req.flush().expect("flush");
        self.imp.flush().expect("flush");
        self.orc.flush().expect("flush");
        let j = serde_json::json!({
            "property": self.prop,
            "tier": if self.tier == Tier::Thorough { "thorough" } else { "quick" },
            "seed": self.seed,
            "cases": self.n_cases,
            "distinct": self.distinct.len(),
            "distinct_nontrivial": self.nontrivial.len(),
            "oracle_evaluations": self.oracle_evals,
            "oracle_failures": self.oracle_fails,
            "oracles": self.oracle_names,
            "distribution": self.stats,
            "samples": self.samples,
            "notes": self.notes,
        });
        std::fs::write(
            format!("{}/stats.json", self.out_dir),
            serde_json::to_string_pretty(&j).expect("json"),
        )
        .expect("write stats");
    }
}

pub fn hx(b: &[u8]) -> String {
    if b.is_empty() { "-".to_string() } else { hex::encode(b) }
}

pub fn hx_list(chunks: &[Vec<u8>]) -> String {
    if chunks.is_empty() {
        return "-".to_string();
    }
    chunks.iter().map(|c| hx(c)).collect::<Vec<_>>().join(",")
}

/// Run `f` catching panics; `Err(msg)` on panic.
pub fn guarded<T>(f: impl FnOnce() -> T) -> Result<T, String> {
    match std::panic::catch_unwind(std::panic::AssertUnwindSafe(f)) {
        Ok(v) => Ok(v),
        Err(e) => {
            let msg = if let Some(s) = e.downcast_ref::<&str>() {
                s.to_string()
            } else if let Some(s) = e.downcast_ref::<String>() {
                s.clone()
            } else {
                "panic".to_string()
            };
            Err(msg)
        }
    }
}
