# ---- crypto/sym.rs : SymmetricKeyAlgorithm ids and key sizes (used by the session-key plausibility
#      checks of plain_secret.rs / sym_key_encrypted_session_key.rs) ---------------------------------
SY = "src/crypto/sym.rs"
_ALGS = ["Plaintext", "IDEA", "TripleDES", "CAST5", "Blowfish", "AES128", "AES192", "AES256", "Twofish",
         "Camellia128", "Camellia192", "Camellia256", "Private10"]
for _a in _ALGS:
    item("symId" + _a, SY, r"pub enum SymmetricKeyAlgorithm \{.*?\b" + _a + r" = (\d+),",
         "SymmetricKeyAlgorithm::" + _a + " discriminant")
for _a in _ALGS[:-1]:
    item("symKeySize" + _a, SY, r"pub const fn key_size\(self\).*?SymmetricKeyAlgorithm::" + _a + r" => (\d+)",
         "SymmetricKeyAlgorithm::key_size() for " + _a)
item("symKeySizeOther", SY,
     r"pub const fn key_size\(self\).*?SymmetricKeyAlgorithm::Private10 \| SymmetricKeyAlgorithm::Other\(_\) => (\d+)",
     "SymmetricKeyAlgorithm::key_size() for Private10 / Other(_)")
# ---- types/params/plain_secret.rs : tail of PlainSecretParams::decrypt --------------------------------
PS = "src/types/params/plain_secret.rs"
item("pkV3Overhead", PS, r"decrypted_key\.len\(\),\s*key_size \+ (\d+),",
     "PlainSecretParams::decrypt V3_4: expected length = key_size + k (algorithm octet + checksum)")
item("pkV3ChecksumEndOffset", PS, r"decrypted_key\[key_size \+ 1\.\.key_size \+ (\d+)\]",
     "PlainSecretParams::decrypt V3_4: checksum slice end offset")
item("pkV6MinLen", PS, r"len >= (\d+),\s*\"unexpected decrypted_key length \(\{\}\) for V6 ESK\"",
     "PlainSecretParams::decrypt V6: minimal decrypted length")
item("pkV6ChecksumLen", PS, r"decrypted_key\[0\.\.len - (\d+)\]\.into\(\)",
     "PlainSecretParams::decrypt V6: trailing checksum length")
# ---- crypto/checksum.rs ---------------------------------------------------------------------------------
item("checksumMask", "src/crypto/checksum.rs", r"\+ new_sum\) & (0x[0-9a-fA-F]+)\) as u16",
     "SimpleChecksum::write: sum mask")
# ---- types/key_id.rs ------------------------------------------------------------------------------------
item("wildcardKeyIdByte", "src/types/key_id.rs", r"pub const WILDCARD: KeyId = KeyId\(\[(\d+)u8; \d+\]\)",
     "KeyId::WILDCARD fill byte")
item("wildcardKeyIdLen", "src/types/key_id.rs", r"pub const WILDCARD: KeyId = KeyId\(\[\d+u8; (\d+)\]\)",
     "KeyId::WILDCARD length")
# ---- packet/public_key_encrypted_session_key.rs / sym_key_encrypted_session_key.rs : version octets ---
PK = "src/packet/public_key_encrypted_session_key.rs"
item("pkeskVersionA", PK, r"match version \{\s*(\d+) => \{\s*// the key id this maps to", "PKESK parser: first supported version")
item("pkeskVersionB", PK, r"\}\s*(\d+) => \{\s*// A one-octet size of the following two fields", "PKESK parser: second supported version")
SK = "src/packet/sym_key_encrypted_session_key.rs"
item("skeskVersionA", SK, r"(\d+) => parse_v4\(", "SKESK parser: version handled by parse_v4")
item("skeskVersionB", SK, r"(\d+) => parse_v5\(", "SKESK parser: version handled by parse_v5")
item("skeskVersionC", SK, r"(\d+) => parse_v6\(", "SKESK parser: version handled by parse_v6")

derived("""
/-- `SymmetricKeyAlgorithm::from(u8).key_size()`: the table of crypto/sym.rs, unknown ids give
`symKeySizeOther` -/
def symKeySize (alg : Nat) : Nat :=
  if alg = symIdPlaintext then symKeySizePlaintext
  else if alg = symIdIDEA then symKeySizeIDEA
  else if alg = symIdTripleDES then symKeySizeTripleDES
  else if alg = symIdCAST5 then symKeySizeCAST5
  else if alg = symIdBlowfish then symKeySizeBlowfish
  else if alg = symIdAES128 then symKeySizeAES128
  else if alg = symIdAES192 then symKeySizeAES192
  else if alg = symIdAES256 then symKeySizeAES256
  else if alg = symIdTwofish then symKeySizeTwofish
  else if alg = symIdCamellia128 then symKeySizeCamellia128
  else if alg = symIdCamellia192 then symKeySizeCamellia192
  else if alg = symIdCamellia256 then symKeySizeCamellia256
  else symKeySizeOther
""")
