import RpgpModel.Utf8
/-! `Utf8CheckReader`: chunk independence over an abstract valid-up-to function. -/
namespace Rpgp

/-- the prefix laws of a "valid up to" function; they hold of `core::str::from_utf8` (a left to
right scanner over sequences of at most four octets) -/
structure VutLaws (vut : Bytes → Nat) : Prop where
  /-- scanning resumes after a valid prefix -/
  resume : ∀ p q : Bytes, vut p = p.length → vut (p ++ q) = p.length + vut q
  /-- the part before the error position is valid -/
  prefix_valid : ∀ d : Bytes, vut (d.take (vut d)) = vut d
  le : ∀ d : Bytes, vut d ≤ d.length
  /-- the remainder starts at the error position: nothing valid at its head -/
  stuck : ∀ d : Bytes, vut (d.drop (vut d)) = 0
  /-- an error followed by four or more octets is definitive (no sequence is longer than four) -/
  definitive : ∀ d e : Bytes, 4 ≤ d.length - vut d → vut (d ++ e) = vut d

theorem utf8CheckChunks_spec (vut : Bytes → Nat) (L : VutLaws vut) :
    ∀ (cs : List Bytes) (good rest : Bytes), vut good = good.length → vut rest = 0 →
    (utf8CheckChunks vut rest cs = true ↔
      vut (good ++ rest ++ cs.flatten) = (good ++ rest ++ cs.flatten).length) := by
  intro cs
  induction cs with
  | nil =>
    intro good rest hg hr
    simp only [utf8CheckChunks, List.flatten_nil, List.append_nil]
    rw [L.resume good rest hg, hr]
    simp only [List.length_append, List.isEmpty_iff]
    constructor
    · intro h; simp [h]
    · intro h; have : rest.length = 0 := by omega
      simpa using this
  | cons c cs ih =>
    intro good rest hg hr
    simp only [utf8CheckChunks]
    by_cases hc : c.isEmpty
    · have : c = [] := by simpa using hc
      subst this
      simpa using ih good rest hg hr
    · simp only [hc, Bool.false_eq_true, if_false, checkUtf8]
      have hle := L.le (rest ++ c)
      by_cases hsmall : ((rest ++ c).drop (vut (rest ++ c))).length ≤ 3
      · simp only [hsmall, if_true]
        -- new valid part and new unresolved tail
        have hg' : vut (good ++ (rest ++ c).take (vut (rest ++ c))) =
            (good ++ (rest ++ c).take (vut (rest ++ c))).length := by
          rw [L.resume _ _ hg, L.prefix_valid]
          simp only [List.length_append, List.length_take]
          have := Nat.min_eq_left hle
          simp only [List.length_append] at this
          omega
        have := ih (good ++ (rest ++ c).take (vut (rest ++ c))) ((rest ++ c).drop (vut (rest ++ c))) hg' (L.stuck _)
        rw [this]
        have e : good ++ (rest ++ c).take (vut (rest ++ c)) ++ (rest ++ c).drop (vut (rest ++ c)) ++ cs.flatten
            = good ++ rest ++ (c :: cs).flatten := by
          rw [List.append_assoc good, List.take_append_drop]; simp [List.append_assoc]
        rw [e]
      · simp only [hsmall, if_false]
        have h4 : 4 ≤ (rest ++ c).length - vut (rest ++ c) := by
          simp only [List.length_drop] at hsmall; omega
        constructor
        · intro h; cases h
        · intro h
          exfalso
          have e : good ++ rest ++ (c :: cs).flatten = good ++ ((rest ++ c) ++ cs.flatten) := by
            simp [List.append_assoc]
          rw [e, L.resume _ _ hg, L.definitive _ _ h4] at h
          simp only [List.length_append] at h h4 hle
          omega

/-- **`Utf8CheckReader` accepts a stream, however it is delivered, iff the whole stream is valid** -/
theorem utf8Check_chunk_independent (vut : Bytes → Nat) (L : VutLaws vut) (hnil : vut [] = 0)
    (cs : List Bytes) :
    utf8CheckChunks vut [] cs = true ↔ vut cs.flatten = cs.flatten.length := by
  have := utf8CheckChunks_spec vut L cs [] [] (by simp [hnil]) hnil
  simpa using this

end Rpgp
