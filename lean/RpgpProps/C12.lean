import RpgpProofs.S2k
import RpgpProofs.SymEnc
import RpgpProofs.Kdf
/-!
# C12 — symmetric and KDF constructions are the RFC's (interoperable ciphertext)

Models: `RpgpModel/S2k.lean`, `RpgpModel/SymEnc.lean`, `RpgpModel/Kdf.lean`, plans in
`RpgpModel/Plan.lean`.  The primitives (hash, HKDF, CFB, AEAD, AES key wrap, Argon2) are the
parameter `P : Prims`; where a statement needs a law of a primitive (output length, online-ness of
CFB, HKDF prefix consistency) the law is an explicit hypothesis.

Three kinds of statements:

* `…_rfc` / `…_sites_agree` — the literals of the source (re-extracted on every run into
  `RpgpModel/Gen/Constants.lean`) are the values RFC 9580 fixes, and the several copies agree;
* structure theorems over **all** inputs: what exactly is hashed / sealed / wrapped, with which
  nonce and associated data, in which order, and that readers accept exactly what writers lay out;
* `…_plan_sound` — the plan the driver prints (and the harness evaluates with RustCrypto against
  rpgp's bytes) denotes the modelled function under *every* interpretation of the primitives.
-/
namespace Rpgp.C12
open Rpgp Rpgp.Sym

/-! ## the constants are the RFC's and all use sites agree -/

/-- RFC 9580 §3.7.1: S2K type octets (writer = reader), specifier lengths, salt sizes, count
decoding parameters, usage octets 253 / 254 -/
theorem s2k_constants_rfc :
    Gen.s2kExpbias = 6 ∧ Gen.s2kCountBase = 16 ∧ Gen.s2kCountMask = 15 ∧ Gen.s2kCountShift = 4 ∧
    Gen.s2kIdSimple = 0 ∧ Gen.s2kIdSalted = 1 ∧ Gen.s2kIdIterated = 3 ∧ Gen.s2kIdArgon2 = 4 ∧
    Gen.s2kRdSimple = Gen.s2kIdSimple ∧ Gen.s2kRdIterated = Gen.s2kIdIterated ∧ Gen.s2kRdArgon2 = Gen.s2kIdArgon2 ∧
    Gen.s2kSaltLen = 8 ∧ Gen.s2kArgonSaltLen = 16 ∧
    Gen.s2kLenSimple = 2 ∧ Gen.s2kLenSalted = 10 ∧ Gen.s2kLenIterated = 11 ∧ Gen.s2kLenArgon2 = 20 ∧
    Gen.s2kUsageAead = 253 ∧ Gen.s2kUsageCfb = 254 ∧ Gen.argon2MaxMEnc = 31 := by decide

/-- RFC 9580 §9.6 / §5.13.2: AEAD ids, nonce and tag sizes, chunk-size exponent, HKDF info
version, eight index octets in the nonce; every copy in the source agrees -/
theorem aead_constants_rfc :
    Gen.aeadIdEax = 1 ∧ Gen.aeadIdOcb = 2 ∧ Gen.aeadIdGcm = 3 ∧
    Gen.aeadNonceEax = 16 ∧ Gen.aeadNonceOcb = 15 ∧ Gen.aeadNonceGcm = 12 ∧
    Gen.aeadIvEax = Gen.aeadNonceEax ∧ Gen.aeadIvOcb = Gen.aeadNonceOcb ∧ Gen.aeadIvGcm = Gen.aeadNonceGcm ∧
    Gen.aeadTagEax = 16 ∧ Gen.aeadTagOcb = 16 ∧ Gen.aeadTagGcm = 16 ∧ Gen.aeadDecTagSize = 16 ∧
    Gen.chunkSizeShiftBias = 6 ∧ Gen.chunkSizeMin = 0 ∧ Gen.chunkSizeMax = 16 ∧
    Gen.seipd2InfoVersion = 2 ∧ Gen.tagSeipd = 18 ∧ Gen.tagEncodeBits = 192 ∧
    Gen.seipd2NonceCounterLen = 8 ∧ Gen.aeadEncCounterLen = 8 ∧ Gen.aeadDecCounterLen = 8 := by decide

/-- the 42 octets of HKDF output requested by the code cover key and nonce prefix of every
supported cipher / mode (largest: 32 + 16 − 8 = 40) -/
theorem okm_lengths_suffice :
    Gen.symKeyAES256 + Gen.aeadNonceEax - Gen.seipd2NonceCounterLen ≤ Gen.seipd2OkmLen ∧
    Gen.symKeyAES256 ≤ Gen.skesk6EncOkmLen ∧ Gen.skesk6DecOkmLen = Gen.skesk6EncOkmLen ∧
    Gen.symKeyAES256 ≤ Gen.secAeadOkmLen := by decide

/-- RFC 9580 §9.3: cipher ids, block and key sizes as used by `block_size` / `key_size` -/
theorem cipher_table_rfc :
    (Gen.symBlockSize 1, Gen.c12SymKeySize 1) = (8, 16) ∧ (Gen.symBlockSize 2, Gen.c12SymKeySize 2) = (8, 24) ∧
    (Gen.symBlockSize 3, Gen.c12SymKeySize 3) = (8, 16) ∧ (Gen.symBlockSize 4, Gen.c12SymKeySize 4) = (8, 16) ∧
    (Gen.symBlockSize 7, Gen.c12SymKeySize 7) = (16, 16) ∧ (Gen.symBlockSize 8, Gen.c12SymKeySize 8) = (16, 24) ∧
    (Gen.symBlockSize 9, Gen.c12SymKeySize 9) = (16, 32) ∧ (Gen.symBlockSize 10, Gen.c12SymKeySize 10) = (16, 32) ∧
    (Gen.symBlockSize 11, Gen.c12SymKeySize 11) = (16, 16) ∧ (Gen.symBlockSize 12, Gen.c12SymKeySize 12) = (16, 24) ∧
    (Gen.symBlockSize 13, Gen.c12SymKeySize 13) = (16, 32) ∧
    (Gen.symBlockSize 0, Gen.c12SymKeySize 0) = (0, 0) ∧ (Gen.symBlockSize 5, Gen.c12SymKeySize 6) = (0, 0) := by decide

/-- RFC 9580 §5.13.1 / §5.14: MDC header `D3 14`, 22 octets in all, prefix of block size + 2 with
the last two octets repeated; one-shot writer, streaming writer and reader agree -/
theorem mdc_constants_rfc :
    Gen.epMdcTag = 0xD3 ∧ Gen.epMdcLenOctet = 0x14 ∧ Gen.epMdcLen = 22 ∧ Gen.epPrefixExtra = 2 ∧
    Gen.epRepeatBack = 2 ∧ Gen.epOverheadQuick = 2 ∧ Gen.epOverheadMdc = 22 ∧
    Gen.seMdcTag = Gen.epMdcTag ∧ Gen.seMdcLenOctet = Gen.epMdcLenOctet ∧ Gen.seMdcLen = Gen.epMdcLen ∧
    Gen.sePrefixExtra = Gen.epPrefixExtra ∧
    Gen.sdMdcTag = Gen.epMdcTag ∧ Gen.sdMdcLenOctet = Gen.epMdcLenOctet ∧ Gen.sdMdcLen = Gen.epMdcLen ∧
    Gen.sdPrefixExtra = Gen.epPrefixExtra := by decide

/-- RFC 9580 §5.3: SKESK version octets, HKDF info `C3 06 …`, count octet = 3 + |S2K| + |IV| -/
theorem skesk_constants_rfc :
    Gen.skesk4WrVersion = 4 ∧ Gen.skesk6WrVersionOctet = 6 ∧ Gen.skesk6EncInfoVersion = 6 ∧
    Gen.skesk6DecInfoVersion = Gen.skesk6EncInfoVersion ∧ Gen.skesk6CountFixed = 3 ∧ Gen.tagSkesk = 3 ∧
    tagEncode Gen.tagSkesk = 0xC3 ∧ tagEncode Gen.tagSeipd = 0xD2 := by decide

/-- RFC 9580 §3.7.2.1: secret-key AEAD info / AD start with `C0 | tag` (tags 5, 7) -/
theorem seckey_constants_rfc :
    Gen.secAeadTypeBits = 0xC0 ∧ Gen.secAeadTypeBits = Gen.tagEncodeBits ∧ Gen.tagSecretKey = 5 ∧
    Gen.tagSecretSubkey = 7 ∧ Gen.secAeadOkmLen = 32 := by decide

/-- RFC 9580 §11.5: ECDH KDF parameters `03 01 hash sym`, public-key algorithm 18, counter
`00 00 00 01`, "Anonymous Sender    ", padding block 8 at all three sites, key-wrap IV 8 -/
theorem ecdh_constants_rfc :
    Gen.ecdhKdfParamsLen = 3 ∧ Gen.ecdhKdfParamsReserved = 1 ∧ Gen.ecdhPkAlgo = 18 ∧
    Gen.ecdhKdfCounter = [0, 0, 0, 1] ∧
    Gen.anonSender.map Nat.toUInt8 =
      [65, 110, 111, 110, 121, 109, 111, 117, 115, 32, 83, 101, 110, 100, 101, 114, 32, 32, 32, 32] ∧
    Gen.ecdhPadBlock = 8 ∧ Gen.ecdhPadAdd = Gen.ecdhPadBlock ∧ Gen.ecdhUnpadBlock = Gen.ecdhPadBlock ∧
    Gen.aesKwIvLen = 8 ∧ Gen.ecdhMaxPlain + 8 + Gen.aesKwIvLen ≤ 255 := by decide

/-- RFC 9580 §5.1.6 / §5.1.7: HKDF-SHA256 → 16 octets with info "OpenPGP X25519";
HKDF-SHA512 → 32 octets with info "OpenPGP X448" -/
theorem x25519_x448_constants_rfc :
    Gen.x25519OkmLen = 16 ∧ Gen.x25519UsesSha256 = 256 ∧ Gen.x25519KeyLen = 32 ∧
    X25519.info = [79, 112, 101, 110, 80, 71, 80, 32, 88, 50, 53, 53, 49, 57] ∧
    Gen.x448OkmLen = 32 ∧ Gen.x448UsesSha512 = 512 ∧
    X448.info = [79, 112, 101, 110, 80, 71, 80, 32, 88, 52, 52, 56] :=
  ⟨by decide, by decide, by decide, x25519_info_bytes, by decide, by decide, x448_info_bytes⟩

/-! ## S2K -/

/-- `decode_count` is RFC 9580 §3.7.1.3 `(16 + (c & 15)) << ((c >> 4) + 6)`, for every `c` -/
theorem decode_count_rfc (c : Nat) : S2k.decodeCount c = (16 + c % 16) * 2 ^ (c / 16 + 6) :=
  decodeCount_eq c

/-- … and over the 256 codes it ranges from 1024 to 65 011 712 (no `u32` overflow) -/
theorem decode_count_range (c : Nat) (hc : c < 256) :
    1024 ≤ S2k.decodeCount c ∧ S2k.decodeCount c ≤ 65011712 ∧ S2k.decodeCount c < 4294967296 := by
  rw [decodeCount_eq]
  have h1 : c % 16 < 16 := Nat.mod_lt _ (by decide)
  have h2 : c / 16 < 16 := by omega
  have lo : 2 ^ 6 ≤ 2 ^ (c / 16 + 6) := Nat.pow_le_pow_right (by decide) (by omega)
  have hi : 2 ^ (c / 16 + 6) ≤ 2 ^ 21 := Nat.pow_le_pow_right (by decide) (by omega)
  have a := Nat.mul_le_mul (show 16 ≤ 16 + c % 16 by omega) lo
  have b := Nat.mul_le_mul (show 16 + c % 16 ≤ 31 by omega) hi
  have e1 : 16 * 2 ^ 6 = 1024 := by decide
  have e2 : 31 * 2 ^ 21 = 65011712 := by decide
  omega

/-- **iterated stream law**: for every salt, password and coded count the loop feeds the hasher
exactly `n = max (decoded count) |salt ‖ pw|` octets, octet `i` being `(salt ‖ pw)[i mod |salt ‖ pw|]` —
i.e. `take n (cycle (salt ‖ pw))`, at least one full copy -/
theorem iterated_stream (salt pw : Bytes) (c : Nat) (hne : salt ++ pw ≠ []) :
    (S2k.iterStream salt pw c).length = max (S2k.decodeCount c) (salt ++ pw).length ∧
    ∀ i, i < max (S2k.decodeCount c) (salt ++ pw).length →
      (S2k.iterStream salt pw c)[i]? = (salt ++ pw)[i % (salt ++ pw).length]? := by
  have hpos : 0 < (salt ++ pw).length := List.length_pos_iff.mpr hne
  unfold S2k.iterStream
  rw [show salt.length + pw.length = (salt ++ pw).length from List.length_append.symm, iterLoop_eq]
  have hn : 0 < max (S2k.decodeCount c) (salt ++ pw).length := by
    have := Nat.le_max_right (S2k.decodeCount c) (salt ++ pw).length; omega
  generalize max (S2k.decodeCount c) (salt ++ pw).length = n at *
  have hdm := Nat.div_add_mod (n - 1) (salt ++ pw).length
  have hml := Nat.mod_lt (n - 1) hpos
  rw [Nat.mul_comm] at hdm
  generalize hq : (n - 1) / (salt ++ pw).length = q at *
  generalize hm : q * (salt ++ pw).length = m at *
  have hr : n - m ≤ (salt ++ pw).length := by omega
  constructor
  · rw [List.length_append, repBytes_length, List.length_take, hm]; omega
  · intro i hi
    exact repBytes_take_getElem? (salt ++ pw) q (n - m) i hr (by rw [hm]; omega)

/-- the compressed form the driver prints (`q` whole copies + a prefix of one more) expands to
the loop's byte stream -/
theorem iterated_plan_expands (P : Prims) (salt pw : Bytes) (c : Nat) :
    (S2k.iterPlan salt pw c).eval P = S2k.iterStream salt pw c :=
  iterPlan_eval P salt pw c

/-- `rounds = ⌈key_size / digest_size⌉`: enough digests, and none too many -/
theorem rounds_cover (ks d : Nat) (hd : 0 < d) :
    ks ≤ S2k.rounds ks d * d ∧ (0 < ks → (S2k.rounds ks d - 1) * d < ks) :=
  Rpgp.Sym.rounds_cover ks d hd

/-- the derived key is the first `key_size` octets of `H(body) ‖ H(00 ‖ body) ‖ H(00 00 ‖ body) ‖ …`
(round `r` is preloaded with `r` zero octets), for every key size, incl. multi-round derivation -/
theorem derive_is_prefix_of_preloaded_digests (P : Prims) (alg d : Nat) (body : Bytes) (ks : Nat) (hd : 0 < d)
    (hlen : ∀ x, (P.hash alg x).length = d) :
    S2k.deriveHashed P alg d body ks =
      ((List.range (S2k.rounds ks d)).flatMap fun r => P.hash alg (List.replicate r 0 ++ body)).take ks ∧
    (S2k.deriveHashed P alg d body ks).length = ks := by
  have h := deriveHashed_eq_take P alg d body ks hd hlen
  refine ⟨h, ?_⟩
  rw [h, List.length_take, flatMap_length_const _ d _ (fun r => hlen _)]
  exact Nat.min_eq_left (Rpgp.Sym.rounds_cover ks d hd).1

/-- whatever Argon2 parameters `derive_key` lets through (its own checks + the `argon2` crate's)
are in RFC 9580 §3.7.1.4's range: `3 + ⌈log₂ p⌉ ≤ encoded_m ≤ 31`, `t, p ≥ 1`; memory is `2^encoded_m` KiB -/
theorem argon2_admission_rfc (P : Prims) (salt pw : Bytes) (t p m ks : Nat) (k : Bytes)
    (h : S2k.derive P (.argon2 salt t p m) pw ks = some k) :
    3 + S2k.ceilLog2 p ≤ m ∧ m ≤ 31 ∧ 1 ≤ t ∧ 1 ≤ p ∧ k = P.argon2 pw salt t p (2 ^ m) ks := by
  simp only [S2k.derive] at h
  split at h
  · rename_i hc
    injection h with hk
    simp only [S2k.argon2Admitted, S2k.argon2CrateAccepts, Bool.and_eq_true, decide_eq_true_eq] at hc
    obtain ⟨⟨⟨⟨⟨_, hp⟩, _⟩, hm⟩, _⟩, ⟨⟨⟨⟨_, h8p⟩, ht⟩, hp1⟩, _⟩⟩ := hc
    have e1 : Gen.argon2MaxP = 32 := rfl
    have e2 : Gen.argon2MaxMEnc = 31 := rfl
    rw [e1] at hp
    rw [e2] at hm
    have key : ∀ p' : Fin 33, ∀ m' : Fin 32, 1 ≤ p'.val → 8 * p'.val ≤ 2 ^ m'.val → 3 + S2k.ceilLog2 p'.val ≤ m'.val := by
      decide
    exact ⟨key ⟨p, by omega⟩ ⟨m, by omega⟩ hp1 h8p, hm, ht, hp1, hk.symm⟩
  · cases h

/-- S2K specifier octets have the RFC's lengths (2 / 10 / 11 / 20) for 8- and 16-octet salts -/
theorem spec_lengths (h c t p m : Nat) (salt8 salt16 : Bytes) (h8 : salt8.length = 8) (h16 : salt16.length = 16) :
    (S2k.specBytes (.simple h)).length = Gen.s2kLenSimple ∧
    (S2k.specBytes (.salted h salt8)).length = Gen.s2kLenSalted ∧
    (S2k.specBytes (.iterated h salt8 c)).length = Gen.s2kLenIterated ∧
    (S2k.specBytes (.argon2 salt16 t p m)).length = Gen.s2kLenArgon2 := by
  simp [S2k.specBytes, h8, h16, Gen.s2kLenSimple, Gen.s2kLenSalted, Gen.s2kLenIterated, Gen.s2kLenArgon2]

theorem s2k_plan_sound (P : Prims) (s : S2k.Spec) (pw : Bytes) (ks : Nat) :
    (S2k.plan s pw ks).map (PExpr.eval P) = S2k.derive P s pw ks :=
  plan_eval P s pw ks

/-! ## SEIPDv2 -/

/-- `ChunkSize::as_byte_size` is `2^(c+6)` -/
theorem chunk_bytes (cs : Nat) : Seipd2.chunkBytes cs = 2 ^ (cs + 6) := by
  have : Gen.chunkSizeShiftBias = 6 := rfl
  simp [Seipd2.chunkBytes, this, Nat.shiftLeft_eq]

/-- **nonce_distinct**: within a message two different chunk indices below 2⁶⁴ never give the same
nonce (the final tag uses index = number of chunks, so it is covered too) -/
theorem nonce_distinct (nonce0 : Bytes) (i j : Nat) (hi : i < 18446744073709551616)
    (hj : j < 18446744073709551616) (hne : i ≠ j) : Seipd2.nonceAt nonce0 i ≠ Seipd2.nonceAt nonce0 j :=
  fun h => hne (nonceAt_injective nonce0 i j hi hj h)

/-- the nonce of chunk `i` is `iv-prefix ‖ be64 i`, and has the mode's nonce length -/
theorem nonce_layout (iv : Bytes) (i : Nat) :
    Seipd2.nonceAt (iv ++ List.replicate Gen.seipd2NonceCounterLen 0) i = iv ++ be64 i ∧
    (iv ++ be64 i).length = iv.length + 8 := by
  refine ⟨nonceAt_split iv i, ?_⟩
  simp [be64, beBytes_length]

/-- **chunk_plan_partition**: the chunk ranges of a plaintext of `n` octets are exactly
`[i·c, i·c + min c (n − i·c))` for `i < ⌈n/c⌉` — contiguous, disjoint, covering `[0, n)`, all of
size `c` but possibly the last, none empty — and concatenating the slices gives the plaintext back -/
theorem chunk_plan_partition (c : Nat) (hc : 0 < c) (pt : Bytes) :
    (Seipd2.ranges c 0 pt.length).length = (pt.length + c - 1) / c ∧
    (∀ i r, (Seipd2.ranges c 0 pt.length)[i]? = some r →
      r = (i * c, min c (pt.length - i * c)) ∧ i * c < pt.length) ∧
    ((Seipd2.ranges c 0 pt.length).flatMap fun r => (pt.drop r.1).take r.2) = pt := by
  refine ⟨ranges_length c hc 0 pt.length, ?_, ?_⟩
  · intro i r h
    have := ranges_getElem? c 0 pt.length i r h
    simpa using this
  · have := ranges_flatten c hc pt 0 pt.length (by simp)
    simpa using this

/-- the encryptor seals exactly those ranges, chunk `i` under nonce `i` with `ad = info`, followed
by the final tag: the seal of the empty string under nonce `#chunks` with `ad = info ‖ be64 |pt|` -/
theorem encrypt_seals_the_partition (P : Prims) (sym aead : Nat) (key nonce0 inf pt : Bytes) (c : Nat) :
    Seipd2.chunks P sym aead key nonce0 inf c pt.length 0 pt =
      ((Seipd2.ranges c 0 pt.length).zipIdx 0).flatMap
          (fun rj => P.aead sym aead key (Seipd2.nonceAt nonce0 rj.2) inf ((pt.drop rj.1.1).take rj.1.2)) ++
        P.aead sym aead key (Seipd2.nonceAt nonce0 (Seipd2.ranges c 0 pt.length).length) (inf ++ be64 pt.length) [] := by
  have := chunks_eq_ranges P sym aead key nonce0 inf c pt.length pt 0 pt 0 rfl
  rw [Nat.zero_add] at this
  exact this

/-- **final_ad_len**: the associated data of the final tag is the 5 info octets + 8 length octets -/
theorem final_ad_len (sym aead cs total : Nat) : (Seipd2.info sym aead cs ++ be64 total).length = 13 :=
  final_ad_length sym aead cs total

/-- **hkdf_split**: for every supported cipher / mode the 42-octet HKDF output is cut into a key of
the cipher's key size and a nonce of the mode's size whose last 8 octets are the (zero) index; key
and nonce prefix together are the first `key size + nonce size − 8` octets of the output -/
theorem hkdf_split (sym aead : Nat) (okm : Bytes) (h42 : okm.length = 42)
    (hs : sym = 7 ∨ sym = 8 ∨ sym = 9) (ha : aead = 1 ∨ aead = 2 ∨ aead = 3) :
    (Seipd2.split sym aead okm).1.length = Gen.c12SymKeySize sym ∧
    (Seipd2.split sym aead okm).2.length = Gen.aeadNonceSize aead ∧
    (Seipd2.split sym aead okm).1 ++ (Seipd2.split sym aead okm).2.take (Gen.aeadNonceSize aead - 8) =
      okm.take (Gen.c12SymKeySize sym + Gen.aeadNonceSize aead - 8) :=
  split_supported sym aead okm h42 hs ha

/-- hence, HKDF being prefix-consistent in its output length (RFC 5869: `OKM = first L octets of T`),
key ‖ nonce prefix is the HKDF output of length `key size + nonce size − 8` RFC 9580 §5.13.2 asks for -/
theorem hkdf_split_rfc (P : Prims) (sym aead cs : Nat) (salt ikm : Bytes)
    (hs : sym = 7 ∨ sym = 8 ∨ sym = 9) (ha : aead = 1 ∨ aead = 2 ∨ aead = 3)
    (hlen : ∀ h s i f l, (P.hkdf h s i f l).length = l)
    (hpre : ∀ h s i f l l', l' ≤ l → (P.hkdf h s i f l).take l' = P.hkdf h s i f l') :
    let o := Seipd2.okm P sym aead cs salt ikm
    (Seipd2.split sym aead o).1 ++ (Seipd2.split sym aead o).2.take (Gen.aeadNonceSize aead - 8) =
      P.hkdf sha256Id salt ikm (Seipd2.info sym aead cs) (Gen.c12SymKeySize sym + Gen.aeadNonceSize aead - 8) := by
  intro o
  have h42 : o.length = 42 := hlen _ _ _ _ _
  rw [(split_supported sym aead o h42 hs ha).2.2]
  apply hpre
  rcases hs with rfl | rfl | rfl <;> rcases ha with rfl | rfl | rfl <;> decide

/-- ciphertext length = plaintext + 16 per chunk + 16 for the final tag (AEAD tags being 16 octets) -/
theorem seipd2_ciphertext_length (P : Prims) (sym aead cs : Nat) (salt key pt : Bytes)
    (hseal : ∀ k n ad d, (P.aead sym aead k n ad d).length = d.length + 16) :
    (Seipd2.encrypt P sym aead cs salt key pt).length =
      pt.length + 16 * ((pt.length + 2 ^ (cs + 6) - 1) / 2 ^ (cs + 6) + 1) := by
  unfold Seipd2.encrypt
  rw [← chunk_bytes cs]
  exact chunks_length P sym aead _ _ _ _ _ (by rw [chunk_bytes]; exact Nat.pow_pos (by decide)) hseal 0 pt

theorem seipd2_plan_sound (P : Prims) (sym aead cs : Nat) (salt key : Bytes) (pt : PtRef) :
    (Seipd2.plan sym aead cs salt key pt).eval P = Seipd2.encrypt P sym aead cs salt key pt.val :=
  Seipd2.plan_eval P sym aead cs salt key pt

/-! ## SEIPDv1 -/

/-- the CFB plaintext is `prefix ‖ prefix[bs−2..] ‖ pt ‖ D3 14 ‖ SHA1(all preceding)[..20]`, encrypted
under an all-zero IV -/
theorem seipd1_layout (P : Prims) (alg : Nat) (key pre pt : Bytes) (hpre : 2 ≤ pre.length) :
    Seipd1.encrypt P alg key pre pt =
      P.cfbEnc alg key (List.replicate (Gen.symBlockSize alg) 0)
        (pre ++ [pre.getD (pre.length - 2) 0, pre.getD (pre.length - 1) 0] ++ pt ++ [0xD3, 0x14] ++
          (P.hash sha1Id (pre ++ [pre.getD (pre.length - 2) 0, pre.getD (pre.length - 1) 0] ++ pt ++ [0xD3, 0x14])).take 20) := by
  have e1 : Gen.epRepeatBack = 2 := rfl
  have e2 : Gen.epMdcTag.toUInt8 = 0xD3 := by decide
  have e3 : Gen.epMdcLenOctet.toUInt8 = 0x14 := by decide
  unfold Seipd1.encrypt Seipd1.layout Seipd1.hashed Seipd1.prefixed
  rw [e1, e2, e3]
  have : pre.length - 2 + 1 = pre.length - 1 := by omega
  rw [this]

/-- length = plaintext + block size + 2 + 22 (`encrypted_protected_len`) -/
theorem seipd1_length (P : Prims) (pre pt : Bytes) (hh : ∀ x, 20 ≤ (P.hash sha1Id x).length) :
    (Seipd1.layout P pre pt).length = pre.length + Gen.epOverheadQuick + Gen.epOverheadMdc + pt.length := by
  rw [Seipd1.layout_length P pre pt hh]
  have e1 : Gen.epOverheadQuick = 2 := rfl
  have e2 : Gen.epOverheadMdc = 22 := rfl
  omega

/-- the streaming writer (any buffer size) and the one-shot writer emit the same bytes, CFB being
an online cipher -/
theorem seipd1_stream_eq_oneshot (P : Prims) (alg : Nat) (key pre pt : Bytes) (bufSize : Nat) (hb : 0 < bufSize)
    (hE : Online (P.cfbEnc alg key (List.replicate (Gen.symBlockSize alg) 0))) :
    Seipd1.stream P alg key pre pt bufSize = Seipd1.encrypt P alg key pre pt :=
  Seipd1.stream_eq_encrypt P alg key pre pt bufSize hb hE (by decide) (by decide)

/-- the reader accepts what the writers lay out and returns the plaintext … -/
theorem seipd1_reader_accepts_writer (P : Prims) (pre pt : Bytes) (hh : ∀ x, 20 ≤ (P.hash sha1Id x).length) :
    Seipd1.open P pre.length (Seipd1.layout P pre pt) = .ok pt :=
  Seipd1.open_layout P pre pt hh (by decide) (by decide)

/-- … and nothing else: an accepted stream is `A ‖ pt ‖ D3 14 ‖ SHA1(A ‖ pt ‖ D3 14)[..20]` with
`|A| = bs + 2` (the two repeat octets are deliberately not compared — no quick check) -/
theorem seipd1_reader_accepts_only_layout (P : Prims) (bs : Nat) (d pt : Bytes)
    (hh : ∀ x, 20 ≤ (P.hash sha1Id x).length) (hok : Seipd1.open P bs d = .ok pt) :
    ∃ A, A.length = bs + 2 ∧
      d = A ++ pt ++ [0xD3, 0x14] ++ (P.hash sha1Id (A ++ pt ++ [0xD3, 0x14])).take 20 := by
  have e2 : Gen.sdMdcTag.toUInt8 = 0xD3 := by decide
  have e3 : Gen.sdMdcLenOctet.toUInt8 = 0x14 := by decide
  have := Seipd1.open_sound P bs d pt hh hok
  rw [e2, e3] at this
  exact this

theorem seipd1_plan_sound (P : Prims) (alg : Nat) (key pre : Bytes) (pt : PtRef) :
    (Seipd1.plan alg key pre pt).eval P = Seipd1.encrypt P alg key pre pt.val :=
  Seipd1.plan_eval P alg key pre pt

/-! ## SKESK v4 / v6, secret-key protection -/

/-- SKESK v6 body: `06 count sym aead |s2k| s2k iv esk`, the count octet being the number of octets
of the five fields that follow it, the AEAD being run with `ad = info = C3 06 sym aead` -/
theorem skesk6_layout (P : Prims) (sym aead : Nat) (s : S2k.Spec) (pw sk iv body : Bytes)
    (h : Skesk.body6 P sym aead s pw sk iv = some body) :
    ∃ ikm, S2k.derive P s pw (Gen.c12SymKeySize sym) = some ikm ∧
      body = [6, ([sym.toUInt8, aead.toUInt8, (S2k.specBytes s).length.toUInt8] ++ S2k.specBytes s ++ iv).length.toUInt8,
                sym.toUInt8, aead.toUInt8, (S2k.specBytes s).length.toUInt8] ++ S2k.specBytes s ++ iv ++
        P.aead sym aead (Skesk.kek6 P sym aead ikm) iv [0xC3, 6, sym.toUInt8, aead.toUInt8] sk := by
  unfold Skesk.body6 at h
  cases hE : Skesk.encryptAllowed s
  · simp [hE] at h
  · cases hd : S2k.derive P s pw (Gen.c12SymKeySize sym) with
    | none => simp [hE, hd, bind, Option.bind] at h
    | some ikm =>
      simp only [hE, hd, bind, Option.bind, pure, Bool.not_true, Bool.false_eq_true, if_false] at h
      injection h with hb
      refine ⟨ikm, rfl, ?_⟩
      rw [← hb]
      have e1 : Gen.skesk6WrVersionOctet.toUInt8 = 6 := by decide
      have e2 : Gen.skesk6CountFixed = 3 := rfl
      have e3 : Skesk.info6 sym aead = [0xC3, 6, sym.toUInt8, aead.toUInt8] := by
        simp only [Skesk.info6]
        have : tagEncode Gen.tagSkesk = 0xC3 := by decide
        have : Gen.skesk6EncInfoVersion.toUInt8 = 6 := by decide
        simp [*]
      rw [e1, e2, e3]
      simp only [List.length_append, List.length_cons, List.length_nil]

/-- under the HKDF prefix law the AEAD key of SKESK v6 is HKDF output of exactly the cipher's key
size (RFC 9580 §5.3.2), although the code expands 42 octets -/
theorem skesk6_kek_rfc (P : Prims) (sym aead : Nat) (ikm : Bytes)
    (hpre : ∀ h s i f l l', l' ≤ l → (P.hkdf h s i f l).take l' = P.hkdf h s i f l')
    (hs : Gen.c12SymKeySize sym ≤ 42) :
    Skesk.kek6 P sym aead ikm = P.hkdf sha256Id [] ikm (Skesk.info6 sym aead) (Gen.c12SymKeySize sym) := by
  unfold Skesk.kek6
  exact hpre _ _ _ _ _ _ hs

/-- the SKESK v4 reader accepts the decrypted `cipher ‖ key` exactly when the cipher is known and
the key has its size — in particular everything `encrypt_v4` wraps for a session key of the right size -/
theorem skesk4_reader_accepts (a : Byte) (key : Bytes) :
    (Skesk.open4 (a :: key) = some (a.toNat, key) ↔
      (Gen.c12SymKeySize a.toNat ≠ 0 ∧ Gen.c12SymKeySize a.toNat = key.length)) ∧
    (∀ r, Skesk.open4 (a :: key) = some r → r = (a.toNat, key)) := by
  unfold Skesk.open4
  by_cases h0 : Gen.c12SymKeySize a.toNat = 0
  · simp [h0]
  · by_cases h1 : Gen.c12SymKeySize a.toNat = key.length
    · simp [h0, h1]
    · simp [h0, h1]

theorem skesk4_plan_sound (P : Prims) (sym : Nat) (s : S2k.Spec) (pw sk : Bytes) :
    (Skesk.plan4 true sym s pw sk).map (PExpr.eval P) = Skesk.body4 P sym s pw sk :=
  Skesk.plan4_eval P sym s pw sk

theorem skesk6_plan_sound (P : Prims) (sym aead : Nat) (s : S2k.Spec) (pw sk iv : Bytes) :
    (Skesk.plan6 true sym aead s pw sk iv).map (PExpr.eval P) = Skesk.body6 P sym aead s pw sk iv :=
  Skesk.plan6_eval P sym aead s pw sk iv

theorem seckey_cfb_plan_sound (P : Prims) (ver sym : Nat) (s : S2k.Spec) (pw iv raw : Bytes) :
    (SecKey.cfbPlan true ver sym s pw iv raw).map (PExpr.eval P) = SecKey.cfbData P ver sym s pw iv raw :=
  SecKey.cfbPlan_eval P ver sym s pw iv raw

/-- what the lock side writes is what the unlock side is willing to open: AEAD only with Argon2 or
iterated+salted S2K, CFB never with Argon2 and, for version 6 keys, only with iterated+salted or
salted S2K; never MD5 / SHA-1 / RIPEMD-160 -/
theorem seckey_lock_admission (P : Prims) (ver sym aead tag : Nat) (s : S2k.Spec) (pw iv pubBody raw out : Bytes) :
    (SecKey.cfbData P ver sym s pw iv raw = some out →
      s.weakHash = false ∧ s.isArgon2 = false ∧
        (ver = 6 → (∃ h salt c, s = .iterated h salt c) ∨ (∃ h salt, s = .salted h salt))) ∧
    (SecKey.aeadData P sym aead s pw iv tag ver pubBody raw = some out →
      s.weakHash = false ∧ ((∃ salt t p m, s = .argon2 salt t p m) ∨ (∃ h salt c, s = .iterated h salt c))) := by
  constructor
  · intro h
    unfold SecKey.cfbData at h
    cases hL : SecKey.cfbLockAllowed ver s
    · simp [hL] at h
    · unfold SecKey.cfbLockAllowed at hL
      cases s <;> simp_all [S2k.Spec.isArgon2]
  · intro h
    unfold SecKey.aeadData at h
    cases hL : SecKey.aeadLockAllowed s
    · simp [hL] at h
    · unfold SecKey.aeadLockAllowed at hL
      cases s <;> simp_all

theorem seckey_aead_plan_sound (P : Prims) (sym aead : Nat) (s : S2k.Spec) (pw nonce : Bytes) (tag ver : Nat)
    (pubBody raw : Bytes) :
    (SecKey.aeadPlan true sym aead s pw nonce tag ver pubBody raw).map (PExpr.eval P) =
      SecKey.aeadData P sym aead s pw nonce tag ver pubBody raw :=
  SecKey.aeadPlan_eval P sym aead s pw nonce tag ver pubBody raw

/-! ## ECDH, X25519, X448, checksum -/

/-- `Param = |oid| oid 12 03 01 hash sym "Anonymous Sender    " fingerprint`; the KDF hashes
`00 00 00 01 ‖ Z ‖ Param` -/
theorem ecdh_param_layout (oid : Bytes) (sym hash : Nat) (fp z : Bytes) :
    Ecdh.param oid sym hash fp =
      [oid.length.toUInt8] ++ oid ++ [18, 3, 1, hash.toUInt8, sym.toUInt8] ++
        [65, 110, 111, 110, 121, 109, 111, 117, 115, 32, 83, 101, 110, 100, 101, 114, 32, 32, 32, 32] ++ fp ∧
    (Ecdh.param oid sym hash fp).length = 1 + oid.length + 1 + 4 + 20 + fp.length ∧
    Ecdh.kdfInput z (Ecdh.param oid sym hash fp) = [0, 0, 0, 1] ++ z ++ Ecdh.param oid sym hash fp := by
  refine ⟨?_, param_length oid sym hash fp, ?_⟩
  · unfold Ecdh.param
    rw [anon_sender_bytes]
    have e1 : Gen.ecdhPkAlgo.toUInt8 = 18 := by decide
    have e2 : Gen.ecdhKdfParamsLen.toUInt8 = 3 := by decide
    have e3 : Gen.ecdhKdfParamsReserved.toUInt8 = 1 := by decide
    rw [e1, e2, e3]
    simp
  · unfold Ecdh.kdfInput
    have : Gen.ecdhKdfCounter.map Nat.toUInt8 = [0, 0, 0, 1] := by decide
    rw [this]

/-- **pad_multiple_of_8**: the padded key is a multiple of 8 octets, 1 to 8 octets longer -/
theorem pad_multiple_of_8 (x : Bytes) :
    (Ecdh.pad x).length % 8 = 0 ∧ x.length < (Ecdh.pad x).length ∧ (Ecdh.pad x).length ≤ x.length + 8 :=
  pad_length x

/-- **pad_unpad**: for every non-empty key of *every* length (in particular 1..239) -/
theorem pad_unpad (x : Bytes) (hx : x ≠ []) : Ecdh.unpad (Ecdh.pad x) = some x := unpad_pad x hx

/-- the reader accepts only a non-empty key followed by `k` octets of value `k`, `1 ≤ k ≤ 255`
(`k` the last octet), the whole being a multiple of 8 octets (RFC 9580 §11.5 / RFC 8018 padding;
more than 8 padding octets are allowed).  Full statement since the fix of D12a. -/
theorem unpad_accepts_only_padded (d x : Bytes) (h : Ecdh.unpad d = some x) :
    ∃ k, 1 ≤ k ∧ k ≤ 255 ∧ d = x ++ List.replicate k k.toUInt8 ∧ x ≠ [] ∧ d.length % 8 = 0 := by
  obtain ⟨h8, hx, hk, hd⟩ := unpad_sound d x h
  refine ⟨(d.getLastD 0).toNat, hk, ?_, ?_, hx, h8⟩
  · have := (d.getLastD 0).toNat_lt; omega
  · have e : (d.getLastD 0).toNat.toUInt8 = d.getLastD 0 := by simp
    rw [e]; exact hd

/-- in particular a padding octet of value 0 is refused (was accepted before the fix of D12a) -/
theorem unpad_rejects_zero_pad (d : Bytes) (h0 : d.getLastD 0 = 0) : Ecdh.unpad d = none :=
  unpad_zero_pad_refused d h0

/-- and so is a stream that is nothing but padding (no key left) -/
theorem unpad_rejects_all_padding : Ecdh.unpad [8, 8, 8, 8, 8, 8, 8, 8] = none ∧
    Ecdh.unpad [1, 2, 3, 4, 5, 6, 7, 0] = none ∧ Ecdh.unpad [1, 2, 3, 4, 5, 6, 7, 1] = some [1, 2, 3, 4, 5, 6, 7] := by
  decide

theorem ecdh_wrap_plan_sound (P : Prims) (oid : Bytes) (hash sym : Nat) (fp z plain : Bytes)
    (hk : ∀ k, Ecdh.kdf P hash z (Gen.c12SymKeySize sym) (Ecdh.param oid sym hash fp) = some k → Ecdh.kekOk k = true) :
    (Ecdh.wrapPlan true oid hash sym fp z plain).map (PExpr.eval P) = Ecdh.wrap P oid hash sym fp z plain :=
  Ecdh.wrapPlan_eval P oid hash sym fp z plain hk

/-- X25519 / X448: the HKDF input is ephemeral ‖ recipient ‖ shared secret (96 / 168 octets), the
wrapped value is the bare session key; the plans denote the modelled functions -/
theorem x25519_x448_plans_sound (P : Prims) (eph rcpt z plain : Bytes) :
    (X25519.wrapPlan eph rcpt z plain).eval P = X25519.wrap P eph rcpt z plain ∧
    (X448.wrapPlan eph rcpt z plain).eval P = X448.wrap P eph rcpt z plain ∧
    (X25519.ikm eph rcpt z).length = eph.length + rcpt.length + z.length ∧
    X25519.wrap P eph rcpt z plain = P.kwrap (P.hkdf sha256Id [] (eph ++ rcpt ++ z) X25519.info 16) plain ∧
    X448.wrap P eph rcpt z plain = P.kwrap (P.hkdf sha512Id [] (eph ++ rcpt ++ z) X448.info 32) plain := by
  refine ⟨rfl, rfl, ?_, rfl, rfl⟩
  simp [X25519.ikm]; omega

/-- the two-octet checksum is the sum of the octets mod 65536, however the octets are fed -/
theorem sum16_rfc (bs : Bytes) (chunks : List Bytes) :
    sum16 bs = (bs.map UInt8.toNat).sum % 65536 ∧ sum16Chunks chunks = sum16 chunks.flatten :=
  ⟨sum16_eq bs, sum16Chunks_eq chunks⟩

/-- session-key encoding inside PKESK values: `[cipher] ‖ key ‖ [be16 (sum16 key)]` -/
theorem session_key_plain_layout (alg : Nat) (sk : Bytes) :
    sessionKeyPlain (some alg) sk true = [alg.toUInt8] ++ sk ++ be16 (sum16 sk) ∧
    sessionKeyPlain none sk true = sk ++ be16 (sum16 sk) ∧
    sessionKeyPlain none sk false = sk := by
  simp [sessionKeyPlain]

/-! ## non-vacuity: the hypotheses about primitives are satisfiable -/

/-- toy primitives: constant-length digests, identity CFB (online), prefix-consistent HKDF -/
def toy : Prims where
  hash := fun _ _ => List.replicate 20 7
  hkdf := fun _ _ _ _ l => List.replicate l 9
  cfbEnc := fun _ _ _ d => d
  aead := fun _ _ _ _ _ d => d ++ List.replicate 16 1
  kwrap := fun _ d => List.replicate 8 2 ++ d
  argon2 := fun _ _ _ _ _ l => List.replicate l 3

example : ∀ x, (toy.hash sha1Id x).length = 20 := fun _ => rfl
example : Online (toy.cfbEnc 7 [] (List.replicate 16 0)) := ⟨fun _ => rfl, fun a b => by simp [toy]⟩
example : ∀ h s i f l l', l' ≤ l → (toy.hkdf h s i f l).take l' = toy.hkdf h s i f l' := by
  intro h s i f l l' hl; simp [toy, List.take_replicate, Nat.min_eq_left hl]
example : Seipd1.open toy 2 (Seipd1.layout toy [5, 6] [1, 2, 3]) = .ok [1, 2, 3] := by rfl
example : S2k.decodeCount 96 = 65536 ∧ S2k.decodeCount 255 = 65011712 ∧ S2k.decodeCount 0 = 1024 := by decide
example : Seipd2.ranges 64 0 130 = [(0, 64), (64, 64), (128, 2)] := by
  rw [ranges_cons _ _ _ (by decide), ranges_cons _ _ _ (by decide), ranges_cons _ _ _ (by decide),
    ranges_nil _ _ _ (by decide)]
  decide
example : Ecdh.pad [1, 2, 3] = [1, 2, 3, 5, 5, 5, 5, 5] := by decide

end Rpgp.C12
