#!/bin/bash
# Merge a builder workspace's NEW files for property $2 (e.g. C13) from /tmp/w/$1 into /verif.
# Shared files (Driver.lean, props/mod.rs, Cargo.toml, manifest_src.json, verif_hooks.rs) are merged by hand.
set -e
WS=/tmp/w/$1/verif; P=$2; p=$(echo $P | tr 'A-Z' 'a-z')
cd $WS
# list files that are new or changed relative to /verif (excluding build outputs and generated stuff)
rsync -rcn --out-format='%n' --exclude .git --exclude 'harness/target' --exclude 'lean/.lake' --exclude work --exclude replays --exclude evidence --exclude '__pycache__' ./ /verif/ | grep -v '/$' 
