//! C15 — version-alignment and criticality rules are enforced on every path.
//!
//! Correspondence ops (model: RpgpModel/Policy.lean, driver: RpgpModel/Ops/C15.lean); every
//! artefact is a REAL packet sequence handed to the public API of the crate:
//! (op names carry the prefix `c15_`)
//!   eskf / decrypt   ESK packets of every kind x version (PKESK v3, v6, "v9"; SKESK v4, v5, v6,
//!                    "v9" — made by the library where it can make them, the GnuPG test vector for
//!                    v5, raw packets for the unassigned versions) in front of the four container
//!                    kinds (SED, SEIPDv1, SEIPDv2, GnuPG OCB) x DecryptionOptions x ring contents
//!                    x explicit session keys, through Message::from_bytes -> decrypt_the_ring;
//!                    `bypass=1` re-inserts the unfiltered ESK list into Message::Encrypted.
//!   signok/fromkey/verify
//!                    key version x signature version through every Signature::verify* entry
//!                    point, Message::verify (prefixed and one-pass) and every signing entry point,
//!                    with a wrapper key that reports another KeyVersion over real key material.
//!   opsmatch/verify  one-pass header fields edited against the trailing signature.
//!   verify/subclass  subpacket ids 0..127 x critical bit x hashed/unhashed area x v4/v6, signed by
//!                    the harness's own RFC 9580 §5.2.4 digest code (the library refuses to make
//!                    them), plus random subpacket lists and issuer-fingerprint versions.
//!   cert             the same certificate as Transferable Secret Key and as Transferable Public
//!                    Key through from_bytes + verify_bindings, with the signing subkey's binding
//!                    varied (back signature good / absent / bad / unhashed / wrong type ...), and
//!                    the subkey version rules of the certificate parser.
//!
//! Oracles restate the property text only (see each `ctx.oracle` call for the sentence).

use std::collections::HashMap;
use std::io::Read;

use pgp::composed::{
    DecryptionOptions, Deserializable, EncryptionCaps, Esk, KeyType, Message, PlainSessionKey,
    SecretKeyParamsBuilder, SignedPublicKey, SignedSecretKey, SignedSecretSubKey, SubkeyParamsBuilder, TheRing,
};
use pgp::crypto::aead::{AeadAlgorithm, ChunkSize};
use pgp::crypto::hash::HashAlgorithm;
use pgp::crypto::public_key::PublicKeyAlgorithm;
use pgp::crypto::sym::SymmetricKeyAlgorithm;
use pgp::packet::{
    KeyFlags, LiteralData, OnePassSignature, Packet, PacketParser, PacketTrait, PublicKeyEncryptedSessionKey,
    Signature, SignatureConfig, SignatureType, SignatureVersionSpecific, Subpacket, SubpacketData,
    SymEncryptedProtectedData, SymKeyEncryptedSessionKey, UserId,
};
use pgp::ser::Serialize;
use pgp::types::{
    Fingerprint, KeyDetails, KeyId, KeyVersion, Password, PublicParams, SignatureBytes, SigningKey, StringToKey, Tag,
    Timestamp, VerifyingKey,
};
use rand::{Rng, SeedableRng};
use rand_chacha::ChaCha8Rng;
use sha2::{Digest, Sha256};

use crate::ctx::{guarded, hx, Ctx};
use crate::frame;

// ---------------------------------------------------------------------------------------------
// fixtures

/// LibrePGP draft test vector (also tests/gnupg.rs): v5 SKESK for password "password" ...
const SKESK5: &str = "c33d05070203089f0b7da3e5ea64779099e326e5400a90936cefb4e8eba08c6773716d1f2714540a38fcac529949dac529d3de31e15b4aeb729e330033dbed";
/// ... and the OCB encrypted data packet it opens (AES-128, literal "Hello, world!\n")
const OCBED: &str = "d44901070 20e5ed2bc1e470abe8f1d644c7a6c8a567b0f7701196611a154ba9c2574cd056284a8ef68035c623d93cc708a43211bb6eaf2b27f7c18d571bcd83b20add3a08b73af15b9a098";
/// the session key both carry
const KEY: [u8; 16] = [0xd1, 0xf0, 0x1b, 0xa3, 0x0e, 0x13, 0x0a, 0xa7, 0xd2, 0x58, 0x2c, 0x16, 0xe0, 0x50, 0xae, 0x44];
const PLAIN: &[u8] = b"Hello, world!\n";
const PW: &str = "password";

fn unhex(s: &str) -> Vec<u8> {
    hex::decode(s.chars().filter(|c| !c.is_whitespace()).collect::<String>()).expect("hex")
}

fn pkt_bytes<P: PacketTrait>(p: &P) -> Vec<u8> {
    let mut v = Vec::new();
    p.to_writer_with_header(&mut v).expect("serialize packet");
    v
}

fn gen_cert(rng: &mut ChaCha8Rng, v6: bool) -> SignedSecretKey {
    let ver = if v6 { KeyVersion::V6 } else { KeyVersion::V4 };
    let enc = SubkeyParamsBuilder::default()
        .version(ver)
        .key_type(KeyType::X25519)
        .created_at(Timestamp::from_secs(1_690_000_000))
        .can_encrypt(EncryptionCaps::All)
        .build()
        .expect("subkey params");
    let sig = SubkeyParamsBuilder::default()
        .version(ver)
        .key_type(if v6 { KeyType::Ed25519 } else { KeyType::Ed25519Legacy })
        .can_sign(true)
        .created_at(Timestamp::from_secs(1_690_000_000))
        .build()
        .expect("subkey params");
    let mut b = SecretKeyParamsBuilder::default();
    b.version(ver)
        .key_type(if v6 { KeyType::Ed25519 } else { KeyType::Ed25519Legacy })
        .can_certify(true)
        .can_sign(true)
        .created_at(Timestamp::from_secs(1_690_000_000))
        .primary_user_id("c15 <c15@example.org>".into())
        .subkeys(vec![enc, sig]);
    b.build().expect("key params").generate(rng).expect("generate")
}

struct Fx {
    cert4: SignedSecretKey,
    cert6: SignedSecretKey,
    literal: Vec<u8>,
}

// ---------------------------------------------------------------------------------------------
// A. ESK x container x options

const CONTAINERS: [&str; 4] = ["sed", "s1", "s2", "gn"];
const ESK_TOKENS: [&str; 7] = ["p3", "p6", "p9", "s4", "s5", "s6", "s9"];

/// ORACLE TABLE, from RFC 9580 §10.3.2.1 ("v3 PKESK / v4 SKESK go with v1 SEIPD [and the legacy SED],
/// v6 PKESK / v6 SKESK go with v2 SEIPD") and LibrePGP §5.16 (OCB packet: v3 PKESK, v4 or v5 SKESK).
fn oracle_aligned(c: &str, tok: &str) -> bool {
    match c {
        "sed" | "s1" => tok == "p3" || tok == "s4",
        "s2" => tok == "p6" || tok == "s6",
        "gn" => tok == "p3" || tok == "s4" || tok == "s5",
        _ => false,
    }
}

struct EskFx {
    esk: HashMap<&'static str, Vec<u8>>,
    cont: HashMap<&'static str, Vec<u8>>,
}

fn build_esk_fx(rng: &mut ChaCha8Rng, fx: &Fx) -> EskFx {
    let sk: pgp::composed::RawSessionKey = KEY.as_slice().into();
    let pw = Password::from(PW);
    let enc = &fx.cert4.secret_subkeys[0];
    let mut esk = HashMap::new();
    let p3 = PublicKeyEncryptedSessionKey::from_session_key_v3(&mut *rng, &sk, SymmetricKeyAlgorithm::AES128, enc.public_key())
        .expect("pkesk v3");
    esk.insert("p3", pkt_bytes(&p3));
    let p6 = PublicKeyEncryptedSessionKey::from_session_key_v6(&mut *rng, &sk, enc.public_key()).expect("pkesk v6");
    esk.insert("p6", pkt_bytes(&p6));
    // unassigned PKESK version 9: version octet + opaque bytes
    let mut raw = vec![9u8];
    raw.extend_from_slice(&[0x11; 24]);
    esk.insert("p9", frame::frame_fixed(true, 1, 1, &raw).expect("frame"));
    let s2k = StringToKey::new_iterated(&mut *rng, HashAlgorithm::Sha256, 0);
    let s4 = SymKeyEncryptedSessionKey::encrypt_v4(&pw, &sk, s2k.clone(), SymmetricKeyAlgorithm::AES128).expect("skesk v4");
    esk.insert("s4", pkt_bytes(&s4));
    esk.insert("s5", unhex(SKESK5));
    let s6 = SymKeyEncryptedSessionKey::encrypt_v6(&mut *rng, &pw, &sk, s2k, SymmetricKeyAlgorithm::AES128, AeadAlgorithm::Ocb)
        .expect("skesk v6");
    esk.insert("s6", pkt_bytes(&s6));
    let mut raw = vec![9u8, 7, 3, 8];
    raw.extend_from_slice(&[0x22; 20]);
    esk.insert("s9", frame::frame_fixed(true, 3, 1, &raw).expect("frame"));

    let mut cont = HashMap::new();
    let sed_body = SymmetricKeyAlgorithm::AES128.encrypt(&mut *rng, &KEY, &fx.literal).expect("sed");
    cont.insert("sed", frame::frame_fixed(true, 9, 1, &sed_body).expect("frame"));
    let s1 = SymEncryptedProtectedData::encrypt_seipdv1(&mut *rng, SymmetricKeyAlgorithm::AES128, &KEY, &fx.literal).expect("seipd1");
    cont.insert("s1", pkt_bytes(&s1));
    let s2 = SymEncryptedProtectedData::encrypt_seipdv2(
        &mut *rng,
        SymmetricKeyAlgorithm::AES128,
        AeadAlgorithm::Ocb,
        ChunkSize::default(),
        &KEY,
        &fx.literal,
    )
    .expect("seipd2");
    cont.insert("s2", pkt_bytes(&s2));
    cont.insert("gn", unhex(OCBED));
    EskFx { esk, cont }
}

#[derive(Clone, Debug)]
struct Sk {
    kind: &'static str, // "34" | "5" | "6"
    alg: u8,            // 7 = AES128, 9 = AES256 (V3_4 only)
    len: usize,
}

impl Sk {
    fn plain(&self) -> PlainSessionKey {
        let bytes: Vec<u8> = if self.len == 16 { KEY.to_vec() } else { vec![0x5a; self.len] };
        match self.kind {
            "34" => PlainSessionKey::V3_4 { sym_alg: SymmetricKeyAlgorithm::from(self.alg), key: bytes.as_slice().into() },
            "5" => PlainSessionKey::V5 { key: bytes.as_slice().into() },
            _ => PlainSessionKey::V6 { key: bytes.as_slice().into() },
        }
    }
    fn token(&self) -> String {
        let alg = if self.kind == "34" { self.alg } else { 0 };
        format!("{}:{}:{}:{}", self.kind, alg, if self.len == 16 { 1 } else { 2 }, self.len)
    }
}

#[derive(Clone)]
struct DecCase {
    c: &'static str,
    esks: Vec<&'static str>,
    legacy: bool,
    gnupg: bool,
    key: bool,
    pw: bool,
    sks: Vec<Sk>,
    abort: bool,
    bypass: bool,
}

impl DecCase {
    fn req(&self) -> String {
        let esks = if self.esks.is_empty() { "-".to_string() } else { self.esks.join(",") };
        let sks = if self.sks.is_empty() { "-".to_string() } else { self.sks.iter().map(|s| s.token()).collect::<Vec<_>>().join(",") };
        format!(
            "c15_decrypt c={} calg=7 cks=16 esks={} legacy={} gnupg={} key={} pw={} sks={} abort={} kalg=7 kid=1 klen=16 bypass={}",
            self.c, esks, self.legacy as u8, self.gnupg as u8, self.key as u8, self.pw as u8, sks, self.abort as u8, self.bypass as u8
        )
    }
}

fn message_bytes(efx: &EskFx, c: &str, esks: &[&str]) -> Vec<u8> {
    let mut v = Vec::new();
    for e in esks {
        v.extend_from_slice(&efx.esk[e]);
    }
    v.extend_from_slice(&efx.cont[c]);
    v
}

fn esk_token(e: &Esk) -> String {
    match e {
        Esk::PublicKeyEncryptedSessionKey(k) => format!("p{}", u8::from(k.version())),
        Esk::SymKeyEncryptedSessionKey(k) => format!("s{}", u8::from(k.version())),
    }
}

/// the `esk` field of the parsed message
fn parsed_esks(bytes: &[u8]) -> Result<Vec<String>, String> {
    match guarded(|| Message::from_bytes(bytes)) {
        Err(_) => Err("panic".into()),
        Ok(Err(e)) => Err(format!("err:{e}")),
        Ok(Ok(Message::Encrypted { esk, .. })) => Ok(esk.iter().map(esk_token).collect()),
        Ok(Ok(_)) => Err("not-encrypted".into()),
    }
}

fn run_decrypt(fx: &Fx, efx: &EskFx, d: &DecCase) -> String {
    let bytes = message_bytes(efx, d.c, &d.esks);
    let r = guarded(|| {
        let msg = match Message::from_bytes(&bytes[..]) {
            Ok(m) => m,
            Err(_) => return "err".to_string(),
        };
        let msg = if d.bypass {
            // put the unfiltered ESK list back (the fields of Message::Encrypted are public)
            let Message::Encrypted { edata, is_nested, .. } = msg else { return "err".to_string() };
            let mut all = Vec::new();
            for t in &d.esks {
                let raw = &efx.esk[t];
                let Some(Ok(p)) = PacketParser::new(&raw[..]).next() else { return "err".to_string() };
                let Ok(e) = Esk::try_from(p) else { return "err".to_string() };
                all.push(e);
            }
            Message::Encrypted { esk: all, edata, is_nested }
        } else {
            msg
        };
        let mut opts = DecryptionOptions::new();
        if d.legacy {
            opts = opts.enable_legacy();
        }
        if d.gnupg {
            opts = opts.enable_gnupg_aead();
        }
        let pw = Password::from(PW);
        let empty = Password::empty();
        let ring = TheRing {
            secret_keys: if d.key { vec![&fx.cert4] } else { vec![] },
            key_passwords: vec![&empty],
            message_password: if d.pw { vec![&pw] } else { vec![] },
            session_keys: d.sks.iter().map(|s| s.plain()).collect(),
            decrypt_options: opts,
        };
        match msg.decrypt_the_ring(ring, d.abort) {
            Err(pgp::errors::Error::MissingKey) => "missing".to_string(),
            Err(_) => "err".to_string(),
            Ok((mut m, _)) => match m.as_data_vec() {
                Ok(v) if v == PLAIN => "ok".to_string(),
                _ => "err".to_string(),
            },
        }
    });
    r.unwrap_or_else(|_| "panic".to_string())
}

fn section_esk(ctx: &mut Ctx, fx: &Fx, efx: &EskFx) {
    // ---- sequences of ESK packets: empty, all singles, all ordered pairs, random longer ones
    let mut seqs: Vec<Vec<&'static str>> = vec![vec![]];
    for a in ESK_TOKENS {
        seqs.push(vec![a]);
    }
    for a in ESK_TOKENS {
        for b in ESK_TOKENS {
            seqs.push(vec![a, b]);
        }
    }
    if ctx.thorough() {
        // all ordered triples
        for a in ESK_TOKENS {
            for b in ESK_TOKENS {
                for c in ESK_TOKENS {
                    seqs.push(vec![a, b, c]);
                }
            }
        }
    }
    let n_long = ctx.pick(300, 3000);
    for _ in 0..n_long {
        let n = ctx.rng.gen_range(3..=6);
        seqs.push((0..n).map(|_| ESK_TOKENS[ctx.rng.gen_range(0..ESK_TOKENS.len())]).collect());
    }

    // ---- eskf: what the parser keeps
    for c in CONTAINERS {
        for seq in &seqs {
            let bytes = message_bytes(efx, c, seq);
            let got = parsed_esks(&bytes);
            let ans = match &got {
                Ok(l) if l.is_empty() => "ok:-".to_string(),
                Ok(l) => format!("ok:{}", l.join(",")),
                Err(e) => e.split(':').next().unwrap_or("err").to_string(),
            };
            let req = format!("c15_eskf c={} esks={}", c, if seq.is_empty() { "-".to_string() } else { seq.join(",") });
            ctx.case(req.clone(), ans.clone());
            ctx.stat(&format!("eskf:container:{c}"));
            // ORACLE "session-key packets whose version does not match the encrypted container are ignored":
            // the parsed message holds exactly the aligned ones, in order.
            let want: Vec<String> = seq.iter().filter(|t| oracle_aligned(c, t)).map(|t| t.to_string()).collect();
            ctx.oracle(
                "misaligned_esk_dropped_by_parser",
                "Message::from_bytes -> Message::Encrypted.esk (parser.rs esk_filter)",
                &format!("{req} msg={}", hx(&bytes)),
                got.as_ref().map(|l| *l == want).unwrap_or(false),
                &ans,
            );
        }
    }

    // ---- decrypt: ring contents x options
    let mut cache: HashMap<String, String> = HashMap::new();
    let mut run = |ctx: &mut Ctx, d: &DecCase, record: bool| -> String {
        let req = d.req();
        if let Some(a) = cache.get(&req) {
            return a.clone();
        }
        let ans = run_decrypt(fx, efx, d);
        if record {
            ctx.case(req.clone(), ans.clone());
        }
        cache.insert(req, ans.clone());
        ans
    };
    let thorough = ctx.thorough();
    for c in CONTAINERS {
        for (si, seq) in seqs.iter().enumerate() {
            for opt in 0..4u8 {
                for cred in 0..4u8 {
                    // quick tier: the random longer sequences only with the full ring
                    if !thorough && seq.len() >= 3 && !(cred == 3 || (si + opt as usize) % 3 == 0) {
                        continue;
                    }
                    let d = DecCase {
                        c,
                        esks: seq.clone(),
                        legacy: opt & 1 != 0,
                        gnupg: opt & 2 != 0,
                        key: cred & 1 != 0,
                        pw: cred & 2 != 0,
                        sks: vec![],
                        abort: true,
                        bypass: false,
                    };
                    let ans = run(ctx, &d, true);
                    ctx.stat(&format!("decrypt:{c}:{ans}"));
                    let req = d.req();
                    let site = "Message::from_bytes -> decrypt_the_ring";
                    // ORACLE "session-key packets whose version does not match the encrypted container are
                    // ignored": same outcome as the message without them.
                    let mut d2 = d.clone();
                    d2.esks = seq.iter().copied().filter(|t| oracle_aligned(c, t)).collect();
                    if d2.esks.len() != d.esks.len() {
                        let ans2 = run(ctx, &d2, true);
                        ctx.oracle("misaligned_esk_ignored", site, &req, ans == ans2, &format!("{ans} vs {ans2} without them"));
                        if d2.esks.is_empty() {
                            ctx.oracle("only_misaligned_never_decrypts", site, &req, ans != "ok", &ans);
                        }
                    }
                    // ORACLE "legacy unauthenticated containers and non-standard AEAD packets are refused
                    // unless explicitly enabled"
                    if (c == "sed" && !d.legacy) || (c == "gn" && !d.gnupg) {
                        ctx.oracle("container_needs_optin", site, &req, ans != "ok", &ans);
                    }
                    // non-vacuity: one aligned ESK + its credential + the opt-in decrypts
                    if seq.len() == 1 && oracle_aligned(c, seq[0]) {
                        let have = if seq[0].starts_with('p') { d.key } else { d.pw };
                        let optin = match c {
                            "sed" => d.legacy,
                            "gn" => d.gnupg,
                            _ => true,
                        };
                        if have && optin {
                            ctx.oracle("aligned_esk_decrypts", site, &req, ans == "ok", &ans);
                        }
                    }
                }
            }
        }
    }

    // ---- explicit session keys: kind x container x options x abort_early (+ ESKs next to them)
    let sk_variants = [
        Sk { kind: "34", alg: 7, len: 16 },
        Sk { kind: "34", alg: 9, len: 16 },
        Sk { kind: "5", alg: 0, len: 16 },
        Sk { kind: "5", alg: 0, len: 32 },
        Sk { kind: "6", alg: 0, len: 16 },
        Sk { kind: "6", alg: 0, len: 32 },
    ];
    for c in CONTAINERS {
        for sk in &sk_variants {
            // a V3_4 key with the wrong algorithm only where the reader compares it (GnuPG AEAD)
            if sk.kind == "34" && sk.alg == 9 && c != "gn" {
                continue;
            }
            if sk.len == 32 && (c == "sed" || c == "s1") {
                continue;
            }
            for opt in 0..4u8 {
                for abort in [true, false] {
                    for seq in [vec![], vec!["p3"], vec!["s6"], vec!["s5"], vec!["p6", "s4"]] {
                        for cred in [0u8, 3] {
                            if seq.is_empty() && cred != 0 {
                                continue;
                            }
                            let d = DecCase {
                                c,
                                esks: seq.clone(),
                                legacy: opt & 1 != 0,
                                gnupg: opt & 2 != 0,
                                key: cred & 1 != 0,
                                pw: cred & 2 != 0,
                                sks: vec![sk.clone()],
                                abort,
                                bypass: false,
                            };
                            let ans = run(ctx, &d, true);
                            ctx.stat(&format!("decrypt_sk:{c}:{}:{ans}", sk.kind));
                            let req = d.req();
                            let site = "Message::decrypt_the_ring(session_keys) -> Edata::decrypt_with_options";
                            if (c == "sed" && !d.legacy) || (c == "gn" && !d.gnupg) {
                                ctx.oracle("container_needs_optin", site, &req, ans != "ok", &ans);
                            }
                            // ORACLE (mechanism "session-key kind must match container"): a session key of the
                            // other generation never opens the container
                            let kind_ok = matches!((c, sk.kind), ("sed", "34") | ("s1", "34") | ("gn", "34") | ("gn", "5") | ("s2", "6"));
                            if !kind_ok && seq.is_empty() {
                                ctx.oracle("session_key_kind_must_match", site, &req, ans != "ok", &ans);
                            }
                        }
                    }
                }
            }
        }
    }

    // ---- filter bypassed: the unfiltered ESK list put back into Message::Encrypted
    for c in CONTAINERS {
        for seq in seqs.iter().filter(|s| !s.is_empty() && s.len() <= 2) {
            for opt in [0u8, 3] {
                let d = DecCase { c, esks: seq.clone(), legacy: opt & 1 != 0, gnupg: opt & 2 != 0, key: true, pw: true, sks: vec![], abort: true, bypass: true };
                let ans = run(ctx, &d, true);
                ctx.stat(&format!("decrypt_bypass:{c}:{ans}"));
                let req = d.req();
                // ORACLE: even then a message whose ESKs are all misaligned does not decrypt
                if seq.iter().all(|t| !oracle_aligned(c, t)) {
                    ctx.oracle(
                        "misaligned_esk_never_opens_container",
                        "Message::Encrypted{esk: unfiltered} -> decrypt_the_ring (reader decrypt: session-key kind)",
                        &req,
                        ans != "ok",
                        &ans,
                    );
                }
            }
        }
    }
}

// ---------------------------------------------------------------------------------------------
// wrapper key: real key material, reported version / fingerprint / key id chosen by the harness

#[derive(Debug)]
struct Wrap<'a, K: std::fmt::Debug> {
    inner: &'a K,
    ver: KeyVersion,
    fp: Option<Fingerprint>,
    kid: Option<KeyId>,
}

fn wrap<K: std::fmt::Debug>(inner: &K, ver: u8) -> Wrap<'_, K> {
    Wrap { inner, ver: KeyVersion::from(ver), fp: None, kid: None }
}

impl<K: KeyDetails> KeyDetails for Wrap<'_, K> {
    fn version(&self) -> KeyVersion {
        self.ver
    }
    fn fingerprint(&self) -> Fingerprint {
        self.fp.clone().unwrap_or_else(|| self.inner.fingerprint())
    }
    fn legacy_key_id(&self) -> KeyId {
        self.kid.unwrap_or_else(|| self.inner.legacy_key_id())
    }
    fn algorithm(&self) -> PublicKeyAlgorithm {
        self.inner.algorithm()
    }
    fn created_at(&self) -> Timestamp {
        self.inner.created_at()
    }
    fn legacy_v3_expiration_days(&self) -> Option<u16> {
        self.inner.legacy_v3_expiration_days()
    }
    fn public_params(&self) -> &PublicParams {
        self.inner.public_params()
    }
}

impl<K: VerifyingKey> VerifyingKey for Wrap<'_, K> {
    fn verify(&self, hash: HashAlgorithm, data: &[u8], sig: &SignatureBytes) -> pgp::errors::Result<()> {
        self.inner.verify(hash, data, sig)
    }
}

impl<K: SigningKey> SigningKey for Wrap<'_, K> {
    fn sign(&self, key_pw: &Password, hash: HashAlgorithm, data: &[u8]) -> pgp::errors::Result<SignatureBytes> {
        self.inner.sign(key_pw, hash, data)
    }
    fn hash_alg(&self) -> HashAlgorithm {
        self.inner.hash_alg()
    }
}

impl<K: Serialize + std::fmt::Debug> Serialize for Wrap<'_, K> {
    fn to_writer<W: std::io::Write>(&self, w: &mut W) -> pgp::errors::Result<()> {
        self.inner.to_writer(w)
    }
    fn write_len(&self) -> usize {
        self.inner.write_len()
    }
}

// ---------------------------------------------------------------------------------------------
// the harness's own RFC 9580 §5.2.4 digest (SHA-256 only), so that signatures the library refuses
// to *make* (unknown critical subpackets, v3, mismatching issuer fingerprints) exist as valid
// cryptographic signatures

fn ser<S: Serialize>(x: &S) -> Vec<u8> {
    let mut v = Vec::new();
    x.to_writer(&mut v).expect("serialize");
    v
}

/// framing of a key inside a signature pre-image: 0x99 len16 body (v4 signature over a v<=4 key),
/// 0x9B len32 body (v6 key)
fn key_frame<K: KeyDetails + Serialize>(k: &K, as_v6: bool) -> Vec<u8> {
    let body = ser(k);
    let mut v = Vec::new();
    if as_v6 {
        v.push(0x9B);
        v.extend_from_slice(&(body.len() as u32).to_be_bytes());
    } else {
        v.push(0x99);
        v.extend_from_slice(&(body.len() as u16).to_be_bytes());
    }
    v.extend_from_slice(&body);
    v
}

/// digest of `subject` (document bytes, or framed key material) under `cfg`
fn rfc_digest(cfg: &SignatureConfig, subject: &[u8]) -> Vec<u8> {
    let mut h = Sha256::new();
    match &cfg.version_specific {
        SignatureVersionSpecific::V2 { created, .. } | SignatureVersionSpecific::V3 { created, .. } => {
            h.update(subject);
            h.update([u8::from(cfg.typ)]);
            h.update(created.as_secs().to_be_bytes());
        }
        vs => {
            let v6 = matches!(vs, SignatureVersionSpecific::V6 { .. });
            if let SignatureVersionSpecific::V6 { salt } = vs {
                h.update(salt);
            }
            h.update(subject);
            let mut area = Vec::new();
            for sp in &cfg.hashed_subpackets {
                sp.to_writer(&mut area).expect("subpacket");
            }
            let mut fields = vec![if v6 { 6u8 } else { 4 }, u8::from(cfg.typ), u8::from(cfg.pub_alg), u8::from(cfg.hash_alg)];
            if v6 {
                fields.extend_from_slice(&(area.len() as u32).to_be_bytes());
            } else {
                fields.extend_from_slice(&(area.len() as u16).to_be_bytes());
            }
            fields.extend_from_slice(&area);
            h.update(&fields);
            h.update([if v6 { 6u8 } else { 4 }, 0xFF]);
            h.update((fields.len() as u32).to_be_bytes());
        }
    }
    h.finalize().to_vec()
}

fn manual_sign<S: SigningKey>(cfg: SignatureConfig, subject: &[u8], signer: &S) -> Signature {
    let d = rfc_digest(&cfg, subject);
    let sb = signer.sign(&Password::empty(), HashAlgorithm::Sha256, &d).expect("raw sign");
    Signature::from_config(cfg, [d[0], d[1]], sb).expect("from_config")
}

fn cfg_for(sv: u8, typ: SignatureType, alg: PublicKeyAlgorithm, salt_seed: u8, kid: KeyId) -> SignatureConfig {
    match sv {
        2 => SignatureConfig::v2(typ, alg, HashAlgorithm::Sha256, Timestamp::from_secs(1_700_000_000), kid),
        3 => SignatureConfig::v3(typ, alg, HashAlgorithm::Sha256, Timestamp::from_secs(1_700_000_000), kid),
        4 => SignatureConfig::v4(typ, alg, HashAlgorithm::Sha256),
        _ => SignatureConfig::v6_with_salt(typ, alg, HashAlgorithm::Sha256, vec![salt_seed; 16]),
    }
}

fn ctime() -> Subpacket {
    Subpacket::regular(SubpacketData::SignatureCreationTime(Timestamp::from_secs(1_700_000_000))).expect("subpacket")
}

fn okerr<T>(r: Result<pgp::errors::Result<T>, String>) -> String {
    match r {
        Ok(Ok(_)) => "ok".into(),
        Ok(Err(_)) => "err".into(),
        Err(_) => "panic".into(),
    }
}

/// signature packet(s) + literal, or OPS + literal + signature: parse, read to the end, verify
fn inline_verify<V: VerifyingKey>(bytes: &[u8], key: &V) -> String {
    okerr(guarded(|| {
        let mut msg = Message::from_bytes(bytes)?;
        let mut sink = Vec::new();
        msg.read_to_end(&mut sink)?;
        msg.verify(key).map(|_| ())
    }))
}

fn literal_packet(data: &[u8]) -> Vec<u8> {
    pkt_bytes(&LiteralData::from_bytes("", data.to_vec().into()).expect("literal"))
}

const DOC: &[u8] = b"the quick brown fox jumps over the lazy dog";
const KEY_VERSIONS: [u8; 6] = [2, 3, 4, 5, 6, 7];

// ---------------------------------------------------------------------------------------------
// B. key version x signature version, every verification and signing entry point

fn section_versions(ctx: &mut Ctx, fx: &Fx) {
    let k4 = &fx.cert4.primary_key;
    let k6 = &fx.cert6.primary_key;
    let p4 = k4.public_key();
    let p6 = k6.public_key();
    let uid = UserId::from_str(Default::default(), "third party <t@example.org>").expect("uid");
    let signee = fx.cert4.secret_subkeys[1].public_key(); // some other key that gets signed
    let sub4 = fx.cert4.secret_subkeys[0].public_key();

    for sv in [2u8, 3, 4, 6] {
        for kv in KEY_VERSIONS {
            // ---- align table itself
            let hashed = if sv >= 4 { "2.0.x.0" } else { "-" };
            // the signature is made over real key material: the v4 certificate's primary for v2/v3/v4
            // signatures, the v6 certificate's primary for v6 signatures
            macro_rules! with_keys {
                ($sk:ident, $pk:ident, $body:block) => {
                    if sv == 6 {
                        let $sk = k6;
                        let $pk = p6;
                        $body
                    } else {
                        let $sk = k4;
                        let $pk = p4;
                        $body
                    }
                };
            }
            // -- document signature: detached, prefixed-signature message, one-pass message
            with_keys!(sk, pk, {
                let mut cfg = cfg_for(sv, SignatureType::Binary, sk.algorithm(), 0x61, pk.legacy_key_id());
                if sv >= 4 {
                    cfg.hashed_subpackets = vec![ctime()];
                }
                let sig = manual_sign(cfg, DOC, sk);
                let vk = wrap(pk, kv);
                let base = format!("kv={kv} sv={sv} typ=0 hashed={hashed}");
                let mut results: Vec<(&str, String, String)> = Vec::new();
                let ans = okerr(guarded(|| sig.verify(&vk, DOC)));
                results.push(("data", ans, hx(&pkt_bytes(&sig))));
                let mut m = pkt_bytes(&sig);
                m.extend_from_slice(&literal_packet(DOC));
                results.push(("inline", inline_verify(&m, &vk), hx(&m)));
                for (path, ans, inp) in &results {
                    let req = format!("c15_verify path={path} {base}");
                    ctx.case(req.clone(), ans.clone());
                    version_oracles(ctx, path, kv, sv, &req, inp, ans);
                }
                // detached-signature object, and cleartext signature framework (text signature, armored
                // and parsed back): both end in Signature::verify
                {
                    let det = pgp::composed::DetachedSignature::new(sig.clone());
                    let ans = okerr(guarded(|| det.verify(&vk, DOC)));
                    let req = format!("c15_verify path=data {base}");
                    ctx.case(req.clone(), ans.clone());
                    version_oracles(ctx, "detached", kv, sv, &req, &hx(&pkt_bytes(&sig)), &ans);
                    let mut cfg = cfg_for(sv, SignatureType::Text, sk.algorithm(), 0x64, pk.legacy_key_id());
                    if sv >= 4 {
                        cfg.hashed_subpackets = vec![ctime()];
                    }
                    let tsig = manual_sign(cfg, DOC, sk);
                    let text = std::str::from_utf8(DOC).expect("utf8");
                    let armored = guarded(|| {
                        let m = pgp::composed::CleartextSignedMessage::new_many(text, |_| Ok(vec![tsig.clone()]))?;
                        m.to_armored_string(Default::default())
                    });
                    if let Ok(Ok(armored)) = armored {
                        let ans = okerr(guarded(|| {
                            let (m, _) = pgp::composed::CleartextSignedMessage::from_string(&armored)?;
                            m.verify(&vk).map(|_| ())
                        }));
                        let req = format!("c15_verify path=data kv={kv} sv={sv} typ=1 hashed={hashed}");
                        ctx.case(req.clone(), ans.clone());
                        version_oracles(ctx, "cleartext", kv, sv, &req, &hx(armored.as_bytes()), &ans);
                    } else {
                        ctx.stat("cleartext:not_armorable");
                    }
                }
                if sv == 4 || sv == 6 {
                    let ops = if sv == 4 {
                        OnePassSignature::v3(SignatureType::Binary, HashAlgorithm::Sha256, sk.algorithm(), pk.legacy_key_id())
                    } else {
                        let mut fp = [0u8; 32];
                        fp.copy_from_slice(pk.fingerprint().as_bytes());
                        OnePassSignature::v6(SignatureType::Binary, HashAlgorithm::Sha256, sk.algorithm(), vec![0x61; 16], fp)
                    };
                    let mut m = pkt_bytes(&ops);
                    m.extend_from_slice(&literal_packet(DOC));
                    m.extend_from_slice(&pkt_bytes(&sig));
                    let ans = inline_verify(&m, &vk);
                    let alg = u8::from(sk.algorithm());
                    let req = format!(
                        "c15_verify path=inline {base} ops={}.0.8.{alg}.{}.1 shash=8 spk={alg} ssalt={}",
                        if sv == 4 { 3 } else { 6 },
                        if sv == 6 { 1 } else { 0 },
                        if sv == 6 { 1 } else { 0 }
                    );
                    ctx.case(req.clone(), ans.clone());
                    version_oracles(ctx, "onepass", kv, sv, &req, &hx(&m), &ans);
                }
            });
            if sv < 4 {
                continue;
            }
            // -- key-material signatures made by the library's own signing entry points with a signer
            //    that reports the version the sign-side `ensure!` wants, verified under version kv
            with_keys!(sk, pk, {
                let signer = wrap(sk, sv);
                let vk = wrap(pk, kv);
                let mk = |typ: SignatureType| {
                    let mut cfg = cfg_for(sv, typ, sk.algorithm(), 0x62, pk.legacy_key_id());
                    cfg.hashed_subpackets = vec![ctime()];
                    cfg
                };
                let base = format!("kv={kv} sv={sv} hashed=2.0.x.0");
                // direct key signature (0x1F) by a third party
                if let Ok(sig) = mk(SignatureType::Key).sign_key(&signer, &Password::empty(), signee) {
                    let ans = okerr(guarded(|| sig.verify_key_third_party(signee, &vk)));
                    let req = format!("c15_verify path=key {base} typ=31");
                    ctx.case(req.clone(), ans.clone());
                    version_oracles(ctx, "key", kv, sv, &req, &hx(&pkt_bytes(&sig)), &ans);
                } else {
                    ctx.oracle("artefact_built", "SignatureConfig::sign_key", &base, false, "could not sign");
                }
                // third-party certification (0x13)
                if let Ok(sig) = mk(SignatureType::CertPositive).sign_certification_third_party(&signer, &Password::empty(), signee, Tag::UserId, &uid) {
                    let ans = okerr(guarded(|| sig.verify_third_party_certification(signee, &vk, Tag::UserId, &uid)));
                    let req = format!("c15_verify path=cert {base} typ=19");
                    ctx.case(req.clone(), ans.clone());
                    version_oracles(ctx, "cert", kv, sv, &req, &hx(&pkt_bytes(&sig)), &ans);
                } else {
                    ctx.oracle("artefact_built", "SignatureConfig::sign_certification_third_party", &base, false, "could not sign");
                }
                // subkey binding (0x18) and primary key binding (0x19): the signer itself is hashed, framed
                // by its reported version, so only versions that have a framing
                if [2u8, 3, 4, 6].contains(&kv) {
                    if let Ok(sig) = mk(SignatureType::SubkeyBinding).sign_subkey_binding(&signer, &vk, &Password::empty(), sub4) {
                        let ans = okerr(guarded(|| sig.verify_subkey_binding(&vk, sub4)));
                        let req = format!("c15_verify path=subkey {base} typ=24");
                        ctx.case(req.clone(), ans.clone());
                        version_oracles(ctx, "subkey", kv, sv, &req, &hx(&pkt_bytes(&sig)), &ans);
                    } else {
                        ctx.oracle("artefact_built", "SignatureConfig::sign_subkey_binding", &base, false, "could not sign");
                    }
                    if let Ok(sig) = mk(SignatureType::KeyBinding).sign_primary_key_binding(&signer, &vk, &Password::empty(), p4) {
                        let ans = okerr(guarded(|| sig.verify_primary_key_binding(&vk, p4)));
                        let req = format!("c15_verify path=pkb {base} typ=25");
                        ctx.case(req.clone(), ans.clone());
                        version_oracles(ctx, "pkb", kv, sv, &req, &hx(&pkt_bytes(&sig)), &ans);
                    } else {
                        ctx.oracle("artefact_built", "SignatureConfig::sign_primary_key_binding", &base, false, "could not sign");
                    }
                }
            });
        }
    }

    // ---- issuer hints do not replace the version rule: the same table with an issuer fingerprint
    //      (the verifying key's own one) in the unhashed area, a hashed one next to a matching key id,
    //      or a foreign one in the unhashed area - the hints name a key, the rule compares versions
    //      (oracles only; the misaligned rows are refused whatever the packet carries)
    for sv in [4u8, 6] {
        for kv in KEY_VERSIONS {
            macro_rules! with_keys {
                ($sk:ident, $pk:ident, $body:block) => {
                    if sv == 6 {
                        let $sk = k6;
                        let $pk = p6;
                        $body
                    } else {
                        let $sk = k4;
                        let $pk = p4;
                        $body
                    }
                };
            }
            with_keys!(sk, pk, {
                let signer = wrap(sk, sv);
                let vk = wrap(pk, kv);
                let own_fp = Subpacket::regular(SubpacketData::IssuerFingerprint(pk.fingerprint())).expect("sp");
                let other = if sv == 6 { p4.fingerprint() } else { p6.fingerprint() };
                let foreign_fp = Subpacket::regular(SubpacketData::IssuerFingerprint(other)).expect("sp");
                let own_kid = Subpacket::regular(SubpacketData::IssuerKeyId(pk.legacy_key_id())).expect("sp");
                let layouts: Vec<(&str, Vec<Subpacket>, Vec<Subpacket>)> = vec![
                    ("unhashed_fp", vec![ctime()], vec![own_fp.clone()]),
                    ("hashed_fp", vec![ctime(), own_fp.clone()], vec![]),
                    ("hashed_fp_unhashed_kid", vec![ctime(), own_fp.clone()], vec![own_kid.clone()]),
                    ("unhashed_fp_and_kid", vec![ctime()], vec![own_kid.clone(), own_fp.clone()]),
                    ("unhashed_foreign_fp_and_kid", vec![ctime()], vec![foreign_fp.clone(), own_kid.clone()]),
                ];
                for (lname, hashed, unhashed) in &layouts {
                    let mk = |typ: SignatureType| {
                        let mut cfg = cfg_for(sv, typ, sk.algorithm(), 0x65, pk.legacy_key_id());
                        cfg.hashed_subpackets = hashed.clone();
                        cfg.unhashed_subpackets = unhashed.clone();
                        cfg
                    };
                    let tag = format!("hints={lname} kv={kv} sv={sv}");
                    let mut results: Vec<(&str, String, Vec<u8>)> = Vec::new();
                    let sig = manual_sign(mk(SignatureType::Binary), DOC, sk);
                    results.push(("data", okerr(guarded(|| sig.verify(&vk, DOC))), pkt_bytes(&sig)));
                    let det = pgp::composed::DetachedSignature::new(sig.clone());
                    results.push(("detached", okerr(guarded(|| det.verify(&vk, DOC))), pkt_bytes(&sig)));
                    if let Ok(sig) = mk(SignatureType::Key).sign_key(&signer, &Password::empty(), signee) {
                        results.push(("key", okerr(guarded(|| sig.verify_key_third_party(signee, &vk))), pkt_bytes(&sig)));
                    }
                    if let Ok(sig) = mk(SignatureType::CertPositive).sign_certification_third_party(&signer, &Password::empty(), signee, Tag::UserId, &uid) {
                        results.push(("cert", okerr(guarded(|| sig.verify_third_party_certification(signee, &vk, Tag::UserId, &uid))), pkt_bytes(&sig)));
                    }
                    if [4u8, 6].contains(&kv) {
                        if let Ok(sig) = mk(SignatureType::SubkeyBinding).sign_subkey_binding(&signer, &vk, &Password::empty(), sub4) {
                            results.push(("subkey", okerr(guarded(|| sig.verify_subkey_binding(&vk, sub4))), pkt_bytes(&sig)));
                        }
                        if let Ok(sig) = mk(SignatureType::KeyBinding).sign_primary_key_binding(&signer, &vk, &Password::empty(), p4) {
                            results.push(("pkb", okerr(guarded(|| sig.verify_primary_key_binding(&vk, p4))), pkt_bytes(&sig)));
                        }
                    }
                    for (path, ans, bytes) in &results {
                        ctx.stat(&format!("verify_hints:{path}:{ans}"));
                        let site = match *path {
                            "data" => "Signature::verify",
                            "detached" => "DetachedSignature::verify",
                            "key" => "Signature::verify_key_third_party",
                            "cert" => "Signature::verify_third_party_certification",
                            "subkey" => "Signature::verify_subkey_binding",
                            _ => "Signature::verify_primary_key_binding",
                        };
                        let input = format!("{tag} path={path} packets={}", hx(bytes));
                        if (kv == 6) != (sv == 6) {
                            ctx.oracle("issuer_hints_do_not_lift_the_version_rule", site, &input, ans != "ok", ans);
                        }
                        if (kv, sv) == (4, 4) || (kv, sv) == (6, 6) {
                            ctx.oracle("aligned_signature_with_hints_verifies", site, &input, ans == "ok", ans);
                        }
                    }
                }
            });
        }
    }

    // ---- signing entry points: key reporting kv x config version
    for kv in KEY_VERSIONS {
        let signer = wrap(k4, kv);
        let r = guarded(|| SignatureConfig::from_key(rand::thread_rng(), &signer, SignatureType::Binary));
        let ans = match &r {
            Ok(Ok(c)) => format!("ok:{}", u8::from(c.version())),
            Ok(Err(_)) => "err".to_string(),
            Err(_) => "panic".to_string(),
        };
        ctx.case(format!("c15_fromkey kv={kv}"), ans.clone());
        // ORACLE "v6 keys only make ... v6 signatures": the configuration derived from a v6 key is v6
        if kv == 6 {
            ctx.oracle("v6_key_only_makes_v6_sig", "SignatureConfig::from_key", &format!("kv={kv}"), ans == "ok:6", &ans);
        }
        for sv in [3u8, 4, 6] {
            let mk = |typ: SignatureType| {
                let mut cfg = cfg_for(sv, typ, k4.algorithm(), 0x63, p4.legacy_key_id());
                if sv >= 4 {
                    cfg.hashed_subpackets = vec![ctime()];
                }
                cfg
            };
            let pw = Password::empty();
            let entries: Vec<(&str, String)> = vec![
                ("SignatureConfig::sign", okerr(guarded(|| mk(SignatureType::Binary).sign(&signer, &pw, DOC)))),
                ("SignatureConfig::sign_key", okerr(guarded(|| mk(SignatureType::Key).sign_key(&signer, &pw, signee)))),
                (
                    "SignatureConfig::sign_certification_third_party",
                    okerr(guarded(|| mk(SignatureType::CertPositive).sign_certification_third_party(&signer, &pw, signee, Tag::UserId, &uid))),
                ),
                ("SignatureConfig::sign_subkey_binding", okerr(guarded(|| mk(SignatureType::SubkeyBinding).sign_subkey_binding(&signer, p4, &pw, sub4)))),
                (
                    "SignatureConfig::sign_primary_key_binding",
                    okerr(guarded(|| mk(SignatureType::KeyBinding).sign_primary_key_binding(&signer, p4, &pw, p4))),
                ),
            ];
            for (site, ans) in entries {
                let a = if ans == "ok" { "ok:1" } else if ans == "err" { "ok:0" } else { "panic" };
                ctx.case(format!("c15_signok kv={kv} sv={sv}"), a.to_string());
                ctx.stat(&format!("sign:{}", if ans == "ok" { "made" } else { "refused" }));
                let input = format!("entry={site} kv={kv} sv={sv}");
                // ORACLE "v6 keys only make ... v6 signatures" (and only v6 keys make them)
                if (kv == 6) != (sv == 6) {
                    ctx.oracle("v6_key_only_makes_v6_sig", site, &input, ans != "ok", &ans);
                }
                if (kv, sv) == (4, 4) || (kv, sv) == (6, 6) {
                    ctx.oracle("aligned_signing_works", site, &input, ans == "ok", &ans);
                }
            }
        }
    }
}

/// ORACLE "v6 keys only make and verify v6 signatures" on one verification path
fn version_oracles(ctx: &mut Ctx, path: &str, kv: u8, sv: u8, req: &str, input_hex: &str, ans: &str) {
    let site = match path {
        "data" => "Signature::verify",
        "detached" => "DetachedSignature::verify",
        "cleartext" => "CleartextSignedMessage::verify (armored, parsed back)",
        "inline" => "Message::verify (prefixed signature)",
        "onepass" => "Message::verify (one-pass)",
        "key" => "Signature::verify_key_third_party",
        "cert" => "Signature::verify_third_party_certification",
        "subkey" => "Signature::verify_subkey_binding",
        _ => "Signature::verify_primary_key_binding",
    };
    ctx.stat(&format!("verify:{path}:{ans}"));
    let input = format!("{req} packets={input_hex}");
    if kv == 6 && sv != 6 {
        ctx.oracle("v6_key_only_verifies_v6_sig", site, &input, ans != "ok", ans);
    }
    if sv == 6 && kv != 6 {
        ctx.oracle("v6_sig_only_under_v6_key", site, &input, ans != "ok", ans);
    }
    if (kv, sv) == (4, 4) || (kv, sv) == (6, 6) {
        // non-vacuity: the artefact is a valid signature when the versions are aligned
        ctx.oracle("aligned_signature_verifies", site, &input, ans == "ok", ans);
    }
}

// ---------------------------------------------------------------------------------------------
// C. one-pass header vs trailing signature

fn section_ops(ctx: &mut Ctx, fx: &Fx) {
    for sv in [4u8, 6] {
        let (sk, pk) = if sv == 6 { (&fx.cert6.primary_key, fx.cert6.primary_key.public_key()) } else { (&fx.cert4.primary_key, fx.cert4.primary_key.public_key()) };
        let alg = u8::from(sk.algorithm());
        let mut cfg = cfg_for(sv, SignatureType::Binary, sk.algorithm(), 0x71, pk.legacy_key_id());
        cfg.hashed_subpackets = vec![ctime(), Subpacket::regular(SubpacketData::IssuerFingerprint(pk.fingerprint())).expect("sp")];
        if sv == 4 {
            cfg.unhashed_subpackets = vec![Subpacket::regular(SubpacketData::IssuerKeyId(pk.legacy_key_id())).expect("sp")];
        }
        let sig = manual_sign(cfg, DOC, sk);
        let sig_bytes = pkt_bytes(&sig);
        let lit = literal_packet(DOC);
        let sigdesc = format!(
            "kv={sv} sv={sv} typ=0 hashed=2.0.x.0,33.0.{sv}.1 unhashed={} shash=8 spk={alg} ssalt={}",
            if sv == 4 { "16.0.x.1" } else { "-" },
            if sv == 6 { 1 } else { 0 }
        );
        for ov in [3u8, 6, 5] {
            for typ in [0u8, 1] {
                for hash in [8u8, 10] {
                    for pka in [alg, 1] {
                        for salt in [1u8, 2, 3] {
                            if ov != 6 && salt != 1 {
                                continue;
                            }
                            for issuer in [1u8, 2] {
                                let t = SignatureType::from(typ);
                                let h = HashAlgorithm::from(hash);
                                let a = PublicKeyAlgorithm::from(pka);
                                let ops_bytes = match ov {
                                    3 => {
                                        let kid = if issuer == 1 { pk.legacy_key_id() } else { KeyId::from([9u8; 8]) };
                                        pkt_bytes(&OnePassSignature::v3(t, h, a, kid))
                                    }
                                    6 => {
                                        let mut fp = [7u8; 32];
                                        if issuer == 1 && sv == 6 {
                                            fp.copy_from_slice(pk.fingerprint().as_bytes());
                                        }
                                        let s = match salt {
                                            1 => vec![0x71; 16],
                                            2 => vec![0x72; 16],
                                            _ => vec![0x71; 8],
                                        };
                                        pkt_bytes(&OnePassSignature::v6(t, h, a, s, fp))
                                    }
                                    _ => {
                                        // unassigned OPS version: version, type, hash, pk, opaque, last
                                        let mut b = vec![5u8, typ, hash, pka];
                                        b.extend_from_slice(&[3u8; 8]);
                                        b.push(1);
                                        frame::frame_fixed(true, 4, 1, &b).expect("frame")
                                    }
                                };
                                // salt ids in the request: the signature's salt is 1 (v6) / 0 (v4)
                                let osalt = if ov == 6 { if sv == 6 { salt } else { salt + 3 } } else { 0 };
                                let opsdesc = format!("{ov}.{typ}.{hash}.{pka}.{osalt}.{issuer}");
                                // direct evaluation of OnePassSignature::matches on the parsed packets
                                let parsed = guarded(|| {
                                    let mut pp = PacketParser::new(&ops_bytes[..]);
                                    match pp.next() {
                                        Some(Ok(Packet::OnePassSignature(o))) => Some(o.matches(&sig)),
                                        _ => None,
                                    }
                                });
                                let m_ans = match parsed {
                                    Ok(Some(b)) => format!("ok:{}", b as u8),
                                    Ok(None) => "err".to_string(),
                                    Err(_) => "panic".to_string(),
                                };
                                ctx.case(format!("c15_opsmatch ops={opsdesc} {sigdesc}"), m_ans.clone());
                                let mut m = ops_bytes.clone();
                                m.extend_from_slice(&lit);
                                m.extend_from_slice(&sig_bytes);
                                let ans = inline_verify(&m, pk);
                                let req = format!("c15_verify path=inline ops={opsdesc} {sigdesc}");
                                ctx.case(req.clone(), ans.clone());
                                ctx.stat(&format!("ops:{ans}"));
                                // ORACLE "a one-pass header that disagrees with its trailing signature invalidates it"
                                let version_pair_ok = (ov == 3 && sv == 4) || (ov == 6 && sv == 6);
                                let disagrees = typ != 0 || hash != 8 || pka != alg || !version_pair_ok || (ov == 6 && sv == 6 && salt != 1);
                                let input = format!("{req} msg={}", hx(&m));
                                let site = "Message::verify (one-pass; OnePassSignature::matches in SignatureManyReader)";
                                if disagrees {
                                    ctx.oracle("ops_mismatch_invalidates", site, &input, ans != "ok", &ans);
                                } else {
                                    ctx.oracle("ops_agreeing_verifies", site, &input, ans == "ok", &ans);
                                    if issuer != 1 {
                                        ctx.stat("observation:ops_issuer_field_differs_but_verifies");
                                    }
                                }
                            }
                        }
                    }
                }
            }
        }
    }
}

// ---------------------------------------------------------------------------------------------
// D. subpacket ids 0..127 x critical bit x area; issuer-fingerprint version

/// ORACLE TABLE: signature subpacket types with an assigned meaning that an OpenPGP implementation
/// of RFC 9580 (+ LibrePGP 34) interprets (RFC 9580 §5.2.3.7, table 5)
const REGISTRY: [u8; 27] = [2, 3, 4, 5, 6, 7, 9, 11, 12, 16, 20, 21, 22, 23, 24, 25, 26, 27, 28, 29, 30, 31, 32, 33, 34, 35, 39];

fn is_private(id: u8) -> bool {
    (100..=110).contains(&id)
}

/// "unknown" in the sense of the property text: neither assigned nor in the private/experimental range
fn oracle_unknown(id: u8) -> bool {
    !REGISTRY.contains(&id) && !is_private(id)
}

/// a well-formed subpacket of type `id` (typed where the RFC assigns a type)
fn mk_sub<K: KeyDetails>(id: u8, critical: bool, key: &K, emb: &Signature) -> Subpacket {
    use smallvec::smallvec;
    let b = |x: &[u8]| bytes::Bytes::copy_from_slice(x);
    let data = match id {
        2 => SubpacketData::SignatureCreationTime(Timestamp::from_secs(1_700_000_001)),
        3 => SubpacketData::SignatureExpirationTime(pgp::types::Duration::from_secs(86400)),
        4 => SubpacketData::ExportableCertification(true),
        5 => SubpacketData::TrustSignature(1, 60),
        6 => SubpacketData::RegularExpression(b(b"<[^>]+[@.]example\\.org>$\0")),
        7 => SubpacketData::Revocable(true),
        9 => SubpacketData::KeyExpirationTime(pgp::types::Duration::from_secs(86400 * 365)),
        11 => SubpacketData::PreferredSymmetricAlgorithms(smallvec![SymmetricKeyAlgorithm::AES256, SymmetricKeyAlgorithm::AES128]),
        12 => SubpacketData::RevocationKey(pgp::types::RevocationKey::new(
            pgp::types::RevocationKeyClass::Default,
            PublicKeyAlgorithm::EdDSALegacy,
            &[0x42; 20],
        )),
        16 => SubpacketData::IssuerKeyId(key.legacy_key_id()),
        20 => SubpacketData::Notation(pgp::packet::Notation { readable: true, name: b(b"c15@example.org"), value: b(b"v") }),
        21 => SubpacketData::PreferredHashAlgorithms(smallvec![HashAlgorithm::Sha256, HashAlgorithm::Sha512]),
        22 => SubpacketData::PreferredCompressionAlgorithms(smallvec![pgp::types::CompressionAlgorithm::ZLIB]),
        23 => SubpacketData::KeyServerPreferences(smallvec![0x80]),
        24 => SubpacketData::PreferredKeyServer("hkps://keys.example.org".to_string()),
        25 => SubpacketData::IsPrimary(true),
        26 => SubpacketData::PolicyURI("https://example.org/policy".to_string()),
        27 => {
            let mut f = KeyFlags::default();
            f.set_certify(true);
            SubpacketData::KeyFlags(f)
        }
        28 => SubpacketData::SignersUserID(b(b"c15 <c15@example.org>")),
        29 => SubpacketData::RevocationReason(pgp::packet::RevocationCode::KeyRetired, b(b"retired")),
        30 => SubpacketData::Features((&[0x01u8][..]).into()),
        31 => SubpacketData::SignatureTarget(PublicKeyAlgorithm::EdDSALegacy, HashAlgorithm::Sha256, b(&[0x33; 32])),
        32 => SubpacketData::EmbeddedSignature(Box::new(emb.clone())),
        33 => SubpacketData::IssuerFingerprint(key.fingerprint()),
        34 => SubpacketData::PreferredEncryptionModes(smallvec![AeadAlgorithm::Ocb]),
        35 => SubpacketData::IntendedRecipientFingerprint(key.fingerprint()),
        39 => SubpacketData::PreferredAeadAlgorithms(smallvec![(SymmetricKeyAlgorithm::AES128, AeadAlgorithm::Ocb)]),
        n if is_private(n) => SubpacketData::Experimental(n, b(b"private")),
        n => SubpacketData::Other(n, b(b"unknown")),
    };
    if critical { Subpacket::critical(data) } else { Subpacket::regular(data) }.expect("subpacket")
}

/// `id.critical.fpver.issuermatch` as the model request wants it
fn sub_token(id: u8, critical: bool, fpver: Option<u8>, m: bool) -> String {
    format!("{}.{}.{}.{}", id, critical as u8, fpver.map(|v| v.to_string()).unwrap_or_else(|| "x".into()), m as u8)
}

fn reparse_sig(bytes: &[u8]) -> Option<Signature> {
    match guarded(|| PacketParser::new(bytes).next()) {
        Ok(Some(Ok(Packet::Signature(s)))) => Some(s),
        _ => None,
    }
}

fn class_of(sp: &Subpacket) -> &'static str {
    match sp.typ() {
        pgp::packet::SubpacketType::Other(_) => "other",
        pgp::packet::SubpacketType::Experimental(_) => "experimental",
        _ => "known",
    }
}

struct SigCase<'a> {
    sv: u8,
    hashed: Vec<Subpacket>,
    unhashed: Vec<Subpacket>,
    /// request tokens, aligned with hashed / unhashed
    htok: Vec<String>,
    utok: Vec<String>,
    /// oracle verdict: must be rejected / must verify / unconstrained
    expect: Option<bool>,
    oracle: &'a str,
}

/// build the signature as document signature and as direct-key signature, re-parse it from bytes,
/// and run it through the entry points
fn run_sig_case<V: VerifyingKey + Serialize>(ctx: &mut Ctx, fx: &Fx, c: &SigCase, vk: &V, paths: &[&str]) {
    let (sk, pk) = if c.sv == 6 { (&fx.cert6.primary_key, fx.cert6.primary_key.public_key()) } else { (&fx.cert4.primary_key, fx.cert4.primary_key.public_key()) };
    let alg = u8::from(sk.algorithm());
    let tl = |v: &Vec<String>| if v.is_empty() { "-".to_string() } else { v.join(",") };
    for path in paths {
        let (typ, subject) = match *path {
            "key" => (SignatureType::Key, key_frame(pk, c.sv == 6)),
            "subkey" => {
                let sub = if c.sv == 6 { fx.cert6.secret_subkeys[0].public_key() } else { fx.cert4.secret_subkeys[0].public_key() };
                let mut s = key_frame(pk, c.sv == 6);
                s.extend_from_slice(&key_frame(sub, c.sv == 6));
                (SignatureType::SubkeyBinding, s)
            }
            _ => (SignatureType::Binary, DOC.to_vec()),
        };
        let mut cfg = cfg_for(c.sv, typ, sk.algorithm(), 0x81, pk.legacy_key_id());
        cfg.hashed_subpackets = c.hashed.clone();
        cfg.unhashed_subpackets = c.unhashed.clone();
        let sig = manual_sign(cfg, &subject, sk);
        let raw = pkt_bytes(&sig);
        let typn = u8::from(typ);
        let mut req = format!("c15_verify path={} kv={} sv={} typ={typn} hashed={} unhashed={}", if *path == "onepass" { "inline" } else { path }, c.sv, c.sv, tl(&c.htok), tl(&c.utok));
        let Some(sig) = reparse_sig(&raw) else {
            ctx.oracle("artefact_parses", "Signature::try_from_reader", &format!("{req} packets={}", hx(&raw)), false, "signature does not re-parse");
            continue;
        };
        let (ans, input) = match *path {
            "data" => (okerr(guarded(|| sig.verify(vk, DOC))), hx(&raw)),
            "key" => (okerr(guarded(|| sig.verify_key_third_party(pk, vk))), hx(&raw)),
            "subkey" => {
                let sub = if c.sv == 6 { fx.cert6.secret_subkeys[0].public_key() } else { fx.cert4.secret_subkeys[0].public_key() };
                (okerr(guarded(|| sig.verify_subkey_binding(vk, sub))), hx(&raw))
            }
            "inline" => {
                let mut m = raw.clone();
                m.extend_from_slice(&literal_packet(DOC));
                (inline_verify(&m, vk), hx(&m))
            }
            _ => {
                let ops = if c.sv == 4 {
                    OnePassSignature::v3(SignatureType::Binary, HashAlgorithm::Sha256, sk.algorithm(), pk.legacy_key_id())
                } else {
                    let mut fp = [0u8; 32];
                    fp.copy_from_slice(pk.fingerprint().as_bytes());
                    OnePassSignature::v6(SignatureType::Binary, HashAlgorithm::Sha256, sk.algorithm(), vec![0x81; 16], fp)
                };
                req.push_str(&format!(" ops={}.0.8.{alg}.{}.1 shash=8 spk={alg} ssalt={}", if c.sv == 4 { 3 } else { 6 }, (c.sv == 6) as u8, (c.sv == 6) as u8));
                let mut m = pkt_bytes(&ops);
                m.extend_from_slice(&literal_packet(DOC));
                m.extend_from_slice(&raw);
                (inline_verify(&m, vk), hx(&m))
            }
        };
        ctx.case(req.clone(), ans.clone());
        ctx.stat(&format!("subpkt:{path}:{ans}"));
        let site = match *path {
            "data" => "Signature::verify (hash_signature_data)",
            "key" => "Signature::verify_key_third_party (hash_signature_data)",
            "subkey" => "Signature::verify_subkey_binding (hash_signature_data)",
            "inline" => "Message::verify, prefixed signature (SignatureManyReader -> hash_signature_data)",
            _ => "Message::verify, one-pass (SignatureManyReader -> hash_signature_data)",
        };
        if let Some(must_verify) = c.expect {
            ctx.oracle(c.oracle, site, &format!("{req} packets={input}"), (ans == "ok") == must_verify, &ans);
        }
    }
}

fn section_subpackets(ctx: &mut Ctx, fx: &Fx) {
    let all_paths = ["data", "inline", "onepass", "key"];
    // some valid signature to embed for id 32
    let emb = {
        let k = &fx.cert4.primary_key;
        let mut cfg = cfg_for(4, SignatureType::Binary, k.algorithm(), 0, k.legacy_key_id());
        cfg.hashed_subpackets = vec![ctime()];
        manual_sign(cfg, b"embedded", k)
    };
    // ---- every id x critical x area x signature version
    for sv in [4u8, 6] {
        let pk = if sv == 6 { fx.cert6.primary_key.public_key() } else { fx.cert4.primary_key.public_key() };
        for area in ["h", "u"] {
            for id in 0u8..128 {
                for critical in [false, true] {
                    let sp = mk_sub(id, critical, pk, &emb);
                    let tok = sub_token(id, critical, if id == 33 { Some(sv) } else { None }, id == 16 || id == 33);
                    let unknown = oracle_unknown(id);
                    let (hashed, unhashed, htok, utok) = if area == "h" {
                        (vec![ctime(), sp], vec![], vec![sub_token(2, false, None, false), tok], vec![])
                    } else {
                        (vec![ctime()], vec![sp], vec![sub_token(2, false, None, false)], vec![tok])
                    };
                    // ORACLE "a signature with an unknown critical subpacket ... is rejected": in the hashed
                    // (signed) area, on every path.  Everything known, private or non-critical must not
                    // invalidate a good signature.  Unhashed-area criticality and the private range are
                    // recorded, not judged.
                    let (expect, oracle) = if area == "h" && critical && unknown {
                        (Some(false), "critical_unknown_rejected")
                    } else if critical && (is_private(id) || (area == "u" && unknown)) {
                        (None, "")
                    } else {
                        (Some(true), "harmless_subpacket_accepted")
                    };
                    let c = SigCase { sv, hashed, unhashed, htok, utok, expect, oracle };
                    let paths: &[&str] = if ctx.thorough() || sv == 4 || critical { &all_paths } else { &all_paths[..2] };
                    run_sig_case(ctx, fx, &c, pk, paths);
                    if critical && is_private(id) && area == "h" {
                        ctx.stat("observation:critical_private_subpacket_in_hashed_area");
                    }
                    if critical && unknown && area == "u" {
                        ctx.stat("observation:critical_unknown_subpacket_in_unhashed_area");
                    }
                }
            }
        }
    }
    // ---- the parser's classification of every id (reader table)
    for id in 0u8..128 {
        let pk = fx.cert4.primary_key.public_key();
        let sp = mk_sub(id, false, pk, &emb);
        let mut cfg = cfg_for(4, SignatureType::Binary, PublicKeyAlgorithm::EdDSALegacy, 0, pk.legacy_key_id());
        cfg.hashed_subpackets = vec![sp];
        let sig = manual_sign(cfg, DOC, &fx.cert4.primary_key);
        let ans = match reparse_sig(&pkt_bytes(&sig)).and_then(|s| s.config().and_then(|c| c.hashed_subpackets.first().map(class_of))) {
            Some(c) => c.to_string(),
            None => "err".to_string(),
        };
        ctx.case(format!("c15_subclass id={id}"), ans.clone());
        let want = if REGISTRY.contains(&id) { "known" } else if is_private(id) { "experimental" } else { "other" };
        ctx.oracle("subpacket_registry", "SubpacketType::from_u8 (via Signature::try_from_reader)", &format!("id={id}"), ans == want, &ans);
    }

    // ---- random subpacket lists (the unbounded part): several subpackets per area
    let n = ctx.pick(3000, 30000);
    for i in 0..n {
        let sv = if ctx.rng.gen_bool(0.5) { 4u8 } else { 6 };
        let pk = if sv == 6 { fx.cert6.primary_key.public_key() } else { fx.cert4.primary_key.public_key() };
        let other_fp = |v: u8| -> Fingerprint {
            match v {
                4 => Fingerprint::new(KeyVersion::V4, &[0xAB; 20]).expect("fp"),
                5 => Fingerprint::new(KeyVersion::V5, &[0xAB; 32]).expect("fp"),
                _ => Fingerprint::new(KeyVersion::V6, &[0xAB; 32]).expect("fp"),
            }
        };
        let gen_area = |ctx: &mut Ctx, max: usize| -> (Vec<Subpacket>, Vec<String>) {
            let len = ctx.rng.gen_range(0..=max);
            let mut sps = Vec::new();
            let mut toks = Vec::new();
            for _ in 0..len {
                let critical = ctx.rng.gen_bool(0.35);
                let pick = ctx.rng.gen_range(0..16);
                let (sp, tok) = match pick {
                    0 => (mk_sub(16, critical, pk, &emb), sub_token(16, critical, None, true)),
                    1 => {
                        let d = SubpacketData::IssuerKeyId(KeyId::from([0xEE; 8]));
                        (if critical { Subpacket::critical(d) } else { Subpacket::regular(d) }.expect("sp"), sub_token(16, critical, None, false))
                    }
                    2 => (mk_sub(33, critical, pk, &emb), sub_token(33, critical, Some(sv), true)),
                    3 | 4 => {
                        let v = [4u8, 5, 6][ctx.rng.gen_range(0..3)];
                        let d = SubpacketData::IssuerFingerprint(other_fp(v));
                        (if critical { Subpacket::critical(d) } else { Subpacket::regular(d) }.expect("sp"), sub_token(33, critical, Some(v), false))
                    }
                    5 => (mk_sub(27, critical, pk, &emb), sub_token(27, critical, None, false)),
                    6 => (mk_sub(20, critical, pk, &emb), sub_token(20, critical, None, false)),
                    7 => {
                        let id = [100u8, 101, 110][ctx.rng.gen_range(0..3)];
                        (mk_sub(id, critical, pk, &emb), sub_token(id, critical, None, false))
                    }
                    8..=11 => {
                        let id = [0u8, 1, 8, 10, 13, 36, 37, 38, 40, 60, 95, 99, 111, 127][ctx.rng.gen_range(0..14)];
                        (mk_sub(id, critical, pk, &emb), sub_token(id, critical, None, false))
                    }
                    _ => {
                        let id = REGISTRY[ctx.rng.gen_range(0..REGISTRY.len())];
                        let id = if id == 16 || id == 33 || id == 32 { 2 } else { id };
                        (mk_sub(id, critical, pk, &emb), sub_token(id, critical, None, false))
                    }
                };
                sps.push(sp);
                toks.push(tok);
            }
            (sps, toks)
        };
        let (mut hashed, mut htok) = gen_area(ctx, 5);
        let (unhashed, utok) = gen_area(ctx, 3);
        hashed.insert(0, ctime());
        htok.insert(0, sub_token(2, false, None, false));
        // oracle verdict from the property text
        let parse_tok = |t: &String| -> (u8, bool, Option<u8>, bool) {
            let p: Vec<&str> = t.split('.').collect();
            (p[0].parse().unwrap(), p[1] == "1", p[2].parse().ok(), p[3] == "1")
        };
        let h: Vec<_> = htok.iter().map(parse_tok).collect();
        let u: Vec<_> = utok.iter().map(parse_tok).collect();
        let crit_unknown = h.iter().any(|(id, c, _, _)| *c && oracle_unknown(*id));
        let fp_mismatch = h.iter().any(|(id, _, fv, _)| *id == 33 && *fv != Some(sv));
        let issuers: Vec<_> = h.iter().chain(u.iter()).filter(|(id, ..)| *id == 16 || *id == 33).collect();
        let issuer_ok = issuers.is_empty() || issuers.iter().any(|(_, _, _, m)| *m);
        let has_private_critical = h.iter().any(|(id, c, _, _)| *c && is_private(*id));
        let (expect, oracle) = if crit_unknown {
            (Some(false), "critical_unknown_rejected")
        } else if fp_mismatch {
            (Some(false), "issuer_fingerprint_version_mismatch_rejected")
        } else if !issuer_ok || has_private_critical {
            (None, "")
        } else {
            (Some(true), "harmless_subpacket_accepted")
        };
        let c = SigCase { sv, hashed, unhashed, htok, utok, expect, oracle };
        let paths: &[&str] = if i % 4 == 0 { &all_paths } else { &all_paths[..2] };
        run_sig_case(ctx, fx, &c, pk, paths);
        ctx.stat(&format!("subpkt_list:hashed_len:{}", c.hashed.len()));
    }

    // ---- issuer fingerprint version vs signature version, with a key that *does* carry that
    //      fingerprint (so that only the version rule can reject)
    for sv in [4u8, 6] {
        let pk = if sv == 6 { fx.cert6.primary_key.public_key() } else { fx.cert4.primary_key.public_key() };
        for fv in [4u8, 5, 6] {
            for area in ["h", "u"] {
                for critical in [false, true] {
                    let fp = match fv {
                        4 => Fingerprint::new(KeyVersion::V4, &[0xCD; 20]),
                        5 => Fingerprint::new(KeyVersion::V5, &[0xCD; 32]),
                        _ => Fingerprint::new(KeyVersion::V6, &[0xCD; 32]),
                    }
                    .expect("fp");
                    let d = SubpacketData::IssuerFingerprint(fp.clone());
                    let sp = if critical { Subpacket::critical(d) } else { Subpacket::regular(d) }.expect("sp");
                    let tok = sub_token(33, critical, Some(fv), true);
                    let (hashed, unhashed, htok, utok) = if area == "h" {
                        (vec![ctime(), sp], vec![], vec![sub_token(2, false, None, false), tok], vec![])
                    } else {
                        (vec![ctime()], vec![sp], vec![sub_token(2, false, None, false)], vec![tok])
                    };
                    // ORACLE "a signature with ... a mismatching issuer-fingerprint version is rejected"
                    // (RFC 9580 §5.2.3.35: the version octet must match the signature version)
                    let (expect, oracle) = if area == "h" && fv != sv {
                        (Some(false), "issuer_fingerprint_version_mismatch_rejected")
                    } else if area == "h" {
                        (Some(true), "issuer_fingerprint_version_match_accepted")
                    } else {
                        (None, "")
                    };
                    let vk = Wrap { inner: pk, ver: KeyVersion::from(sv), fp: Some(fp), kid: None };
                    let c = SigCase { sv, hashed, unhashed, htok, utok, expect, oracle };
                    run_sig_case(ctx, fx, &c, &vk, &["data", "inline", "onepass", "key", "subkey"]);
                    if area == "u" && fv != sv {
                        ctx.stat("observation:issuer_fp_version_mismatch_in_unhashed_area");
                    }
                }
            }
        }
    }
}

// ---------------------------------------------------------------------------------------------
// E. the same certificate as secret and as public key; subkey version rules

#[derive(Clone, Copy, PartialEq, Debug)]
enum Back {
    Absent,
    Good,
    GoodUnhashed,
    WrongSigner,
    WrongPrimary,
    WrongType,
}

#[derive(Clone, Copy, Debug)]
struct BindSpec {
    binding_ok: bool,
    sign_flag: bool,
    back: Back,
}

impl BindSpec {
    fn token(&self) -> String {
        let k = match self.back {
            Back::Absent => "n",
            Back::Good | Back::GoodUnhashed => "g",
            _ => "b",
        };
        format!("{}.{}.{}", self.binding_ok as u8, self.sign_flag as u8, k)
    }
}

/// one binding signature over `target` (or, for `binding_ok == false`, over another subkey)
fn make_binding(rng: &mut ChaCha8Rng, cert: &SignedSecretKey, other: &SignedSecretKey, spec: &BindSpec) -> Signature {
    let primary = &cert.primary_key;
    let ppub = primary.public_key();
    let sgn = &cert.secret_subkeys[1].key;
    let pw = Password::empty();
    let back: Option<Signature> = match spec.back {
        Back::Absent => None,
        Back::Good | Back::GoodUnhashed => {
            let mut cfg = SignatureConfig::from_key(&mut *rng, sgn, SignatureType::KeyBinding).expect("cfg");
            cfg.hashed_subpackets = vec![ctime(), Subpacket::regular(SubpacketData::IssuerFingerprint(sgn.fingerprint())).expect("sp")];
            Some(cfg.sign_primary_key_binding(sgn, sgn.public_key(), &pw, ppub).expect("backsig"))
        }
        // a 0x19 signature, but made by the primary itself instead of the subkey
        Back::WrongSigner => {
            let cfg = SignatureConfig::from_key(&mut *rng, primary, SignatureType::KeyBinding).expect("cfg");
            let mut cfg = cfg;
            cfg.hashed_subpackets = vec![ctime()];
            Some(cfg.sign_primary_key_binding(primary, ppub, &pw, ppub).expect("sign"))
        }
        // made by the subkey, but over another certificate's primary
        Back::WrongPrimary => {
            // (a key of the same version, so that the framing is defined: the encryption subkey)
            let _ = other;
            Some(sgn.sign_primary_key_binding(&mut *rng, cert.secret_subkeys[0].key.public_key(), &pw).expect("backsig"))
        }
        // a document signature by the subkey, not a 0x19
        Back::WrongType => {
            let mut cfg = SignatureConfig::from_key(&mut *rng, sgn, SignatureType::Binary).expect("cfg");
            cfg.hashed_subpackets = vec![ctime()];
            Some(cfg.sign(sgn, &pw, &b"not a binding"[..]).expect("sign"))
        }
    };
    let mut flags = KeyFlags::default();
    if spec.sign_flag {
        flags.set_sign(true);
    } else {
        flags.set_encrypt_comms(true);
    }
    let mut cfg = SignatureConfig::from_key(&mut *rng, primary, SignatureType::SubkeyBinding).expect("cfg");
    cfg.hashed_subpackets = vec![
        ctime(),
        Subpacket::regular(SubpacketData::KeyFlags(flags)).expect("sp"),
        Subpacket::regular(SubpacketData::IssuerFingerprint(primary.fingerprint())).expect("sp"),
    ];
    if let Some(b) = back {
        let sp = Subpacket::regular(SubpacketData::EmbeddedSignature(Box::new(b))).expect("sp");
        if spec.back == Back::GoodUnhashed {
            cfg.unhashed_subpackets.push(sp);
        } else {
            cfg.hashed_subpackets.push(sp);
        }
    }
    let signee = if spec.binding_ok { sgn.public_key() } else { cert.secret_subkeys[0].key.public_key() };
    cfg.sign_subkey_binding(primary, ppub, &pw, signee).expect("binding")
}

fn verdict<T>(parsed: Result<pgp::errors::Result<T>, String>, verify: impl FnOnce(&T) -> pgp::errors::Result<()>) -> String {
    match parsed {
        Err(_) => "panic".into(),
        Ok(Err(_)) => "parse".into(),
        Ok(Ok(k)) => match guarded(|| verify(&k)) {
            Ok(Ok(())) => "ok".into(),
            Ok(Err(_)) => "bind".into(),
            Err(_) => "panic".into(),
        },
    }
}

fn section_certs(ctx: &mut Ctx, fx: &Fx, rng: &mut ChaCha8Rng) {
    let g = |b| BindSpec { binding_ok: true, sign_flag: true, back: b };
    let variants: Vec<(&str, Vec<BindSpec>)> = vec![
        ("good", vec![g(Back::Good)]),
        ("good_unhashed_backsig", vec![g(Back::GoodUnhashed)]),
        ("no_backsig", vec![g(Back::Absent)]),
        ("backsig_wrong_signer", vec![g(Back::WrongSigner)]),
        ("backsig_wrong_primary", vec![g(Back::WrongPrimary)]),
        ("backsig_wrong_type", vec![g(Back::WrongType)]),
        ("not_signing_no_backsig", vec![BindSpec { binding_ok: true, sign_flag: false, back: Back::Absent }]),
        ("bad_binding", vec![BindSpec { binding_ok: false, sign_flag: true, back: Back::Good }]),
        ("bad_binding_no_flag", vec![BindSpec { binding_ok: false, sign_flag: false, back: Back::Absent }]),
        ("two_good_then_missing", vec![g(Back::Good), g(Back::Absent)]),
        ("two_missing_then_good", vec![g(Back::Absent), g(Back::Good)]),
        ("two_good", vec![g(Back::Good), g(Back::GoodUnhashed)]),
    ];
    for (pv, cert, other) in [(4u8, &fx.cert4, &fx.cert6), (6u8, &fx.cert6, &fx.cert4)] {
        let enc_tok = format!("s{pv}:1.0.n");
        for (name, specs) in &variants {
            for layout in ["all_secret", "signing_subkey_public"] {
                let sigs: Vec<Signature> = specs.iter().map(|sp| make_binding(rng, cert, other, sp)).collect();
                let sgn = cert.secret_subkeys[1].key.clone();
                let enc = cert.secret_subkeys[0].clone();
                let tsk = if layout == "all_secret" {
                    SignedSecretKey::new(cert.primary_key.clone(), cert.details.clone(), vec![], vec![enc, SignedSecretSubKey::new(sgn, sigs)])
                } else {
                    SignedSecretKey::new(
                        cert.primary_key.clone(),
                        cert.details.clone(),
                        vec![pgp::composed::SignedPublicSubKey::new(sgn.public_key().clone(), sigs)],
                        vec![enc],
                    )
                };
                let sec_bytes = ser(&tsk);
                let pub_bytes = ser(&SignedPublicKey::from(tsk.clone()));
                let sig_tok = specs.iter().map(|s| s.token()).collect::<Vec<_>>().join("/");
                let (sec_subs, pub_subs) = if layout == "all_secret" {
                    (format!("{enc_tok};s{pv}:{sig_tok}"), format!("p{pv}:1.0.n;p{pv}:{sig_tok}"))
                } else {
                    (format!("p{pv}:{sig_tok};{enc_tok}"), format!("p{pv}:{sig_tok};p{pv}:1.0.n"))
                };
                let sec = verdict(guarded(|| SignedSecretKey::from_bytes(&sec_bytes[..])), |k| k.verify_bindings());
                let pubv = verdict(guarded(|| SignedPublicKey::from_bytes(&pub_bytes[..])), |k| k.verify_bindings());
                ctx.case(format!("c15_cert rep=sec pv={pv} details=1 subs={sec_subs}"), sec.clone());
                ctx.case(format!("c15_cert rep=pub pv={pv} details=1 subs={pub_subs}"), pubv.clone());
                // the armored import path of both forms
                let sec_arm = tsk.to_armored_string(Default::default()).unwrap_or_default();
                let pub_arm = SignedPublicKey::from(tsk.clone()).to_armored_string(Default::default()).unwrap_or_default();
                let sec_a = verdict(guarded(|| SignedSecretKey::from_string(&sec_arm).map(|x| x.0)), |k| k.verify_bindings());
                let pub_a = verdict(guarded(|| SignedPublicKey::from_string(&pub_arm).map(|x| x.0)), |k| k.verify_bindings());
                ctx.case(format!("c15_cert rep=sec pv={pv} details=1 subs={sec_subs}"), sec_a.clone());
                ctx.case(format!("c15_cert rep=pub pv={pv} details=1 subs={pub_subs}"), pub_a.clone());
                ctx.oracle(
                    "armored_and_binary_import_judged_alike",
                    "Signed*Key::from_string vs from_bytes (+ verify_bindings)",
                    &format!("variant={name} layout={layout} pv={pv}"),
                    sec_a == sec && pub_a == pubv,
                    &format!("binary {sec}/{pubv}, armored {sec_a}/{pub_a}; tsk={}", hx(&sec_bytes)),
                );
                ctx.stat(&format!("cert:{name}:{layout}:sec={sec}:pub={pubv}"));
                // ORACLE "a key accepted through one import path is judged the same through the equivalent
                // path" (public vs secret representation of the same certificate)
                ctx.oracle(
                    "public_and_secret_form_judged_alike",
                    "SignedSecretKey::from_bytes+verify_bindings vs SignedPublicKey::from_bytes+verify_bindings",
                    &format!("variant={name} layout={layout} pv={pv} secret_subs={sec_subs} public_subs={pub_subs}"),
                    sec == pubv,
                    &format!("secret form: {sec}, public form: {pubv}; tsk={} tpk={}", hx(&sec_bytes), hx(&pub_bytes)),
                );
                if *name == "good" || *name == "not_signing_no_backsig" || *name == "two_good" {
                    ctx.oracle("good_certificate_accepted", "Signed*Key::from_bytes + verify_bindings", &format!("variant={name} layout={layout} pv={pv}"), sec == "ok" && pubv == "ok", &format!("{sec}/{pubv}"));
                }
            }
        }
    }

    // ---- subkey version rules of the certificate parser
    // primary of version pv carrying one encryption subkey of version sv, validly bound
    for (pv, cert, other) in [(4u8, &fx.cert4, &fx.cert6), (6u8, &fx.cert6, &fx.cert4)] {
        for foreign in [false, true] {
            let sub_src = if foreign { other } else { cert };
            let sv = if foreign { 10 - pv } else { pv };
            let sub = sub_src.secret_subkeys[0].key.clone();
            let mut flags = KeyFlags::default();
            flags.set_encrypt_comms(true);
            let binding = sub.public_key().sign(&mut *rng, &cert.primary_key, cert.primary_key.public_key(), &Password::empty(), flags, None);
            let Ok(binding) = binding else {
                ctx.note("could not bind a foreign-version subkey (library refused to sign)");
                continue;
            };
            let tsk = SignedSecretKey::new(cert.primary_key.clone(), cert.details.clone(), vec![], vec![SignedSecretSubKey::new(sub, vec![binding])]);
            let sec_bytes = ser(&tsk);
            let pub_bytes = ser(&SignedPublicKey::from(tsk.clone()));
            let sec = verdict(guarded(|| SignedSecretKey::from_bytes(&sec_bytes[..])), |k| k.verify_bindings());
            let pubv = verdict(guarded(|| SignedPublicKey::from_bytes(&pub_bytes[..])), |k| k.verify_bindings());
            ctx.case(format!("c15_cert rep=sec pv={pv} details=1 subs=s{sv}:1.0.n"), sec.clone());
            ctx.case(format!("c15_cert rep=pub pv={pv} details=1 subs=p{sv}:1.0.n"), pubv.clone());
            ctx.stat(&format!("cert_versions:primary_v{pv}_subkey_v{sv}:sec={sec}:pub={pubv}"));
            let input = format!("pv={pv} subkey_version={sv}");
            let art = format!("tsk={} tpk={}", hx(&sec_bytes), hx(&pub_bytes));
            // ORACLE "v6 keys ... only carry v6 subkeys"
            if pv == 6 && sv != 6 {
                ctx.oracle("v6_primary_only_v6_subkeys", "Signed{Secret,Public}Key::from_bytes (key_parser::next)", &input, sec == "parse" && pubv == "parse", &format!("{sec}/{pubv}; {art}"));
            }
            if pv == sv {
                ctx.oracle("good_certificate_accepted", "Signed*Key::from_bytes + verify_bindings", &input, sec == "ok" && pubv == "ok", &format!("{sec}/{pubv}"));
            }
            ctx.oracle("public_and_secret_form_judged_alike", "Signed{Secret,Public}Key::from_bytes + verify_bindings", &input, sec == pubv, &format!("{sec}/{pubv}; {art}"));
            // the same subkey carried as a Public-Subkey packet inside the transferable SECRET key
            // (a secret key may hold public subkeys): judged by the same version rule
            let psub = pgp::composed::SignedPublicSubKey::new(tsk.secret_subkeys[0].key.public_key().clone(), tsk.secret_subkeys[0].signatures.clone());
            let tsk_mixed = SignedSecretKey::new(cert.primary_key.clone(), cert.details.clone(), vec![psub], vec![]);
            let mixed_bytes = ser(&tsk_mixed);
            let mixed = verdict(guarded(|| SignedSecretKey::from_bytes(&mixed_bytes[..])), |k| k.verify_bindings());
            ctx.case(format!("c15_cert rep=sec pv={pv} details=1 subs=p{sv}:1.0.n"), mixed.clone());
            ctx.stat(&format!("cert_versions:primary_v{pv}_public_subkey_v{sv}_in_secret_key:sec={mixed}"));
            let input_m = format!("pv={pv} subkey_version={sv} public-subkey-in-secret-key");
            if pv == 6 && sv != 6 {
                ctx.oracle("v6_primary_only_v6_subkeys", "SignedSecretKey::from_bytes (key_parser::next), public subkey inside a secret key", &input_m, mixed == "parse", &format!("{mixed}; tsk={}", hx(&mixed_bytes)));
            }
            ctx.oracle("public_and_secret_form_judged_alike", "SignedSecretKey(with public subkey)::from_bytes vs SignedPublicKey::from_bytes (+ verify_bindings)", &input_m, mixed == pubv, &format!("{mixed}/{pubv}; tsk={}", hx(&mixed_bytes)));
        }
    }
    // ---- the v6 "octet count of the public key material" of the primary / subkey packet, edited the
    //      same way in the secret and in the public form of one certificate (oracles only)
    {
        let tsk = &fx.cert6;
        let sec_bytes = ser(tsk);
        let pub_bytes = ser(&SignedPublicKey::from(tsk.clone()));
        // offsets of the key packets (tags 5/7 resp. 6/14) and of their count fields
        let key_fields = |bytes: &[u8]| -> Vec<(usize, u32)> {
            let mut out = Vec::new();
            let mut off = 0usize;
            while off + 2 <= bytes.len() {
                let tag = bytes[off] & 0x3f;
                let (hdr, len) = if bytes[off + 1] < 192 {
                    (2usize, bytes[off + 1] as usize)
                } else if bytes[off + 1] < 224 {
                    (3, ((bytes[off + 1] as usize - 192) << 8) + bytes[off + 2] as usize + 192)
                } else if bytes[off + 1] == 255 {
                    (6, u32::from_be_bytes([bytes[off + 2], bytes[off + 3], bytes[off + 4], bytes[off + 5]]) as usize)
                } else {
                    break;
                };
                if [5u8, 6, 7, 14].contains(&tag) && len >= 10 {
                    let at = off + hdr + 6;
                    out.push((at, u32::from_be_bytes([bytes[at], bytes[at + 1], bytes[at + 2], bytes[at + 3]])));
                }
                off += hdr + len;
            }
            out
        };
        let fs = key_fields(&sec_bytes);
        let fp = key_fields(&pub_bytes);
        if fs.len() == fp.len() && !fs.is_empty() {
            for ki in 0..fs.len() {
                for delta in [1i64, 8, 968, -1, i64::MIN] {
                    let edit = |bytes: &[u8], f: (usize, u32)| -> Vec<u8> {
                        let v = if delta == i64::MIN { 0u32 } else { (f.1 as i64 + delta) as u32 };
                        let mut b = bytes.to_vec();
                        b[f.0..f.0 + 4].copy_from_slice(&v.to_be_bytes());
                        b
                    };
                    let sb = edit(&sec_bytes, fs[ki]);
                    let pb = edit(&pub_bytes, fp[ki]);
                    let sec = verdict(guarded(|| SignedSecretKey::from_bytes(&sb[..])), |k| k.verify_bindings());
                    let pubv = verdict(guarded(|| SignedPublicKey::from_bytes(&pb[..])), |k| k.verify_bindings());
                    ctx.stat(&format!("cert_v6_count:sec={sec}:pub={pubv}"));
                    ctx.oracle(
                        "public_and_secret_form_judged_alike",
                        "Signed{Secret,Public}Key::from_bytes + verify_bindings (v6 octet count of the public key material edited)",
                        &format!("v6 certificate, key packet #{ki}, count {} -> {}", fs[ki].1, if delta == i64::MIN { "0".to_string() } else { format!("{:+}", delta) }),
                        sec == pubv,
                        &format!("secret form: {sec}, public form: {pubv}; tsk={} tpk={}", hx(&sb), hx(&pb)),
                    );
                }
            }
        } else {
            ctx.note("v6 certificate: key packets not located");
        }
    }
    // v3 primary (tests/openpgp/pgp263-test.pub.asc) alone and with a subkey appended
    let repo = std::env::var("VERIF_REPO").unwrap_or_else(|_| "/repo".to_string());
    match std::fs::read_to_string(format!("{repo}/tests/openpgp/pgp263-test.pub.asc")) {
        Err(_) => ctx.note("v3 fixture tests/openpgp/pgp263-test.pub.asc not found; v2/v3 subkey rule exercised by the model only"),
        Ok(armored) => {
            if let Ok((k3, _)) = SignedPublicKey::from_string(&armored) {
                let pv = u8::from(k3.primary_key.version());
                let details_ok = guarded(|| k3.details.verify_bindings(&k3.primary_key)).map(|r| r.is_ok()).unwrap_or(false);
                let base = ser(&k3);
                let plain = verdict(guarded(|| SignedPublicKey::from_bytes(&base[..])), |k| k.verify_bindings());
                ctx.case(format!("c15_cert rep=pub pv={pv} details={} subs=-", details_ok as u8), plain.clone());
                // append a (v4) subkey packet with its binding signature taken from the v4 certificate
                let mut with_sub = base.clone();
                let sub = fx.cert4.secret_subkeys[0].clone();
                with_sub.extend_from_slice(&pkt_bytes(sub.key.public_key()));
                for sg in &sub.signatures {
                    with_sub.extend_from_slice(&pkt_bytes(sg));
                }
                let v = verdict(guarded(|| SignedPublicKey::from_bytes(&with_sub[..])), |k| k.verify_bindings());
                ctx.case(format!("c15_cert rep=pub pv={pv} details={} subs=p4:0.0.n", details_ok as u8), v.clone());
                ctx.stat(&format!("cert_versions:primary_v{pv}:alone={plain}:with_subkey={v}"));
                // ORACLE (mechanism "no subkeys on v2/v3")
                ctx.oracle("no_subkeys_on_v3_primary", "SignedPublicKey::from_bytes (key_parser::next)", "tests/openpgp/pgp263-test.pub.asc + v4 subkey packet + binding", v == "parse", &format!("{v}; tpk={}", hx(&with_sub)));
            } else {
                ctx.note("v3 fixture did not parse");
            }
        }
    }
}

pub fn run(ctx: &mut Ctx) {
    let mut rng = ChaCha8Rng::seed_from_u64(ctx.seed ^ 0xC15);
    let cert4 = gen_cert(&mut rng, false);
    let cert6 = gen_cert(&mut rng, true);
    let literal = pkt_bytes(&LiteralData::from_bytes("", PLAIN.to_vec().into()).expect("literal"));
    let fx = Fx { cert4, cert6, literal };
    let efx = build_esk_fx(&mut rng, &fx);
    section_esk(ctx, &fx, &efx);
    section_versions(ctx, &fx);
    section_ops(ctx, &fx);
    section_subpackets(ctx, &fx);
    section_certs(ctx, &fx, &mut rng);
}
