import RpgpProofs.Stream
import RpgpProofs.StreamComponents
import RpgpProofs.Canon
import RpgpProofs.CanonReader
import RpgpProofs.Framing
import RpgpProofs.Seipd1
import RpgpProofs.Utf8
import RpgpProofs.StreamFail
import RpgpProofs.PacketIter
import RpgpProofs.StreamIntr
/-!
# C09 — streaming is transparent: results independent of I/O fragmentation and faults

The property has three independent quantifiers; each is discharged by one generic theorem about
the streaming idiom rpgp uses everywhere, plus one small obligation per component:

* **source schedules** — every component pulls its input through `fill_buffer` /
  `fill_buffer_bytes`; `fill_buffer_schedule_independent` shows that what they return depends only
  on the byte string, never on how the source fragments it.
* **consumer schedules** — every `Read` implementation is a *buffered producer* (refill when the
  internal buffer is empty, hand out `min(request, available)`); `consumer_schedule_independent`
  shows all consumers reading to the end obtain the same bytes **iff** no refill block before the
  last is empty (`NoSpuriousEOF`), which is then proved per component.
* **faults** — `fill_buffer_error_not_swallowed` and `failing_refill_surfaces`: an error is either
  returned or still pending; a clean end of stream implies no refill failed and nothing is missing.
  A consumer may also keep polling after an error (`std::io::copy` does on `Interrupted`): for the
  stream encryptors (`StreamFail.lean`) `encryptor_error_is_sticky` shows every later `read` fails too,
  and `encryptor_releases_only_transformed_data` that nothing but `enc` of source segments (then the
  trailer) is ever handed out — in the pinned tree the refill buffer, which holds plaintext at that
  point, was handed out by the next `read` (`prefix_encryptor_leaks_refill_buffer_witness`).
-/
namespace Rpgp.C09
open Rpgp

/-! ## the three generic theorems -/

/-- `fill_buffer` returns exactly the first `n` bytes of the stream (or all of it), whatever the
read schedule of the source, and leaves the rest in the source -/
theorem fill_buffer_schedule_independent (src : List Bytes) (n : Nat) (h : AllNonEmpty src) :
    (fillBuffer (n + 1) src n).1 = src.flatten.take n ∧
    (fillBuffer (n + 1) src n).2.flatten = src.flatten.drop n :=
  ⟨(fillBuffer_spec _ src n h (by omega)).1, (fillBuffer_spec _ src n h (by omega)).2.1⟩

theorem fill_buffer_same_for_all_schedules (s s' : List Bytes) (n : Nat)
    (h : AllNonEmpty s) (h' : AllNonEmpty s') (heq : s.flatten = s'.flatten) :
    (fillBuffer (n + 1) s n).1 = (fillBuffer (n + 1) s' n).1 :=
  fillBuffer_chunk_indep s s' n h h' heq

/-- two consumers with arbitrary positive request sizes that both read to the end obtain the same
bytes from a buffered producer without spurious EOF -/
theorem consumer_schedule_independent (reqs reqs' : List Nat) (buf : Bytes) (bs : List Bytes)
    (h : ∀ r ∈ reqs, 0 < r) (h' : ∀ r ∈ reqs', 0 < r) (hb : NoSpuriousEOF bs)
    (he : (bpDrain buf bs reqs).2 = true) (he' : (bpDrain buf bs reqs').2 = true) :
    (bpDrain buf bs reqs).1 = (bpDrain buf bs reqs').1 :=
  bpDrain_request_indep reqs reqs' buf bs h h' hb he he'

/-- … and conversely an empty block before the end IS a spurious end of stream (the shape of the
defect repaired in `crypto/sym/encryptor.rs`) -/
theorem empty_block_is_spurious_eof (post : List Bytes) (reqs : List Nat) (n : Nat) :
    bpDrain [] ([] :: post) (n :: reqs) = ([], true) :=
  bpDrain_spurious [] post reqs n

/-- an error raised by the source is never swallowed by `fill_buffer`: on `Ok` the returned bytes
are exactly those preceding, and a pending error is still pending afterwards -/
theorem fill_buffer_error_not_swallowed (fuel : Nat) (src : List Ev) (n : Nat) (bs : Bytes) (src' : List Ev)
    (h : fillBufferEv fuel src n = some (bs, src')) :
    evHasErr src = evHasErr src' ∧ evPrefix src = bs ++ evPrefix src' ∧ bs.length ≤ n :=
  fillBufferEv_conserves fuel src n bs src' h

/-- a consumer that sees a clean end of stream from a producer whose refills may fail has seen
every block and no failure: an error is never converted into a clean, shorter result -/
theorem failing_refill_surfaces (reqs : List Nat) (buf : Bytes) (bs : List (Option Bytes)) (out : Bytes)
    (hr : ∀ r ∈ reqs, 0 < r) (hne : ∀ x, some x ∈ bs.dropLast → x ≠ [])
    (h : bpDrainF buf bs reqs = (out, some true)) :
    none ∉ bs ∧ out = buf ++ (bs.filterMap id).flatten :=
  bpDrainF_clean reqs buf bs out hr hne h

/-! ## per-component obligations -/

/-- signature hasher (`NormalizingHasher`): independent of how `write` calls split the data -/
theorem hasher_chunk_independent (c c' : List Bytes) (h : c.flatten = c'.flatten) :
    hashedText c = hashedText c' := by
  have e1 := (hasher_fold c {} [] rfl rfl).1
  have e2 := (hasher_fold c' {} [] rfl rfl).1
  simp only [List.nil_append] at e1 e2
  simp [hashedText, Hasher.done, e1, e2, h]

/-- `NormalizedReader`: no spurious EOF for the extracted window, source-schedule independent -/
theorem normalized_reader_no_spurious_eof (d : Bytes) :
    NoSpuriousEOF (nrBlocks CRLF Gen.normalizedReaderWindow (nrInit Gen.normalizedReaderWindow) d) :=
  nrBlocks_noSpurious _ (by decide) d.length d _ (Nat.le_refl _) (by simp [nrInit])

/-- CFB `StreamEncryptor` (Prefix → Data → Mdc): every block it hands out is non-empty and they
concatenate to the RFC layout, for every plaintext length including 0 and multiples of the buffer -/
theorem cfb_encryptor_blocks (B : Nat) (hB : 0 < B) (pre pt mdc : Bytes) (hp : pre ≠ []) (hm : mdc ≠ []) :
    AllNonEmpty (cfbEncBlocks B pre pt mdc) ∧ (cfbEncBlocks B pre pt mdc).flatten = pre ++ pt ++ mdc :=
  ⟨cfbEncBlocks_nonempty B hB pre pt mdc hp hm, cfbEncBlocks_flatten B hB pre pt mdc⟩

/-- SEIPDv2 decryptor: blocks released before the last refill are full plaintext chunks -/
theorem aead_decryptor_no_spurious_eof (A : Aead) (T : Nat) (L : AeadLaws A T) (info : Bytes) (cs : Nat)
    (hcs : 0 < cs) (ct : Bytes) (fuel : Nat) :
    NoSpuriousEOF (seipd2Dec A info cs T 2 fuel [] 0 0 ct).1 :=
  seipd2Dec_noSpurious A T L info cs 2 hcs (by decide) fuel [] 0 0 ct (by simp)

/-- partial-body emitters: the stream they write does not depend on the source schedule (they
read through `fill_buffer`) and is read back whatever the payload length (from C17) -/
theorem emitter_roundtrip (tag k : Nat) (hdr body rest : Bytes)
    (hallow : partialAllowed tag = true) (hk9 : 9 ≤ k) (hk30 : k ≤ 30) (hh : hdr.length ≤ 2 ^ k)
    (hb : hdr.length + body.length < 4294967296) :
    ∃ h, deframe (emitPartial tag k hdr body ++ rest) = .ok (h, hdr ++ body, rest) ∧ h.tag = tag :=
  deframe_emitPartial tag k hdr body rest hallow hk9 hk30 hh hb

/-- `Utf8CheckReader` (UTF-8 overhang carried across reads): for any "valid up to" function with
the prefix laws of a left-to-right scanner over sequences of at most four octets, the reader
accepts a stream, however it is fragmented, iff the whole stream is valid -/
theorem utf8_check_chunk_independent (vut : Bytes → Nat) (L : VutLaws vut) (hnil : vut [] = 0)
    (cs : List Bytes) :
    utf8CheckChunks vut [] cs = true ↔ vut cs.flatten = cs.flatten.length :=
  utf8Check_chunk_independent vut L hnil cs

/-! ## polling a stream encryptor after a failure -/

/-- once a `read` of a stream encryptor has failed (its source failed during a refill), every later
`read` fails: for every source event list, every request schedule, every refill size -/
theorem encryptor_error_is_sticky (B fuel : Nat) (enc : Bytes → Bytes) (trailer : Bytes)
    (reqs : List Nat) (st : EncSt) (src : List Ev) (pre post : List RdRes)
    (h : encPoll B fuel enc trailer st src reqs = pre ++ RdRes.fail :: post) :
    ∀ r ∈ post, r = RdRes.fail :=
  encPoll_after_fail B fuel enc trailer reqs st src pre post h

/-- whatever the consumer does — any request sizes, polling on after errors — a stream encryptor
started with `queued` already-encrypted octets (the CFB prefix; nothing for AEAD) hands out only a
prefix of: `queued`, then `enc` of consecutive non-empty segments (≤ `B` octets each) of what the
source delivered before its first failure, then possibly the trailer. In particular never octets of
the source that did not go through `enc`. -/
theorem encryptor_releases_only_transformed_data (B fuel : Nat) (enc : Bytes → Bytes) (trailer queued : Bytes)
    (reqs : List Nat) (src : List Ev) :
    ∃ segs : List Bytes, segs.flatten <+: evPrefix src ∧ (∀ s ∈ segs, s ≠ [] ∧ s.length ≤ B) ∧
      (released (encPoll B fuel enc trailer ⟨queued, false, false⟩ src reqs) <+: queued ++ (segs.map enc).flatten ∨
       released (encPoll B fuel enc trailer ⟨queued, false, false⟩ src reqs) <+: queued ++ (segs.map enc).flatten ++ trailer) := by
  obtain ⟨segs, h1, h2, h3⟩ := encStream_sound B fuel enc trailer reqs.length src
  have hr := encPoll_released B fuel enc trailer reqs ⟨queued, false, false⟩ src rfl
  simp only [Bool.false_eq_true, if_false] at hr
  refine ⟨segs, h1, h2, ?_⟩
  rcases h3 with h | h
  · left; rw [← h]; exact hr
  · right; rw [List.append_assoc, ← h]; exact hr

/-- a failed encryptor: all further reads fail and release nothing -/
theorem encryptor_failed_releases_nothing (B fuel : Nat) (enc : Bytes → Bytes) (trailer : Bytes)
    (reqs : List Nat) (st : EncSt) (src : List Ev) (h : st.failed = true) :
    released (encPoll B fuel enc trailer st src reqs) = [] := by
  rw [encPoll_failed B fuel enc trailer reqs st src h, released_fails]

/-- regression witness about the state machine as it was before the repair (`encReadPreFix`): the
source delivers `[1, 2]`, then fails; the read fails, and the NEXT read hands out the refill buffer
`[1, 2, 0, 0]` — plaintext that never went through `enc` -/
theorem prefix_encryptor_leaks_refill_buffer_witness :
    let enc : Bytes → Bytes := fun b => b.map (· + 100)
    let r1 := encReadPreFix 4 8 enc [7] (fun _ => [1, 2, 0, 0]) ⟨[], false, false⟩ [.data [1, 2], .err, .data [3]] 4
    let r2 := encReadPreFix 4 8 enc [7] (fun _ => [1, 2, 0, 0]) r1.2.1 r1.2.2 4
    r1.1 = .fail ∧ r2.1 = .bytes [1, 2, 0, 0] := by decide

/-- the same two reads on the repaired state machine: both fail -/
theorem encryptor_second_read_fails_witness :
    let enc : Bytes → Bytes := fun b => b.map (· + 100)
    encPoll 4 8 enc [7] ⟨[], false, false⟩ [.data [1, 2], .err, .data [3]] [4, 4, 4] = [.fail, .fail, .fail] := by decide

/-! ## interrupted reads (`util::fill_buffer`) -/

/-- a source whose reads are *interrupted* (`ErrorKind::Interrupted`: retry, says the `Read`
contract) is just another way of delivering the same data: `fill_buffer` returns the same octets,
leaves the same source behind and fails in the same cases as over the source without the
interruptions (D14c: before the repair the interruption was returned and what had been read so far
was forgotten — consumers that retried continued with a hole) -/
theorem fill_buffer_interruptions_transparent (src : List EvI) (n fuelI fuel : Nat)
    (h1 : src.length + n ≤ fuelI) (h2 : src.length + n ≤ fuel) :
    RestAgrees (fillBufferIntr fuelI src n) (fillBufferEv fuel (dropIntr src) n) := by
  simp only [fillBufferIntr, fixD14c_on, decide_true]
  exact fillBufferI_transparent fuelI fuel src n h1 h2

theorem fill_buffer_interrupted_witness :
    fillBufferI false 8 [.data [1, 2], .intr, .data [3, 4]] 4 = none ∧
    fillBufferI true 8 [.data [1, 2], .intr, .data [3, 4]] 4 = some ([1, 2, 3, 4], []) :=
  fillBuffer_interrupted_witness

/-! ## the packet iterator over a reader that fails (`packet/many.rs`) -/

/-- "an error raised by the underlying source surfaces as an error and is never converted into a
clean, shorter result", at the place where a stream of packets is cut into packets: when the reader
below fails — with whatever kind, `UnexpectedEof` included — while the next header is being read,
`PacketParser::next_ref` (message reader, trailing-data check) reports an error -/
theorem next_ref_source_error_surfaces (pre : Bytes) (eofKind : Bool)
    (h : ∀ hd rest, parseHeader pre ≠ .ok (hd, rest)) :
    PacketIter.nextRef pre (.failed eofKind) = .err := by
  rw [PacketIter.nextRef_eq]; exact PacketIter.nextWith_failed_is_err pre eofKind h

/-- … and so does the iterator the composed parsers (keys, signatures) are built on -/
theorem iterator_source_error_surfaces (pre : Bytes) (eofKind : Bool)
    (h : ∀ hd rest, parseHeader pre ≠ .ok (hd, rest)) :
    PacketIter.nextIter pre (.failed eofKind) = .err := by
  rw [PacketIter.nextIter_eq]; exact PacketIter.nextWith_failed_is_err pre eofKind h

/-- the packets end only where the input ends -/
theorem packets_end_only_where_the_input_ends (pre : Bytes) (t : PacketIter.Tail) :
    (PacketIter.nextRef pre t = .done → t = .ended) ∧ (PacketIter.nextIter pre t = .done → t = .ended) := by
  rw [PacketIter.nextRef_eq, PacketIter.nextIter_eq]
  exact ⟨PacketIter.nextWith_done_only_at_end pre t, PacketIter.nextWith_done_only_at_end pre t⟩

/-- regression witness (D4n / D4p before the repairs) -/
theorem packet_iterator_swallowed_unexpected_eof_witness :
    PacketIter.nextWith false [0xC2] (.failed true) = .done ∧
    PacketIter.nextWith true [0xC2] (.failed true) = .err ∧
    PacketIter.nextWith false [0xC2] (.failed false) = .err :=
  PacketIter.prefix_swallows_unexpected_eof_witness

/-- the CFB encryptor's buffer size used in the instantiation -/
theorem constants : 22 < Gen.symDecBufferSize ∧ 2 ≤ Gen.normalizedReaderWindow := by decide

/-! ## non-vacuity -/

example : AllNonEmpty [[1, 2], [3]] := by intro c hc; simp at hc; rcases hc with rfl | rfl <;> simp
example : fillBuffer 4 [[1, 2], [3]] 3 = ([1, 2, 3], []) := by decide
example : fillBufferEv 4 [.data [1], .err, .data [2]] 3 = none := by decide
example : bpDrainF [] [some [1, 2], none, some [3]] [1, 1, 1, 1] = ([1, 2], some false) := by decide
example : cfbEncBlocks 4 [9, 9] [] [7] = [[9, 9], [7]] := by decide
example : PacketIter.nextRef [0xCB, 3, 1, 2] .ended = .hdr { newFormat := true, tag := 11, len := .fixed 3 } [1, 2] ∧
    PacketIter.nextRef [] .ended = .done ∧ PacketIter.nextRef [0xCB] .ended = .done ∧
    PacketIter.nextRef [0x00] .ended = .err := by decide
example : encPoll 2 8 (fun b => b.map (· + 100)) [7] ⟨[9], false, false⟩ [.data [1, 2, 3]] [8, 8, 8, 8, 8] =
    [.bytes [9], .bytes [101, 102], .bytes [103], .bytes [7], .bytes []] := by decide

end Rpgp.C09
