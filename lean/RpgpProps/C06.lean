import RpgpProofs.SignVerify
import RpgpProofs.SignVerifyCleartext
import RpgpProofs.SignVerifyBody
import RpgpProofs.Message
import RpgpModel.Gen.Constants
/-!
# C06 — signature completeness: what any signing API signs, every verify API accepts

Model: `RpgpModel/SignVerify.lean` (namespace `Rpgp.SV`): for every signing interface the byte
string it feeds to the digest as a function of the payload, and for every verifying interface
likewise, kept separate where the code has two implementations (streaming `NormalizingHasher` on
the sign side and for inline verification; `NormalizedReader` for detached verification and
cleartext signing; `normalize_lines` for `new_many` / `signed_text`).  Canonicalisation itself is
the C14 layer (`Canon.lean`), reused here through `hasher_fold`, `normalizedRead_eq_canon`,
`replaceNewlines_crlf`.

Every theorem quantifies over ALL payloads, ALL chunkings / read schedules of the source, all
window / buffer sizes > 0, v4 and v6 configurations, any public-key algorithm and hash (they are
octets of the configuration), any number of signers.

The two cleartext defects of the original snapshot (D6b: sign hashed the untrimmed text; D16b: a
final lone CR was lost in the armored round trip) are repaired in this tree (commits 0bd5542,
39f6afe); `cleartext_agree` and `roundtrip_preserves_verify` are therefore stated and proved at full
strength, without the guards `NoTrailingBlank` / `¬EndsWithCR` of the earlier `…_partial` versions.
-/
namespace Rpgp.C06
open Rpgp Rpgp.SV

/-! ## constants re-extracted from the sources on every run -/

/-- RFC 9580 §5.2.1: binary document = 0x00, canonical text document = 0x01 -/
theorem sig_type_ids_rfc : Gen.sigTypeBinary = 0 ∧ Gen.sigTypeText = 1 := by decide

/-- RFC 9580 §5.2.4: trailer = version, 0xFF, four-octet length (at offset 2) -/
theorem trailer_layout_rfc : Gen.sigTrailerMarker = 255 ∧ Gen.sigTrailerLenOffset = 2 := by decide

/-- the certification prefix octets of the sign site (`config.rs`) and of the verify site
(`types.rs`) are the same … -/
theorem cert_prefix_sites_agree :
    Gen.certPrefixUidSign = Gen.certPrefixUidVerify ∧ Gen.certPrefixAttrSign = Gen.certPrefixAttrVerify := by decide

/-- … and are the RFC's 0xB4 / 0xD1 -/
theorem cert_prefix_rfc : Gen.certPrefixUidVerify = 0xB4 ∧ Gen.certPrefixAttrVerify = 0xD1 := by decide

/-- key framing octets 0x99 (v4) / 0x9B (v6) -/
theorem key_frame_rfc : Gen.keyFrameV4 = 0x99 ∧ Gen.keyFrameV6 = 0x9B := by decide

/-- the window of `NormalizedReader` and the read size of inline verification are positive (the
theorems below hold for every positive value; these are the instances the code uses) -/
theorem extracted_sizes_ok : 0 < Gen.normalizedReaderWindow ∧ 0 < Gen.signedManyBufferSize := by decide

/-! ## the streaming hasher in both modes, for every chunking -/

/-- binary mode: the digest sees the concatenation of the chunks -/
theorem hasher_binary_is_identity (chunks : List Bytes) : hasherFeed false chunks = chunks.flatten :=
  hasherFeed_false chunks

/-- text mode: the digest sees `canon` of the concatenation of the chunks -/
theorem hasher_text_is_canon (chunks : List Bytes) : hasherFeed true chunks = canon chunks.flatten :=
  hasherFeed_true chunks

/-- the pre-image determines the hashed data (same configuration): nothing is lost by framing -/
theorem preimage_data_injective (c : SigCfg) (d d' : Bytes) (h : preimage c d = preimage c d') : d = d' := by
  unfold preimage at h
  rw [List.append_assoc, List.append_assoc] at h
  exact List.append_cancel_right (List.append_cancel_left h)

/-! ## sign side: every data-signing interface hashes the same function of the payload -/

/-- `SignatureConfig::sign`: for every read schedule `src` of the data -/
theorem sign_config_input (kv : Nat) (c : SigCfg) (src : List Bytes) :
    signConfig kv c src =
      if signAligned kv c.ver && dataSigType c.typ then some (preimage c (dataHashed c.textMode src.flatten))
      else none :=
  signConfig_eq kv c src

/-- … hence independent of how the source delivers the data -/
theorem sign_chunk_indep (kv : Nat) (c : SigCfg) (src src' : List Bytes) (h : src.flatten = src'.flatten) :
    signConfig kv c src = signConfig kv c src' := by
  rw [sign_config_input, sign_config_input, h]

/-- `DetachedSignature::sign_binary_data` hashes the data, `sign_text_data` its canonical form,
under a configuration of the signer's key version -/
theorem sign_detached_input (text : Bool) (kv : Nat) (hkv : kv = 4 ∨ kv = 6) (c : SigCfg) (src : List Bytes) :
    signDetached text kv c src =
      some (preimage { c with ver := kv, typ := if text then Gen.sigTypeText else Gen.sigTypeBinary }
        (dataHashed text src.flatten)) := by
  unfold signDetached
  rw [if_pos hkv, sign_config_input]
  have hal : signAligned kv kv = true := by rcases hkv with h | h <;> subst h <;> decide
  have hbt : isText Gen.sigTypeBinary = false := by decide
  have htt : isText Gen.sigTypeText = true := by decide
  have hdb : dataSigType Gen.sigTypeBinary = true := by decide
  have hdt : dataSigType Gen.sigTypeText = true := by decide
  cases text
  · simp [hal, SigCfg.textMode, hbt, hdb]
  · simp [hal, SigCfg.textMode, htt, hdt]

/-- `MessageBuilder` with any number of signers: each signer's hasher sees what
`SignatureConfig::sign` would see for the same source -/
theorem sign_builder_input (signers : List (Nat × SigCfg)) (src : List Bytes) :
    signBuilder signers src = signers.map fun s =>
      if signAligned s.1 s.2.ver && dataSigType s.2.typ then
        some (preimage s.2 (dataHashed s.2.textMode src.flatten))
      else none := by
  unfold signBuilder
  apply List.map_congr_left
  intro s _
  exact sign_config_input s.1 s.2 src

/-- the sign-side guard (signature version = key version ∈ {4, 6}) implies the verify-side
version-alignment guard -/
theorem sign_guard_implies_verify_guard (kv sv : Nat) (h : signAligned kv sv = true) :
    verifyAligned kv sv = true :=
  signAligned_verifyAligned kv sv h

/-! ## verify side -/

/-- `Signature::verify` / `DetachedSignature::verify`: for every window `W > 0` and every read
schedule of the data -/
theorem verify_detached_input (W : Nat) (hW : 0 < W) (kv : Nat) (c : SigCfg) (src : List Bytes)
    (hsrc : AllNonEmpty src) :
    verifyDetached W kv c src =
      if verifyAligned kv c.ver && dataSigType c.typ then some (preimage c (dataHashed c.textMode src.flatten))
      else none :=
  verifyDetached_eq W hW kv c src hsrc

/-- inline verification of a one-pass signed message: for every read size `B > 0` -/
theorem verify_inline_ops_input (B : Nat) (hB : 0 < B) (c : SigCfg) (hc : WFCfg c) (body : Bytes) :
    verifyInlineOps B (opsOf c) c body = some (preimage c (dataHashed c.textMode body)) :=
  verifyInlineOps_eq B hB c hc body

/-- inline verification of a prefixed signature packet -/
theorem verify_inline_sig_input (B : Nat) (hB : 0 < B) (c : SigCfg) (body : Bytes) :
    verifyInlineSig B c body = some (preimage c (dataHashed c.textMode body)) :=
  verifyInlineSig_eq B hB c body

/-! ## headline: sign-side and verify-side computations agree on EVERY input, for every pairing -/

/-- **Data signatures, all pairings.**  Whatever `SignatureConfig::sign` (hence the detached
interfaces and every signer of the message builder) hashed for a payload delivered as `src`, each
of the three verifying paths — `Signature::verify` over any read schedule `src'` of the same
payload, inline verification through the one-pass packet, inline verification of a prefixed
signature packet — hashes exactly the same bytes. -/
theorem data_signature_agree (W B : Nat) (hW : 0 < W) (hB : 0 < B) (kv : Nat) (c : SigCfg) (hc : WFCfg c)
    (src src' : List Bytes) (hsrc' : AllNonEmpty src') (hflat : src.flatten = src'.flatten)
    (p : Bytes) (hsign : signConfig kv c src = some p) :
    verifyDetached W kv c src' = some p ∧
    verifyInlineOps B (opsOf c) c src'.flatten = some p ∧
    verifyInlineSig B c src'.flatten = some p := by
  rw [sign_config_input] at hsign
  by_cases hg : (signAligned kv c.ver && dataSigType c.typ) = true
  · rw [if_pos hg] at hsign
    simp only [Bool.and_eq_true] at hg
    have hp : p = preimage c (dataHashed c.textMode src'.flatten) := by
      rw [← hflat]; exact (Option.some.inj hsign).symm
    refine ⟨?_, ?_, ?_⟩
    · rw [verify_detached_input W hW kv c src' hsrc', signAligned_verifyAligned _ _ hg.1, hg.2, hp]
      rfl
    · rw [verify_inline_ops_input B hB c hc, hp]
    · rw [verify_inline_sig_input B hB c, hp]
  · rw [if_neg hg] at hsign
    exact absurd hsign (by simp)

/-- `sign_verify_agree_binary`: both sides hash the bytes of the document -/
theorem sign_verify_agree_binary (W B : Nat) (hW : 0 < W) (hB : 0 < B) (kv : Nat) (c : SigCfg) (hc : WFCfg c)
    (hbin : c.typ = Gen.sigTypeBinary) (hal : signAligned kv c.ver = true)
    (src src' : List Bytes) (hsrc' : AllNonEmpty src') (hflat : src.flatten = src'.flatten) :
    signConfig kv c src = some (preimage c src.flatten) ∧
    verifyDetached W kv c src' = some (preimage c src.flatten) ∧
    verifyInlineOps B (opsOf c) c src'.flatten = some (preimage c src.flatten) ∧
    verifyInlineSig B c src'.flatten = some (preimage c src.flatten) := by
  have hs : signConfig kv c src = some (preimage c src.flatten) := by
    rw [sign_config_input, hal]
    have : c.textMode = false := by rw [SigCfg.textMode, hbin]; decide
    have hd : dataSigType c.typ = true := by rw [hbin]; decide
    simp [this, hd, dataHashed]
  exact ⟨hs, data_signature_agree W B hW hB kv c hc src src' hsrc' hflat _ hs⟩

/-- `sign_verify_agree_text`: for every document and every chunking on either side, both sides hash
`canon` of the document (unconditional since the `done` defect D6a is repaired: hasher = reader =
canon) -/
theorem sign_verify_agree_text (W B : Nat) (hW : 0 < W) (hB : 0 < B) (kv : Nat) (c : SigCfg) (hc : WFCfg c)
    (htext : c.typ = Gen.sigTypeText) (hal : signAligned kv c.ver = true)
    (src src' : List Bytes) (hsrc' : AllNonEmpty src') (hflat : src.flatten = src'.flatten) :
    signConfig kv c src = some (preimage c (canon src.flatten)) ∧
    verifyDetached W kv c src' = some (preimage c (canon src.flatten)) ∧
    verifyInlineOps B (opsOf c) c src'.flatten = some (preimage c (canon src.flatten)) ∧
    verifyInlineSig B c src'.flatten = some (preimage c (canon src.flatten)) := by
  have hs : signConfig kv c src = some (preimage c (canon src.flatten)) := by
    rw [sign_config_input, hal]
    have : c.textMode = true := by rw [SigCfg.textMode, htext]; decide
    have hd : dataSigType c.typ = true := by rw [htext]; decide
    simp [this, hd, dataHashed]
  exact ⟨hs, data_signature_agree W B hW hB kv c hc src src' hsrc' hflat _ hs⟩

/-- a text signature does not depend on the line-ending convention of the copy that is verified:
signing the LF form and verifying the CRLF form (or any mixture with the same canonical form)
agree -/
theorem text_signature_line_ending_indep (W : Nat) (hW : 0 < W) (kv : Nat) (c : SigCfg)
    (htext : c.typ = Gen.sigTypeText) (src src' : List Bytes) (hsrc' : AllNonEmpty src')
    (hcanon : canon src.flatten = canon src'.flatten) (p : Bytes) (hsign : signConfig kv c src = some p) :
    verifyDetached W kv c src' = some p := by
  rw [sign_config_input] at hsign
  by_cases hg : (signAligned kv c.ver && dataSigType c.typ) = true
  · rw [if_pos hg] at hsign
    simp only [Bool.and_eq_true] at hg
    have ht : c.textMode = true := by rw [SigCfg.textMode, htext]; decide
    rw [verify_detached_input W hW kv c src' hsrc', signAligned_verifyAligned _ _ hg.1, hg.2]
    simp only [Bool.and_self, if_true]
    rw [← Option.some.inj hsign, ht]
    simp [dataHashed, hcanon]
  · rw [if_neg hg] at hsign
    exact absurd hsign (by simp)

/-- the single `preimage` function that the message model of C01 (`MsgPrims.preimage`, used by both
`signedStream` and `readSigned`) takes as a parameter is what both sides of the code compute:
builder side over any source chunking, reader side over any read size -/
theorem inline_preimage_is_one_function (B : Nat) (hB : 0 < B) (kv : Nat) (c : SigCfg) (hc : WFCfg c)
    (hal : signAligned kv c.ver = true) (hty : dataSigType c.typ = true)
    (src : List Bytes) (payload : Bytes) (hflat : src.flatten = payload) :
    (signBuilder [(kv, c)] src).head? = some (some (preimage c (dataHashed c.textMode payload))) ∧
    verifyInlineOps B (opsOf c) c payload = some (preimage c (dataHashed c.textMode payload)) := by
  refine ⟨?_, verify_inline_ops_input B hB c hc payload⟩
  rw [sign_builder_input]
  simp [hal, hty, hflat]

/-! ## the signature object: verification succeeds -/

/-- `signed_hash_value` check and the public-key check both pass on the pre-image that was signed -/
theorem check_of_mk (P : SigPrims) (L : SigPrimLaws P) (c : SigCfg) (pre : Bytes) :
    checkSignature P (mkSignature P c pre) pre = true := by
  simp [checkSignature, mkSignature, L.verify_sign]

/-- **Completeness for data signatures.**  A signature produced by `SignatureConfig::sign` (detached
binary/text, low level, or any signer of the message builder) over a payload verifies through
`Signature::verify`, through inline verification with its one-pass packet, and as a prefixed
signature packet — for every payload, chunking, window and buffer size. -/
theorem data_signature_complete (P : SigPrims) (L : SigPrimLaws P) (W B : Nat) (hW : 0 < W) (hB : 0 < B)
    (kv : Nat) (c : SigCfg) (hc : WFCfg c) (src src' : List Bytes) (hsrc' : AllNonEmpty src')
    (hflat : src.flatten = src'.flatten) (s : SigPacket) (hsign : signWith P c (signConfig kv c src) = some s) :
    verifyWith P s (verifyDetached W kv s.cfg src') = true ∧
    verifyWith P s (verifyInlineOps B (opsOf s.cfg) s.cfg src'.flatten) = true ∧
    verifyWith P s (verifyInlineSig B s.cfg src'.flatten) = true := by
  unfold signWith at hsign
  cases hp : signConfig kv c src with
  | none => rw [hp] at hsign; simp at hsign
  | some p =>
    rw [hp] at hsign
    simp only [Option.map_some, Option.some.injEq] at hsign
    subst hsign
    obtain ⟨h1, h2, h3⟩ := data_signature_agree W B hW hB kv c hc src src' hsrc' hflat p hp
    simp only [mkSignature] at *
    rw [h1, h2, h3]
    simp only [verifyWith]
    exact ⟨check_of_mk P L c p, check_of_mk P L c p, check_of_mk P L c p⟩

/-- … and through the composed message path of C01: the message the builder writes with this
pre-image function is read back with the payload intact and every signature verified
(`C01.message_roundtrip`, instantiated at the pre-image both sides were shown to compute) -/
theorem message_sign_verify_roundtrip (base : MsgPrims) (cfgs : Nat → SigCfg)
    (LS : SigLaws { base with preimage := fun i d => preimage (cfgs i) (dataHashed (cfgs i).textMode d) })
    (c : MsgCfg) (payload : Bytes)
    (hk : ∀ k, c.lit = .part k → 9 ≤ k ∧ k ≤ 30 ∧ c.litHdr.length ≤ 2 ^ k)
    (hlen : c.litHdr.length + payload.length < 4294967296)
    (hops : ∀ i ∈ c.signers, (base.opsBody i).length < 4294967296)
    (hsig : ∀ i ∈ c.signers,
      (base.sigBody i (preimage (cfgs i) (dataHashed (cfgs i).textMode payload))).length < 4294967296) :
    readSigned { base with preimage := fun i d => preimage (cfgs i) (dataHashed (cfgs i).textMode d) }
        c.litHdr.length c.signers
        (signedStream { base with preimage := fun i d => preimage (cfgs i) (dataHashed (cfgs i).textMode d) } c payload) =
      some { payload := payload, verified := List.replicate c.signers.length true } :=
  readSigned_signedStream _ LS c payload hk hlen hops hsig

/-! ## cleartext signature framework -/

/-- `CleartextSignedMessage::{sign, new}` hash the canonical form of the text with the trailing
blanks of every line removed (for every window and copy granularity) -/
theorem cleartext_sign_input (W k : Nat) (hW : 0 < W) (hk : 0 < k) (kv : Nat) (c : SigCfg) (t : Bytes) :
    signCleartextNew W k kv c t =
      if signAligned kv c.ver && dataSigType c.typ then some (preimage c (canon (trimLines t))) else none :=
  signCleartextNew_eq W k hW hk kv c t

/-- `new_many` with the standard closure: the same -/
theorem cleartext_many_input (k : Nat) (hk : 0 < k) (kv : Nat) (c : SigCfg) (t : Bytes) :
    signCleartextMany k kv c t =
      if signAligned kv c.ver && dataSigType c.typ then some (preimage c (canon (trimLines t))) else none :=
  signCleartextMany_eq k hk kv c t

/-- the two cleartext signing entry points agree with each other on every text -/
theorem cleartext_sign_interfaces_agree (W k k' : Nat) (hW : 0 < W) (hk : 0 < k) (hk' : 0 < k')
    (kv : Nat) (c : SigCfg) (t : Bytes) :
    signCleartextNew W k kv c t = signCleartextMany k' kv c t := by
  rw [cleartext_sign_input W k hW hk, cleartext_many_input k' hk']

/-- `dash_unescape_and_trim ∘ dash_escape` is per-line trimming, for every text -/
theorem unescape_escape_is_trim (t : Bytes) : dashUnescapeTrim (dashEscape t) = trimLines t :=
  dashUnescapeTrim_dashEscape t

/-- `CleartextSignedMessage::verify` on the message object that signing produced hashes the
canonical form of the trimmed text -/
theorem cleartext_verify_input (W : Nat) (hW : 0 < W) (kv : Nat) (c : SigCfg) (t : Bytes) :
    verifyCleartext W kv c (dashEscape t) =
      if verifyAligned kv c.ver && dataSigType c.typ then some (preimage c (canon (trimLines t))) else none := by
  rw [verifyCleartext_eq W hW, unescape_escape_is_trim]

/-- **`cleartext_agree`** (full statement; the guard `NoTrailingBlank` of the earlier
`cleartext_agree_partial` is gone since the repair of D6b): for EVERY text the cleartext verify
computation hashes what the cleartext sign computation hashed -/
theorem cleartext_agree (W k : Nat) (hW : 0 < W) (hk : 0 < k) (kv : Nat) (c : SigCfg)
    (hal : signAligned kv c.ver = true) (hty : dataSigType c.typ = true) (t : Bytes) :
    verifyCleartext W kv c (dashEscape t) = signCleartextNew W k kv c t := by
  rw [cleartext_verify_input W hW, cleartext_sign_input W k hW hk, hal, hty,
    signAligned_verifyAligned _ _ hal]

/-- the former D6b witnesses now agree -/
theorem cleartext_former_witnesses_agree (W k : Nat) (hW : 0 < W) (hk : 0 < k) (kv : Nat) (c : SigCfg)
    (hal : signAligned kv c.ver = true) (hty : dataSigType c.typ = true) :
    verifyCleartext W kv c (dashEscape [97, 98, 99, SP, LF, 120]) = signCleartextNew W k kv c [97, 98, 99, SP, LF, 120] ∧
    verifyCleartext W kv c (dashEscape [97, 98, 99, TAB, LF]) = signCleartextNew W k kv c [97, 98, 99, TAB, LF] :=
  ⟨cleartext_agree W k hW hk kv c hal hty _, cleartext_agree W k hW hk kv c hal hty _⟩

/-- trailing blanks are not part of the signed text (RFC 9580 §7.2): texts with the same trimmed
form are signed identically -/
theorem cleartext_trailing_blanks_not_signed (W k : Nat) (hW : 0 < W) (hk : 0 < k) (kv : Nat) (c : SigCfg)
    (t t' : Bytes) (h : trimLines t = trimLines t') :
    signCleartextNew W k kv c t = signCleartextNew W k kv c t' := by
  rw [cleartext_sign_input W k hW hk, cleartext_sign_input W k hW hk, h]

/-- on texts without trailing blanks the signed bytes are the canonical form of the text itself -/
theorem cleartext_sign_input_no_trailing_blank (W k : Nat) (hW : 0 < W) (hk : 0 < k) (kv : Nat) (c : SigCfg)
    (t : Bytes) (hnb : NoTrailingBlank t) :
    signCleartextNew W k kv c t =
      if signAligned kv c.ver && dataSigType c.typ then some (preimage c (canon t)) else none := by
  rw [cleartext_sign_input W k hW hk, trimLines_of_noTrailingBlank t hnb]

/-! ### serialize, armor, parse again -/

/-- **`roundtrip_preserves_verify`, body part** (full statement since the repair of D16b): for
EVERY text and every signature block that begins with the five dashes of an armor header line,
`from_string(to_armored_string(m))` has exactly the escaped text of `m` — including a final lone
CR, which the writer now protects with a CR LF terminator. -/
theorem cleartext_body_roundtrip (t sigBlock : Bytes) (hsig : startsWith sigBlock dashes5 = true) :
    armorRoundTripCsf (dashEscape t) sigBlock = some (dashEscape t) :=
  armorRoundTripCsf_dashEscape t sigBlock hsig

/-- hence the verify input after the armored round trip is the verify input before it -/
theorem roundtrip_preserves_verify (W : Nat) (kv : Nat) (c : SigCfg) (t sigBlock : Bytes)
    (hsig : startsWith sigBlock dashes5 = true) :
    (armorRoundTripCsf (dashEscape t) sigBlock).map (verifyCleartext W kv c) =
      some (verifyCleartext W kv c (dashEscape t)) := by
  rw [cleartext_body_roundtrip t sigBlock hsig]; rfl

/-- the former D16b witness `"a\r"` comes back intact -/
theorem roundtrip_former_witness (sigBlock : Bytes) (hsig : startsWith sigBlock dashes5 = true) :
    armorRoundTripCsf (dashEscape [97, CR]) sigBlock = some [97, CR] := by
  rw [cleartext_body_roundtrip _ _ hsig]; decide

/-- **Completeness of the cleartext framework**, for EVERY text: sign (`sign`/`new`), then `verify`
directly, and `to_armored_string`, `from_string`, `verify` — both succeed. -/
theorem cleartext_complete (P : SigPrims) (L : SigPrimLaws P) (W k : Nat) (hW : 0 < W) (hk : 0 < k)
    (kv : Nat) (c : SigCfg) (t sigBlock : Bytes) (hsig : startsWith sigBlock dashes5 = true)
    (s : SigPacket) (hsign : signWith P c (signCleartextNew W k kv c t) = some s) :
    verifyWith P s (verifyCleartext W kv s.cfg (dashEscape t)) = true ∧
    ((armorRoundTripCsf (dashEscape t) sigBlock).map fun csf => verifyWith P s (verifyCleartext W kv s.cfg csf))
      = some true := by
  unfold signWith at hsign
  cases hp : signCleartextNew W k kv c t with
  | none => rw [hp] at hsign; simp at hsign
  | some p =>
    rw [hp] at hsign
    simp only [Option.map_some, Option.some.injEq] at hsign
    subst hsign
    have hg : (signAligned kv c.ver && dataSigType c.typ) = true := by
      rw [cleartext_sign_input W k hW hk] at hp
      by_cases hg : (signAligned kv c.ver && dataSigType c.typ) = true
      · exact hg
      · rw [if_neg hg] at hp; exact absurd hp (by simp)
    simp only [Bool.and_eq_true] at hg
    have hv : verifyCleartext W kv c (dashEscape t) = some p := by
      rw [cleartext_agree W k hW hk kv c hg.1 hg.2 t]; exact hp
    have hdirect : verifyWith P (mkSignature P c p) (verifyCleartext W kv (mkSignature P c p).cfg (dashEscape t)) = true := by
      simp only [mkSignature]
      rw [hv]
      exact check_of_mk P L c p
    refine ⟨hdirect, ?_⟩
    rw [cleartext_body_roundtrip t sigBlock hsig]
    simp only [Option.map_some, Option.some.injEq]
    exact hdirect

/-! ## key and certificate self-signatures -/

/-- certification (user id / user attribute): the verify side announces `write_len()`, the sign side
the length of what `to_writer` produced; they agree whenever `write_len` is truthful (C05) -/
theorem cert_agree (c : SigCfg) (kv : Nat) (key : Ser) (attr : Bool) (id : Ser)
    (hlen : id.writeLen = id.bytes.length) :
    verifyCert c kv key attr id = signCert c kv key attr id := by
  unfold verifyCert signCert
  rw [hlen, cert_prefix_sites_agree.1, cert_prefix_sites_agree.2]

/-- … and ONLY then (the prefix length is hashed): an untruthful `write_len` would break
certification verification -/
theorem cert_agree_iff (c : SigCfg) (kv : Nat) (key : Ser) (attr : Bool) (id : Ser)
    (h1 : id.writeLen < 4294967296) (h2 : id.bytes.length < 4294967296) :
    verifyCert c kv key attr id = signCert c kv key attr id ↔ id.writeLen = id.bytes.length := by
  constructor
  · intro h
    unfold verifyCert signCert at h
    rw [cert_prefix_sites_agree.1, cert_prefix_sites_agree.2] at h
    simp only [List.append_assoc] at h
    have h := List.append_cancel_left (List.append_cancel_left h)
    simp only [List.cons_append, List.cons.injEq, true_and] at h
    have hl : (be32 id.writeLen).length = (be32 id.bytes.length).length := by simp [be32, beBytes]
    have := (List.append_inj h hl).1
    exact be32_inj _ _ h1 h2 this
  · exact cert_agree c kv key attr id

/-- subkey binding: both sides hash primary frame ‖ subkey frame -/
theorem subkey_binding_agree (c : SigCfg) (pv : Nat) (prim : Ser) (sv : Nat) (sub : Ser) :
    verifySubkeyBinding c pv prim sv sub = signSubkeyBinding c pv prim sv sub := rfl

/-- primary key binding (back signature): both sides hash primary frame ‖ subkey frame, although the
roles signer/signee are swapped in the two APIs -/
theorem primary_key_binding_agree (c : SigCfg) (pv : Nat) (prim : Ser) (sv : Nat) (sub : Ser) :
    verifyPrimaryKeyBinding c pv prim sv sub = signPrimaryKeyBinding c pv prim sv sub := rfl

/-- direct key signatures and key revocations -/
theorem key_signature_agree (c : SigCfg) (kv : Nat) (key : Ser) :
    verifyKey c kv key = signKey c kv key := rfl

/-- completeness for the four kinds: the signature made over the sign-side pre-image passes the
check against the verify-side pre-image -/
theorem key_signatures_complete (P : SigPrims) (L : SigPrimLaws P) (c : SigCfg) (pv : Nat) (prim : Ser)
    (sv : Nat) (sub : Ser) (attr : Bool) (id : Ser) (hlen : id.writeLen = id.bytes.length) :
    checkSignature P (mkSignature P c (signCert c pv prim attr id)) (verifyCert c pv prim attr id) = true ∧
    checkSignature P (mkSignature P c (signSubkeyBinding c pv prim sv sub)) (verifySubkeyBinding c pv prim sv sub) = true ∧
    checkSignature P (mkSignature P c (signPrimaryKeyBinding c pv prim sv sub)) (verifyPrimaryKeyBinding c pv prim sv sub) = true ∧
    checkSignature P (mkSignature P c (signKey c pv prim)) (verifyKey c pv prim) = true := by
  rw [cert_agree c pv prim attr id hlen, subkey_binding_agree, primary_key_binding_agree, key_signature_agree]
  exact ⟨check_of_mk P L c _, check_of_mk P L c _, check_of_mk P L c _, check_of_mk P L c _⟩

/-! ## non-vacuity and concrete evaluations of the executable model -/

/-- toy primitives satisfying the law -/
def toyPrims : SigPrims where
  hash := fun x => x.length.toUInt8 :: x.take 3
  pkSign := fun d => d.reverse
  pkVerify := fun d s => s == d.reverse

example : SigPrimLaws toyPrims := ⟨by intro d; simp [toyPrims]⟩

def cfg4 : SigCfg := { ver := 4, typ := 1, pk := 27, hash := 8, salt := [], area := [5, 2, 0, 0, 0, 1] }
def cfg6 : SigCfg := { ver := 6, typ := 0, pk := 27, hash := 10, salt := [1, 2, 3], area := [] }

example : WFCfg cfg4 ∧ WFCfg cfg6 := by decide
example : signAligned 4 cfg4.ver = true ∧ dataSigType cfg4.typ = true := by decide
example : AllNonEmpty [[97, CR], [LF]] := by intro c hc; simp at hc; rcases hc with rfl | rfl <;> simp
/-- v4 text signature over "a\n" delivered in two chunks: canon, fields with u16 area length, trailer -/
example : signConfig 4 cfg4 [[97], [LF]] =
    some [97, CR, LF, 4, 1, 27, 8, 0, 6, 5, 2, 0, 0, 0, 1, 4, 255, 0, 0, 0, 12] := by
  rw [sign_config_input]; decide
/-- v6 binary signature: salt first, u32 area length -/
example : signConfig 6 cfg6 [[97, LF]] =
    some [1, 2, 3, 97, LF, 6, 0, 27, 10, 0, 0, 0, 0, 6, 255, 0, 0, 0, 8] := by
  rw [sign_config_input]; decide
example : signConfig 6 cfg4 [[97]] = none := by rw [sign_config_input]; decide
example : dashEscape [DASH, 97, LF, 98, LF, DASH] = [DASH, SP, DASH, 97, LF, 98, LF, DASH, SP, DASH] := by decide
example : dashUnescapeTrim [DASH, SP, DASH, 97, SP, TAB, CR, LF, 98, SP] = [DASH, 97, CR, LF, 98] := by decide
example : readCleartextBody ([97, CR, LF] ++ dashes5 ++ [66, LF]) = some ([97], dashes5 ++ [66, LF]) := by decide
example : startsWith (dashes5 ++ [66]) dashes5 = true := by decide

end Rpgp.C06
