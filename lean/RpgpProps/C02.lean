import RpgpProofs.SoundToy
import RpgpProofs.Wire
/-!
# C02 — signature soundness: only the signed content under the signer's key verifies

Model: `RpgpModel/Sound.lean` (namespace `Rpgp.Sound`) — every verification entry point of rpgp as
the ordered list of guards the code applies, followed by the left-16 comparison and the
public-key verification of the digest of the pre-image.  The pre-images are those of
`RpgpModel/SigDigest.lean` (C11), canonicalisation is `canon` (C14), the cleartext signed form is
`SV.signedText` (C06), the parsed packet is `Wire.Sig` (C05).  Hash function and public-key
primitive are parameters (`Sound.Prims`).

Shape of the argument (every theorem is over ALL keys, packets, subjects, hash functions and
primitives):

1. **injectivity** (`preimage_injective_*`, shared with C11): the hashed octet string determines
   document (or `canon` of it for text signatures), type, both algorithm octets, hashed area, salt,
   key bodies and identity body — for v4, for v6, across v4 / v6, and a v3 pre-image equals a v4 /
   v6 one only for the type octet 0xFF, which no entry point accepts;
2. **reduction** (`verify_sound_*`): under `Unforgeable` (signing-oracle log), `LogHonest`,
   `CollisionFreeOn` (on the two pre-images), a successful verification implies that exactly this
   (subject, hashed fields) was honestly signed under exactly this key material; the corollaries
   (`*_mutation_is_error`, `key_substitution_is_error`) are the mutation classes of the property;
3. **guards** (`verify_guards_*`, `left16_checked_*`, `inline_none_slot_is_error`,
   `ops_mismatch_never_verifies`, `backsig_required`);
4. **what is not bound** (`unbound_*`): unhashed area (except through issuer subpackets and the
   embedded back-signature), MPI bit-count octets of the signature value, One-Pass issuer, packet
   framing; and what *is* bound since the two repairs the harness of this property led to
   (`hashed_area_*`: the parser refuses a hashed area that would be hashed in another form than
   received, D2a / c2573e8; `prefixed_sig_exact`: the message parser demands that a prefixed
   Signature / One-Pass Signature packet is consumed entirely, D2b / 11d69e3), with regression
   theorems on the former witnesses.

Not theorems (carried by the correspondence run): that the Rust functions compute what the model
functions compute; `write_len()` truthfulness of real keys / ids (`Ser.truthful` is a hypothesis);
that `Wire.sigParse` is the real parser (C05); EUF-CMA and collision resistance (hypotheses).
-/
namespace Rpgp.C02
open Rpgp Rpgp.SigDigest Rpgp.Sound

/-! ## constants re-extracted from the sources on every run -/

/-- the signature types each verify entry point accepts are the RFC's (RFC 9580 §5.2.1) -/
theorem verify_site_types_rfc :
    Gen.sndCertTypes = [0x10, 0x11, 0x12, 0x13, 0x30] ∧ Gen.sndSubkeyBindingTypes = [0x18, 0x28] ∧
    Gen.sndPrimaryKeyBindingTypes = [0x19] ∧ Gen.sndKeyTypes = [0x1F, 0x20] ∧
    Gen.sndInlineTypes = [0x00, 0x01] ∧ Gen.sndHashDataFullTypes = [0x00, 0x01] := by decide

set_option maxRecDepth 100000 in
/-- … and they are the ones the model's guards use (for every type octet) -/
theorem verify_site_types_are_model :
    ∀ n : Nat, n < 256 →
      (isCertification n.toUInt8 = Gen.sndCertTypes.contains n) ∧
      ((n.toUInt8 == Gen.sdSigTypeSubkeyBinding.toUInt8 || n.toUInt8 == Gen.sdSigTypeSubkeyRevocation.toUInt8) =
        Gen.sndSubkeyBindingTypes.contains n) ∧
      ((n.toUInt8 == Gen.sdSigTypeKeyBinding.toUInt8) = Gen.sndPrimaryKeyBindingTypes.contains n) ∧
      ((n.toUInt8 == Gen.sdSigTypeKey.toUInt8 || n.toUInt8 == Gen.sdSigTypeKeyRevocation.toUInt8) =
        Gen.sndKeyTypes.contains n) ∧
      ((n.toUInt8 == typBinary || n.toUInt8 == typText) = Gen.sndInlineTypes.contains n) := by decide

/-- version alignment table at both sites: a v6 key ⇒ a v6 signature, a v6 signature ⇒ a v6 key -/
theorem alignment_table_rfc :
    Gen.sndAlignIfKey = 6 ∧ Gen.sndAlignThenSig = 6 ∧ Gen.sndAlignIfSig = 6 ∧ Gen.sndAlignThenKey = 6 ∧
    Gen.sndAlignInlineIfKey = 6 ∧ Gen.sndAlignInlineThenSig = 6 ∧ Gen.sndAlignInlineIfSig = 6 ∧
    Gen.sndAlignInlineThenKey = 6 := by decide

/-- the model's alignment guard is that table -/
theorem alignment_model (c : Cfg) (kv : Nat) :
    verifyAligned c kv =
      ((kv != Gen.sndAlignIfKey || c.ver == .v6) && (c.ver != .v6 || kv == Gen.sndAlignThenKey)) := by
  simp [verifyAligned, Gen.sndAlignIfKey, Gen.sndAlignThenKey]

/-- every entry point that hands a digest to the primitive first compares the stored two octets -/
theorem left16_compare_present :
    Gen.sndLeft16Data = 1 ∧ Gen.sndLeft16Cert = 1 ∧ Gen.sndLeft16SubkeyBinding = 1 ∧
    Gen.sndLeft16PrimaryKeyBinding = 1 ∧ Gen.sndLeft16Key = 1 ∧ Gen.sndLeft16Inline = 1 := by decide

/-- `match_identity` is applied by `verify`, `verify_(third_party_)certification`,
`verify_key(_third_party)` and the inline path, not by the two binding verifiers; the issuer
lists are read from both subpacket areas -/
theorem identity_sites :
    Gen.sndIdentityData = 1 ∧ Gen.sndIdentityCert = 1 ∧ Gen.sndIdentityKey = 1 ∧
    Gen.sndIdentitySubkeyBinding = 0 ∧ Gen.sndIdentityPrimaryKeyBinding = 0 ∧
    Gen.inlineChecksPreconditions = 1 ∧ Gen.sndIdentityBothAreasId = 1 ∧ Gen.sndIdentityBothAreasFp = 1 := by
  decide

/-- the salt size is compared with RFC 9580 table 23 in `Signature::verify`, in
`hash_signature_data` and in both arms of `new_hasher` -/
theorem salt_checks_present :
    Gen.sndSaltCheckVerify = 1 ∧ Gen.sndSaltCheckHsd = 1 ∧ Gen.sndSaltCheckNewHasher = 2 := by decide

/-- One-Pass Signature: versions 3 and 6, four compared fields, v3 pairs with v4, a mismatch
empties the slot, an empty slot is an error -/
theorem ops_constants :
    Gen.sndOpsV3 = 3 ∧ Gen.sndOpsV6 = 6 ∧ Gen.sndOpsMatchFields = 4 ∧ Gen.sndOpsPairV3V4 = 1 ∧
    Gen.sndOpsNoneOnMismatch = 1 ∧ Gen.sndInlineNoneIsError = 1 := by decide

/-- certificates: both subkey verifiers check the back-signature, all four user / attribute
verifiers refuse an empty signature list, cleartext and detached go through `Signature::verify` -/
theorem composed_sites :
    Gen.sndBacksigPublic = 1 ∧ Gen.sndBacksigSecret = 1 ∧ Gen.publicSubkeyChecksBacksig = 1 ∧
    Gen.sndUserNonEmpty = 4 ∧ Gen.sndCleartextViaVerify = 1 ∧ Gen.sndDetachedViaVerify = 1 := by decide

/-- no post-quantum algorithm is compiled in: the hash-strength guard never refuses -/
theorem strength_guard_inactive (c : Cfg) : Gen.sndPqcArms = 0 ∧ strengthOk c = true := by
  refine ⟨by decide, ?_⟩
  simp [strengthOk, isPqc, Gen.sndPqcArms]

/-- the digest covers the re-serialisation of the parsed hashed subpackets, and both signature
parsers refuse a hashed area that would be written back differently from what was received (D2a
repair); the message parser requires a prefixed Signature / One-Pass Signature packet to be
consumed entirely (D2b repair).  If either call disappears this theorem stops checking, and with
it `prefixed_sig_exact` / the C05 model (`Wire.areaParseCanon`) stop describing the code. -/
theorem code_as_it_stands :
    Gen.sndHashedReserialised = 1 ∧ Gen.sndHashedAreaCanonical = 1 ∧ Gen.sndMsgSigExhausted = 1 := by decide

/-! ## 1. the hashed octets determine what was signed -/

/-- version 4 (C11's theorem, restated because the property is claimed here) -/
theorem preimage_injective_v4 (a b : Spec.Input) (ha : a.ver = .v4) (hb : b.ver = .v4)
    (wa : Spec.WF a = true) (wb : Spec.WF b = true) (h : Spec.preimage a = Spec.preimage b) : a = b :=
  SigDigest.preimage_injective_v4 a b ha hb wa wb h

/-- version 6, salt included (its size is fixed by the recovered hash octet) -/
theorem preimage_injective_v6 (a b : Spec.Input) (ha : a.ver = .v6) (hb : b.ver = .v6)
    (wa : Spec.WF a = true) (wb : Spec.WF b = true) (h : Spec.preimage a = Spec.preimage b) : a = b :=
  SigDigest.preimage_injective_v6 a b ha hb wa wb h

/-- version 3: type, creation time, subject octets -/
theorem preimage_injective_v3 (a b : Spec.Input) (ha : a.ver = .v3) (hb : b.ver = .v3)
    (wa : Spec.WF a = true) (wb : Spec.WF b = true) (h : Spec.preimage a = Spec.preimage b) :
    a.typ = b.typ ∧ a.created = b.created ∧
      Spec.subjectBytes .v3 a.typ a.subject = Spec.subjectBytes .v3 b.typ b.subject :=
  SigDigest.preimage_injective_v3 a b ha hb wa wb h

/-- a v4 pre-image is never a v6 pre-image -/
theorem preimage_v4_ne_v6 (a b : Spec.Input) (ha : a.ver = .v4) (hb : b.ver = .v6) :
    Spec.preimage a ≠ Spec.preimage b := Sound.preimage_v4_ne_v6 a b ha hb

/-- injectivity over v4 and v6 together: the version is recovered too -/
theorem preimage_injective (a b : Spec.Input) (ha : a.ver ≠ .v3) (hb : b.ver ≠ .v3)
    (wa : Spec.WF a = true) (wb : Spec.WF b = true) (h : Spec.preimage a = Spec.preimage b) : a = b :=
  Sound.preimage_injective_v4v6 a b ha hb wa wb h

/-- a v3 pre-image coincides with a v4 / v6 one only if its type octet is 0xFF -/
theorem preimage_v3_collides_only_for_type_ff (a b : Spec.Input) (ha : a.ver = .v3) (hb : b.ver ≠ .v3)
    (h : Spec.preimage a = Spec.preimage b) : a.typ = 0xFF :=
  Sound.preimage_v3_eq_needs_ff a b ha hb h

/-- text documents: equal pre-images ⇔ equal canonical forms (the documented equivalence) -/
theorem doc_text_equiv (i : Spec.Input) (d d' : Bytes) (ht : i.typ = 0x01) :
    Spec.preimage { i with subject := .document d } = Spec.preimage { i with subject := .document d' } ↔
      canon d = canon d' :=
  doc_text_iff i d d' ht

/-- binary documents: equal pre-images ⇔ equal documents -/
theorem doc_binary_equiv (i : Spec.Input) (d d' : Bytes) (ht : i.typ ≠ 0x01) :
    Spec.preimage { i with subject := .document d } = Spec.preimage { i with subject := .document d' } ↔
      d = d' :=
  doc_binary_iff i d d' ht

/-- **the serializer establishes the well-formedness predicate** of the injectivity theorems:
whatever `Signature::verify` hashes for a v4 / v6 document signature is the RFC pre-image of a
well-formed input (the document in its canonical representative for text signatures) -/
theorem verify_data_hashes_wellformed (hk : Byte → Bool) (k : VKey) (s : Sig) (d p : Bytes)
    (hv : s.cfg.ver ≠ .v3) (hty : s.cfg.typ = typBinary ∨ s.cfg.typ = typText)
    (h : dataPre hk k s d = .ok p) :
    p = Spec.preimage (s.cfg.toInput (.document (docRep s.cfg.typ d))) ∧
    Spec.WF (s.cfg.toInput (.document (docRep s.cfg.typ d))) = true := by
  obtain ⟨_, _, _, _, _, _, hd, _⟩ := dataPre_ok hk k s d p h
  have hE := established_docRep s.cfg d p (verifyData_eq_spec s.cfg k.ver d p hty hd)
  refine ⟨hE.1, established_wf' s.cfg _ p hE hv ?_ (fun x hx ht => docRep_canonical s.cfg.typ d x hx ht)⟩
  rcases hty with h | h <;> simp [h, Spec.classOf, Spec.Subject.cls, typBinary_eq, typText_eq]

/-- the same for certifications (key + User ID / User Attribute) -/
theorem verify_cert_hashes_wellformed (hk : Byte → Bool) (signer : VKey) (signee : Key) (s : Sig) (tag : Nat)
    (id : Ser) (p : Bytes) (hv : s.cfg.ver ≠ .v3) (ht : signee.ser.truthful) (hi : id.truthful)
    (h : certPre hk signer signee s tag id = .ok p) :
    p = Spec.preimage (s.cfg.toInput (.certification signee.toSpec (tag == tagUserAttribute) id.bytes)) ∧
    Spec.WF (s.cfg.toInput (.certification signee.toSpec (tag == tagUserAttribute) id.bytes)) = true := by
  obtain ⟨_, _, _, _, _, _, hd, _⟩ := certPre_ok hk signer signee s tag id p h
  obtain ⟨hE, hcl⟩ := verifyCertification_eq_spec s.cfg signer.ver signee tag id p hd ht hi
  exact ⟨hE.1, established_wf' s.cfg _ p hE hv (by simpa [Spec.Subject.cls] using hcl) (by intro d hd; cases hd)⟩

/-- … and for subkey bindings (primary + subkey) -/
theorem verify_binding_hashes_wellformed (hk : Byte → Bool) (primary : VKey) (sub : Key) (s : Sig) (p : Bytes)
    (hv : s.cfg.ver ≠ .v3) (tp : primary.ser.truthful) (ts : sub.ser.truthful)
    (h : subkeyBindingPre hk primary sub s = .ok p) :
    p = Spec.preimage (s.cfg.toInput (.binding primary.toKey.toSpec sub.toSpec)) ∧
    Spec.WF (s.cfg.toInput (.binding primary.toKey.toSpec sub.toSpec)) = true := by
  obtain ⟨_, _, _, _, _, hd, _⟩ := subkeyBindingPre_ok hk primary sub s p h
  obtain ⟨hE, hcl⟩ := verifySubkeyBinding_eq_spec s.cfg primary.toKey sub p hd tp ts
  exact ⟨hE.1, established_wf' s.cfg _ p hE hv (by simpa [Spec.Subject.cls] using hcl) (by intro d hd; cases hd)⟩

/-- what rpgp's data signer hashes is an honest input in the sense of `HonestInputs` -/
theorem sign_data_is_honest_input (c : Cfg) (sv : Nat) (chunks : List Bytes) (p : Bytes)
    (h : signData c sv chunks = some p) :
    c.ver ≠ .v3 ∧ p = Spec.preimage (c.toInput (.document (docRep c.typ chunks.flatten))) ∧
    Spec.WF (c.toInput (.document (docRep c.typ chunks.flatten))) = true := by
  obtain ⟨hE, hcl⟩ := signData_eq_spec c sv chunks p h
  have hv : c.ver ≠ .v3 := by
    by_cases ha : signAligned c sv = true
    · exact signAligned_not_v3 c sv ha
    · simp [signData, ha] at h
  have hE' := established_docRep c chunks.flatten p hE
  refine ⟨hv, hE'.1, established_wf' c _ p hE' hv (by simpa [Spec.Subject.cls] using hcl)
    (fun x hx ht => docRep_canonical c.typ _ x hx ht)⟩


/-! ## 2. the reduction

`L` is the signing-oracle log (key material, digest), `S` what honest signers signed.  The three
hypotheses are exactly: unforgeability of the primitive, honesty of the log, no collision between
the pre-image being verified and the honestly signed ones. -/

/-- **`Signature::verify` / `DetachedSignature::verify`**: success means that the holder of this
key material signed exactly this document (its canonical form for text signatures) with exactly
these type, algorithm octets, hashed area and salt -/
theorem verify_sound_data (P : Prims) (L : List (Bytes × Bytes)) (S : List Signed) (k : VKey) (s : Sig) (d : Bytes)
    (hU : Unforgeable P L) (hH : LogHonest P L S) (hS : HonestInputs S)
    (hv : s.cfg.ver ≠ .v3) (hty : s.cfg.typ = typBinary ∨ s.cfg.typ = typText)
    (hC : ∀ p, SigDigest.verifyData s.cfg k.ver d = some p → CollisionFreeOn P S s.cfg.hash p)
    (h : verifyData P k s d = .ok) :
    ∃ e ∈ S, e.km = k.mat ∧ e.input = s.cfg.toInput (.document (docRep s.cfg.typ d)) :=
  verifyData_sound P L S k s d hU hH hS hv hty hC h

theorem verify_sound_detached (P : Prims) (L : List (Bytes × Bytes)) (S : List Signed) (k : VKey) (s : Sig) (d : Bytes)
    (hU : Unforgeable P L) (hH : LogHonest P L S) (hS : HonestInputs S)
    (hv : s.cfg.ver ≠ .v3) (hty : s.cfg.typ = typBinary ∨ s.cfg.typ = typText)
    (hC : ∀ p, SigDigest.verifyData s.cfg k.ver d = some p → CollisionFreeOn P S s.cfg.hash p)
    (h : verifyDetached P k s d = .ok) :
    ∃ e ∈ S, e.km = k.mat ∧ e.input = s.cfg.toInput (.document (docRep s.cfg.typ d)) :=
  verifyData_sound P L S k s d hU hH hS hv hty hC h

/-- **`CleartextSignedMessage::verify`**: one of the signatures was honestly made over the signed
form of the text (`signed_text()`: dash-unescaped, trailing blanks removed, CR LF line endings) -/
theorem verify_sound_cleartext (P : Prims) (L : List (Bytes × Bytes)) (S : List Signed) (k : VKey)
    (sigs : List Sig) (csf : Bytes)
    (hU : Unforgeable P L) (hH : LogHonest P L S) (hS : HonestInputs S)
    (hv : ∀ s ∈ sigs, s.cfg.ver ≠ .v3 ∧ (s.cfg.typ = typBinary ∨ s.cfg.typ = typText))
    (hC : ∀ s ∈ sigs, ∀ p, SigDigest.verifyData s.cfg k.ver (SV.signedText csf) = some p →
      CollisionFreeOn P S s.cfg.hash p)
    (h : verifyCleartext P k sigs csf = .ok) :
    ∃ s ∈ sigs, ∃ e ∈ S, e.km = k.mat ∧
      e.input = s.cfg.toInput (.document (docRep s.cfg.typ (SV.signedText csf))) := by
  obtain ⟨s, hs, hok⟩ := verifyCleartext_ok P k sigs csf h
  exact ⟨s, hs, verifyData_sound P L S k s _ hU hH hS (hv s hs).1 (hv s hs).2 (hC s hs) hok⟩

/-- **`verify_certification` / `verify_third_party_certification`**: key body, identity kind,
identity body and every hashed field are what the signer signed -/
theorem verify_sound_certification (P : Prims) (L : List (Bytes × Bytes)) (S : List Signed) (signer : VKey)
    (signee : Key) (s : Sig) (tag : Nat) (id : Ser)
    (hU : Unforgeable P L) (hH : LogHonest P L S) (hS : HonestInputs S)
    (hv : s.cfg.ver ≠ .v3) (ht : signee.ser.truthful) (hi : id.truthful)
    (hC : ∀ p, verifyCertification s.cfg signer.ver signee tag id = some p → CollisionFreeOn P S s.cfg.hash p)
    (h : verifyCert P signer signee s tag id = .ok) :
    ∃ e ∈ S, e.km = signer.mat ∧
      e.input = s.cfg.toInput (.certification signee.toSpec (tag == tagUserAttribute) id.bytes) :=
  verifyCert_sound P L S signer signee s tag id hU hH hS hv ht hi hC h

/-- **`verify_key` / `verify_key_third_party`** (direct-key signatures, key revocations) -/
theorem verify_sound_key (P : Prims) (L : List (Bytes × Bytes)) (S : List Signed) (signer : VKey) (signee : Key) (s : Sig)
    (hU : Unforgeable P L) (hH : LogHonest P L S) (hS : HonestInputs S)
    (hv : s.cfg.ver ≠ .v3) (ht : signee.ser.truthful)
    (hC : ∀ p, SigDigest.verifyKey s.cfg signer.ver signee = some p → CollisionFreeOn P S s.cfg.hash p)
    (h : verifyKey P signer signee s = .ok) :
    ∃ e ∈ S, e.km = signer.mat ∧ e.input = s.cfg.toInput (.directKey signee.toSpec) :=
  verifyKey_sound P L S signer signee s hU hH hS hv ht hC h

/-- **`verify_subkey_binding`** (0x18, 0x28): primary and subkey bodies, in this order -/
theorem verify_sound_subkey_binding (P : Prims) (L : List (Bytes × Bytes)) (S : List Signed) (primary : VKey)
    (sub : Key) (s : Sig)
    (hU : Unforgeable P L) (hH : LogHonest P L S) (hS : HonestInputs S)
    (hv : s.cfg.ver ≠ .v3) (tp : primary.ser.truthful) (ts : sub.ser.truthful)
    (hC : ∀ p, SigDigest.verifySubkeyBinding s.cfg primary.toKey sub = some p → CollisionFreeOn P S s.cfg.hash p)
    (h : verifySubkeyBinding P primary sub s = .ok) :
    ∃ e ∈ S, e.km = primary.mat ∧ e.input = s.cfg.toInput (.binding primary.toKey.toSpec sub.toSpec) :=
  verifySubkeyBinding_sound P L S primary sub s hU hH hS hv tp ts hC h

/-- **`verify_primary_key_binding`** (0x19): made by the subkey over primary then subkey -/
theorem verify_sound_primary_key_binding (P : Prims) (L : List (Bytes × Bytes)) (S : List Signed) (sub : VKey)
    (primary : Key) (s : Sig)
    (hU : Unforgeable P L) (hH : LogHonest P L S) (hS : HonestInputs S)
    (hv : s.cfg.ver ≠ .v3) (tp : primary.ser.truthful) (ts : sub.ser.truthful)
    (hC : ∀ p, SigDigest.verifyPrimaryKeyBinding s.cfg sub.toKey primary = some p → CollisionFreeOn P S s.cfg.hash p)
    (h : verifyPrimaryKeyBinding P sub primary s = .ok) :
    ∃ e ∈ S, e.km = sub.mat ∧ e.input = s.cfg.toInput (.binding primary.toSpec sub.toKey.toSpec) :=
  verifyPrimaryKeyBinding_sound P L S sub primary s hU hH hS hv tp ts hC h

/-- **`Message::verify` / `verify_read` / `verify_nested`**, one-pass (`ops = some _`) and prefixed
(`ops = none`): the literal body, in whatever reads it was delivered, is what was signed -/
theorem verify_sound_inline (P : Prims) (L : List (Bytes × Bytes)) (S : List Signed) (k : VKey)
    (ops : Option Ops) (s : Sig) (chunks : List Bytes)
    (hU : Unforgeable P L) (hH : LogHonest P L S) (hS : HonestInputs S) (hv : s.cfg.ver ≠ .v3)
    (hC : ∀ a p, inlinePre P.hashKnown ops s chunks = .ok (some (a, p)) → CollisionFreeOn P S s.cfg.hash p)
    (h : verifyMessage P k ops s chunks = .ok) :
    ∃ e ∈ S, e.km = k.mat ∧ e.input = s.cfg.toInput (.document (docRep s.cfg.typ chunks.flatten)) :=
  verifyMessage_sound P L S k ops s chunks hU hH hS hv hC h

/-! ### the mutation classes of the property, for a signer who signed one thing

`S = [⟨km₀, i₀⟩]`: the key holder made one signature.  Whatever is verified successfully is that
signature's subject, fields and key. -/

/-- content: another document (another canonical form, for text) is refused -/
theorem content_mutation_is_error (P : Prims) (L : List (Bytes × Bytes)) (km0 : Bytes) (i0 : Spec.Input)
    (k : VKey) (s : Sig) (d : Bytes)
    (hU : Unforgeable P L) (hH : LogHonest P L [⟨km0, i0⟩]) (hS : HonestInputs [⟨km0, i0⟩])
    (hv : s.cfg.ver ≠ .v3) (hty : s.cfg.typ = typBinary ∨ s.cfg.typ = typText)
    (hC : ∀ p, SigDigest.verifyData s.cfg k.ver d = some p → CollisionFreeOn P [⟨km0, i0⟩] s.cfg.hash p)
    (hne : i0.subject ≠ .document (docRep s.cfg.typ d)) :
    verifyData P k s d ≠ .ok := by
  intro h
  obtain ⟨e, he, _, hi⟩ := verifyData_sound P L _ k s d hU hH hS hv hty hC h
  simp only [List.mem_singleton] at he
  subst he
  apply hne
  simp only at hi
  rw [hi]
  cases hc : s.cfg.ver <;> simp [Cfg.toInput]

/-- hashed fields: another type, algorithm octet, hashed area or salt than the signed one is
refused -/
theorem hashed_field_mutation_is_error (P : Prims) (L : List (Bytes × Bytes)) (km0 : Bytes) (i0 : Spec.Input)
    (k : VKey) (s : Sig) (d : Bytes)
    (hU : Unforgeable P L) (hH : LogHonest P L [⟨km0, i0⟩]) (hS : HonestInputs [⟨km0, i0⟩])
    (hv : s.cfg.ver ≠ .v3) (hty : s.cfg.typ = typBinary ∨ s.cfg.typ = typText)
    (hC : ∀ p, SigDigest.verifyData s.cfg k.ver d = some p → CollisionFreeOn P [⟨km0, i0⟩] s.cfg.hash p)
    (hne : i0.ver ≠ s.cfg.ver ∨ i0.typ ≠ s.cfg.typ ∨ i0.pk ≠ s.cfg.pk ∨ i0.hash ≠ s.cfg.hash ∨
      i0.area ≠ s.cfg.area ∨ (s.cfg.ver = .v6 ∧ i0.salt ≠ s.cfg.salt)) :
    verifyData P k s d ≠ .ok := by
  intro h
  obtain ⟨e, he, _, hi⟩ := verifyData_sound P L _ k s d hU hH hS hv hty hC h
  simp only [List.mem_singleton] at he
  subst he
  simp only at hi
  rw [hi] at hne
  cases hc : s.cfg.ver
  · exact hv hc
  · simp [Cfg.toInput, hc] at hne
  · simp [Cfg.toInput, hc] at hne

/-- key: another key material than the signer's is refused -/
theorem key_substitution_is_error (P : Prims) (L : List (Bytes × Bytes)) (km0 : Bytes) (i0 : Spec.Input)
    (k : VKey) (s : Sig) (d : Bytes)
    (hU : Unforgeable P L) (hH : LogHonest P L [⟨km0, i0⟩]) (hS : HonestInputs [⟨km0, i0⟩])
    (hv : s.cfg.ver ≠ .v3) (hty : s.cfg.typ = typBinary ∨ s.cfg.typ = typText)
    (hC : ∀ p, SigDigest.verifyData s.cfg k.ver d = some p → CollisionFreeOn P [⟨km0, i0⟩] s.cfg.hash p)
    (hne : k.mat ≠ km0) :
    verifyData P k s d ≠ .ok := by
  intro h
  obtain ⟨e, he, hkm, _⟩ := verifyData_sound P L _ k s d hU hH hS hv hty hC h
  simp only [List.mem_singleton] at he
  subst he
  exact hne hkm.symm

/-- certificate-forming kinds: another key body, identity kind or identity body than the signed
one is refused -/
theorem certified_object_mutation_is_error (P : Prims) (L : List (Bytes × Bytes)) (km0 : Bytes) (i0 : Spec.Input)
    (signer : VKey) (signee : Key) (s : Sig) (tag : Nat) (id : Ser)
    (hU : Unforgeable P L) (hH : LogHonest P L [⟨km0, i0⟩]) (hS : HonestInputs [⟨km0, i0⟩])
    (hv : s.cfg.ver ≠ .v3) (ht : signee.ser.truthful) (hi : id.truthful)
    (hC : ∀ p, verifyCertification s.cfg signer.ver signee tag id = some p → CollisionFreeOn P [⟨km0, i0⟩] s.cfg.hash p)
    (hne : i0.subject ≠ .certification signee.toSpec (tag == tagUserAttribute) id.bytes) :
    verifyCert P signer signee s tag id ≠ .ok := by
  intro h
  obtain ⟨e, he, _, hin⟩ := verifyCert_sound P L _ signer signee s tag id hU hH hS hv ht hi hC h
  simp only [List.mem_singleton] at he
  subst he
  apply hne
  simp only at hin
  rw [hin]
  cases hc : s.cfg.ver <;> simp [Cfg.toInput]

/-- signature value: under *strong* unforgeability (the log also records the signature values;
not every algorithm has it - ECDSA is malleable) another signature value is refused -/
theorem sigval_mutation_is_error (flag : Nat) (P : Prims) (L' : List (Bytes × Bytes × SigVal)) (k : VKey) (s : Sig)
    (d : Bytes) (hSU : ∀ km h d sv, P.pkVerify km h d sv = true → (km, d, sv) ∈ L')
    (hne : (k.mat, d, s.sigval) ∉ L') : check flag P k s d ≠ .ok := by
  intro h
  exact hne (hSU _ _ _ _ ((check_ok_iff flag P k s d).1 h).2)

/-- a version-3 signature never verifies against honest signers (who make v4 / v6 signatures
only): data signatures … -/
theorem v3_never_verifies_data (P : Prims) (L : List (Bytes × Bytes)) (S : List Signed) (k : VKey) (s : Sig) (d : Bytes)
    (hU : Unforgeable P L) (hH : LogHonest P L S) (hS : HonestInputs S) (hv : s.cfg.ver = .v3)
    (hC : ∀ p, SigDigest.verifyData s.cfg k.ver d = some p → CollisionFreeOn P S s.cfg.hash p) :
    verifyData P k s d ≠ .ok :=
  verifyData_v3_never P L S k s d hU hH hS hv hC

/-- … and certifications -/
theorem v3_never_verifies_certification (P : Prims) (L : List (Bytes × Bytes)) (S : List Signed) (signer : VKey)
    (signee : Key) (s : Sig) (tag : Nat) (id : Ser)
    (hU : Unforgeable P L) (hH : LogHonest P L S) (hS : HonestInputs S) (hv : s.cfg.ver = .v3)
    (hC : ∀ p, verifyCertification s.cfg signer.ver signee tag id = some p → CollisionFreeOn P S s.cfg.hash p) :
    verifyCert P signer signee s tag id ≠ .ok :=
  verifyCert_v3_never P L S signer signee s tag id hU hH hS hv hC

/-- … direct-key signatures and key revocations … -/
theorem v3_never_verifies_key (P : Prims) (L : List (Bytes × Bytes)) (S : List Signed) (signer : VKey) (signee : Key)
    (s : Sig) (hU : Unforgeable P L) (hH : LogHonest P L S) (hS : HonestInputs S) (hv : s.cfg.ver = .v3)
    (hC : ∀ p, SigDigest.verifyKey s.cfg signer.ver signee = some p → CollisionFreeOn P S s.cfg.hash p) :
    verifyKey P signer signee s ≠ .ok :=
  verifyKey_v3_never P L S signer signee s hU hH hS hv hC

/-- … subkey bindings and revocations … -/
theorem v3_never_verifies_subkey_binding (P : Prims) (L : List (Bytes × Bytes)) (S : List Signed) (primary : VKey)
    (sub : Key) (s : Sig) (hU : Unforgeable P L) (hH : LogHonest P L S) (hS : HonestInputs S) (hv : s.cfg.ver = .v3)
    (hC : ∀ p, SigDigest.verifySubkeyBinding s.cfg primary.toKey sub = some p → CollisionFreeOn P S s.cfg.hash p) :
    verifySubkeyBinding P primary sub s ≠ .ok :=
  verifySubkeyBinding_v3_never P L S primary sub s hU hH hS hv hC

/-- … primary key bindings … -/
theorem v3_never_verifies_primary_key_binding (P : Prims) (L : List (Bytes × Bytes)) (S : List Signed) (sub : VKey)
    (primary : Key) (s : Sig) (hU : Unforgeable P L) (hH : LogHonest P L S) (hS : HonestInputs S) (hv : s.cfg.ver = .v3)
    (hC : ∀ p, SigDigest.verifyPrimaryKeyBinding s.cfg sub.toKey primary = some p → CollisionFreeOn P S s.cfg.hash p) :
    verifyPrimaryKeyBinding P sub primary s ≠ .ok :=
  verifyPrimaryKeyBinding_v3_never P L S sub primary s hU hH hS hv hC

/-- … and signatures inside messages: with these five, the restriction `ver ≠ v3` of the
`verify_sound_*` theorems loses nothing -/
theorem v3_never_verifies_inline (P : Prims) (L : List (Bytes × Bytes)) (S : List Signed) (k : VKey)
    (ops : Option Ops) (s : Sig) (chunks : List Bytes)
    (hU : Unforgeable P L) (hH : LogHonest P L S) (hS : HonestInputs S) (hv : s.cfg.ver = .v3)
    (hC : ∀ a p, inlinePre P.hashKnown ops s chunks = .ok (some (a, p)) → CollisionFreeOn P S s.cfg.hash p) :
    verifyMessage P k ops s chunks ≠ .ok :=
  verifyMessage_v3_never P L S k ops s chunks hU hH hS hv hC

/-- `Signature::verify` on a signature of a type outside the RFC's four subject classes (rpgp hashes
one octet of the data for Standalone 0x02 and Timestamp 0x40, refuses the rest) never verifies
against honest signers either: with this, `verify_sound_data` (types 0x00, 0x01) and
`verify_data_refuses_other_classes` every type octet is covered -/
theorem other_types_never_verify_data (P : Prims) (L : List (Bytes × Bytes)) (S : List Signed) (k : VKey) (s : Sig)
    (d : Bytes) (hU : Unforgeable P L) (hH : LogHonest P L S) (hS : HonestInputs S) (hv : s.cfg.ver ≠ .v3)
    (hty : Spec.classOf s.cfg.typ = none)
    (hC : ∀ p, SigDigest.verifyData s.cfg k.ver d = some p → CollisionFreeOn P S s.cfg.hash p) :
    verifyData P k s d ≠ .ok :=
  verifyData_other_type_never P L S k s d hU hH hS hv hty hC

set_option maxRecDepth 100000 in
theorem class_types_not_hashable : ∀ n : Nat, n < 256 →
    (Spec.classOf n.toUInt8 = some .cert ∨ Spec.classOf n.toUInt8 = some .bind ∨ Spec.classOf n.toUInt8 = some .direct) →
    ¬ (n.toUInt8 = typText ∨ n.toUInt8 = typBinary) ∧
    ¬ (n.toUInt8 = Gen.sdSigTypeTimestamp.toUInt8 ∨ n.toUInt8 = Gen.sdSigTypeStandalone.toUInt8) := by decide

/-- a certification / binding / key signature is refused by `Signature::verify` (and hence by
`DetachedSignature::verify`, `CleartextSignedMessage::verify`) before anything is hashed -/
theorem verify_data_refuses_other_classes (P : Prims) (k : VKey) (s : Sig) (d : Bytes)
    (hty : Spec.classOf s.cfg.typ = some .cert ∨ Spec.classOf s.cfg.typ = some .bind ∨ Spec.classOf s.cfg.typ = some .direct) :
    verifyData P k s d ≠ .ok := by
  intro h
  obtain ⟨p, hp, _⟩ := (finish_ok_iff _ P k s _).1 h
  obtain ⟨_, _, _, _, _, _, hd, _⟩ := dataPre_ok _ k s d p hp
  have hn := class_types_not_hashable s.cfg.typ.toNat (UInt8.toNat_lt _) (by simpa using hty)
  have e : s.cfg.typ.toNat.toUInt8 = s.cfg.typ := by simp
  rw [e] at hn
  have hdn : ∀ x, hashDataToSign s.cfg x = none := by
    intro x
    unfold hashDataToSign
    rw [if_neg hn.1, if_neg hn.2]
  unfold SigDigest.verifyData at hd
  simp only [hdn] at hd
  split at hd
  · cases hd
  split at hd <;> cases hd

/-! ## 3. guards -/

/-- `Signature::verify` succeeds only for a known signature version, aligned key / signature
versions, a matching issuer (if any issuer subpacket is present, in either area), a supported
hash algorithm, the tabulated salt size, no unknown critical hashed subpacket, the stored two
octets equal to the digest's, and a yes of the primitive -/
theorem verify_guards_data (P : Prims) (k : VKey) (s : Sig) (d : Bytes) (h : verifyData P k s d = .ok) :
    s.known = true ∧ verifyAligned s.cfg k.ver = true ∧ matchIdentity s k = true ∧
    P.hashKnown s.cfg.hash = true ∧ saltSizeOk s.cfg = true ∧ areaScanOk s.cfg s.hashed = true ∧
    ∃ p, SigDigest.verifyData s.cfg k.ver d = some p ∧ s.left16 = (P.hash s.cfg.hash p).take 2 ∧
      P.pkVerify k.mat s.cfg.hash (P.hash s.cfg.hash p) s.sigval = true := by
  obtain ⟨p, hp, hc⟩ := (finish_ok_iff _ P k s _).1 h
  obtain ⟨h1, h2, _, h4, h5, h6, h7, h8⟩ := dataPre_ok _ k s d p hp
  obtain ⟨hl, hpk⟩ := (check_ok_iff _ P k s _).1 hc
  exact ⟨h1, h2, h4 (by decide), h5, h6 (by decide), h8, p, h7, hl (by decide), hpk⟩

theorem verify_guards_certification (P : Prims) (signer : VKey) (signee : Key) (s : Sig) (tag : Nat) (id : Ser)
    (h : verifyCert P signer signee s tag id = .ok) :
    s.known = true ∧ Gen.sndCertTypes.contains s.cfg.typ.toNat = true ∧ verifyAligned s.cfg signer.ver = true ∧
    matchIdentity s signer = true ∧ P.hashKnown s.cfg.hash = true ∧ saltSizeOk s.cfg = true ∧
    areaScanOk s.cfg s.hashed = true ∧ (tag = tagUserId ∨ tag = tagUserAttribute ∨ s.cfg.ver = .v3) := by
  obtain ⟨p, hp, _⟩ := (finish_ok_iff _ P signer s _).1 h
  obtain ⟨h1, h2, h3, _, h5, h6, h7, h8⟩ := certPre_ok _ signer signee s tag id p hp
  have hsalt : saltSizeOk s.cfg = true := by
    obtain ⟨x, ft, hft, _⟩ := verifyCertification_suffix s.cfg signer.ver signee tag id p h7
    exact fieldsAndTrailer_saltSizeOk s.cfg ft hft
  have htag : tag = tagUserId ∨ tag = tagUserAttribute ∨ s.cfg.ver = .v3 := by
    unfold verifyCertification at h7
    rw [if_neg (by simp [h2]), if_neg (by simp [h3])] at h7
    cases hk : serializeForHashing signee with
    | none => simp [hk] at h7
    | some kb =>
      cases hpre : idPrefix s.cfg.ver Gen.sdVerUidPrefix Gen.sdVerAttrPrefix Gen.sdVerIdLenOctets tag id.writeLen with
      | none => simp [hk, hpre] at h7
      | some pre =>
        unfold idPrefix at hpre
        cases hv : s.cfg.ver
        · exact Or.inr (Or.inr rfl)
        · rw [hv] at hpre
          simp only at hpre
          by_cases a : tag = tagUserId
          · exact Or.inl a
          · by_cases b : tag = tagUserAttribute
            · exact Or.inr (Or.inl b)
            · simp [a, b] at hpre
        · rw [hv] at hpre
          simp only at hpre
          by_cases a : tag = tagUserId
          · exact Or.inl a
          · by_cases b : tag = tagUserAttribute
            · exact Or.inr (Or.inl b)
            · simp [a, b] at hpre
  have hty : Gen.sndCertTypes.contains s.cfg.typ.toNat = true := by
    have := (verify_site_types_are_model s.cfg.typ.toNat (UInt8.toNat_lt _)).1
    rw [← this]
    simpa using h2
  exact ⟨h1, hty, h3, h5 (by decide), h6, hsalt, h8, htag⟩

theorem verify_guards_subkey_binding (P : Prims) (primary : VKey) (sub : Key) (s : Sig)
    (h : verifySubkeyBinding P primary sub s = .ok) :
    s.known = true ∧ Gen.sndSubkeyBindingTypes.contains s.cfg.typ.toNat = true ∧
    verifyAligned s.cfg primary.ver = true ∧ P.hashKnown s.cfg.hash = true ∧ areaScanOk s.cfg s.hashed = true := by
  obtain ⟨p, hp, _⟩ := (finish_ok_iff _ P primary s _).1 h
  obtain ⟨h1, h2, h3, _, h5, _, h7⟩ := subkeyBindingPre_ok _ primary sub s p hp
  have hty := (verify_site_types_are_model s.cfg.typ.toNat (UInt8.toNat_lt _)).2.1
  exact ⟨h1, by rw [← hty]; simpa using h2, h3, h5, h7⟩

theorem verify_guards_primary_key_binding (P : Prims) (sub : VKey) (primary : Key) (s : Sig)
    (h : verifyPrimaryKeyBinding P sub primary s = .ok) :
    s.known = true ∧ Gen.sndPrimaryKeyBindingTypes.contains s.cfg.typ.toNat = true ∧
    verifyAligned s.cfg sub.ver = true ∧ P.hashKnown s.cfg.hash = true ∧ areaScanOk s.cfg s.hashed = true := by
  obtain ⟨p, hp, _⟩ := (finish_ok_iff _ P sub s _).1 h
  obtain ⟨h1, h2, h3, _, h5, _, h7⟩ := primaryKeyBindingPre_ok _ sub primary s p hp
  have hty := (verify_site_types_are_model s.cfg.typ.toNat (UInt8.toNat_lt _)).2.2.1
  exact ⟨h1, by rw [← hty]; simpa using h2, h3, h5, h7⟩

theorem verify_guards_key (P : Prims) (signer : VKey) (signee : Key) (s : Sig)
    (h : verifyKey P signer signee s = .ok) :
    s.known = true ∧ Gen.sndKeyTypes.contains s.cfg.typ.toNat = true ∧ verifyAligned s.cfg signer.ver = true ∧
    matchIdentity s signer = true ∧ P.hashKnown s.cfg.hash = true ∧ areaScanOk s.cfg s.hashed = true := by
  obtain ⟨p, hp, _⟩ := (finish_ok_iff _ P signer s _).1 h
  obtain ⟨h1, h2, h3, _, h5, h6, _, h8⟩ := keyPre_ok _ signer signee s p hp
  have hty := (verify_site_types_are_model s.cfg.typ.toNat (UInt8.toNat_lt _)).2.2.2.1
  exact ⟨h1, by rw [← hty]; simpa using h2, h3, h5 (by decide), h6, h8⟩

/-- inline: a filled slot, a document type, aligned versions, a matching issuer -/
theorem verify_guards_inline (P : Prims) (k : VKey) (s : Sig) (slot : Option Bytes)
    (h : verifyInline P k s slot = .ok) :
    ∃ d, slot = some d ∧ s.known = true ∧ Gen.sndInlineTypes.contains s.cfg.typ.toNat = true ∧
      verifyAligned s.cfg k.ver = true ∧ matchIdentity s k = true ∧ s.left16 = d.take 2 ∧
      P.pkVerify k.mat s.cfg.hash d s.sigval = true := by
  cases slot with
  | none => rw [none_slot_is_error] at h; cases h
  | some d =>
    obtain ⟨h1, h2, h3, _, h5, hc⟩ := verifyInline_some_ok P k s d h
    obtain ⟨hl, hpk⟩ := (check_ok_iff _ P k s d).1 hc
    have hty := (verify_site_types_are_model s.cfg.typ.toNat (UInt8.toNat_lt _)).2.2.2.2
    exact ⟨d, rfl, h1, by rw [← hty]; simpa using h2, h3, h5, hl (by decide), hpk⟩

/-- no unknown critical subpacket and only version-matching issuer fingerprints in the hashed area
of a signature that passes the scan of `hash_signature_data` -/
theorem area_scan_ok_iff (c : Cfg) (hs : List HSub) (hv : c.ver ≠ .v3) :
    areaScanOk c hs = true ↔ ∀ h ∈ hs, hsubOk c.ver h = true := by
  unfold areaScanOk
  cases hc : c.ver with
  | v3 => exact absurd hc hv
  | v4 => simp [List.all_eq_true]
  | v6 => simp [List.all_eq_true]

theorem unknown_critical_refused (c : Cfg) (hs : List HSub) (h : HSub) (hv : c.ver ≠ .v3) (hm : h ∈ hs)
    (hc : h.critical = true) (ho : subTypeOther h.typ = true) : areaScanOk c hs = false := by
  cases hok : areaScanOk c hs with
  | false => rfl
  | true =>
    have := (area_scan_ok_iff c hs hv).1 hok h hm
    have hg : Gen.hashSigDataChecksCritical = 1 := by decide
    simp [hsubOk, hg, hc, ho] at this


/-- **left-16 is checked by every entry point**, and on its own: with a primitive that accepts
everything, a signature whose stored two octets differ from the digest's is refused with the
left-16 error whenever the guards before it pass -/
theorem left16_checked (flag : Nat) (hf : flag = 1) (P : Prims) (k : VKey) (s : Sig) (p : Bytes)
    (hyes : ∀ km h d sv, P.pkVerify km h d sv = true)
    (hne : s.left16 ≠ (P.hash s.cfg.hash p).take 2) :
    finish flag P k s (.ok p) = .err .left16 := by
  subst hf
  have := hyes k.mat s.cfg.hash (P.hash s.cfg.hash p) s.sigval
  simp [finish, check_left16 P k s _ hne]

/-- instances: the six call sites -/
theorem left16_checked_sites (P : Prims) (k : VKey) (s : Sig) (p d : Bytes)
    (hne : s.left16 ≠ (P.hash s.cfg.hash p).take 2) (hne' : s.left16 ≠ d.take 2) :
    finish Gen.sndLeft16Data P k s (.ok p) = .err .left16 ∧
    finish Gen.sndLeft16Cert P k s (.ok p) = .err .left16 ∧
    finish Gen.sndLeft16SubkeyBinding P k s (.ok p) = .err .left16 ∧
    finish Gen.sndLeft16PrimaryKeyBinding P k s (.ok p) = .err .left16 ∧
    finish Gen.sndLeft16Key P k s (.ok p) = .err .left16 ∧
    check Gen.sndLeft16Inline P k s d = .err .left16 := by
  refine ⟨?_, ?_, ?_, ?_, ?_, ?_⟩ <;>
    first
      | exact check_left16 P k s _ hne
      | exact check_left16 P k s _ hne'

/-- **a `None` hash slot is an error** -/
theorem inline_none_slot_is_error (P : Prims) (k : VKey) (s : Sig) : verifyInline P k s none = .err .noneSlot :=
  none_slot_is_error P k s

/-- **a one-pass header that does not match its trailing signature never yields a successful
verification**: the slot is `None` (or the reader fails) … -/
theorem ops_mismatch_slot_is_none_or_error (hk : Byte → Bool) (o : Ops) (s : Sig) (chunks : List Bytes)
    (hm : opsMatches o s = false) :
    inlinePre hk (some o) s chunks = .ok none ∨ ∃ g, inlinePre hk (some o) s chunks = .error g :=
  ops_mismatch_slot hk o s chunks hm

/-- … for every key and every primitive -/
theorem ops_mismatch_never_verifies (P : Prims) (k : VKey) (o : Ops) (s : Sig) (chunks : List Bytes)
    (hm : opsMatches o s = false) : verifyMessage P k (some o) s chunks ≠ .ok :=
  ops_mismatch_never_ok P k o s chunks hm

/-- what `matches` compares: type, hash and public-key algorithm octets, the version pairing
(v3 OPS ↔ v4 signature, v6 ↔ v6) and the v6 salt -/
theorem ops_matches_iff (o : Ops) (s : Sig) :
    opsMatches o s = true ↔
      s.known = true ∧ o.typ = s.cfg.typ ∧ o.hash = s.cfg.hash ∧ o.pk = s.cfg.pk ∧
      ((o.ver = 3 ∧ s.cfg.ver = .v4) ∨ (o.ver = 6 ∧ s.cfg.ver = .v6 ∧ o.salt = s.cfg.salt)) := by
  simp [opsMatches, Gen.sndOpsV3, Gen.sndOpsV6, and_assoc]

/-- the inline digest does not depend on how the literal body was delivered -/
theorem inline_chunk_indep (hk : Byte → Bool) (ops : Option Ops) (s : Sig) (c c' : List Bytes)
    (h : c.flatten = c'.flatten) : inlinePre hk ops s c = inlinePre hk ops s c' := by
  unfold inlinePre inlineBody
  simp [hashedText_eq_canon, h]

/-! ### messages with several signatures: one hashing mode per signature -/

/-- **the hashing mode is per signature**: in a message with any number of signatures (prefixed,
one-pass, mixed), the digest input of signature `i` is its own salt, the literal body in the mode
of ITS OWN type (`canon` of the body iff the signature is a text signature, the body itself
otherwise) and its own hashed fields and trailer; hash algorithm its own -/
theorem inline_mode_is_per_signature (hk : Byte → Bool) (sigs : List MsgSig) (chunks : List Bytes)
    (slots : List (Option (Byte × Bytes))) (h : inlineSlotsPre hk sigs chunks = .ok slots)
    (i : Nat) (m : MsgSig) (a : Byte) (p : Bytes) (hm : sigs[i]? = some m) (hx : slots[i]? = some (some (a, p))) :
    a = m.sig.cfg.hash ∧ ∃ ft, fieldsAndTrailer m.sig.cfg = some ft ∧
      p = saltBytes m.sig.cfg ++ (if m.sig.cfg.typ = typText then canon chunks.flatten else chunks.flatten) ++ ft := by
  have hp := inlineSlotsPre_get hk sigs chunks slots h i m _ hm hx
  obtain ⟨ha, _, _, _, ft, hft, hpe⟩ := inlinePre_some hk m.ops m.sig chunks a p hp
  refine ⟨ha, ft, hft, ?_⟩
  rw [hpe]
  by_cases ht : m.sig.cfg.typ = typText
  · simp [inlineBody, ht, hashedText_eq_canon]
  · have : (m.sig.cfg.typ == typText) = false := by simpa using ht
    simp [inlineBody, ht, this]

/-- … and it does not depend on the other signatures of the message: two messages that carry the same
signature (with the same header) at position `i` give it the same slot -/
theorem inline_slot_indep_of_other_signatures (hk : Byte → Bool) (sigs sigs' : List MsgSig) (chunks : List Bytes)
    (slots slots' : List (Option (Byte × Bytes)))
    (h : inlineSlotsPre hk sigs chunks = .ok slots) (h' : inlineSlotsPre hk sigs' chunks = .ok slots')
    (i : Nat) (m : MsgSig) (hm : sigs[i]? = some m) (hm' : sigs'[i]? = some m)
    (x x' : Option (Byte × Bytes)) (hx : slots[i]? = some x) (hx' : slots'[i]? = some x') : x = x' := by
  have a := inlineSlotsPre_get hk sigs chunks slots h i m x hm hx
  have b := inlineSlotsPre_get hk sigs' chunks slots' h' i m x' hm' hx'
  rw [a] at b
  cases b
  rfl

/-- `verify_nested_explicit(i, key)` on a message with several signatures: success means signature `i`
was honestly made, by this key material, over the literal body (canonical form iff signature `i`
is a text signature) with its hashed fields -/
theorem verify_sound_message_at (P : Prims) (L : List (Bytes × Bytes)) (S : List Signed) (k : VKey)
    (sigs : List MsgSig) (chunks : List Bytes) (i : Nat)
    (hU : Unforgeable P L) (hH : LogHonest P L S) (hS : HonestInputs S)
    (hv : ∀ m, sigs[i]? = some m → m.sig.cfg.ver ≠ .v3)
    (hC : ∀ h p, CollisionFreeOn P S h p)
    (h : verifyMessageAt P k sigs chunks i = .ok) :
    ∃ m, sigs[i]? = some m ∧ ∃ e ∈ S, e.km = k.mat ∧
      e.input = m.sig.cfg.toInput (.document (docRep m.sig.cfg.typ chunks.flatten)) := by
  obtain ⟨m, hm, hok⟩ := verifyMessageAt_ok P k sigs chunks i h
  exact ⟨m, hm, verifyMessage_sound P L S k m.ops m.sig chunks hU hH hS (hv m hm) (fun _ p _ => hC _ p) hok⟩

/-! ### One-Pass headers are paired with the trailing signatures by position -/

/-- **the pairing is positional**: in a message with `n` One-Pass Signature packets (prefixed
signatures may be interleaved) the One-Pass packet at head position `i`, `j` One-Pass packets
(with a supported hash algorithm) before it, is judged against exactly the trailing Signature
packet at wire position `n - 1 - j` - whatever the other trailing signatures are, and whether or
not one of them would match the header -/
theorem ops_pairing_is_positional (hk : Byte → Bool) (heads : List MsgHead) (trailing : List Sig)
    (l : List (Option MsgSig)) (h : pairMessage hk heads trailing = some l)
    (i : Nat) (o : Ops) (hi : heads[i]? = some (.onePass o)) (ho : hk o.hash = true) :
    ∃ s, (trailing.take (nOnePass heads))[nOnePass heads - 1 - popsBefore hk heads i]? = some s ∧
      l[i]? = some (some { ops := some o, sig := s }) :=
  pairMessage_positional hk heads trailing l h i o hi ho

/-- fewer trailing signatures than One-Pass headers: the reader fails ("missing signature packet") -/
theorem missing_trailing_signature_is_error (P : Prims) (k : VKey) (heads : List MsgHead) (trailing : List Sig)
    (chunks : List Bytes) (i : Nat) (h : trailing.length < nOnePass heads) :
    verifyMessageWire P k heads trailing chunks i ≠ .ok := by
  unfold verifyMessageWire
  cases heads.findSome? (headConstructionError P.hashKnown) with
  | some g => simp
  | none => simp [pairMessage, h]

/-- a header whose positional trailing signature disagrees with it never verifies at its index,
even if another trailing signature of the same message agrees with it (exchanged trailing
signatures are all invalid) -/
theorem misplaced_trailer_never_verifies (P : Prims) (k : VKey) (heads : List MsgHead) (trailing : List Sig)
    (chunks : List Bytes) (i : Nat) (o : Ops) (t : Sig)
    (hi : heads[i]? = some (.onePass o)) (ho : P.hashKnown o.hash = true)
    (ht : (trailing.take (nOnePass heads))[nOnePass heads - 1 - popsBefore P.hashKnown heads i]? = some t)
    (hm : opsMatches o t = false) :
    verifyMessageWire P k heads trailing chunks i ≠ .ok :=
  misplaced_trailer_never_ok P k heads trailing chunks i o t hi ho ht hm

/-- evaluated: two one-pass signatures (SHA-256 and SHA-512 headers) with their trailing signatures
in nesting order pair header 0 with the LAST trailing signature; with the trailing signatures
exchanged each header meets the other's signature and both slots are empty -/
theorem exchanged_trailers_witness :
    let s8 : Sig := Toy.sig0
    let s10 : Sig := { Toy.sig0 with cfg := { Toy.cfg0 with hash := 10 } }
    let o8 : Ops := { ver := 3, typ := 0, hash := 8, pk := 1 }
    let o10 : Ops := { ver := 3, typ := 0, hash := 10, pk := 1 }
    pairMessage (fun _ => true) [.onePass o8, .onePass o10] [s10, s8] =
      some [some { ops := some o8, sig := s8 }, some { ops := some o10, sig := s10 }] ∧
    pairMessage (fun _ => true) [.onePass o8, .onePass o10] [s8, s10] =
      some [some { ops := some o8, sig := s10 }, some { ops := some o10, sig := s8 }] ∧
    opsMatches o8 s10 = false ∧ opsMatches o10 s8 = false := by decide

/-! ### certificates -/

/-- **back-signature required**: a binding signature whose hashed key flags say "signing" passes
`Signed{Public,Secret}SubKey::verify_bindings` only with an embedded signature that verifies as
a primary key binding made by the subkey -/
theorem backsig_required (P : Prims) (primary sub : VKey) (b : BindSig)
    (h : verifyOneBinding P primary sub b = .ok) (hf : b.signFlag = true) :
    ∃ e, b.embedded = some e ∧ verifyPrimaryKeyBinding P sub primary.toKey e = .ok :=
  (verifyOneBinding_ok P primary sub b h).2 hf

/-- every binding signature of a subkey is verified, and there is at least one -/
theorem subkey_bindings_all_verified (P : Prims) (primary sub : VKey) (sigs : List BindSig)
    (h : verifySubkeyBindings P primary sub sigs = .ok) :
    sigs ≠ [] ∧ ∀ b ∈ sigs, verifySubkeyBinding P primary sub.toKey b.sig = .ok :=
  ⟨(verifySubkeyBindings_ok P primary sub sigs h).1,
    fun b hb => (verifyOneBinding_ok P primary sub b ((verifySubkeyBindings_ok P primary sub sigs h).2 b hb)).1⟩

/-- every certification of a User ID / User Attribute is verified, and there is at least one -/
theorem user_bindings_all_verified (P : Prims) (k : VKey) (tag : Nat) (id : Ser) (sigs : List Sig)
    (h : verifyUser P k tag id sigs = .ok) : sigs ≠ [] ∧ ∀ s ∈ sigs, verifyCertSelf P k s tag id = .ok :=
  verifyUser_ok P k tag id sigs h

/-- `Signed{Public,Secret}Key::verify_bindings`: every component is verified -/
theorem certificate_all_verified (P : Prims) (primary : VKey) (d : Details) (subkeys : List (VKey × List BindSig))
    (h : verifyCertificate P primary d subkeys = .ok) :
    (∀ u ∈ d.users, verifyUser P primary tagUserId u.1 u.2 = .ok) ∧
    (∀ u ∈ d.attrs, verifyUser P primary tagUserAttribute u.1 u.2 = .ok) ∧
    (∀ s ∈ d.revocations, verifyKeySelf P primary s = .ok) ∧ (∀ s ∈ d.directs, verifyKeySelf P primary s = .ok) ∧
    ∀ sk ∈ subkeys, verifySubkeyBindings P primary sk.1 sk.2 = .ok := by
  obtain ⟨hd, hs⟩ := verifyCertificate_ok P primary d subkeys h
  obtain ⟨a, b, c, e⟩ := verifyDetails_ok P primary d hd
  exact ⟨a, b, c, e, hs⟩

/-- **certificate soundness**: in a certificate that passes `verify_bindings`, every certification of
every User ID was made by the holder of the primary key material over exactly (primary key body,
that User ID) with exactly the hashed fields of the signature packet -/
theorem certificate_users_sound (P : Prims) (L : List (Bytes × Bytes)) (S : List Signed) (primary : VKey)
    (d : Details) (subkeys : List (VKey × List BindSig))
    (hU : Unforgeable P L) (hH : LogHonest P L S) (hS : HonestInputs S)
    (htp : primary.ser.truthful) (hti : ∀ u ∈ d.users, u.1.truthful)
    (hv : ∀ u ∈ d.users, ∀ s ∈ u.2, s.cfg.ver ≠ .v3)
    (hC : ∀ u ∈ d.users, ∀ s ∈ u.2, ∀ p,
      verifyCertification s.cfg primary.ver primary.toKey tagUserId u.1 = some p → CollisionFreeOn P S s.cfg.hash p)
    (h : verifyCertificate P primary d subkeys = .ok) :
    ∀ u ∈ d.users, u.2 ≠ [] ∧ ∀ s ∈ u.2, ∃ e ∈ S, e.km = primary.mat ∧
      e.input = s.cfg.toInput (.certification primary.toKey.toSpec false u.1.bytes) := by
  intro u hu
  obtain ⟨hus, _, _, _, _⟩ := certificate_all_verified P primary d subkeys h
  obtain ⟨hne, hall⟩ := verifyUser_ok P primary tagUserId u.1 u.2 (hus u hu)
  refine ⟨hne, ?_⟩
  intro s hs
  have := verifyCert_sound P L S primary primary.toKey s tagUserId u.1 hU hH hS (hv u hu s hs) htp (hti u hu)
    (hC u hu s hs) (hall s hs)
  simpa [tagUserId, tagUserAttribute] using this

/-- … and every binding of every subkey was made by the holder of the primary key material over
(primary key body, subkey body); a signing-capable subkey moreover signed (primary, subkey) itself -/
theorem certificate_subkeys_sound (P : Prims) (L : List (Bytes × Bytes)) (S : List Signed) (primary : VKey)
    (d : Details) (subkeys : List (VKey × List BindSig))
    (hU : Unforgeable P L) (hH : LogHonest P L S) (hS : HonestInputs S)
    (htp : primary.ser.truthful) (hts : ∀ sk ∈ subkeys, sk.1.ser.truthful)
    (hv : ∀ sk ∈ subkeys, ∀ b ∈ sk.2, b.sig.cfg.ver ≠ .v3 ∧ ∀ e, b.embedded = some e → e.cfg.ver ≠ .v3)
    (hC : ∀ h p, CollisionFreeOn P S h p)
    (h : verifyCertificate P primary d subkeys = .ok) :
    ∀ sk ∈ subkeys, sk.2 ≠ [] ∧ ∀ b ∈ sk.2,
      (∃ e ∈ S, e.km = primary.mat ∧
        e.input = b.sig.cfg.toInput (.binding primary.toKey.toSpec sk.1.toKey.toSpec)) ∧
      (b.signFlag = true → ∃ bs, b.embedded = some bs ∧ ∃ e ∈ S, e.km = sk.1.mat ∧
        e.input = bs.cfg.toInput (.binding primary.toKey.toSpec sk.1.toKey.toSpec)) := by
  intro sk hsk
  obtain ⟨_, _, _, _, hsub⟩ := certificate_all_verified P primary d subkeys h
  obtain ⟨hne, hall⟩ := verifySubkeyBindings_ok P primary sk.1 sk.2 (hsub sk hsk)
  refine ⟨hne, ?_⟩
  intro b hb
  obtain ⟨hb1, hb2⟩ := verifyOneBinding_ok P primary sk.1 b (hall b hb)
  refine ⟨verifySubkeyBinding_sound P L S primary sk.1.toKey b.sig hU hH hS (hv sk hsk b hb).1 htp (hts sk hsk)
    (fun p _ => hC _ p) hb1, ?_⟩
  intro hf
  obtain ⟨bs, hbs, hok⟩ := hb2 hf
  exact ⟨bs, hbs, verifyPrimaryKeyBinding_sound P L S sk.1 primary.toKey bs hU hH hS
    ((hv sk hsk b hb).2 bs hbs) htp (hts sk hsk) (fun p _ => hC _ p) hok⟩

/-! ## 4. what is not bound (the exception list of the property, explicit) -/

/-- **unhashed area**: parsed packets that differ only in their unhashed areas are read identically
by the `Signature::verify*` functions if those areas carry the same issuer subpackets -/
theorem unbound_unhashed_area (v6 : Bool) (typ pk hash : Byte) (hashed u1 u2 : List Wire.Subpacket)
    (left salt : Bytes) (sb : Wire.SigBytes)
    (h16 : bodiesOf Gen.spRdIssuerKeyId u1 = bodiesOf Gen.spRdIssuerKeyId u2)
    (h33 : bodiesOf Gen.spRdIssuerFingerprint u1 = bodiesOf Gen.spRdIssuerFingerprint u2) :
    ofWire (.v4 v6 typ pk hash hashed u1 left salt sb) = ofWire (.v4 v6 typ pk hash hashed u2 left salt sb) :=
  ofWire_unhashed v6 typ pk hash hashed u1 u2 left salt sb h16 h33

/-- … and the issuer subpackets (of either area) matter only through `match_identity` -/
theorem unbound_issuer_subpackets (P : Prims) (k : VKey) (s : Sig) (ids fps : List Bytes) (d : Bytes)
    (h : matchIdentity { s with issuerIds := ids, issuerFps := fps } k = matchIdentity s k) :
    verifyData P k { s with issuerIds := ids, issuerFps := fps } d = verifyData P k s d :=
  verifyData_issuers_only P k s ids fps d h

/-- the binding verifiers ignore issuer subpackets altogether -/
theorem unbound_issuer_subpackets_bindings (P : Prims) (primary : VKey) (sub : Key) (s : Sig) (ids fps : List Bytes) :
    verifySubkeyBinding P primary sub { s with issuerIds := ids, issuerFps := fps } =
      verifySubkeyBinding P primary sub s :=
  subkeyBinding_ignores_issuers P primary sub s ids fps

/-- concrete: a Notation-like subpacket added to the unhashed area changes nothing; the two packet
bodies differ -/
theorem unbound_unhashed_witness : Toy.bodyA ≠ Toy.bodyB ∧ parseSig Toy.bodyA = parseSig Toy.bodyB ∧
    (parseSig Toy.bodyA).isSome = true := by decide

/-- an unhashed issuer subpacket *can* make a verification fail (never succeed on its own):
adding the Key ID of another key to a signature without issuer information -/
theorem unhashed_issuer_can_refuse :
    verifyData Toy.P Toy.key0 Toy.sig0 Toy.data0 = .ok ∧
    verifyData Toy.P Toy.key0 { Toy.sig0 with issuerIds := [Toy.key1.keyId] } Toy.data0 = .err .issuer := by
  decide

/-- **MPI bit count**: the two bit-count octets of an MPI are not bound beyond the number of octets
they imply -/
theorem unbound_mpi_bitcount (n n' : Nat) (b : Bytes) (hn : n < 65536) (hn' : n' < 65536)
    (h1 : n ≤ Gen.mpiMaxBits) (h2 : n' ≤ Gen.mpiMaxBits) (h : (n + 7) / 8 = (n' + 7) / 8) :
    Wire.mpiParse (be16 n ++ b) = Wire.mpiParse (be16 n' ++ b) :=
  mpiParse_bitcount n n' b hn hn' h1 h2 h

theorem unbound_mpi_bitcount_witness : Toy.bodyA ≠ Toy.bodyC ∧ parseSig Toy.bodyC = parseSig Toy.bodyA := by
  decide

/-- **One-Pass issuer**: the Key ID / fingerprint and the nesting flag of a One-Pass Signature
packet are not compared with anything -/
theorem unbound_ops_issuer (typ hash pk : Byte) (id id' : Bytes) (l l' : Byte) (salt fp fp' : Bytes) :
    ofWireOps (.v3 typ hash pk id l) = ofWireOps (.v3 typ hash pk id' l') ∧
    ofWireOps (.v6 typ hash pk salt fp l) = ofWireOps (.v6 typ hash pk salt fp' l') := ⟨rfl, rfl⟩

/-- **packet framing**: the verification functions are functions of the packet *body*; header
format and length encoding never reach them (`parseSig` takes the body) -/
theorem unbound_packet_framing (body : Bytes) (h h' : Rpgp.Hdr) :
    (fun (_ : Rpgp.Hdr) => parseSig body) h = (fun (_ : Rpgp.Hdr) => parseSig body) h' := rfl

/-! ### the hashed area and the prefixed packet are bound (since the D2a / D2b repairs)

Before c2573e8 the digest covered `areaSer (areaParse raw)` while the parser accepted any `raw`
that parses (Revocable 00 → 02 still verified); before 11d69e3 the message parser dropped trailing
octets of a prefixed Signature packet.  The former `…_partial` theorems are now unconditional. -/

/-- a parsed v4 / v6 packet: the hashed area that enters the digest is the hashed area as received -/
theorem hashed_area_is_raw (body : Bytes) (s : Sig) (h : parseSig body = some s)
    (hk : s.known = true) (hv : s.cfg.ver ≠ .v3) : s.cfg.area = Wire.rawHashedArea body := by
  unfold parseSig at h
  cases hw : Wire.sigParse (Wire.embFor body) body with
  | none => simp [hw] at h
  | some w =>
    simp only [hw, Option.map_some, Option.some.injEq] at h
    subst h
    cases w with
    | v3 ver typ created issuer pk hash left sb => simp [ofWire] at hv
    | unknown ver data => simp [ofWire] at hk
    | v4 v6 typ pk hash hashed unhashed left salt sb =>
      have := Wire.sig_parse_hashed_canonical _ body v6 typ pk hash hashed unhashed left salt sb hw
      simp [ofWire, this]

/-- everything the parser accepts has a hashed area that writes back to itself -/
theorem parsed_area_canonical (body : Bytes) (s : Sig) (h : parseSig body = some s) :
    ∃ w, Wire.sigParse (Wire.embFor body) body = some w ∧ s = ofWire w ∧
      ∀ v6 typ pk hash hashed unhashed left salt sb, w = .v4 v6 typ pk hash hashed unhashed left salt sb →
        Wire.areaSer hashed = some (Wire.rawHashedArea body) := by
  unfold parseSig at h
  cases hw : Wire.sigParse (Wire.embFor body) body with
  | none => simp [hw] at h
  | some w =>
    simp only [hw, Option.map_some, Option.some.injEq] at h
    refine ⟨w, rfl, h.symm, ?_⟩
    intro v6 typ pk hash hashed unhashed left salt sb he
    subst he
    exact Wire.sig_parse_hashed_canonical _ body v6 typ pk hash hashed unhashed left salt sb hw

/-- two parsed packets with the same hashed area in the digest have the same hashed-area octets on
the wire -/
theorem hashed_area_octets_bound (b1 b2 : Bytes) (s1 s2 : Sig) (h1 : parseSig b1 = some s1) (h2 : parseSig b2 = some s2)
    (k1 : s1.known = true) (k2 : s2.known = true) (v1 : s1.cfg.ver ≠ .v3) (v2 : s2.cfg.ver ≠ .v3)
    (h : s1.cfg.area = s2.cfg.area) : Wire.rawHashedArea b1 = Wire.rawHashedArea b2 := by
  rw [← hashed_area_is_raw b1 s1 h1 k1 v1, ← hashed_area_is_raw b2 s2 h2 k2 v2]
  exact h

/-- **the full statement that D2a violated**: two signature packets that both verify under the same
key over the same document, against a signer who signed one thing, have the same hashed-area
octets on the wire (and the same type, algorithm octets and salt) -/
theorem hashed_area_octets_bound_by_signature (P : Prims) (L : List (Bytes × Bytes)) (km0 : Bytes) (i0 : Spec.Input)
    (k : VKey) (b1 b2 : Bytes) (s1 s2 : Sig) (d : Bytes)
    (hU : Unforgeable P L) (hH : LogHonest P L [⟨km0, i0⟩]) (hS : HonestInputs [⟨km0, i0⟩])
    (p1 : parseSig b1 = some s1) (p2 : parseSig b2 = some s2)
    (v1 : s1.cfg.ver ≠ .v3) (v2 : s2.cfg.ver ≠ .v3)
    (t1 : s1.cfg.typ = typBinary ∨ s1.cfg.typ = typText) (t2 : s2.cfg.typ = typBinary ∨ s2.cfg.typ = typText)
    (hC : ∀ h p, CollisionFreeOn P [⟨km0, i0⟩] h p)
    (ok1 : verifyData P k s1 d = .ok) (ok2 : verifyData P k s2 d = .ok) :
    Wire.rawHashedArea b1 = Wire.rawHashedArea b2 ∧ s1.cfg.typ = s2.cfg.typ ∧ s1.cfg.pk = s2.cfg.pk ∧
      s1.cfg.hash = s2.cfg.hash := by
  obtain ⟨e1, he1, _, hi1⟩ := verifyData_sound P L _ k s1 d hU hH hS v1 t1 (fun p _ => hC _ p) ok1
  obtain ⟨e2, he2, _, hi2⟩ := verifyData_sound P L _ k s2 d hU hH hS v2 t2 (fun p _ => hC _ p) ok2
  simp only [List.mem_singleton] at he1 he2
  subst he1
  subst he2
  simp only at hi1 hi2
  have hk1 := (verify_guards_data P k s1 d ok1).1
  have hk2 := (verify_guards_data P k s2 d ok2).1
  have e : s1.cfg.toInput (.document (docRep s1.cfg.typ d)) = s2.cfg.toInput (.document (docRep s2.cfg.typ d)) := by
    rw [← hi1, ← hi2]
  have harea : s1.cfg.area = s2.cfg.area ∧ s1.cfg.typ = s2.cfg.typ ∧ s1.cfg.pk = s2.cfg.pk ∧ s1.cfg.hash = s2.cfg.hash := by
    cases c1 : s1.cfg.ver
    · exact absurd c1 v1
    all_goals
      cases c2 : s2.cfg.ver
      · exact absurd c2 v2
      all_goals simp [Cfg.toInput, c1, c2] at e
      all_goals simp_all
  exact ⟨hashed_area_octets_bound b1 b2 s1 s2 p1 p2 hk1 hk2 v1 v2 harea.1, harea.2⟩

/-- regression (the former D2a witnesses): Revocable = 0x00 in the hashed area parses, the same
packet with 0x02 is refused; an embedded signature with such a hashed area is refused wherever it
sits - in the UNHASHED area of the outer signature too; an embedded signature in the hashed area
whose MPI bit count is not the canonical one is refused -/
theorem hashed_area_noncanonical_refused_witness :
    (parseSig Toy.bodyR0).isSome = true ∧ parseSig Toy.bodyR2 = none ∧
    (parseSig Toy.bodyE0).isSome = true ∧ parseSig Toy.bodyE2 = none ∧
    (parseSig Toy.bodyH1).isSome = true ∧ parseSig Toy.bodyH8 = none := by decide

/-- the subpacket parser itself still normalises (it does so for the unhashed area, which is not
hashed): `Revocable 02` is read as `false` and would be written back as `00` -/
theorem subpacket_parser_still_normalises_witness :
    (Wire.areaParse (fun _ => none) 4 [2, 7, 2]).bind Wire.areaSer = some [2, 7, 0] ∧
    Wire.areaParseCanon (fun _ => none) [2, 7, 2] = none ∧
    (Wire.areaParseCanon (fun _ => none) [2, 7, 0]).isSome = true := by decide

/-- **the full statement that D2b violated**: the message parser accepts a prefixed Signature packet
exactly when the packet parser accepts it as a standalone packet … -/
theorem prefixed_sig_exact (body : Bytes) : parseSigPrefix body = parseSig body := by
  unfold parseSigPrefix
  rw [if_pos (by decide)]

/-- … and likewise a One-Pass Signature packet -/
theorem prefixed_ops_exact (body : Bytes) : parseOpsPrefix body = Wire.opsParse body := by
  unfold parseOpsPrefix
  rw [if_pos (by decide)]

/-- regression (the former D2b witness): a stray octet after the signature value is refused by both
parsers; the pre-fix message parser (`parseSigPrefixPreFix`) accepted it as the signature without
the octet -/
theorem prefixed_sig_trailing_octet_refused_witness :
    parseSig Toy.bodyT = none ∧ parseSigPrefix Toy.bodyT = none ∧
    parseSigPrefixPreFix Toy.bodyT = parseSig Toy.bodyA ∧ (parseSig Toy.bodyA).isSome = true := by
  decide

/-! ## non-vacuity: the hypotheses are satisfiable together with a successful verification -/

example : Unforgeable Toy.P Toy.L ∧ LogHonest Toy.P Toy.L Toy.S ∧ HonestInputs Toy.S ∧
    (∀ h p, CollisionFreeOn Toy.P Toy.S h p) :=
  ⟨Toy.unforgeable, Toy.logHonest, Toy.honestInputs, Toy.collisionFree⟩

example : verifyData Toy.P Toy.key0 Toy.sig0 Toy.data0 = .ok := by decide

/-- the conclusion of `verify_sound_data` on the toy instance is the logged entry -/
example : ∃ e ∈ Toy.S, e.km = Toy.key0.mat ∧
    e.input = Toy.sig0.cfg.toInput (.document (docRep Toy.sig0.cfg.typ Toy.data0)) :=
  verify_sound_data Toy.P Toy.L Toy.S Toy.key0 Toy.sig0 Toy.data0 Toy.unforgeable Toy.logHonest
    Toy.honestInputs (by decide) (Or.inl (by decide)) (fun p _ => Toy.collisionFree _ p) (by decide)

/-- another document, another key, a wrong left-16 (even with a primitive that accepts everything),
another signature type: refused, each by the guard the theorems name -/
example : verifyData Toy.P Toy.key0 Toy.sig0 [0x62] = .err .left16 ∧
    verifyData Toy.P Toy.key1 Toy.sig0 Toy.data0 = .err .pk ∧
    verifyData Toy.Pyes Toy.key1 { Toy.sig0 with left16 := [0, 0] } Toy.data0 = .err .left16 ∧
    verifyData Toy.P Toy.key0 { Toy.sig0 with cfg := { Toy.cfg0 with typ := 0x10 } } Toy.data0 = .err .input ∧
    verifyData Toy.P { Toy.key0 with ver := 6 } Toy.sig0 Toy.data0 = .err .align := by decide

/-- one-pass: matching header, mismatching header, prefixed form -/
example :
    verifyMessage Toy.P Toy.key0 (some { ver := 3, typ := 0, hash := 8, pk := 1 }) Toy.sig0 [Toy.data0] = .ok ∧
    verifyMessage Toy.P Toy.key0 (some { ver := 3, typ := 1, hash := 8, pk := 1 }) Toy.sig0 [Toy.data0] = .err .noneSlot ∧
    verifyMessage Toy.P Toy.key0 none Toy.sig0 [Toy.data0] = .ok := by decide

example : opsMatches { ver := 3, typ := 1, hash := 8, pk := 1 } Toy.sig0 = false := by decide

end Rpgp.C02
