import RpgpModel.Bytes
import RpgpModel.Stream
import RpgpModel.Canon
import RpgpModel.Gen.Constants
/-!
# Driver — `rpgp_model`: one request line in, one canonical answer line out.

Requests are `op k1=v1 k2=v2 …`; byte strings are lowercase hex (`-` = empty), lists of byte
strings are comma separated.  Answers: `ok:<payload>`, `err:<class>`, or `bad-request`.
-/
open Rpgp

abbrev Args := List (String × String)

def parseArgs (ws : List String) : Args :=
  ws.filterMap fun w =>
    match w.splitOn "=" with
    | [k, v] => some (k, v)
    | _ => none

def Args.get? (a : Args) (k : String) : Option String := (a.find? (·.1 == k)).map (·.2)

def Args.bytes (a : Args) (k : String) : Option Bytes := a.get? k >>= fromHex

def Args.nat (a : Args) (k : String) : Option Nat := a.get? k >>= String.toNat?

def parseList (s : String) : Option (List Bytes) :=
  if s = "-" then some [] else (s.splitOn ",").mapM fromHex

def Args.list (a : Args) (k : String) : Option (List Bytes) := a.get? k >>= parseList

def okBytes (b : Bytes) : String := "ok:" ++ hexOrDash b
def okBool (b : Bool) : String := if b then "ok:1" else "ok:0"

def handle (op : String) (a : Args) : Option String :=
  match op with
  | "canon_hasher" => do
    let cs ← a.list "chunks"
    pure (okBytes (hashedText cs))
  | "canon_reader" => do
    let d ← a.bytes "data"
    pure (okBytes (normalizedRead Gen.normalizedReaderWindow d))
  | "canon_replace" => do
    let d ← a.bytes "data"
    pure (okBytes (replaceNewlines CRLF d))
  | "crlf_accepts" => do
    let cs ← a.list "chunks"
    pure (okBool (crlfCheck cs))
  | _ => none

def answer (line : String) : String :=
  match line.trimAscii.toString.splitOn " " with
  | [] => "bad-request"
  | op :: rest => (handle op (parseArgs rest)).getD "bad-request"

partial def loop (hin hout : IO.FS.Stream) : IO Unit := do
  let line ← hin.getLine
  if line.isEmpty then return ()
  hout.putStrLn (answer line)
  loop hin hout

def main : IO Unit := do
  let hin ← IO.getStdin
  let hout ← IO.getStdout
  loop hin hout
  hout.flush
