import RpgpProofs.E2E
import RpgpProofs.Utf8
import RpgpProofs.Canon
/-! E2E, part 11: literal metadata on the reader side, and the `Utf8` literal check (builder side only). -/
namespace Rpgp.E2E
open Rpgp

/-- the reader returns whatever literal header a (fixed-length, unsigned) literal packet carries: mode
octet, file name of any length 0..255, four-octet date — and the body untouched -/
theorem readSigned_literal_any (P : Prims) (o : ReadOpts) (mode : Byte) (name created data : Bytes)
    (hn : name.length < 256) (hc : created.length = 4)
    (hl : 2 + name.length + 4 + data.length < 4294967296) :
    readSigned P o (fixedPkt Gen.e2eTagLiteral (mode :: name.length.toUInt8 :: name ++ created ++ data)) =
      some { payload := data, litMeta := ⟨mode, name, created⟩, verified := o.verifiers.map fun _ => false } := by
  have hser : Wire.literalSer ⟨mode, name, created, data⟩ = some (mode :: name.length.toUInt8 :: name ++ created ++ data) := by
    simp [Wire.literalSer, hn]
  have hparse := Wire.literal_parse_ser _ _ ⟨hn, hc⟩ hser
  have hb : (mode :: name.length.toUInt8 :: name ++ created ++ data).length < 4294967296 := by
    simp only [List.length_cons, List.length_append]; omega
  have hsplit := splitPackets_around [] [] (fixedPkt Gen.e2eTagLiteral (mode :: name.length.toUInt8 :: name ++ created ++ data))
    (mode :: name.length.toUInt8 :: name ++ created ++ data) Gen.e2eTagLiteral (by simp) (by simp)
    (fixedPkt_length_ge _ _) (fun rest => ⟨_, deframe_fixedPkt Gen.e2eTagLiteral (by decide) _ rest hb, rfl⟩) 0
  simp only [List.map_nil, List.flatten_nil, List.nil_append, List.append_nil, Nat.add_zero] at hsplit
  unfold readSigned
  simp only [hsplit]
  have e1 : ([(Gen.e2eTagLiteral, mode :: name.length.toUInt8 :: name ++ created ++ data)] : List (Nat × Bytes)).takeWhile
      (fun p => p.1 == Gen.e2eTagOps) = [] := by
    simp only [List.takeWhile_cons, List.takeWhile_nil]; rfl
  have e2 : ([(Gen.e2eTagLiteral, mode :: name.length.toUInt8 :: name ++ created ++ data)] : List (Nat × Bytes)).dropWhile
      (fun p => p.1 == Gen.e2eTagOps) = [(Gen.e2eTagLiteral, mode :: name.length.toUInt8 :: name ++ created ++ data)] := by
    simp only [List.dropWhile_cons, List.dropWhile_nil]; rfl
  rw [e1, e2]
  simp only [hparse]
  simp

/-- `LiteralDataGenerator::new` for a `Utf8` literal accepts the source — however it is delivered —
exactly when the whole text is valid UTF-8 and every LF is preceded by CR -/
theorem srcOk_utf8_iff (P : Prims) (LV : VutLaws P.vut) (hnil : P.vut [] = 0) (mode : Byte)
    (hm : mode.toNat = Gen.e2eModeUtf8) (src : List Bytes) :
    srcOk P mode src = true ↔ (P.vut src.flatten = src.flatten.length ∧ canon src.flatten = src.flatten) := by
  unfold srcOk
  rw [if_pos hm, Bool.and_eq_true, utf8Check_chunk_independent P.vut LV hnil, crlfCheck_iff]

theorem srcOk_other (P : Prims) (mode : Byte) (hm : mode.toNat ≠ Gen.e2eModeUtf8) (src : List Bytes) :
    srcOk P mode src = true := by
  unfold srcOk; rw [if_neg hm]

theorem buildFull_none_of_srcOk_false (P : Prims) (c : Cfg) (src : List Bytes) (h : srcOk P c.mode src = false) :
    buildFull P c src = none := by
  unfold buildFull buildBinary
  simp [h]

end Rpgp.E2E
