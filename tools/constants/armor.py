# ---- armor/writer.rs ---------------------------------------------------------------------
AW = "src/armor/writer.rs"
item("armorLineWidth", AW, r"LineWriter::<_, U(\d+)>::new\(writer\.by_ref\(\), LineBreak::Lf\)", "armor/writer.rs write_body: body line width (typenum U<n>)")
item("wrCrcShiftHi", AW, r"\(crc >> (\d+)\) as u8,\s*\(crc >> \d+\) as u8,\s*crc as u8", "write_footer: shift of the first CRC octet")
item("wrCrcShiftMid", AW, r"\(crc >> \d+\) as u8,\s*\(crc >> (\d+)\) as u8,\s*crc as u8", "write_footer: shift of the second CRC octet")
# ---- base64/decoder.rs -------------------------------------------------------------------
BD = "src/base64/decoder.rs"
item("b64DecBufSize", BD, r"const BUF_SIZE: usize = (\d+);", "base64/decoder.rs BUF_SIZE (capacity of the token buffer)")
item("b64DecCapDiv", BD, r"const BUF_CAPACITY: usize = BUF_SIZE / (\d+) \* \d+;", "base64/decoder.rs BUF_CAPACITY divisor")
item("b64DecCapMul", BD, r"const BUF_CAPACITY: usize = BUF_SIZE / \d+ \* (\d+);", "base64/decoder.rs BUF_CAPACITY multiplier")
item("b64DecRefillBelow", BD, r"if self\.inner\.buf_len\(\) < (\d+) \{", "Base64Decoder::read: refill when fewer tokens than this are buffered")
item("b64DecQuantumIn", BD, r"let nr = self\.inner\.buf_len\(\) / (\d+) \* \d+;", "Base64Decoder::read: input quantum")
item("b64DecQuantumOut", BD, r"let nw = self\.inner\.buf_len\(\) / \d+ \* (\d+);", "Base64Decoder::read: output quantum")
item("b64DecBackoff", BD, r"\} else \{\s*n -= (\d+)\s*\}", "try_decode_engine_slice: back-off step")
# ---- base64/reader.rs --------------------------------------------------------------------
BR = "src/base64/reader.rs"
item("tokUpperLo", BR, r"fn is_base64_token.*?\(\((0x[0-9A-Fa-f]+)\.\.=0x[0-9A-Fa-f]+\)\.contains", "is_base64_token: 'A'")
item("tokUpperHi", BR, r"fn is_base64_token.*?\(\(0x[0-9A-Fa-f]+\.\.=(0x[0-9A-Fa-f]+)\)\.contains", "is_base64_token: 'Z'")
item("tokLowerLo", BR, r"fn is_base64_token.*?\|\| \((0x[0-9A-Fa-f]+)\.\.=0x[0-9A-Fa-f]+\)\.contains\(&c\)\)", "is_base64_token: 'a'")
item("tokLowerHi", BR, r"fn is_base64_token.*?\|\| \(0x[0-9A-Fa-f]+\.\.=(0x[0-9A-Fa-f]+)\)\.contains\(&c\)\)", "is_base64_token: 'z'")
item("tokDigitLo", BR, r"\|\| \((0x[0-9A-Fa-f]+)\.\.=0x[0-9A-Fa-f]+\)\.contains\(&c\) //  digit", "is_base64_token: '0'")
item("tokDigitHi", BR, r"\|\| \(0x[0-9A-Fa-f]+\.\.=(0x[0-9A-Fa-f]+)\)\.contains\(&c\) //  digit", "is_base64_token: '9'")
# ---- armor/reader.rs ---------------------------------------------------------------------
AR = "src/armor/reader.rs"
item("footerCrcChars", AR, r"map\(take\((\d+)u8\), Some\)", "footer_parser: number of checksum characters after '='")
item("footerMinFill", AR, r"while b\.buf_len\(\) < (\d+) \{", "Dearmor::read Part::Footer: fill the buffer to at least this many bytes")
item("dearmorDefaultLimit", AR, r"limit: (1024 \* 1024 \* 1024),", "DearmorOptions::default limit")
item("pinnedUnupdatedCrc", AR, r"calculated_crc: (0x[0-9a-fA-F]+),", "test_dearmor_bad_crc24: calculated_crc pinned by the repo's own test (D10)")
item("readChecksumBufLen", AR, r"fn read_checksum.*?let mut buf = \[0; (\d+)\];", "read_checksum: scratch buffer length")
