import RpgpProofs.SoundUnbound
/-!
# SoundToy — concrete instances used by the non-vacuity examples of `RpgpProps/C02.lean`

An identity "hash" (trivially collision free) and a primitive that accepts exactly one logged
(key material, digest, signature value) triple: every hypothesis of the reduction theorems is
satisfiable together with a successful verification.
-/
namespace Rpgp.Sound.Toy
open Rpgp Rpgp.SigDigest Rpgp.Sound

def cfg0 : Cfg := { ver := .v4, typ := 0, pk := 1, hash := 8, area := [] }
def data0 : Bytes := [0x61]
def pre0 : Bytes := Spec.preimage (cfg0.toInput (.document data0))

def P : Prims :=
  { hashKnown := fun h => h == 8
    hash := fun _ p => p
    pkVerify := fun km _ d sv => km == [1] && d == pre0 && sv == [[9]] }

/-- a primitive that accepts everything (for the left-16 theorems) -/
def Pyes : Prims := { P with pkVerify := fun _ _ _ _ => true }

def key0 : VKey := { ver := 4, keyId := [1, 2, 3, 4, 5, 6, 7, 8], fp := [4, 0xAA], mat := [1] }
def key1 : VKey := { ver := 4, keyId := [8, 7, 6, 5, 4, 3, 2, 1], fp := [4, 0xBB], mat := [2] }
def sig0 : Sig := { cfg := cfg0, left16 := pre0.take 2, sigval := [[9]] }

def L : List (Bytes × Bytes) := [([1], pre0)]
def S : List Signed := [⟨[1], cfg0.toInput (.document data0)⟩]

theorem unforgeable : Unforgeable P L := by
  intro km h d sv hv
  simp only [P, Bool.and_eq_true, beq_iff_eq] at hv
  obtain ⟨⟨rfl, rfl⟩, _⟩ := hv
  simp [L]

theorem logHonest : LogHonest P L S := by
  intro km d hm
  simp only [L, List.mem_singleton, Prod.mk.injEq] at hm
  obtain ⟨rfl, rfl⟩ := hm
  exact ⟨⟨[1], cfg0.toInput (.document data0)⟩, by simp [S], rfl, rfl⟩

theorem honestInputs : HonestInputs S := by
  intro e he
  simp only [S, List.mem_singleton] at he
  subst he
  exact ⟨by decide, by decide⟩

theorem collisionFree (h : Byte) (p : Bytes) : CollisionFreeOn P S h p := by
  intro e _ he
  exact he

/-- a v4 signature body with an empty unhashed area and one with a Notation subpacket in it:
version 4, type 0, RSA (one MPI), SHA-256, hashed area empty -/
def bodyA : Bytes := [4, 0, 1, 8, 0, 0, 0, 0, 0xAB, 0xCD, 0, 1, 1]
def bodyB : Bytes := [4, 0, 1, 8, 0, 0, 0, 3, 2, 100, 7, 0xAB, 0xCD, 0, 1, 1]
/-- the same with the MPI bit count 2..8 instead of 1 (still one octet) -/
def bodyC : Bytes := [4, 0, 1, 8, 0, 0, 0, 0, 0xAB, 0xCD, 0, 8, 1]
/-- hashed area = Revocable(0) / Revocable(2): both are read as `false` and written back as 0 -/
def bodyR0 : Bytes := [4, 0, 1, 8, 0, 3, 2, 7, 0, 0, 0, 0xAB, 0xCD, 0, 1, 1]
def bodyR2 : Bytes := [4, 0, 1, 8, 0, 3, 2, 7, 2, 0, 0, 0xAB, 0xCD, 0, 1, 1]
/-- `bodyA` followed by a stray octet -/
def bodyT : Bytes := bodyA ++ [0x55]
/-- a signature that carries `bodyR0` / `bodyR2` as an Embedded Signature subpacket (type 32) in its
UNHASHED area -/
def bodyE0 : Bytes := [4, 0, 1, 8, 0, 0, 0, 18, 17, 32] ++ bodyR0 ++ [0xAB, 0xCD, 0, 1, 1]
def bodyE2 : Bytes := [4, 0, 1, 8, 0, 0, 0, 18, 17, 32] ++ bodyR2 ++ [0xAB, 0xCD, 0, 1, 1]
/-- … and in its hashed area, with the embedded signature's MPI bit count 1 (canonical) / 8 -/
def bodyH1 : Bytes := [4, 0, 1, 8, 0, 15, 14, 32] ++ bodyA ++ [0, 0, 0xAB, 0xCD, 0, 1, 1]
def bodyH8 : Bytes := [4, 0, 1, 8, 0, 15, 14, 32] ++ bodyC ++ [0, 0, 0xAB, 0xCD, 0, 1, 1]

end Rpgp.Sound.Toy
