import RpgpProofs.SecretKey
/-!
# C08 — secret-key locking: the right password restores the key, nothing else does

Model: `RpgpModel/SecretKey.lean` (usage octet ↔ `S2kParams` variant tables on read and on write,
S2K specifier codec, wire form of the secret part, `lock` = `PlainSecretParams::encrypt`,
`unlock` = `EncryptedSecretParams::unlock`, `protect` = the RFC 9580 layout of every usage).
Primitives (S2K, MD5, SHA-1, CFB, HKDF, AEAD) are parameters; their laws (`SK.Laws`, `SK.CfbLaws`)
and the idealised security predicates (`SK.IntCtxt`, `SK.CtxBinding`, `SK.WrongKeyFails`,
`SK.CollisionFree`, `SK.HkdfInj`, `SK.DeriveInj`) are explicit hypotheses; `SK.toyLaws` and the
`SK.ideal_*` lemmas show they are jointly satisfiable.

History: D5b (`parse_secret_fields` built `S2kParams::Cfb` for usage octet 255) and D8a
(`PlainSecretParams::encrypt` accepted parameters `unlock` refuses) are fixed in the tree; the
theorems below are the full-strength forms (`usage_octet_bijective`, `lock_unlock`, `wire_unlock`).
-/
namespace Rpgp.C08
open Rpgp Rpgp.SK

/-! ## the constants are the RFC's, and the sites that must agree do -/

theorem usage_octets_rfc :
    Gen.wrUsageUnprotected = 0 ∧ Gen.wrUsageAead = 253 ∧ Gen.wrUsageCfb = 254 ∧ Gen.wrUsageMalleable = 255 ∧
    Gen.wrUsageLegacyIsSym = 1 ∧
    Gen.rdUsageUnprotected = Gen.wrUsageUnprotected ∧ Gen.rdUsageAead = Gen.wrUsageAead ∧
    Gen.rdUsageCfb = Gen.wrUsageCfb ∧ Gen.rdUsageMalleable = Gen.wrUsageMalleable ∧
    Gen.rdUsageLegacyMin = 1 ∧ Gen.rdUsageLegacyMax = 252 ∧
    Gen.v6UsageAllowedA = 0 ∧ Gen.v6UsageAllowedB = 253 ∧ Gen.v6UsageAllowedC = 254 := by decide

/-- every arm of `parse_secret_fields` constructs the variant of the same name -/
theorem parse_arms_build_their_variant :
    Gen.rdArmUnprotectedBuilds = 0 ∧ Gen.rdArmLegacyBuilds = 1 ∧ Gen.rdArmAeadBuilds = 2 ∧
    Gen.rdArmCfbBuilds = 3 ∧ Gen.rdArmMalleableBuilds = 4 := by decide

theorem s2k_specifier_sites_agree :
    Gen.s2kIdSimple = 0 ∧ Gen.s2kIdSalted = 1 ∧ Gen.s2kIdReserved = 2 ∧ Gen.s2kIdIterated = 3 ∧ Gen.s2kIdArgon2 = 4 ∧
    Gen.s2kRdSimple = Gen.s2kIdSimple ∧ Gen.s2kRdSalted = Gen.s2kIdSalted ∧ Gen.s2kRdReserved = Gen.s2kIdReserved ∧
    Gen.s2kRdIterated = Gen.s2kIdIterated ∧ Gen.s2kRdArgon2 = Gen.s2kIdArgon2 ∧
    Gen.s2kRdPrivateMin = 100 ∧ Gen.s2kRdPrivateMax = 110 ∧
    Gen.s2kRdSaltedSalt = 8 ∧ Gen.s2kRdIteratedSalt = 8 ∧ Gen.s2kRdArgon2Salt = 16 ∧
    Gen.s2kSaltFieldSalted = Gen.s2kRdSaltedSalt ∧ Gen.s2kSaltFieldArgon2 = Gen.s2kRdArgon2Salt ∧
    -- `StringToKey::len` (the v6 length octet) = 1 type octet + fields
    Gen.s2kLenSimple = 2 ∧ Gen.s2kLenSalted = 2 + Gen.s2kRdSaltedSalt ∧
    Gen.s2kLenIterated = 3 + Gen.s2kRdIteratedSalt ∧ Gen.s2kLenArgon2 = 4 + Gen.s2kRdArgon2Salt := by decide

theorem aead_constants_rfc :
    Gen.aeadTypeIdMask = 192 ∧ Gen.aeadOkmLen = 32 ∧
    Gen.aeadIdEax = 1 ∧ Gen.aeadIdOcb = 2 ∧ Gen.aeadIdGcm = 3 ∧
    Gen.aeadNonceEax = 16 ∧ Gen.aeadNonceOcb = 15 ∧ Gen.aeadNonceGcm = 12 ∧
    Gen.aeadTagEax = 16 ∧ Gen.aeadTagOcb = 16 ∧ Gen.aeadTagGcm = 16 ∧
    Gen.tagSecretKey = 5 ∧ Gen.tagSecretSubkey = 7 ∧ Gen.keyVersionV4 = 4 ∧ Gen.keyVersionV6 = 6 := by decide

/-- block and key sizes of every cipher octet RFC 9580 §9.3 defines (IDEA … Camellia-256) -/
theorem cipher_tables_rfc :
    (List.map Gen.c08SymBlockSize [1, 2, 3, 4, 7, 8, 9, 10, 11, 12, 13]) = [8, 8, 8, 8, 16, 16, 16, 16, 16, 16, 16] ∧
    (List.map Gen.c08SymKeySize [1, 2, 3, 4, 7, 8, 9, 10, 11, 12, 13]) = [16, 24, 16, 16, 16, 24, 32, 32, 16, 24, 32] ∧
    Gen.c08SymBlockSize 0 = 0 ∧ Gen.c08SymBlockSize 5 = 0 ∧ Gen.c08SymBlockSize 110 = 0 ∧ Gen.c08SymKeySize 0 = 0 := by decide

theorem check_constants_rfc :
    Gen.unlockSha1Len = 20 ∧ Gen.unlockSha1Split = Gen.unlockSha1Len ∧ Gen.unlockLegacyMin = 2 ∧
    Gen.unlockMalleableMin = 2 ∧ Gen.plainChecksumLen = 2 ∧ Gen.plainChecksumVersionsV3V4 = 1 ∧
    Gen.hashIdMd5 = 1 ∧ Gen.hashIdSha1 = 2 ∧ Gen.hashIdRipemd160 = 3 ∧ Gen.weakHashSetIsMd5Sha1Ripemd = 1 := by
  decide

/-! ## usage octet ↔ variant, over all 256 octets and both key versions -/

set_option maxRecDepth 100000 in
/-- `impl From<u8> for S2kUsage` partitions the octets as RFC 9580 §3.7.2.1 does -/
theorem usage_of_octet_rfc : ∀ o, o < 256 → usageOfOctet o =
    (if o = 0 then Variant.unprotected else if o ≤ 252 then .legacyCfb else if o = 253 then .aead
     else if o = 254 then .cfb else .malleableCfb) := by decide

set_option maxRecDepth 100000 in
/-- reading a usage octet and writing the variant back gives the octet — all 256 octets -/
theorem usage_octet_bijective : ∀ o, o < 256 → writeOctet (readVariant o) o = o := by
  decide

set_option maxRecDepth 100000 in
/-- writing a variant and reading the octet back gives the variant -/
theorem usage_variant_roundtrip : ∀ sym, sym < 256 →
    readVariant (writeOctet .unprotected sym) = .unprotected ∧
    readVariant (writeOctet .aead sym) = .aead ∧ readVariant (writeOctet .cfb sym) = .cfb ∧
    readVariant (writeOctet .malleableCfb sym) = .malleableCfb ∧
    (1 ≤ sym → sym ≤ 252 → readVariant (writeOctet .legacyCfb sym) = .legacyCfb) := by decide

set_option maxRecDepth 100000 in
/-- `SecretParams::from_slice`: a v6 key is admitted with usage 0, 253 or 254 only -/
theorem v6_usage_admission : ∀ o, o < 256 →
    (usageAdmitted 6 o = true ↔ (o = 0 ∨ o = 253 ∨ o = 254)) := by decide

set_option maxRecDepth 100000 in
/-- other key versions: every octet is admitted -/
theorem v4_admits_every_usage : ∀ o, o < 256 → usageAdmitted 4 o = true := by decide

/-! ## S2K specifier codec -/

/-- every specifier of a known kind is read back, whatever follows it -/
theorem s2k_parse_ser (s : S2k) (hk : s.Known) (hw : s.WF) (rest : Bytes) :
    S2k.parse (s.ser ++ rest) = some (s, rest) := SK.s2k_parse_ser s hk hw rest

/-- the reader consumes exactly the serialisation of what it returns (all kinds, opaque ones too) -/
theorem s2k_ser_parse (b : Bytes) (s : S2k) (rest : Bytes) (h : S2k.parse b = some (s, rest)) :
    s.ser ++ rest = b ∧ s.WF := SK.s2k_ser_parse b s rest h

/-- the v6 length octet (`StringToKey::len`) is the length of what is written -/
theorem s2k_len_truthful (s : S2k) (hw : s.WF) (n : Nat) (h : s.len = some n) : s.ser.length = n :=
  SK.s2k_len_ser s hw n h

/-! ## serialize → parse of a locked key's secret part (every key version) -/

/-- legacy cipher octet -/
theorem parse_ser_legacy {Mat} (A : KeyAlg Mat) (ver sym : Byte) (iv data bytes : Bytes)
    (hw : (Params.legacyCfb sym iv).WireWF ver) (hs : serEncrypted ver (.legacyCfb sym iv) data = some bytes) :
    parseSecret A ver bytes = some (.encrypted (.legacyCfb sym iv) data) :=
  SK.parse_ser_legacy A ver sym iv data bytes hw hs

/-- AEAD (253), v4 and v6 layouts (two length octets in v6) -/
theorem parse_ser_aead {Mat} (A : KeyAlg Mat) (ver sym mode : Byte) (s2k : S2k) (nonce data bytes : Bytes)
    (hw : (Params.aead sym mode s2k nonce).WireWF ver)
    (hs : serEncrypted ver (.aead sym mode s2k nonce) data = some bytes) :
    parseSecret A ver bytes = some (.encrypted (.aead sym mode s2k nonce) data) :=
  SK.parse_ser_aead A ver sym mode s2k nonce data bytes hw hs

/-- CFB + SHA-1 (254), v4 and v6 layouts -/
theorem parse_ser_cfb {Mat} (A : KeyAlg Mat) (ver sym : Byte) (s2k : S2k) (iv data bytes : Bytes)
    (hw : (Params.cfb sym s2k iv).WireWF ver) (hs : serEncrypted ver (.cfb sym s2k iv) data = some bytes) :
    parseSecret A ver bytes = some (.encrypted (.cfb sym s2k iv) data) :=
  SK.parse_ser_cfb A ver sym s2k iv data bytes hw hs

/-- usage 255: what is written for `MalleableCfb` is read back as the variant the source's arm
for 255 constructs (`Params.asParsed`, the identity: `asParsed_id`) -/
theorem parse_ser_malleable {Mat} (A : KeyAlg Mat) (ver sym : Byte) (s2k : S2k) (iv data bytes : Bytes)
    (hw : (Params.malleableCfb sym s2k iv).WireWF ver)
    (hadm : isV6 ver = true → v6UsageAllowed (Params.malleableCfb sym s2k iv).asParsed.usageOctet = true)
    (hs : serEncrypted ver (.malleableCfb sym s2k iv) data = some bytes) :
    parseSecret A ver bytes = some (.encrypted (Params.malleableCfb sym s2k iv).asParsed data) :=
  SK.parse_ser_malleable A ver sym s2k iv data bytes hw hadm hs

/-! ## lock → unlock -/

/-- **right password restores the key**: for every key version, packet type, public key, cipher,
AEAD mode, S2K specifier, IV / nonce, password and material — whatever `lock` accepts is unlocked to
exactly the original material -/
theorem lock_unlock {Mat} (P : Prims) (L : Laws P) (A : KeyAlg Mat)
    (hA : ∀ m, A.parse (A.ser m) = some (m, []))
    (ver tag : Byte) (pub : Bytes) (p : Params) (pw : Bytes) (m : Mat) (blob : Bytes)
    (hl : lock P A ver tag pub p pw m = some blob) :
    unlock P A ver tag pub p blob pw = some m :=
  lock_unlock_core P L A hA ver tag pub p pw m blob hl (lock_implies_unlockAccepts P A ver tag pub p pw m blob hl)

/-- `lock` refuses what `unlock` refuses (AEAD + salted S2K; v6 CFB + simple S2K), and whatever it
accepts `unlock` does not refuse on the parameters -/
theorem lock_accepts_only_what_unlock_opens {Mat} (P : Prims) (A : KeyAlg Mat) (ver tag : Byte) (pub : Bytes)
    (p : Params) (pw : Bytes) (m : Mat) (blob : Bytes) (hl : lock P A ver tag pub p pw m = some blob) :
    unlockAccepts ver p = true := lock_implies_unlockAccepts P A ver tag pub p pw m blob hl

theorem lock_refusal_examples :
    lock toyPrims toyAlg 4 5 wPub wAeadSalted wPw (1, 2) = none ∧
    lock toyPrims toyAlg 6 5 wPub wCfbSimpleV6 wPw (1, 2) = none := w_lock_refuses_what_unlock_refuses

/-- packet level (`SecretKey::set_password_with_s2k`, then `unlock` / `remove_password`): the
closure given to `unlock` sees the original material, and `remove_password` restores the very
packet that was locked -/
theorem set_password_roundtrip {Mat} (P : Prims) (L : Laws P) (A : KeyAlg Mat)
    (hA : ∀ m, A.parse (A.ser m) = some (m, []))
    (k k' : SecretKey Mat) (pw : Bytes) (p : Params)
    (hs : setPasswordWithS2k P A k pw p = some k') :
    ∃ m, k.secret = .plain m ∧ unlockKey P A k' pw = some m ∧ removePassword P A k' pw = some k := by
  have hw : unlockAccepts k.ver p = true := by
    cases hk : k.secret with
    | encrypted p0 d0 => simp [setPasswordWithS2k, hk] at hs
    | plain m =>
      simp only [setPasswordWithS2k, hk, Option.map_eq_some_iff] at hs
      obtain ⟨blob, hl, _⟩ := hs
      exact lock_implies_unlockAccepts P A k.ver k.tag k.pubBody p pw m blob hl
  exact SK.set_password_roundtrip P L A hA k k' pw p hs hw

/-- a locked packet is not locked again (`Secret Key packet must be unlocked`) -/
theorem set_password_on_locked_fails {Mat} (P : Prims) (A : KeyAlg Mat) (k : SecretKey Mat) (pw : Bytes)
    (p p0 : Params) (d0 : Bytes) (h : k.secret = .encrypted p0 d0) : setPasswordWithS2k P A k pw p = none :=
  SK.set_password_on_locked_fails P A k pw p p0 d0 h

/-- `lock` writes the RFC layout -/
theorem lock_is_rfc_layout {Mat} (P : Prims) (A : KeyAlg Mat) (ver tag : Byte) (pub : Bytes) (p : Params)
    (pw : Bytes) (m : Mat) (blob : Bytes) (hl : lock P A ver tag pub p pw m = some blob) :
    protect P A ver tag pub p pw m = some blob := lock_eq_protect P A ver tag pub p pw m blob hl

/-- **also after the locked key has been serialized and parsed** (both key versions, usages 253 and
254 — the only ones `lock` produces) -/
theorem lock_serialize_parse_unlock {Mat} (P : Prims) (L : Laws P) (A : KeyAlg Mat)
    (hA : ∀ m, A.parse (A.ser m) = some (m, []))
    (ver tag : Byte) (pub : Bytes) (p : Params) (pw : Bytes) (m : Mat) (blob bytes : Bytes)
    (hl : lock P A ver tag pub p pw m = some blob)
    (hwf : p.WireWF ver) (hs : serEncrypted ver p blob = some bytes) :
    ∃ p' d, parseSecret A ver bytes = some (.encrypted p' d) ∧ unlock P A ver tag pub p' d pw = some m := by
  have hu := lock_unlock P L A hA ver tag pub p pw m blob hl
  cases p with
  | unprotected => simp [lock] at hl
  | legacyCfb sym iv => simp [lock] at hl
  | malleableCfb sym s2k iv => simp [lock] at hl
  | cfb sym s2k iv => exact ⟨_, _, SK.parse_ser_cfb A ver sym s2k iv blob bytes hwf hs, hu⟩
  | aead sym mode s2k nonce => exact ⟨_, _, SK.parse_ser_aead A ver sym mode s2k nonce blob bytes hwf hs, hu⟩

/-! ## a key accepted from the wire unlocks with its password, whichever usage octet it carries -/

/-- in memory: a blob laid out as the RFC prescribes for the usage of `p` — 253, 254, 255 or a
legacy cipher octet — is opened by `unlock` with the same password -/
theorem protect_unlock {Mat} (P : Prims) (L : Laws P) (A : KeyAlg Mat)
    (hA : ∀ m rest, A.parse (A.ser m ++ rest) = some (m, rest))
    (ver tag : Byte) (pub : Bytes) (p : Params) (pw : Bytes) (m : Mat) (blob : Bytes)
    (hp : protect P A ver tag pub p pw m = some blob) (hw : unlockAccepts ver p = true) :
    unlock P A ver tag pub p blob pw = some m := SK.protect_unlock P L A hA ver tag pub p pw m blob hp hw

/-- `parse_secret_fields` returns what was written, for usage 255 too -/
theorem asParsed_id (p : Params) : p.asParsed = p := by
  cases p <;> simp [Params.asParsed]
  decide

/-- from the wire: the secret part of a key packet that carries usage octet 253, 254, 255 or a
legacy cipher octet and a blob in the RFC layout is parsed, and what was parsed unlocks to the
material (v6 keys: 253 / 254 only — `unlockAccepts`) -/
theorem wire_unlock {Mat} (P : Prims) (L : Laws P) (A : KeyAlg Mat)
    (hA : ∀ m rest, A.parse (A.ser m ++ rest) = some (m, rest))
    (ver tag : Byte) (pub : Bytes) (p : Params) (pw : Bytes) (m : Mat) (blob bytes : Bytes)
    (hp : protect P A ver tag pub p pw m = some blob) (hw : unlockAccepts ver p = true)
    (hwf : p.WireWF ver) (hs : serEncrypted ver p blob = some bytes) :
    ∃ p' d, parseSecret A ver bytes = some (.encrypted p' d) ∧ unlock P A ver tag pub p' d pw = some m := by
  have hu := SK.protect_unlock P L A hA ver tag pub p pw m blob hp hw
  cases p with
  | unprotected => simp [protect] at hp
  | legacyCfb sym iv => exact ⟨_, _, SK.parse_ser_legacy A ver sym iv blob bytes hwf hs, hu⟩
  | malleableCfb sym s2k iv =>
    have hv6 : isV6 ver = false := by
      cases hv : isV6 ver
      · rfl
      · simp [unlockAccepts, unlockWilling, hv] at hw
    have := SK.parse_ser_malleable A ver sym s2k iv blob bytes hwf (by simp [hv6]) hs
    rw [asParsed_id] at this
    exact ⟨_, _, this, hu⟩
  | cfb sym s2k iv => exact ⟨_, _, SK.parse_ser_cfb A ver sym s2k iv blob bytes hwf hs, hu⟩
  | aead sym mode s2k nonce => exact ⟨_, _, SK.parse_ser_aead A ver sym mode s2k nonce blob bytes hwf hs, hu⟩

/-- concrete instance (toy primitives): a v4 key with usage octet 255 laid out as the RFC
prescribes starts with octet 255, is parsed as `MalleableCfb` and unlocks; a v6 key carrying the
octet is rejected by the parser -/
theorem usage255_from_wire_unlocks :
    unlock toyPrims toyAlg 4 5 wPub wMalleable w255Blob wPw = some (1, 2) ∧
    w255Wire.head? = some 255 ∧
    (match parseSecret toyAlg 4 w255Wire with
     | some (.encrypted p d) => (p.variant, p.usageOctet, unlock toyPrims toyAlg 4 5 wPub p d wPw)
     | _ => (.unprotected, 0, none)) = (.malleableCfb, 255, some (1, 2)) ∧
    (parseSecret toyAlg 6 ((serEncrypted 6 wMalleable w255Blob).getD [])).isNone = true :=
  ⟨w255_in_memory_unlocks, w255_first_octet, w255_from_wire_unlocks, w255_rejected_for_v6⟩

/-! ## nothing else restores it — AEAD (253) -/

/-- the associated data determines the packet type and the whole public key packet body -/
theorem ad_binds_public (tag tag' : Byte) (pub pub' : Bytes) (h : tag.toNat < 64) (h' : tag'.toNat < 64)
    (he : aeadAd tag pub = aeadAd tag' pub') : tag = tag' ∧ pub = pub' := aeadAd_inj tag tag' pub pub' h h' he

/-- … and the body determines version, creation time, algorithm and public parameters -/
theorem public_body_binds_fields (ver ver' : Byte) (c c' e e' : Nat) (alg alg' : Byte) (pp pp' : Bytes)
    (hv : isV4V6 ver = true) (hv' : isV4V6 ver' = true) (hc : c < 4294967296) (hc' : c' < 4294967296)
    (h : pubKeyBody ver c e alg pp = pubKeyBody ver' c' e' alg' pp') :
    ver = ver' ∧ c = c' ∧ alg = alg' ∧ pp = pp' := pubKeyBody_inj ver ver' c c' e e' alg alg' pp pp' hv hv' hc hc' h

/-- the HKDF info determines packet type, key version, cipher and mode -/
theorem info_binds_tag_version_cipher_mode (tag tag' ver ver' sym sym' mode mode' : Byte)
    (h : tag.toNat < 64) (h' : tag'.toNat < 64)
    (he : aeadInfo tag ver sym mode = aeadInfo tag' ver' sym' mode') :
    tag = tag' ∧ ver = ver' ∧ sym = sym' ∧ mode = mode' :=
  aeadInfo_inj tag tag' ver ver' sym sym' mode mode' h h' he

/-- blob unchanged, any change of the nonce or of the public key packet body ⇒ error -/
theorem aead_public_or_nonce_change_fails {Mat} (P : Prims) (hI : IntCtxt P) (hB : CtxBinding P) (A : KeyAlg Mat)
    (ver tag : Byte) (pub pub' : Bytes) (sym mode : Byte) (s2k : S2k) (nonce nonce' pw : Bytes)
    (m : Mat) (blob : Bytes) (ht : tag.toNat < 64)
    (hl : lock P A ver tag pub (.aead sym mode s2k nonce) pw m = some blob)
    (hch : nonce' ≠ nonce ∨ pub' ≠ pub) :
    unlock P A ver tag pub' (.aead sym mode s2k nonce') blob pw = none :=
  aead_context_change_fails P hI hB A ver tag pub pub' sym mode s2k nonce nonce' pw m blob ht hl hch

/-- blob unchanged, another password or a changed packet type / key version ⇒ error
(whatever nonce and public key are presented) -/
theorem aead_wrong_password_fails {Mat} (P : Prims) (hK : WrongKeyFails P) (hH : HkdfInj P)
    (hD : DeriveInj P) (A : KeyAlg Mat)
    (ver ver' tag tag' : Byte) (pub pub' : Bytes) (sym mode : Byte) (s2k : S2k) (nonce nonce' pw pw' : Bytes)
    (m : Mat) (blob : Bytes) (ht : tag.toNat < 64) (ht' : tag'.toNat < 64)
    (hl : lock P A ver tag pub (.aead sym mode s2k nonce) pw m = some blob)
    (hch : pw' ≠ pw ∨ tag' ≠ tag ∨ ver' ≠ ver) :
    unlock P A ver' tag' pub' (.aead sym mode s2k nonce') blob pw' = none :=
  aead_wrong_password_or_info_fails P hK hH hD A ver ver' tag tag' pub pub' sym mode s2k nonce nonce' pw pw'
    m blob ht ht' hl hch

/-- blob unchanged, any key other than the one it was sealed under ⇒ error (any S2K, password,
packet type, version, nonce, public key) -/
theorem aead_other_key_fails {Mat} (P : Prims) (hK : WrongKeyFails P) (A : KeyAlg Mat)
    (ver ver' tag tag' : Byte) (pub pub' : Bytes) (sym mode : Byte) (s2k s2k' : S2k) (nonce nonce' pw pw' : Bytes)
    (m : Mat) (blob dk : Bytes)
    (hdk : P.derive s2k pw (Gen.c08SymKeySize sym.toNat) = some dk)
    (hl : lock P A ver tag pub (.aead sym mode s2k nonce) pw m = some blob)
    (hne : ∀ dk', P.derive s2k' pw' (Gen.c08SymKeySize sym.toNat) = some dk' →
      P.hkdf dk' (aeadInfo tag' ver' sym mode) ≠ P.hkdf dk (aeadInfo tag ver sym mode)) :
    unlock P A ver' tag' pub' (.aead sym mode s2k' nonce') blob pw' = none :=
  SK.aead_other_key_fails P hK A ver ver' tag tag' pub pub' sym mode s2k s2k' nonce nonce' pw pw' m blob dk hdk hl hne

/-- changed blob: whatever `unlock` accepts is a sealing, under the secret key, of bytes that parse
to exactly the returned material (so producing different material means forging a ciphertext) -/
theorem aead_accepts_only_sealings {Mat} (P : Prims) (hI : IntCtxt P) (A : KeyAlg Mat)
    (ver tag : Byte) (pub : Bytes) (sym mode : Byte) (s2k : S2k) (nonce data pw : Bytes) (m : Mat)
    (h : unlock P A ver tag pub (.aead sym mode s2k nonce) data pw = some m) :
    ∃ dk pt, P.derive s2k pw (Gen.c08SymKeySize sym.toNat) = some dk ∧
      P.aseal sym mode (P.hkdf dk (aeadInfo tag ver sym mode)) nonce (aeadAd tag pub) pt = some data ∧
      parseNoCk A pt = some m := SK.aead_accepts_only_sealings P hI A ver tag pub sym mode s2k nonce data pw m h

/-! ## nothing else restores it — CFB + SHA-1 (254) -/

/-- whatever is accepted decrypts to a body followed by that body's SHA-1 -/
theorem cfb254_accepts_only_consistent_pairs {Mat} (P : Prims) (A : KeyAlg Mat) (ver tag : Byte) (pub : Bytes)
    (sym : Byte) (s2k : S2k) (iv data pw : Bytes) (m : Mat)
    (h : unlock P A ver tag pub (.cfb sym s2k iv) data pw = some m) :
    ∃ key pt, P.derive s2k pw (Gen.c08SymKeySize sym.toNat) = some key ∧
      P.cfbDec sym key iv data = some pt ∧
      P.sha1 (pt.take (data.length - Gen.unlockSha1Split)) = some (pt.drop (data.length - Gen.unlockSha1Split)) ∧
      parseNoCk A (pt.take (data.length - Gen.unlockSha1Split)) = some m :=
  unlock_cfb_sound P A ver tag pub sym s2k iv data pw m h

/-- never *different* material behind the same decrypted digest (collision freeness of SHA-1) -/
theorem cfb254_same_digest_same_material {Mat} (P : Prims) (hC : CollisionFree P) (A : KeyAlg Mat)
    (ver ver' tag tag' : Byte) (pub pub' : Bytes) (sym sym' : Byte) (s2k s2k' : S2k) (iv iv' data data' pw pw' : Bytes)
    (m m' : Mat) (key key' pt pt' : Bytes)
    (hk : P.derive s2k pw (Gen.c08SymKeySize sym.toNat) = some key)
    (hk' : P.derive s2k' pw' (Gen.c08SymKeySize sym'.toNat) = some key')
    (hd : P.cfbDec sym key iv data = some pt) (hd' : P.cfbDec sym' key' iv' data' = some pt')
    (hu : unlock P A ver tag pub (.cfb sym s2k iv) data pw = some m)
    (hu' : unlock P A ver' tag' pub' (.cfb sym' s2k' iv') data' pw' = some m')
    (hdig : pt.drop (data.length - Gen.unlockSha1Split) = pt'.drop (data'.length - Gen.unlockSha1Split)) :
    m = m' :=
  SK.cfb254_same_digest_same_material P hC A ver ver' tag tag' pub pub' sym sym' s2k s2k' iv iv' data data' pw pw'
    m m' key key' pt pt' hk hk' hd hd' hu hu' hdig

/-- any change confined to the encrypted digest (the last 20 octets of the blob) ⇒ error -/
theorem cfb254_digest_tamper_rejected {Mat} (P : Prims) (L : Laws P) (C : CfbLaws P) (A : KeyAlg Mat)
    (ver tag : Byte) (pub : Bytes) (sym : Byte) (s2k : S2k) (iv pw : Bytes) (m : Mat) (a b b' : Bytes)
    (hl : lock P A ver tag pub (.cfb sym s2k iv) pw m = some (a ++ b))
    (hb : b.length = Gen.unlockSha1Split) (hb' : b'.length = Gen.unlockSha1Split) (hne : b' ≠ b) :
    unlock P A ver tag pub (.cfb sym s2k iv) (a ++ b') pw = none :=
  SK.cfb254_digest_tamper_rejected P L C A ver tag pub sym s2k iv pw m a b b' hl hb hb' hne

/-! ## 255 and the legacy cipher octets: a 16-bit sum, stated honestly -/

/-- all that stands between a tampered / wrongly decrypted blob and acceptance is: what precedes the
last two octets parses completely, and those two octets equal the 16-bit sum of the stored octets -/
theorem sum16_is_the_only_check_255 {Mat} (P : Prims) (A : KeyAlg Mat) (ver tag : Byte) (pub : Bytes)
    (sym : Byte) (s2k : S2k) (iv data pw : Bytes) (m : Mat) (hv : isV3V4 ver = true)
    (h : unlock P A ver tag pub (.malleableCfb sym s2k iv) data pw = some m) :
    ∃ key mat a b, P.derive s2k pw (Gen.c08SymKeySize sym.toNat) = some key ∧
      P.cfbDec sym key iv data = some (mat ++ [a, b]) ∧ A.parse mat = some (m, []) ∧
      a.toNat * 256 + b.toNat = sum16 mat := unlock_sum16_sound P A ver tag pub sym s2k iv data pw m hv h

theorem sum16_is_the_only_check_legacy {Mat} (P : Prims) (A : KeyAlg Mat) (ver tag : Byte) (pub : Bytes)
    (sym : Byte) (iv data pw : Bytes) (m : Mat) (hv : isV3V4 ver = true)
    (h : unlock P A ver tag pub (.legacyCfb sym iv) data pw = some m) :
    ∃ mat a b, P.cfbDec sym (P.md5 pw) iv data = some (mat ++ [a, b]) ∧ A.parse mat = some (m, []) ∧
      a.toNat * 256 + b.toNat = sum16 mat := unlock_legacy_sound P A ver tag pub sym iv data pw m hv h

/-- "a locked key that the library accepts from the wire unlocks with its password whichever S2K usage
octet it carries", for the 16-bit-sum usages and **whichever encoding** the material was stored in
(other implementations round MPI bit counts up to whole octets): any encoding `mat` the parser reads
completely, followed by the sum of those octets, is opened by the right password (D8e: before the
repair the sum was taken over the re-serialised material and such keys were refused) -/
theorem wire_unlock_255_any_stored_encoding {Mat} (P : Prims) (A : KeyAlg Mat) (ver tag : Byte) (pub : Bytes)
    (sym : Byte) (s2k : S2k) (iv data pw key mat : Bytes) (m : Mat) (hv : isV3V4 ver = true)
    (hw : unlockWilling ver (.malleableCfb sym s2k iv) = true)
    (hk : P.derive s2k pw (Gen.c08SymKeySize sym.toNat) = some key)
    (hd : P.cfbDec sym key iv data = some (mat ++ be16 (sum16 mat)))
    (hp : A.parse mat = some (m, [])) :
    unlock P A ver tag pub (.malleableCfb sym s2k iv) data pw = some m :=
  unlock_sum16_any_encoding P A ver tag pub sym s2k iv data pw key mat m hv hw hk hd hp

theorem wire_unlock_legacy_any_stored_encoding {Mat} (P : Prims) (A : KeyAlg Mat) (ver tag : Byte) (pub : Bytes)
    (sym : Byte) (iv data pw mat : Bytes) (m : Mat) (hv : isV3V4 ver = true)
    (hw : unlockWilling ver (.legacyCfb sym iv) = true)
    (hd : P.cfbDec sym (P.md5 pw) iv data = some (mat ++ be16 (sum16 mat)))
    (hp : A.parse mat = some (m, [])) :
    unlock P A ver tag pub (.legacyCfb sym iv) data pw = some m :=
  unlock_legacy_any_encoding P A ver tag pub sym iv data pw mat m hv hw hd hp

/-- the repair is in the tree the model was generated from; regression witness for the pre-repair form -/
theorem d8e_repaired : Gen.fixD8eChecksumOverStoredOctets = 1 := fixD8e_on

theorem d8e_prefix_witness :
    parseCkReencoded toyAlgBitCount 4 ([8, 7] ++ be16 (sum16 [8, 7])) = none ∧
    parseCkStored toyAlgBitCount 4 ([8, 7] ++ be16 (sum16 [8, 7])) = some 7 ∧
    parseCkReencoded toyAlgBitCount 4 ([3, 7] ++ be16 (sum16 [3, 7])) = some 7 :=
  reencoded_checksum_refuses_noncanonical_witness

/-- the sum does not bind the material … -/
theorem sum16_not_binding : ∃ x y : Bytes, x ≠ y ∧ x.length = y.length ∧ sum16 x = sum16 y :=
  ⟨[1, 2], [2, 1], by decide, rfl, by decide⟩

/-- … so "any change to the protected bytes fails" is false for usage 255 as a matter of format:
witness (toy primitives) of a tampered blob that is accepted and yields different material -/
theorem usage255_tamper_can_yield_other_material :
    w255Tampered ≠ w255Blob ∧
    unlock toyPrims toyAlg 4 5 wPub wMalleable w255Tampered wPw = some (2, 1) :=
  w255_tampered_accepted_other_material

/-! ## policy: what is refused, on every input -/

/-- the refusals at the head of `unlock`, as a table: v6 keys only from AEAD (Argon2 / iterated) or
CFB+SHA-1 (iterated / salted) and never over MD5 / SHA-1 / RIPEMD-160; other versions everything
but Argon2 outside AEAD and AEAD with a simple / salted / opaque S2K -/
theorem unlock_policy_table (ver : Byte) (p : Params) :
    unlockAccepts ver p = if isV6 ver then v6Unlockable p else nonV6Unlockable p := unlockAccepts_table ver p

/-- … and nothing outside the table is ever unlocked, whatever data and password -/
theorem unlock_only_within_policy {Mat} (P : Prims) (A : KeyAlg Mat) (ver tag : Byte) (pub : Bytes) (p : Params)
    (data pw : Bytes) (m : Mat) (h : unlock P A ver tag pub p data pw = some m) :
    (if isV6 ver then v6Unlockable p else nonV6Unlockable p) = true := by
  rw [← unlockAccepts_table]; exact unlock_some_accepts P A ver tag pub p data pw m h

/-- `lock` never produces a weak-hash S2K, Argon2 outside AEAD, usage 255, a legacy cipher octet,
or a locked key of a version other than 4 / 6 -/
theorem lock_policy {Mat} (P : Prims) (A : KeyAlg Mat) (ver tag : Byte) (pub : Bytes) (p : Params)
    (pw : Bytes) (m : Mat) (blob : Bytes) (hl : lock P A ver tag pub p pw m = some blob) :
    isV4V6 ver = true ∧
    ((∃ sym mode s2k nonce, p = .aead sym mode s2k nonce ∧ s2k.weak = false) ∨
     (∃ sym s2k iv, p = .cfb sym s2k iv ∧ s2k.weak = false ∧ s2k.isArgon2 = false)) :=
  SK.lock_policy P A ver tag pub p pw m blob hl

/-- whatever bytes a version 6 key packet carries, what the parser returns has usage id 0, 253 or 254 -/
theorem v6_parsed_usage {Mat} (A : KeyAlg Mat) (ver : Byte) (b : Bytes) (s : Secret Mat) (hv : isV6 ver = true)
    (h : parseSecret A ver b = some s) : v6UsageAllowed s.usageId = true := SK.v6_parsed_usage A ver b s hv h

/-- unprotected secret part (what `remove_password` leaves): serialize → parse, with the v3/v4 checksum -/
theorem parse_ser_plain {Mat} (A : KeyAlg Mat) (hA : ∀ m rest, A.parse (A.ser m ++ rest) = some (m, rest))
    (ver : Byte) (m : Mat) (bytes : Bytes) (hs : serSecret A ver (.plain m) = some bytes) :
    ∃ m', parseSecret A ver bytes = some (.plain m') ∧ m' = m := SK.parse_ser_plain A hA ver m bytes hs

/-! ## the hypotheses are satisfiable -/

example : Laws toyPrims := toyLaws
example : ∀ m rest, toyAlg.parse (toyAlg.ser m ++ rest) = some (m, rest) := toyAlg_law
example : Laws idealPrims ∧ CfbLaws idealPrims ∧ IntCtxt idealPrims ∧ CtxBinding idealPrims ∧
    WrongKeyFails idealPrims ∧ CollisionFree idealPrims ∧ HkdfInj idealPrims ∧ DeriveInj idealPrims :=
  ⟨ideal_laws, ideal_cfbLaws, ideal_intCtxt, ideal_ctxBinding, ideal_wrongKeyFails, ideal_collisionFree,
    ideal_hkdfInj, ideal_deriveInj⟩

/-- `lock_unlock` instantiated: the toy primitives lock and unlock a v6 AEAD/Argon2 key -/
example : unlock toyPrims toyAlg 6 5 wPub (.aead 9 2 (.argon2 (List.replicate 16 7) 1 4 10) (List.replicate 15 3))
    ((lock toyPrims toyAlg 6 5 wPub (.aead 9 2 (.argon2 (List.replicate 16 7) 1 4 10) (List.replicate 15 3)) wPw (1, 2)).getD [])
    wPw = some (1, 2) := by decide

end Rpgp.C08
