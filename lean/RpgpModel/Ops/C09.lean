import RpgpModel.Proto
import RpgpModel.Stream
import RpgpModel.StreamFail
import RpgpModel.PacketIter
import RpgpModel.StreamIntr
import RpgpModel.Utf8
import RpgpModel.Canon
import RpgpModel.Gen.Constants
namespace Rpgp.Ops.C09
open Rpgp

def handle (op : String) (a : Args) : Option String :=
  match op with
  | "fill_buffer" => do
    let n ← a.nat "n"
    let cs ← a.list "chunks"
    let (got, rest) := fillBuffer (n + 1) cs n
    pure s!"ok:{hexOrDash got}:{hexOrDash rest.flatten}"
  | "cfb_enc_len" => do
    let n ← a.nat "n"
    let bs ← a.nat "bs"
    let blocks := cfbEncBlocks Gen.symEncBufferSize (List.replicate (bs + 2) 0) (List.replicate n 0)
      (List.replicate Gen.mdcLen 0)
    pure s!"ok:{blocks.flatten.length}"
  | "utf8_literal_accepts" => do
    let cs ← a.list "chunks"
    pure (okBool (utf8CheckChunks utf8ValidUpTo [] cs && crlfCheck cs))
  | "enc_poll" => do
    -- a stream encryptor polled `reqs.length` times whatever it answers; evs: 999999999 = the source
    -- fails once at this point, any other number = a data event of that many octets
    let b ← a.nat "b"
    let q ← a.nat "queued"
    let tr ← a.nat "trailer"
    let grow ← a.nat "grow"
    let evs ← a.natList "evs"
    let reqs ← a.natList "reqs"
    let src := evs.map fun e => if e = 999999999 then Ev.err else Ev.data (List.replicate e 0)
    let rs := encPoll b (b + 2) (fun x => x ++ List.replicate grow 0) (List.replicate tr 0)
      ⟨List.replicate q 0, false, false⟩ src reqs
    pure ("ok:" ++ ",".intercalate (rs.map fun r => match r with | .fail => "E" | .bytes bs => toString bs.length))
  | "fill_buffer_intr" => do
    -- evs: 999999999 = a read that fails for good, 888888888 = an interrupted read, any other number =
    -- a data event of that many octets (octet values: a running counter)
    let n ← a.nat "n"
    let evs ← a.natList "evs"
    let rec build (es : List Nat) (next : Nat) : List EvI :=
      match es with
      | [] => []
      | e :: r =>
        if e = 999999999 then .err :: build r next
        else if e = 888888888 then .intr :: build r next
        else .data ((List.range e).map fun i => ((next + i) % 251).toUInt8) :: build r (next + e)
    let src := build evs 0
    match fillBufferIntr (src.length + n + 1) src n with
    | none => pure "err"
    | some (got, _) => pure s!"ok:{hexOrDash got}"
  | "next_hdr" => do
    -- the reader below delivers `pre`, then ends (`tail=0`) or fails (`tail=1`: kind UnexpectedEof,
    -- `tail=2`: another kind); `it=1`: the Iterator, `it=0`: next_ref
    let pre ← a.bytes "pre"
    let t ← a.nat "tail"
    let it ← a.nat "it"
    let tail : PacketIter.Tail := if t = 0 then .ended else .failed (t == 1)
    let r := if it = 1 then PacketIter.nextIter pre tail else PacketIter.nextRef pre tail
    -- (`item=err`: the implementation's iterator item was an error; that is the header stage failing
    --  or a header that was read and a body that could not be)
    if (a.get? "item").isSome then
      pure (match r with
        | .done => "ok:done"
        | _ => "ok:err-or-hdr")
    else
    pure (match r with
      | .done => "ok:done"
      | .err => "ok:err"
      | .hdr h _ =>
        let kind := match h.len with
          | .fixed n => s!"f{n}"
          | .part n => s!"p{n}"
          | .indet => "i"
        s!"ok:hdr:{if h.newFormat then 1 else 0}.{h.tag}.{kind}")
  | _ => none

end Rpgp.Ops.C09
