import RpgpModel.Proto
import RpgpModel.Framing
import RpgpModel.Cleartext
/-!
# Driver ops of C16 (cleartext signature framework); model: `RpgpModel/Cleartext.lean`

  c16_escape   text=<hex>                      dash_escape                      -> ok:<hex>
  c16_signed   csf=<hex>                       signed_text of a parsed message  -> ok:<hex>
  c16_signin   text=<hex>                      string handed to new_many's signer -> ok:<hex>
  c16_binds    text=<hex> cand=<hex>           does a signature made by `new(text)` verify over
                                               the data `cand` (Signature::verify, text mode)? -> ok:0|1
  c16_write    hashes=<n,n> text=<hex> sig=<hex>  to_armored_string (sig = armored block) -> ok:<cksum>
  c16_read     doc=<hex> tail=<n|any>          from_string up to the signature block; the block the
                                               harness appended has length n (model answers err when
                                               its rest is not that block; `any` = do not compare the
                                               rest: the body had an inner boundary and the real armor
                                               reader accepted what followed) -> ok:<ids>:<hex csf> | err
  c16_roundtrip text=<hex>                     text() after to_armored_string -> from_string -> ok:<hex> | err
  c16_verify   text=<hex> how=new|many stage=fresh|reparsed   does verify() succeed? -> ok:0|1
  c16_hashname name=<hex>                      HashAlgorithm::from_str -> ok:<id> | err
  c16_hashdisp id=<n>                          HashAlgorithm Display   -> ok:<hex> | err
-/
namespace Rpgp.Ops.C16
open Rpgp

def one (x : Bytes) : List Bytes := [x]

def showCk (b : Bytes) : String :=
  let (n, x, y) := cksum b
  s!"{n}.{x}.{y}"

/-- a stand-in armored signature block: only its first line matters to the text part -/
def dummySig : Bytes :=
  [45, 45, 45, 45, 45, 66, 69, 71, 73, 78, 32, 80, 71, 80, 32, 83, 73, 71, 78, 65, 84, 85, 82, 69,
   45, 45, 45, 45, 45, 10, 10, 61, 10]

def natsStr (l : List Nat) : String :=
  if l.isEmpty then "-" else ",".intercalate (l.map toString)

def reparsed (t : Bytes) : Option Bytes :=
  (readDoc (writeDoc [[83, 72, 65, 50, 53, 54]] (dashEscape t) dummySig)).map (·.2.1)

def handle (op : String) (a : Args) : Option String :=
  match op with
  | "c16_escape" => do
    let t ← a.bytes "text"
    pure (okBytes (dashEscape t))
  | "c16_signed" => do
    let c ← a.bytes "csf"
    pure (okBytes (signedText c))
  | "c16_signin" => do
    let t ← a.bytes "text"
    pure (okBytes (signInputMany t))
  | "c16_binds" => do
    let t ← a.bytes "text"
    let c ← a.bytes "cand"
    pure (okBool (normalizedRead Gen.normalizedReaderWindow c == signInputNew one t))
  | "c16_write" => do
    let hs ← a.natList "hashes"
    let t ← a.bytes "text"
    let s ← a.bytes "sig"
    match hs.mapM hashName with
    | none => pure "err"
    | some names => pure ("ok:" ++ showCk (writeDoc names (dashEscape t) s))
  | "c16_read" => do
    let d ← a.bytes "doc"
    let tail ← a.get? "tail"
    match readDoc d with
    | none => pure "err"
    | some (hs, csf, rest) =>
      -- `tail=any`: the harness saw the real code accept what follows an early boundary
      if tail == "any" || tail.toNat? == some rest.length then pure s!"ok:{natsStr hs}:{hexOrDash csf}"
      else pure "err"
  | "c16_roundtrip" => do
    let t ← a.bytes "text"
    match reparsed t with
    | none => pure "err"
    | some c => pure (okBytes c)
  | "c16_verify" => do
    let t ← a.bytes "text"
    let how ← a.get? "how"
    let stage ← a.get? "stage"
    let signed := if how == "many" then hashedText [signInputMany t] else signInputNew one t
    let csf? := if stage == "fresh" then some (dashEscape t) else reparsed t
    match csf? with
    | none => pure "err"
    | some csf => pure (okBool (verifyInput csf == signed))
  | "c16_hashname" => do
    let n ← a.bytes "name"
    match hashOfName n with
    | none => pure "err"
    | some i => pure s!"ok:{i}"
  | "c16_hashdisp" => do
    let i ← a.nat "id"
    match hashName i with
    | none => pure "err"
    | some n => pure (okBytes n)
  | _ => none

end Rpgp.Ops.C16
