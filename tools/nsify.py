#!/usr/bin/env python3
"""nsify.py <Layer> <PROP>: move a merged layer into its own sub-namespace Rpgp.<Layer> to avoid clashes
between independently written models: RpgpModel/<Layer>.lean, RpgpProofs/<Layer>.lean get
`namespace Rpgp.<Layer>`; RpgpProps/<PROP>.lean and RpgpModel/Ops/<PROP>.lean get `open Rpgp.<Layer>`."""
import re, sys, os
layer, prop = sys.argv[1], sys.argv[2]
L = '/verif/lean'
import glob
LAYER_FILES = [f'{L}/RpgpModel/{layer}.lean'] + sorted(glob.glob(f'{L}/RpgpProofs/{layer}*.lean'))
for f in LAYER_FILES:
    if not os.path.exists(f):
        continue
    s = open(f).read()
    s = re.sub(r'(?m)^namespace Rpgp$', f'namespace Rpgp.{layer}', s)
    s = re.sub(r'(?m)^end Rpgp$', f'end Rpgp.{layer}', s)
    open(f, 'w').write(s)
for f in (f'{L}/RpgpProps/{prop}.lean', f'{L}/RpgpModel/Ops/{prop}.lean'):
    s = open(f).read()
    if f'open Rpgp.{layer}' not in s:
        s = re.sub(r'(?m)^open Rpgp$', f'open Rpgp Rpgp.{layer}', s, count=1)
    open(f, 'w').write(s)
model = ''
for f in LAYER_FILES:
    if os.path.exists(f):
        model += open(f).read()
defined = set(re.findall(r"(?m)^(?:@\[[^\]]*\]\s*)?(?:theorem|def|lemma|structure|inductive|abbrev|instance)\s+([A-Za-z_][\w']*)", model))
for f in [f'{L}/RpgpProps/{prop}.lean', f'{L}/RpgpModel/Ops/{prop}.lean'] + LAYER_FILES[1:]:
    if not os.path.exists(f):
        continue
    s = open(f).read()
    for n in set(re.findall(r"Rpgp\.([A-Za-z_][\w']*)", s)):
        if n in defined:
            s = re.sub(r'\bRpgp\.' + re.escape(n) + r"(?![\w'])", f'Rpgp.{layer}.' + n, s)
    open(f, 'w').write(s)
print('ok')
