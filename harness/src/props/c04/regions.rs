//! Part A — the modelled regions: the model predicts ok/err/panic (and the value), the real code runs.

use std::io::{Read, Write};
use std::time::Instant;

use pgp::crypto::aead::{AeadAlgorithm, ChunkSize};
use pgp::crypto::ecc_curve::ECCCurve;
use pgp::crypto::hash::HashAlgorithm;
use pgp::crypto::sym::SymmetricKeyAlgorithm;
use pgp::packet::PacketHeader;
use pgp::types::{EncryptedSecretParams, Mpi, PacketLength, S2kParams, StringToKey};
use rand::{Rng, SeedableRng};
use rand_chacha::ChaCha8Rng;

use super::{cls, guard, no_panic, Chunked};
use crate::ctx::{hx, hx_list, Ctx};
use crate::gen;

fn octets(ctx: &Ctx, rng: &mut ChaCha8Rng, boundary: &[u8], extra: usize) -> Vec<u8> {
    if ctx.thorough() {
        return (0..=255u8).collect();
    }
    let mut v: Vec<u8> = boundary.to_vec();
    for _ in 0..extra {
        v.push(rng.gen());
    }
    v.sort_unstable();
    v.dedup();
    v
}

// -------------------------------------------------------------------------------------------
// packet header / length decode, MPI, subpacket length
// -------------------------------------------------------------------------------------------

fn header_cases(ctx: &mut Ctx, rng: &mut ChaCha8Rng) {
    let site = "packet/header.rs PacketHeader::try_from_reader";
    let seconds = octets(ctx, rng, &[0, 1, 2, 127, 190, 191, 192, 193, 222, 223, 224, 225, 253, 254, 255], 6);
    for b0 in 0..=255u8 {
        for &b1 in &seconds {
            for tail in [0usize, 1, 3, 4] {
                let mut data = vec![b0, b1];
                data.extend((0..tail).map(|i| (i as u8).wrapping_mul(37).wrapping_add(b1)));
                one_header(ctx, site, &data);
            }
        }
        one_header(ctx, site, &[b0]);
    }
    one_header(ctx, site, &[]);
}

fn one_header(ctx: &mut Ctx, site: &str, data: &[u8]) {
    let t = Instant::now();
    let r = guard(|| {
        let mut rd = data;
        PacketHeader::try_from_reader(&mut rd).map(|h| (h, rd.len()))
    });
    let ans = match &r {
        Ok(Ok((h, rest))) => {
            let new = matches!(h, PacketHeader::New { .. }) as u8;
            let kind = match h.packet_length() {
                PacketLength::Fixed(n) => format!("f{n}"),
                PacketLength::Partial(n) => format!("p{n}"),
                PacketLength::Indeterminate => "i".to_string(),
            };
            format!("ok:{new}:{}:{kind}:{rest}", u8::from(h.tag()))
        }
        Ok(Err(_)) => "err".into(),
        Err(_) => "panic".into(),
    };
    let req = format!("hdr data={}", hx(data));
    no_panic(ctx, site, &req, &r, t);
    ctx.case(req, ans);
}

fn mpi_cases(ctx: &mut Ctx, rng: &mut ChaCha8Rng) {
    let site = "types/mpi.rs Mpi::try_from_reader";
    let bits: Vec<u16> = vec![0, 1, 7, 8, 9, 15, 16, 17, 63, 64, 65, 255, 256, 1023, 16377, 16383, 16384, 16385, 32768, 65528, 65529, 65535];
    for &b in &bits {
        let need = ((b as usize) + 7) >> 3;
        for avail in [0usize, 1, need.saturating_sub(1), need, need + 2] {
            let avail = avail.min(2100);
            let mut data = b.to_be_bytes().to_vec();
            let mut body = gen::random_bytes(rng, avail);
            if avail > 2 && rng.gen_bool(0.5) {
                body[0] = 0;
                body[1] = 0;
            }
            data.extend(body);
            let t = Instant::now();
            let r = guard(|| {
                let mut rd = &data[..];
                Mpi::try_from_reader(&mut rd).map(|m| (m, rd.len()))
            });
            let ans = match &r {
                Ok(Ok((m, rest))) => format!("ok:{}:{rest}", hx(m.as_ref())),
                Ok(Err(_)) => "err".into(),
                Err(_) => "panic".into(),
            };
            let req = format!("mpi data={}", hx(&data));
            no_panic(ctx, site, &req, &r, t);
            ctx.case(req, ans);
        }
    }
    for n in 0..2 {
        let data = vec![0u8; n];
        let r = guard(|| Mpi::try_from_reader(&data[..]).map(|_| ()));
        ctx.case(format!("mpi data={}", hx(&data)), cls(&r).to_string());
    }
}

fn subpacket_cases(ctx: &mut Ctx, rng: &mut ChaCha8Rng) {
    let site = "packet/signature/subpacket.rs SubpacketLength::try_from_reader";
    let seconds = octets(ctx, rng, &[0, 1, 127, 191, 192, 254, 255], 4);
    for b0 in 0..=255u8 {
        for &b1 in &seconds {
            for tail in [0usize, 3, 4] {
                let mut data = vec![b0, b1];
                data.extend((0..tail).map(|i| i as u8 ^ b1));
                let t = Instant::now();
                let r = guard(|| pgp::verif_hooks::subpacket_length(&data));
                let ans = match &r {
                    Ok(Ok((l, used))) => format!("ok:{l}:{}", data.len() - used),
                    Ok(Err(_)) => "err".into(),
                    Err(_) => "panic".into(),
                };
                let req = format!("subpkt data={}", hx(&data));
                no_panic(ctx, site, &req, &r, t);
                ctx.case(req, ans);
            }
        }
    }
}

// -------------------------------------------------------------------------------------------
// EncryptedSecretParams::checksum
// -------------------------------------------------------------------------------------------

fn esc_cases(ctx: &mut Ctx, rng: &mut ChaCha8Rng) {
    let site = "types/params/encrypted_secret.rs EncryptedSecretParams::checksum";
    let s2k = StringToKey::Salted { hash_alg: HashAlgorithm::Sha256, salt: [1; 8] };
    for usage in [254u8, 255, 253, 7] {
        for len in 0..=24usize {
            let data = gen::random_bytes(rng, len);
            let params = match usage {
                254 => S2kParams::Cfb { sym_alg: SymmetricKeyAlgorithm::AES128, s2k: s2k.clone(), iv: vec![0u8; 16].into() },
                255 => S2kParams::MalleableCfb { sym_alg: SymmetricKeyAlgorithm::AES128, s2k: s2k.clone(), iv: vec![0u8; 16].into() },
                253 => S2kParams::Aead {
                    sym_alg: SymmetricKeyAlgorithm::AES128,
                    aead_mode: AeadAlgorithm::Ocb,
                    s2k: s2k.clone(),
                    nonce: vec![0u8; 15].into(),
                },
                _ => S2kParams::LegacyCfb { sym_alg: SymmetricKeyAlgorithm::AES128, iv: vec![0u8; 16].into() },
            };
            let t = Instant::now();
            let r = guard(|| Ok::<_, ()>(EncryptedSecretParams::new(data.clone().into(), params).checksum()));
            let ans = match &r {
                Ok(Ok(c)) => format!("ok:{}", hx(c)),
                Ok(Err(_)) => "err".into(),
                Err(_) => "panic".into(),
            };
            let req = format!("esc usage={usage} data={}", hx(&data));
            no_panic(ctx, site, &req, &r, t);
            ctx.case(req, ans);
        }
    }
}

// -------------------------------------------------------------------------------------------
// AES key unwrap, ECDH derive_session_key
// -------------------------------------------------------------------------------------------

/// the primitive itself (RFC 3394), from the `aes-kw` crate, independent of rpgp's wrapper
fn kw_prim(key: &[u8], data: &[u8]) -> Option<Vec<u8>> {
    match key.len() {
        16 => aes_kw::KekAes128::new(key.into()).unwrap_vec(data).ok(),
        24 => aes_kw::KekAes192::new(key.into()).unwrap_vec(data).ok(),
        32 => aes_kw::KekAes256::new(key.into()).unwrap_vec(data).ok(),
        _ => None,
    }
}

fn kw_wrap(key: &[u8], data: &[u8]) -> Option<Vec<u8>> {
    match key.len() {
        16 => aes_kw::KekAes128::new(key.into()).wrap_vec(data).ok(),
        24 => aes_kw::KekAes192::new(key.into()).wrap_vec(data).ok(),
        32 => aes_kw::KekAes256::new(key.into()).wrap_vec(data).ok(),
        _ => None,
    }
}

fn aeskw_cases(ctx: &mut Ctx, rng: &mut ChaCha8Rng) {
    let site = "crypto/aes_kw.rs unwrap";
    for klen in [0usize, 15, 16, 24, 32, 33] {
        let key = gen::random_bytes(rng, klen);
        for dlen in 0..=41usize {
            // half of the valid sizes carry a genuinely wrapped value
            let data = if dlen % 8 == 0 && dlen >= 16 && dlen % 16 == 8 {
                kw_wrap(&key, &gen::random_bytes(rng, dlen - 8)).unwrap_or_else(|| gen::random_bytes(rng, dlen))
            } else {
                gen::random_bytes(rng, dlen)
            };
            let prim = kw_prim(&key, &data);
            let t = Instant::now();
            let r = guard(|| pgp::crypto::aes_kw::unwrap(&key, &data));
            let ans = match &r {
                Ok(Ok(v)) => format!("ok:{}", hx(v)),
                Ok(Err(_)) => "err".into(),
                Err(_) => "panic".into(),
            };
            let req = format!("aeskw key={klen} data={dlen} prim={}", prim.as_ref().map(|p| hx(p)).unwrap_or("x".into()));
            no_panic(ctx, site, &format!("{req} keybytes={} databytes={}", hx(&key), hx(&data)), &r, t);
            ctx.case(req, ans);
        }
    }
}

fn ecdh_cases(ctx: &mut Ctx, rng: &mut ChaCha8Rng) {
    let site = "crypto/ecdh.rs derive_session_key";
    let shared = gen::random_bytes(rng, 32);
    let fp = gen::random_bytes(rng, 20);
    let curve = ECCCurve::P256;
    let hash = HashAlgorithm::Sha256;
    for (alg, ks) in [(SymmetricKeyAlgorithm::AES128, 16usize), (SymmetricKeyAlgorithm::AES256, 32)] {
        let param = pgp::crypto::ecdh::build_ecdh_param(&curve.oid(), alg, hash, &fp);
        let kek = pgp::crypto::ecdh::kdf(hash, &shared, ks, &param).expect("kdf");
        let mut paddeds: Vec<Vec<u8>> = Vec::new();
        // every value of the last (pad) octet, for three lengths; consistent and inconsistent padding
        let lasts: Vec<u8> = if ctx.thorough() { (0..=255).collect() } else { vec![0, 1, 2, 7, 8, 9, 15, 16, 17, 23, 24, 25, 39, 40, 41, 48, 49, 128, 255] };
        for len in [8usize, 16, 24, 40, 48] {
            for &last in &lasts {
                let mut p = gen::random_bytes(rng, len);
                let padn = (last as usize).min(len);
                for b in p[len - padn..].iter_mut() {
                    *b = last;
                }
                p[len - 1] = last;
                paddeds.push(p.clone());
                if padn >= 2 {
                    p[len - padn] ^= 0x55; // inconsistent padding
                    paddeds.push(p);
                }
            }
        }
        for padded in &paddeds {
            let Some(wrapped) = kw_wrap(&kek, padded) else { continue };
            let t = Instant::now();
            let r = guard(|| pgp::crypto::ecdh::derive_session_key(&shared, &wrapped, wrapped.len(), curve.clone(), hash, alg, &fp));
            let ans = match &r {
                Ok(Ok(v)) => format!("ok:{}", hx(v)),
                Ok(Err(_)) => "err".into(),
                Err(_) => "panic".into(),
            };
            let req = format!("ecdh_derive eklen={} esklen={} keklen={ks} unwrapped={}", wrapped.len(), wrapped.len(), hx(padded));
            no_panic(ctx, site, &format!("{req} wrapped={} shared={}", hx(&wrapped), hx(&shared)), &r, t);
            ctx.case(req, ans);
            ctx.stat("ecdh:padded-plaintext");
        }
        // garbage and short wrapped keys (the recipient's unwrap rejects or is never reached)
        for n in 0..=24usize {
            let wrapped = gen::random_bytes(rng, n);
            let prim = kw_prim(&kek, &wrapped);
            let t = Instant::now();
            let r = guard(|| pgp::crypto::ecdh::derive_session_key(&shared, &wrapped, wrapped.len(), curve.clone(), hash, alg, &fp));
            let req = format!("ecdh_derive eklen={n} esklen={n} keklen={ks} unwrapped={}", prim.map(|p| hx(&p)).unwrap_or("x".into()));
            no_panic(ctx, site, &format!("{req} wrapped={}", hx(&wrapped)), &r, t);
            ctx.case(req, match &r {
                Ok(Ok(v)) => format!("ok:{}", hx(v)),
                Ok(Err(_)) => "err".into(),
                Err(_) => "panic".into(),
            });
            ctx.stat("ecdh:garbage-wrapped");
        }
        // caller-supplied length that disagrees with the slice (API misuse: correspondence only)
        for (eklen, n) in [(8usize, 16usize), (15, 16), (24, 16), (0, 1)] {
            let wrapped = gen::random_bytes(rng, n);
            let r = guard(|| pgp::crypto::ecdh::derive_session_key(&shared, &wrapped, eklen, curve.clone(), hash, alg, &fp));
            let mut padded_in = vec![0u8; eklen.saturating_sub(n)];
            padded_in.extend_from_slice(&wrapped);
            let prim = if eklen >= n { kw_prim(&kek, &padded_in) } else { None };
            let req = format!("ecdh_derive eklen={eklen} esklen={n} keklen={ks} unwrapped={}", prim.map(|p| hx(&p)).unwrap_or("x".into()));
            ctx.case(req, cls(&r).to_string());
            ctx.stat("ecdh:length-mismatch(api)");
        }
    }
}

// -------------------------------------------------------------------------------------------
// SEIPDv2 set-up
// -------------------------------------------------------------------------------------------

fn aead_cases(ctx: &mut Ctx, rng: &mut ChaCha8Rng) {
    let syms = octets(ctx, rng, &[0, 1, 2, 3, 4, 5, 7, 8, 9, 10, 11, 12, 13, 14, 110, 111, 255], 3);
    for &sym in &syms {
        for aead in 0..=255u8 {
            // the crate-private helper, called directly (it is only ever reached behind the tag_size guard)
            let r = guard(|| pgp::verif_hooks::aead_setup_rfc9580_lens(sym, aead, 6).ok_or(()));
            let ans = match &r {
                Ok(Ok((k, n))) => format!("ok:{k}:{n}"),
                Ok(Err(_)) => "err".into(),
                Err(_) => "panic".into(),
            };
            ctx.case(format!("aead_setup sym={sym} aead={aead}"), ans);
            // the public constructor (regression D4b)
            let t = Instant::now();
            let key = vec![7u8; SymmetricKeyAlgorithm::from(sym).key_size()];
            let r2 = guard(|| {
                pgp::crypto::aead::StreamDecryptor::new_rfc9580(sym.into(), AeadAlgorithm::from(aead), ChunkSize::C64B, &[3u8; 32], &key, &b"0123456789abcdef0123456789abcdef"[..])
                    .map(|_| ())
            });
            let req = format!("seipd2_new sym={sym} aead={aead}");
            no_panic(ctx, "crypto/aead/decryptor.rs StreamDecryptor::new_rfc9580", &req, &r2, t);
            ctx.case(req, cls(&r2).to_string());
        }
    }
}

pub fn run(ctx: &mut Ctx) {
    let mut rng = ChaCha8Rng::seed_from_u64(ctx.seed ^ 0xC04A);
    header_cases(ctx, &mut rng);
    mpi_cases(ctx, &mut rng);
    subpacket_cases(ctx, &mut rng);
    esc_cases(ctx, &mut rng);
    aeskw_cases(ctx, &mut rng);
    ecdh_cases(ctx, &mut rng);
    aead_cases(ctx, &mut rng);
    super::regions2::run(ctx, &mut rng);
}

// silence unused warnings for helpers shared with regions2
#[allow(unused)]
fn _unused(_: &dyn Read, _: &dyn Write, _: Chunked) -> String {
    hx_list(&[])
}
