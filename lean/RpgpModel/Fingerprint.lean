import RpgpModel.Bytes
import RpgpModel.Gen.Constants
/-!
# Fingerprint — MPIs, public-key packet bodies, fingerprints, key ids, embedded identities

Transcription of the code that exists (hash functions are parameters, `structure Hashes`):

* `stripZeros` `clz8` `bitSize` `mpiSer` `mpiParse`   `types/mpi.rs` (`strip_leading_zeros`,
                     `u8::leading_zeros`, `bit_size`, `Mpi::to_writer`, `Mpi::try_from_reader`)
* `Field` / `Kind` / `shape` / `parseFields`          the algorithm-specific key material as the
                     `PublicParams::try_from_reader` dispatch reads it (`types/params/public.rs`
                     and `types/params/public/*.rs`): MPI lists (RSA, DSA, Elgamal), length-prefixed
                     curve OID + MPI point (+ 4 KDF octets for ECDH), fixed-size native keys
                     (Ed25519, X25519, X448, Ed448), everything else opaque
* `serBody`          `impl Serialize for PubKeyInner` (`packet/key/public.rs`)
* `parsePubBody`     `packet/public_key_parser.rs  parse` + `PubKeyInner::new` (version/algorithm
                     admission); `parseSecBody` = `packet/secret_key_parser.rs` (public part)
* `preimage`         the bytes `PubKeyInner::imprint` feeds to the digest
* `fingerprint` `legacyKeyId`   `impl KeyDetails for PubKeyInner`
* `specFingerprint` `specKeyId` RFC 9580 §5.5.4 written down independently (over `serBody`)
* `keyFraming`       `packet/signature/types.rs  serialize_for_hashing` (key framing inside
                     signature pre-images — a second copy of the 0x99/0x9B framing in the source)
* issuer subpackets, `matchIdentity` (`signature/types.rs`), PKESK recipient field and
  `pkeskMatch` (`public_key_encrypted_session_key.rs`)

Not modelled: cryptographic admission of the material (RSA modulus checks, point-on-curve,
compressed points being re-encoded uncompressed, DSA component checks).  The model parser accepts
a superset; the correspondence run compares on inputs the real parser accepts plus truncations.
-/
namespace Rpgp

/-! ## MPI — `types/mpi.rs` -/

/-- `strip_leading_zeros` (`leading_zeros_offset` + slice) -/
def stripZeros : Bytes → Bytes
  | [] => []
  | b :: r => if b = 0 then stripZeros r else b :: r

/-- `u8::leading_zeros` -/
def clz8 (b : Byte) : Nat :=
  if 128 ≤ b.toNat then 0
  else if 64 ≤ b.toNat then 1
  else if 32 ≤ b.toNat then 2
  else if 16 ≤ b.toNat then 3
  else if 8 ≤ b.toNat then 4
  else if 4 ≤ b.toNat then 5
  else if 2 ≤ b.toNat then 6
  else if 1 ≤ b.toNat then 7
  else 8

/-- `bit_size` -/
def bitSize : Bytes → Nat
  | [] => 0
  | b :: r => (r.length + 1) * Gen.mpiBitsPerByte - clz8 b

/-- `Mpi::to_writer`: `size as u16`, then the stored bytes as they are -/
def mpiSer (body : Bytes) : Bytes := be16 (bitSize body) ++ body

/-- `Mpi::try_from_reader`: bit count (≤ `MAX_EXTERN_MPI_BITS`), `(bits+7)>>3` octets, leading
zero octets stripped.  Result: (stored body, remaining input). -/
def mpiParse : Bytes → Option (Bytes × Bytes)
  | a :: b :: r =>
    let bits := a.toNat * 256 + b.toNat
    if Gen.maxExternMpiBits < bits then none
    else
      let n := (bits + Gen.mpiRoundAdd) / 2 ^ Gen.mpiRoundShift
      if r.length < n then none else some (stripZeros (r.take n), r.drop n)
  | _ => none

/-- `Mpi::from_slice(raw).to_bytes()` -/
def mpiFromSliceSer (raw : Bytes) : Bytes := mpiSer (stripZeros raw)

/-! ## key material -/

/-- one field of the algorithm-specific part as it is stored after parsing -/
inductive Field where
  /-- an `Mpi` (stored body, no length prefix) -/
  | mpi (body : Bytes)
  /-- octets preceded by a one-octet length (curve OID) -/
  | lp (bs : Bytes)
  /-- octets written as they are (native keys, KDF parameters, unknown algorithms) -/
  | raw (bs : Bytes)
deriving DecidableEq, Repr

abbrev Material := List Field

/-- how a field is read -/
inductive Kind where
  | mpi
  | lp
  | fixed (n : Nat)
  /-- ECDH: `len_param` (= 3), KDF type (= 1), hash id, symmetric id -/
  | kdf
  /-- `unknown()`: the rest of the input, or exactly the announced v6 length -/
  | rest
deriving DecidableEq, Repr

/-- `Serialize for PublicParams` per field -/
def serField : Field → Bytes
  | .mpi b => mpiSer b
  | .lp bs => bs.length.toUInt8 :: bs
  | .raw bs => bs

def serMaterial (m : Material) : Bytes := m.flatMap serField

/-- `PublicParams::try_from_reader`: dispatch on the algorithm octet -/
def shape (alg : Nat) : List Kind :=
  if alg = 1 ∨ alg = 2 ∨ alg = 3 then [.mpi, .mpi]                 -- RSA n e
  else if alg = 17 then [.mpi, .mpi, .mpi, .mpi]                   -- DSA p q g y
  else if alg = 16 ∨ alg = 20 then [.mpi, .mpi, .mpi]              -- Elgamal p g y
  else if alg = 19 ∨ alg = 22 then [.lp, .mpi]                     -- ECDSA, EdDSALegacy: OID, point
  else if alg = 18 then [.lp, .mpi, .kdf]                          -- ECDH: OID, point, KDF
  else if alg = 25 ∨ alg = 27 then [.fixed 32]                     -- X25519, Ed25519
  else if alg = 26 then [.fixed 56]                                -- X448
  else if alg = 28 then [.fixed 57]                                -- Ed448
  else [.rest]

def takeN (n : Nat) (inp : Bytes) : Option (Bytes × Bytes) :=
  if inp.length < n then none else some (inp.take n, inp.drop n)

/-- one field; `hint` = announced length of the v6 key material (`len: Option<usize>`) -/
def parseField (hint : Option Nat) : Kind → Bytes → Option (Field × Bytes)
  | .mpi, inp =>
    match mpiParse inp with
    | some (b, r) => some (.mpi b, r)
    | none => none
  | .lp, inp =>
    match inp with
    | [] => none
    | l :: r =>
      match takeN l.toNat r with
      | some (bs, r') => some (.lp bs, r')
      | none => none
  | .fixed n, inp =>
    match takeN n inp with
    | some (bs, r) => some (.raw bs, r)
    | none => none
  | .kdf, inp =>
    match inp with
    | l :: t :: h :: s :: r => if l = 3 ∧ t = 1 then some (.raw [l, t, h, s], r) else none
    | _ => none
  | .rest, inp =>
    match hint with
    | none => some (.raw inp, [])
    | some n =>
      match takeN n inp with
      | some (bs, r) => some (.raw bs, r)
      | none => none

def parseFields (hint : Option Nat) : List Kind → Bytes → Option (Material × Bytes)
  | [], inp => some ([], inp)
  | k :: ks, inp =>
    match parseField hint k inp with
    | none => none
    | some (f, r) =>
      match parseFields hint ks r with
      | none => none
      | some (fs, r') => some (f :: fs, r')

/-! ## public-key packet body -/

structure PubKey where
  /-- version octet: 2, 3, 4 or 6 for every key the parser returns -/
  version : Nat
  /-- creation time (u32) -/
  created : Nat
  /-- `legacy_v3_expiration_days` (u16); only written for v2/v3 -/
  expiry : Nat
  /-- public-key algorithm octet -/
  alg : Nat
  mat : Material
deriving DecidableEq, Repr

def isRsaAlg (alg : Nat) : Bool := alg == 1 || alg == 2 || alg == 3

/-- `PubKeyInner::new`: v2/v3 only with RSA; `EdDSALegacy` and ECDH over `Curve25519Legacy`
only in v4.  (The second test needs the curve; OID of Curve25519Legacy = 2B 06 01 04 01 97 55 01 05 01.) -/
def curve25519LegacyOid : Bytes := [0x2B, 0x06, 0x01, 0x04, 0x01, 0x97, 0x55, 0x01, 0x05, 0x01]

def admitted (version alg : Nat) (m : Material) : Bool :=
  if version = 2 ∨ version = 3 then isRsaAlg alg
  else if version ≠ 4 then
    !(alg == 22) &&
    !(alg == 18 && (match m with | .lp oid :: _ => oid == curve25519LegacyOid | _ => false))
  else true

/-- `impl Serialize for PubKeyInner` (`to_writer_v2_v3` / `to_writer_v4_v6`); `none` = error
(`V5`/`Other`, or v6 material of 2³² octets or more: `try_into()?`) -/
def serBody (k : PubKey) : Option Bytes :=
  if k.version = 2 ∨ k.version = 3 then
    some (k.version.toUInt8 :: be32 k.created ++ be16 k.expiry ++ [k.alg.toUInt8] ++ serMaterial k.mat)
  else if k.version = 4 then
    some (k.version.toUInt8 :: be32 k.created ++ [k.alg.toUInt8] ++ serMaterial k.mat)
  else if k.version = 6 then
    if (serMaterial k.mat).length < 4294967296 then
      some (k.version.toUInt8 :: be32 k.created ++ [k.alg.toUInt8] ++
        be32 (serMaterial k.mat).length ++ serMaterial k.mat)
    else none
  else none

/-- `public_key_parser::parse` followed by `PubKeyInner::new`.  `strict` = the secret-key
parser's "PublicParams::try_from_reader didn't consume all data" test on the v6 window.
Returns the key and the unread input. -/
def parseBody (strict : Bool) : Bytes → Option (PubKey × Bytes)
  | [] => none
  | v :: r =>
    if v = 2 ∨ v = 3 then
      match r with
      | c0 :: c1 :: c2 :: c3 :: e0 :: e1 :: a :: r' =>
        match parseFields none (shape a.toNat) r' with
        | none => none
        | some (m, rest) =>
          if admitted v.toNat a.toNat m then
            some ({ version := v.toNat, created := beNat [c0, c1, c2, c3], expiry := beNat [e0, e1],
                    alg := a.toNat, mat := m }, rest)
          else none
      | _ => none
    else if v = 4 then
      match r with
      | c0 :: c1 :: c2 :: c3 :: a :: r' =>
        match parseFields none (shape a.toNat) r' with
        | none => none
        | some (m, rest) =>
          some ({ version := 4, created := beNat [c0, c1, c2, c3], expiry := 0, alg := a.toNat, mat := m }, rest)
      | _ => none
    else if v = 6 then
      match r with
      | c0 :: c1 :: c2 :: c3 :: a :: l0 :: l1 :: l2 :: l3 :: r' =>
        let len := beNat [l0, l1, l2, l3]
        -- public parser: `ensure!(len > 0)`; the secret parser has no such test
        if len = 0 ∧ strict = false then none
        else
          -- `read_take(len)`: the material parser sees at most `len` octets
          match parseFields (some len) (shape a.toNat) (r'.take len) with
          | none => none
          | some (m, left) =>
            if strict ∧ left ≠ [] then none
            else if admitted 6 a.toNat m then
              -- what was not consumed stays in the underlying reader
              some ({ version := 6, created := beNat [c0, c1, c2, c3], expiry := 0, alg := a.toNat, mat := m },
                    left ++ r'.drop len)
            else none
      | _ => none
    else none

/-- the translator's report on repair D15d: both key parsers take the v6 octet count exactly -/
def pubLenExactF : Bool :=
  Gen.fixD15dV6PubLenExactBothParsers = 1 && Gen.fixD15dV6PubLenExactSecretParser = 1

/-- the v6 octet count is non-zero and that many octets follow it (`Take::limit() == 0` after the
parameters were read and `ensure!(len > 0)`, the two tests both parsers share after the repair) -/
def v6CountExact : Bytes → Bool
  | [] => true
  | v :: t =>
    if v = 6 then
      match t with
      | _ :: _ :: _ :: _ :: _ :: l0 :: l1 :: l2 :: l3 :: r' =>
        decide (beNat [l0, l1, l2, l3] ≠ 0 ∧ beNat [l0, l1, l2, l3] ≤ r'.length)
      | _ => true
    else true

/-- the two key parsers as the tree has them: after repair D15d both are the window-checking parser
(`parseBody true`) on inputs whose count is non-zero and present in full; before, `parseBody strict` -/
def parseBodyCur (strict : Bool) (b : Bytes) : Option (PubKey × Bytes) :=
  if pubLenExactF then (if v6CountExact b then parseBody true b else none) else parseBody strict b

def parsePubBody : Bytes → Option (PubKey × Bytes) := parseBodyCur false

/-- secret-key packet: public fields, then the secret part (kept opaque) -/
structure SecKey where
  details : PubKey
  secret : Bytes
deriving DecidableEq, Repr

def parseSecBody (inp : Bytes) : Option SecKey :=
  match parseBodyCur true inp with
  | some (k, rest) => some { details := k, secret := rest }
  | none => none

/-- `SecretKey::public_key()` -/
def SecKey.publicPart (sk : SecKey) : PubKey := sk.details

/-! ## fingerprints and key ids — `PubKeyInner::imprint`, `impl KeyDetails for PubKeyInner` -/

/-- the digests are parameters -/
structure Hashes where
  md5 : Bytes → Bytes
  sha1 : Bytes → Bytes
  sha256 : Bytes → Bytes

/-- the octets `imprint` feeds to the digest; `none` = `unsupported_err!` (V5 / Other) -/
def preimage (k : PubKey) : Option Bytes :=
  if k.version = 2 ∨ k.version = 3 then
    match k.mat with
    | [.mpi n, .mpi e] => some (n ++ e)                      -- `PublicParams::RSA`: MPI bodies only
    | m => some (serMaterial m)                              -- `else` branch: serialized parameters
  else if k.version = 4 then
    let packet := Gen.fpV4VersionOctet.toUInt8 :: be32 k.created ++ [k.alg.toUInt8] ++ serMaterial k.mat
    -- `(packet.len() as u16).to_be_bytes()`
    some (Gen.fpV4Prefix.toUInt8 :: beBytes (Gen.fpV4LenBits / 8) packet.length ++ packet)
  else if k.version = 6 then
    let pp := serMaterial k.mat
    some (Gen.fpV6Prefix.toUInt8 :: be32 (Gen.fpV6FixedLen + pp.length) ++ [Gen.fpV6VersionOctet.toUInt8] ++
      be32 k.created ++ [k.alg.toUInt8] ++ be32 pp.length ++ pp)
  else none

/-- a `Fingerprint` value: variant (`ver`: 2,3,4,5,6; 0 = `Unknown`) and octets -/
structure Fp where
  ver : Nat
  bytes : Bytes
deriving DecidableEq, Repr

/-- `KeyDetails::fingerprint`; `none` = `unimplemented!` -/
def fingerprint (H : Hashes) (k : PubKey) : Option Fp :=
  match preimage k with
  | none => none
  | some pre =>
    if k.version = 2 ∨ k.version = 3 then some ⟨k.version, H.md5 pre⟩
    else if k.version = 4 then some ⟨4, H.sha1 pre⟩
    else some ⟨6, H.sha256 pre⟩

/-- v2/v3: low 64 bits of the modulus, a shorter modulus left-padded with zeros -/
def keyIdV3 (n : Bytes) : Bytes :=
  if Gen.keyIdV3Width ≤ n.length then n.drop (n.length - Gen.keyIdV3Sub)
  else List.replicate (Gen.keyIdV3Pad - n.length) 0 ++ n

/-- v4: `f.as_bytes()[f.len() - 8 ..]` -/
def keyIdV4 (fp : Bytes) : Bytes := fp.drop (fp.length - Gen.keyIdV4Width)

/-- v6: `f.as_bytes()[0..8]` -/
def keyIdV6 (fp : Bytes) : Bytes := fp.take Gen.keyIdV6Take

/-- `KeyDetails::legacy_key_id`; `none` = panic / `unimplemented!` -/
def legacyKeyId (H : Hashes) (k : PubKey) : Option Bytes :=
  if k.version = 2 ∨ k.version = 3 then
    match k.mat with
    | [.mpi n, .mpi _] => some (keyIdV3 n)
    | _ => none
  else
    match fingerprint H k with
    | none => none
    | some fp => if k.version = 4 then some (keyIdV4 fp.bytes) else some (keyIdV6 fp.bytes)

/-- `SecretKey: KeyDetails` delegates to `self.details` -/
def SecKey.fingerprint (H : Hashes) (sk : SecKey) : Option Fp := Rpgp.fingerprint H sk.details
def SecKey.legacyKeyId (H : Hashes) (sk : SecKey) : Option Bytes := Rpgp.legacyKeyId H sk.details

/-! ## RFC 9580 §5.5.4 as a specification (over the serialized packet body) -/

/-- §5.5.4.1 / .2 / .3 -/
def specFingerprint (H : Hashes) (k : PubKey) : Option Bytes :=
  match serBody k with
  | none => none
  | some body =>
    if k.version = 3 ∨ k.version = 2 then
      match k.mat with
      | [.mpi n, .mpi e] => some (H.md5 (n ++ e))
      | _ => none
    else if k.version = 4 then some (H.sha1 (0x99 :: be16 body.length ++ body))
    else if k.version = 6 then some (H.sha256 (0x9B :: be32 body.length ++ body))
    else none

/-- key id as a number: low 64 bits (v4), high 64 bits of a 256-bit fingerprint (v6) -/
def specKeyIdV4 (fp : Bytes) : Nat := beNat fp % 18446744073709551616
def specKeyIdV6 (fp : Bytes) : Nat := beNat fp / 256 ^ (fp.length - 8)

/-! ## `serialize_for_hashing` — key framing inside signature pre-images -/

/-- `none` = error (`try_into()?` on the length, `unimplemented_err!` on the version) -/
def keyFraming (k : PubKey) : Option Bytes :=
  match serBody k with
  | none => none
  | some body =>
    if k.version = 2 ∨ k.version = 3 ∨ k.version = 4 then
      if body.length < 65536 then some (Gen.sigKeyPrefixV4.toUInt8 :: be16 body.length ++ body) else none
    else if k.version = 6 then
      if body.length < 4294967296 then some (Gen.sigKeyPrefixV6.toUInt8 :: be32 body.length ++ body) else none
    else none

/-! ## identities embedded in signatures — `signature/{ser,de,types,config}.rs` -/

/-- `KeyVersion::fingerprint_len` -/
def kvFpLen (ver : Nat) : Option Nat :=
  if ver = 2 ∨ ver = 3 then some Gen.kvFpLenV3
  else if ver = 4 then some Gen.kvFpLenV4
  else if ver = 5 ∨ ver = 6 then some Gen.kvFpLenV6
  else none

/-- `Fingerprint::len` (by variant; for `Unknown` the stored length) -/
def Fp.len (fp : Fp) : Nat :=
  if fp.ver = 2 ∨ fp.ver = 3 then Gen.fpLenV3
  else if fp.ver = 4 then Gen.fpLenV4
  else if fp.ver = 5 ∨ fp.ver = 6 then Gen.fpLenV6
  else fp.bytes.length

/-- `Fingerprint::new(version, bytes)`: the length must be the version's -/
def Fp.new (ver : Nat) (bs : Bytes) : Option Fp :=
  match kvFpLen ver with
  | some n => if bs.length = n then some ⟨ver, bs⟩ else none
  | none => none

/-- body of an Issuer Fingerprint subpacket (`SubpacketData::IssuerFingerprint` in `ser.rs`) -/
def issuerFpBody (fp : Fp) : Option Bytes :=
  if fp.ver = 0 then none else some (fp.ver.toUInt8 :: fp.bytes)

/-- `de.rs  issuer_fingerprint` on a subpacket body, followed by the test of `de.rs subpacket`
that the body was consumed completely ("Inconsistent subpacket length") -/
def parseIssuerFp : Bytes → Option Fp
  | [] => none
  | v :: r =>
    if v = 4 ∨ v = 5 ∨ v = 6 then
      match kvFpLen v.toNat with
      | some n => if r.length = n then Fp.new v.toNat (r.take n) else none
      | none => none
    else none

/-- `de.rs  issuer`: `read_arr::<8>`, and the body must be consumed completely -/
def parseIssuerKeyId (inp : Bytes) : Option Bytes :=
  if inp.length = Gen.issuerKeyIdLen then some inp else none

/-- a whole subpacket with a short body: length octet (type octet counted), type octet, body -/
def subpacket (typ : Nat) (body : Bytes) : Bytes := (body.length + 1).toUInt8 :: typ.toUInt8 :: body

/-- the issuer information a signature carries (hashed and unhashed areas together) -/
structure Issuers where
  keyIds : List Bytes
  fps : List Fp
deriving DecidableEq, Repr

/-- what every signing helper of the crate writes (`MessageBuilder` signer setup, `SecretKey::sign`
helpers, `UserId::sign`, `PublicSubkey::sign`, `composed/key/shared.rs`): a hashed
`IssuerFingerprint(key.fingerprint())`, and for key versions ≤ 4 an unhashed
`IssuerKeyId(key.legacy_key_id())` -/
def signIssuers (H : Hashes) (k : PubKey) : Option Issuers :=
  match fingerprint H k with
  | none => none
  | some fp =>
    if k.version ≤ 4 then
      match legacyKeyId H k with
      | some kid => some { keyIds := [kid], fps := [fp] }
      | none => none
    else some { keyIds := [], fps := [fp] }

/-- `Signature::match_identity` -/
def matchIdentity (iss : Issuers) (keyId : Bytes) (fp : Fp) : Bool :=
  if iss.keyIds.isEmpty && iss.fps.isEmpty then true
  else iss.keyIds.any (fun i => i == keyId) || iss.fps.any (fun f => f == fp)

/-! ## PKESK recipient field — `public_key_encrypted_session_key.rs` -/

inductive Recipient where
  /-- v3: key id (all zero = wildcard) -/
  | v3 (keyId : Bytes)
  /-- v6: fingerprint, `none` = anonymous -/
  | v6 (fp : Option Fp)
  | other (ver : Nat)
deriving DecidableEq, Repr

/-- version octet + recipient field as written by `Serialize for PublicKeyEncryptedSessionKey` -/
def serRecipient : Recipient → Option Bytes
  | .v3 kid => some (Gen.pkeskV3.toUInt8 :: kid)
  | .v6 none => some [Gen.pkeskV6.toUInt8, 0]
  | .v6 (some fp) =>
    if fp.ver = 0 then none                                    -- "Fingerprint without version information"
    else if 256 ≤ fp.len + 1 then none                         -- `len.try_into()?`
    else some (Gen.pkeskV6.toUInt8 :: (fp.len + 1).toUInt8 :: fp.ver.toUInt8 :: fp.bytes)
  | .other v => some [v.toUInt8]

/-- `PublicKeyEncryptedSessionKey::try_from_reader` up to (not including) the algorithm octet -/
def parseRecipient : Bytes → Option (Recipient × Bytes)
  | [] => none
  | v :: r =>
    if v.toNat = Gen.pkeskV3 then
      match takeN Gen.pkeskKeyIdLen r with
      | some (kid, r') => some (.v3 kid, r')
      | none => none
    else if v.toNat = Gen.pkeskV6 then
      match r with
      | [] => none
      | l :: r1 =>
        if l = 0 then some (.v6 none, r1)
        else
          match r1 with
          | [] => none
          | kv :: r2 =>
            match takeN (l.toNat - 1) r2 with
            | none => none
            | some (bs, r3) =>
              match Fp.new kv.toNat bs with
              | some fp => some (.v6 (some fp), r3)
              | none => none
    else some (.other v.toNat, r)

def isWildcard (kid : Bytes) : Bool := kid == List.replicate 8 (0 : Byte)

/-- `PublicKeyEncryptedSessionKey::match_identity` -/
def pkeskMatch (rc : Recipient) (keyId : Bytes) (fp : Fp) : Bool :=
  match rc with
  | .v3 id => isWildcard id || id == keyId
  | .v6 (some f) => f == fp
  | .v6 none => true
  | .other _ => false

/-- `from_session_key_v3` / `from_session_key_v6`: the recipient written for key `k` -/
def recipientFor (H : Hashes) (k : PubKey) (pkeskVersion : Nat) : Option Recipient :=
  if pkeskVersion = 3 then (legacyKeyId H k).map Recipient.v3
  else if pkeskVersion = 6 then (fingerprint H k).map (fun fp => Recipient.v6 (some fp))
  else none

end Rpgp
