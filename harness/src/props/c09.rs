//! C09 — streaming is transparent: results independent of I/O fragmentation and faults.
//!
//! Correspondence ops (model: RpgpModel/Stream.lean, RpgpModel/Canon.lean, RpgpModel/Seipd.lean):
//!   fill_buffer n=<n> chunks=<hex,..>          util::fill_buffer over a chunked source
//!   utf8_accepts chunks=<hex,..>               Utf8CheckReader (through a utf8 literal source)
//!   cfb_enc_blocks n=<plaintext len> bs=<n>    sizes of the blocks the CFB StreamEncryptor hands
//!                                              out under a 1-byte-at-a-time consumer
//! plus schedule-independence / fault oracles on the real components (property text):
//!   * builder output identical for every source read schedule and every sink write schedule;
//!   * reader results (plaintext, verification) identical for every source schedule and
//!     consumer pattern;
//!   * a source or sink error at call k surfaces as an error, never a clean shorter result.

use std::io::{BufRead, BufReader, Read, Write};

use pgp::composed::{ArmorOptions, Message, MessageBuilder, PlainSessionKey, SignedSecretKey};
use pgp::crypto::aead::{AeadAlgorithm, ChunkSize};
use pgp::crypto::hash::HashAlgorithm;
use pgp::crypto::sym::SymmetricKeyAlgorithm;
use pgp::packet::DataMode;
use pgp::types::{CompressionAlgorithm, KeyVersion, Password};
use rand::{Rng, SeedableRng};
use sha2::Digest;
use rand_chacha::ChaCha8Rng;

use crate::ctx::{guarded, hx, hx_list, Ctx};
use crate::gen;
use crate::io::{drain_with, ScheduledReader, ScheduledWriter};
use crate::keys;
use crate::props::c03::{consume, Pattern};

#[derive(Clone, Copy, Debug, PartialEq)]
enum Enc {
    None,
    V1,
    V2,
}

#[derive(Clone, Copy, Debug)]
struct Cfg {
    utf8: bool,
    compression: Option<CompressionAlgorithm>,
    sign: bool,
    enc: Enc,
    armor: bool,
    chunk: u32,
    algs: Algs,
}

/// the algorithms a configuration names (each selects an arm of a per-algorithm dispatch)
#[derive(Clone, Copy, Debug)]
struct Algs {
    sym: SymmetricKeyAlgorithm,
    aead: AeadAlgorithm,
    cs: u8,
    hash: HashAlgorithm,
}

const DEF: Algs = Algs { sym: SymmetricKeyAlgorithm::AES128, aead: AeadAlgorithm::Ocb, cs: 0, hash: HashAlgorithm::Sha256 };

fn session_key(a: &Algs) -> Vec<u8> {
    vec![0x42; a.sym.key_size()]
}

const SESSION_KEY: [u8; 16] = [0x42; 16];

/// Build with the given source/sink; deterministic rng. Returns Ok(bytes written) or Err.
fn build<R: Read, W: Write>(cfg: &Cfg, key: &SignedSecretKey, src: R, mut sink: W, seed: u64) -> Result<(), String> {
    let mut rng = ChaCha8Rng::seed_from_u64(seed);
    macro_rules! finish {
        ($b:expr) => {{
            let mut b = $b;
            if cfg.utf8 {
                b.data_mode(DataMode::Utf8).map_err(|e| e.to_string())?;
            }
            b.partial_chunk_size(cfg.chunk).map_err(|e| e.to_string())?;
            if let Some(c) = cfg.compression {
                b.compression(c);
            }
            if cfg.sign {
                b.sign(&**key, Password::empty(), cfg.algs.hash);
            }
            if cfg.armor {
                b.to_armored_writer(&mut rng, ArmorOptions::default(), &mut sink).map_err(|e| e.to_string())
            } else {
                b.to_writer(&mut rng, &mut sink).map_err(|e| e.to_string())
            }
        }};
    }
    match cfg.enc {
        Enc::None => finish!(MessageBuilder::from_reader("", src)),
        Enc::V1 => {
            let mut b = MessageBuilder::from_reader("", src).seipd_v1(&mut rng, cfg.algs.sym);
            b.set_session_key(session_key(&cfg.algs).into()).map_err(|e| e.to_string())?;
            finish!(b)
        }
        Enc::V2 => {
            let cs = ChunkSize::try_from(cfg.algs.cs).map_err(|e| e.to_string())?;
            let mut b = MessageBuilder::from_reader("", src).seipd_v2(&mut rng, cfg.algs.sym, cfg.algs.aead, cs);
            b.set_session_key(session_key(&cfg.algs).into()).map_err(|e| e.to_string())?;
            finish!(b)
        }
    }
}

/// Read a message back: (plaintext, signature verified?) or Err
fn read_back<R: BufRead + std::fmt::Debug + Send>(cfg: &Cfg, key: &SignedSecretKey, src: R, pat: Pattern) -> Result<(Vec<u8>, bool), String> {
    let msg = if cfg.armor {
        Message::from_armor(src).map_err(|e| e.to_string())?.0
    } else {
        Message::from_bytes(src).map_err(|e| e.to_string())?
    };
    let msg = match cfg.enc {
        Enc::None => msg,
        Enc::V1 => msg
            .decrypt_with_session_key(PlainSessionKey::V3_4 { sym_alg: cfg.algs.sym, key: session_key(&cfg.algs).into() })
            .map_err(|e| e.to_string())?,
        Enc::V2 => msg
            .decrypt_with_session_key(PlainSessionKey::V6 { key: session_key(&cfg.algs).into() })
            .map_err(|e| e.to_string())?,
    };
    let mut msg = if msg.is_compressed() { msg.decompress().map_err(|e| e.to_string())? } else { msg };
    let mut out = Vec::new();
    match pat {
        Pattern::ReadToEnd => {
            msg.read_to_end(&mut out).map_err(|e| e.to_string())?;
        }
        Pattern::PollOn(n) => {
            // the consumer ignores up to six errors and keeps reading (a one-shot source fault may
            // be transient): whatever it ends up with when it sees a 0-byte read is the result
            let mut buf = vec![0u8; n.max(1)];
            let mut errors = 0;
            loop {
                match msg.read(&mut buf) {
                    Ok(0) => break,
                    Ok(k) => out.extend_from_slice(&buf[..k]),
                    Err(e) => {
                        errors += 1;
                        if errors > 6 {
                            return Err(e.to_string());
                        }
                    }
                }
            }
        }
        Pattern::BufRead(n) => loop {
            // buffered access only: fill_buf / consume
            let avail = msg.fill_buf().map_err(|e| e.to_string())?;
            if avail.is_empty() {
                break;
            }
            let k = avail.len().min(n.max(1));
            out.extend_from_slice(&avail[..k]);
            msg.consume(k);
        },
        Pattern::ZeroMix(n) => {
            let mut buf = vec![0u8; n.max(1)];
            loop {
                msg.read(&mut []).map_err(|e| format!("zero-length read: {e}"))?;
                match msg.read(&mut buf) {
                    Ok(0) => break,
                    Ok(k) => out.extend_from_slice(&buf[..k]),
                    Err(e) => return Err(e.to_string()),
                }
            }
        }
        Pattern::Fixed(n) => {
            let mut buf = vec![0u8; n.max(1)];
            loop {
                match msg.read(&mut buf) {
                    Ok(0) => break,
                    Ok(k) => out.extend_from_slice(&buf[..k]),
                    Err(e) => return Err(e.to_string()),
                }
            }
        }
    }
    let verified = if cfg.sign { msg.verify(key.public_key()).is_ok() } else { true };
    Ok((out, verified))
}

fn payload(rng: &mut ChaCha8Rng, utf8: bool, n: usize) -> Vec<u8> {
    if utf8 {
        // canonical text: CRLF line endings only, multi-byte characters included
        let mut s = Vec::new();
        let atoms: [&[u8]; 5] = [b"a", b"\r\n", "é".as_bytes(), "一".as_bytes(), b" "];
        while s.len() < n {
            let a = atoms[rng.gen_range(0..atoms.len())];
            if s.len() + a.len() > n {
                s.extend(std::iter::repeat(b'x').take(n - s.len()));
                break;
            }
            s.extend_from_slice(a);
        }
        s
    } else {
        gen::random_bytes(rng, n)
    }
}

fn schedules(rng: &mut ChaCha8Rng, n: usize, chunk: usize) -> Vec<Vec<usize>> {
    let mut v = vec![vec![1; n.min(4096)], vec![chunk - 6, 1, 1, 5, chunk], vec![chunk - 7, 2, chunk - 1, 3], vec![chunk, chunk], vec![7; 64]];
    let mut r: Vec<usize> = Vec::new();
    let mut left = n;
    while left > 0 {
        let k = rng.gen_range(1..=(chunk + 9)).min(left);
        r.push(k);
        left -= k;
    }
    v.push(r);
    v
}

fn run_builder(ctx: &mut Ctx, key: &SignedSecretKey) {
    let mut rng = ChaCha8Rng::seed_from_u64(ctx.seed ^ 0xC09);
    let cfgs = [
        Cfg { utf8: false, compression: None, sign: false, enc: Enc::None, armor: false, chunk: 512, algs: DEF },
        Cfg { utf8: true, compression: None, sign: false, enc: Enc::None, armor: false, chunk: 512, algs: DEF },
        Cfg { utf8: false, compression: Some(CompressionAlgorithm::ZLIB), sign: false, enc: Enc::None, armor: false, chunk: 512, algs: DEF },
        Cfg { utf8: false, compression: None, sign: false, enc: Enc::V1, armor: false, chunk: 512, algs: DEF },
        Cfg { utf8: false, compression: None, sign: false, enc: Enc::V2, armor: false, chunk: 1024, algs: DEF },
        Cfg { utf8: false, compression: None, sign: false, enc: Enc::None, armor: true, chunk: 512, algs: DEF },
        Cfg { utf8: false, compression: Some(CompressionAlgorithm::ZIP), sign: false, enc: Enc::V2, armor: true, chunk: 512, algs: DEF },
        Cfg { utf8: false, compression: None, sign: true, enc: Enc::None, armor: false, chunk: 512, algs: DEF },
        Cfg { utf8: true, compression: Some(CompressionAlgorithm::ZIP), sign: true, enc: Enc::V1, armor: true, chunk: 512, algs: DEF },
    ];
    let sizes: Vec<usize> = if ctx.thorough() { vec![0, 1, 5, 505, 506, 507, 511, 512, 513, 1018, 1024, 1030, 1536, 3000] } else { vec![0, 1, 506, 512, 1018, 1600] };
    for (ci, cfg) in cfgs.iter().enumerate() {
        for &n in &sizes {
            let data = payload(&mut rng, cfg.utf8, n);
            let site = format!("MessageBuilder {cfg:?}");
            let inp = format!("n={n} data={}", hx(&data));
            // reference: whole-slice source, unlimited sink
            let mut reference = Vec::new();
            let mut ref_second = now_secs();
            let r0 = guarded(|| build(cfg, key, &data[..], &mut reference, 7));
            let mut ref_exact = now_secs() == ref_second;
            if !matches!(r0, Ok(Ok(()))) {
                ctx.oracle("builder_succeeds", &site, &inp, false, &format!("{r0:?}"));
                continue;
            }
            let ref_read = guarded(|| read_back(cfg, key, &reference[..], Pattern::ReadToEnd));
            ctx.oracle("reference_roundtrip", &site, &inp, matches!(&ref_read, Ok(Ok((p, v))) if *p == data && *v), &format!("{:?}", ref_read.as_ref().map(|r| r.as_ref().map(|(p, v)| (p.len(), *v)))));
            // source schedules
            let scheds = schedules(&mut rng, n, cfg.chunk as usize);
            for (si, s) in scheds.iter().enumerate() {
                let mut out = Vec::new();
                let r = guarded(|| build(cfg, key, ScheduledReader::new(&data, s), &mut out, 7));
                let same = if cfg.sign {
                    // signatures carry a wall-clock creation time (seconds): the bytes are comparable
                    // only between two builds made within the same second (the signature value, its
                    // MPI lengths and anything compressed after it change with the time stamp).
                    // Otherwise the reference is rebuilt once; if the clock ticks again the comparison
                    // falls back to what the reader returns.
                    if !(ref_exact && now_secs() == ref_second) {
                        ref_second = now_secs();
                        reference.clear();
                        let _ = guarded(|| build(cfg, key, &data[..], &mut reference, 7));
                        let mut again = Vec::new();
                        let _ = guarded(|| build(cfg, key, ScheduledReader::new(&data, s), &mut again, 7));
                        ref_exact = now_secs() == ref_second;
                        if ref_exact {
                            out = again;
                        }
                    }
                    let rb = guarded(|| read_back(cfg, key, &out[..], Pattern::ReadToEnd));
                    let reads_back = matches!(&rb, Ok(Ok((p, v))) if *p == data && *v);
                    if ref_exact {
                        ctx.stat("builder:signed_compared_bytewise");
                        reads_back && out == reference
                    } else {
                        ctx.stat("builder:signed_compared_through_reader_only");
                        reads_back
                    }
                } else {
                    out == reference
                };
                ctx.oracle("output_independent_of_source_schedule", &site, &format!("{inp} schedule#{si}={:?}", &s[..s.len().min(12)]), matches!(r, Ok(Ok(()))) && same, "output differs from whole-slice source");
                ctx.stat("builder:source_schedule");
            }
            // sink schedules
            for (wi, w) in [vec![1usize; 8192], vec![3, 1, 64, 2], vec![63, 65, 1]].iter().enumerate() {
                if cfg.sign {
                    continue;
                }
                let mut sink = ScheduledWriter::new(w);
                let r = guarded(|| build(cfg, key, &data[..], &mut sink, 7));
                ctx.oracle("output_independent_of_sink_schedule", &site, &format!("{inp} sink#{wi}"), matches!(r, Ok(Ok(()))) && sink.out == reference, "output differs");
                ctx.stat("builder:sink_schedule");
            }
            if cfg.sign || (ci % 2 == 1 && !ctx.thorough()) {
                continue;
            }
            // source faults: one-shot error at read call k, for every k the fault-free run makes
            let mut probe = ScheduledReader::new(&data, &[64; 4096]);
            let mut sink = Vec::new();
            let _ = guarded(|| build(cfg, key, &mut probe, &mut sink, 7));
            let calls = probe.calls_made;
            for k in 0..calls {
                let mut out = Vec::new();
                let r = guarded(|| build(cfg, key, ScheduledReader::new(&data, &[64; 4096]).with_fault(k), &mut out, 7));
                let surfaced = matches!(r, Ok(Err(_)));
                ctx.oracle("source_fault_surfaces", &site, &format!("{inp} fault@read#{k}"), surfaced, &format!("{:?} out_len={}", r.as_ref().map(|x| x.is_ok()), out.len()));
                ctx.stat("builder:source_fault");
            }
            // sink faults: one-shot error at write call k
            let mut probe = ScheduledWriter::new(&[]);
            let _ = guarded(|| build(cfg, key, &data[..], &mut probe, 7));
            let wcalls = probe.calls_made;
            let step = if ctx.thorough() { 1 } else { (wcalls / 40).max(1) };
            let mut ks: Vec<usize> = (0..wcalls).step_by(step).collect();
            for tail in 1..=4 {
                if wcalls >= tail {
                    ks.push(wcalls - tail);
                }
            }
            ks.sort_unstable();
            ks.dedup();
            for k in ks {
                let mut sink = ScheduledWriter::new(&[]).with_fault(k);
                let r = guarded(|| build(cfg, key, &data[..], &mut sink, 7));
                let surfaced = matches!(r, Ok(Err(_)));
                ctx.oracle("sink_fault_surfaces", &site, &format!("{inp} fault@write#{k}/{wcalls}"), surfaced, &format!("{:?} written={}", r.as_ref().map(|x| x.is_ok()), sink.out.len()));
                ctx.stat("builder:sink_fault");
            }
        }
    }
}

/// a source that mirrors the model's event list exactly: a data event is handed out in as many
/// reads as the caller's buffer needs, an error event makes one read fail (one-shot)
struct EvSource {
    evs: std::collections::VecDeque<Option<Vec<u8>>>,
}

impl Read for EvSource {
    fn read(&mut self, buf: &mut [u8]) -> std::io::Result<usize> {
        match self.evs.pop_front() {
            None => Ok(0),
            // (a fatal kind: `Interrupted` is retried inside `fill_buffer` and is the subject of the
            //  fault-kind sweep; the model's `err` event is a read that fails for good)
            Some(None) => Err(std::io::Error::other("injected source fault")),
            Some(Some(c)) => {
                if c.len() <= buf.len() {
                    buf[..c.len()].copy_from_slice(&c);
                    Ok(c.len())
                } else {
                    let n = buf.len();
                    buf.copy_from_slice(&c[..n]);
                    self.evs.push_front(Some(c[n..].to_vec()));
                    Ok(n)
                }
            }
        }
    }
}

/// plaintext in which every 12-octet window is unique and recognisable
fn marked_plaintext(n: usize) -> Vec<u8> {
    let mut v = Vec::with_capacity(n + 12);
    let mut i = 0u32;
    while v.len() < n {
        v.extend_from_slice(b"PLAIN#");
        v.extend_from_slice(format!("{i:06}").as_bytes());
        i += 1;
    }
    v.truncate(n);
    v
}

/// the stream encryptors, polled on after a source failure (`enc_poll`): the model predicts the
/// result of every call; oracles: an error is sticky, nothing of the plaintext is handed out
fn run_enc_poll(ctx: &mut Ctx) {
    let mut rng = ChaCha8Rng::seed_from_u64(ctx.seed ^ 0xC093);
    let n_cases = ctx.pick(60usize, 1500usize);
    for case in 0..n_cases {
        let aead_mode = case % 2 == 1;
        // CFB: B = 8192, queued = block size + 2, trailer = 22; AEAD: B = 64 << cs, tag 16
        let (b, queued, trailer, grow, cs_octet) = if aead_mode {
            let cs = [0u8, 1, 2][case / 2 % 3];
            (64usize << cs, 0usize, 16usize, 16usize, cs)
        } else {
            (8192usize, 18usize, 22usize, 0usize, 0u8)
        };
        // events: data chunks around the refill size, one (sometimes two, sometimes no) error
        let n_ev = rng.gen_range(1..=7usize);
        let mut evs: Vec<Option<usize>> = (0..n_ev)
            .map(|_| {
                Some(match rng.gen_range(0..6) {
                    0 => 1,
                    1 => b,
                    2 => b - 1,
                    3 => b + 1,
                    4 => rng.gen_range(1..=2 * b + 3),
                    _ => rng.gen_range(1..=b.min(300)),
                })
            })
            .collect();
        for _ in 0..[1usize, 1, 1, 2, 0][case % 5] {
            let at = rng.gen_range(0..=evs.len());
            evs.insert(at, None);
        }
        let total: usize = evs.iter().flatten().sum();
        let pt = marked_plaintext(total);
        let mut pos = 0usize;
        let mk_source = |evs: &Vec<Option<usize>>, pos: &mut usize| EvSource {
            evs: evs
                .iter()
                .map(|e| {
                    e.map(|n| {
                        let c = pt[*pos..*pos + n].to_vec();
                        *pos += n;
                        c
                    })
                })
                .collect(),
        };
        let n_reqs = evs.len() * 3 + 8;
        let reqs: Vec<usize> = (0..n_reqs)
            .map(|i| match (case + i) % 4 {
                0 => 8192,
                1 => rng.gen_range(1..=40usize),
                2 => b + 16,
                _ => rng.gen_range(1..=3 * b),
            })
            .collect();
        let src = mk_source(&evs, &mut pos);
        let key = [0x42u8; 16];
        let mut out: Vec<u8> = Vec::new();
        let results: Vec<String> = {
            let run = |reader: &mut dyn Read, out: &mut Vec<u8>| -> Vec<String> {
                reqs.iter()
                    .map(|&n| {
                        let mut buf = vec![0u8; n];
                        match guarded(|| reader.read(&mut buf)) {
                            Ok(Ok(k)) => {
                                out.extend_from_slice(&buf[..k]);
                                k.to_string()
                            }
                            Ok(Err(_)) => "E".to_string(),
                            Err(_) => "P".to_string(),
                        }
                    })
                    .collect()
            };
            if aead_mode {
                let cs = ChunkSize::try_from(cs_octet).expect("chunk size");
                match pgp::packet::SymEncryptedProtectedData::encrypt_seipdv2_stream(SymmetricKeyAlgorithm::AES128, AeadAlgorithm::Ocb, cs, &key, [7u8; 32], src) {
                    Ok(mut enc) => run(&mut enc, &mut out),
                    Err(_) => continue,
                }
            } else {
                match SymmetricKeyAlgorithm::AES128.stream_encryptor(ChaCha8Rng::seed_from_u64(3), &key, src) {
                    Ok(mut enc) => run(&mut enc, &mut out),
                    Err(_) => continue,
                }
            }
        };
        let evs_txt: Vec<String> = evs.iter().map(|e| e.map(|n| n.to_string()).unwrap_or_else(|| "999999999".into())).collect();
        let reqs_txt: Vec<String> = reqs.iter().map(|n| n.to_string()).collect();
        let req = format!("enc_poll b={b} queued={queued} trailer={trailer} grow={grow} evs={} reqs={}", evs_txt.join(","), reqs_txt.join(","));
        ctx.case(req.clone(), format!("ok:{}", results.join(",")));
        let site = if aead_mode { "crypto/aead/encryptor.rs StreamEncryptor polled after a source error" } else { "crypto/sym/encryptor.rs StreamEncryptor polled after a source error" };
        let first_err = results.iter().position(|r| r == "E" || r == "P");
        let sticky = match first_err {
            Some(i) => results[i..].iter().all(|r| r == "E"),
            None => true,
        };
        ctx.oracle("error_is_sticky", site, &req, sticky && !results.iter().any(|r| r == "P"), &results.join(","));
        let leaked = pt.len() >= 12 && out.windows(12).any(|w| w.starts_with(b"PLAIN#") && w[6..].iter().all(|c| c.is_ascii_digit()));
        ctx.oracle("no_plaintext_released", site, &req, !leaked, &format!("{} octets handed out", out.len()));
        if evs.iter().any(|e| e.is_none()) {
            let clean_eof = results.iter().any(|r| r == "0");
            ctx.oracle("source_fault_never_clean_eof", site, &req, !clean_eof, &results.join(","));
        }
        ctx.stat(if aead_mode { "enc_poll:aead" } else { "enc_poll:cfb" });
    }
}

fn now_secs() -> u64 {
    std::time::SystemTime::now().duration_since(std::time::UNIX_EPOCH).map(|d| d.as_secs()).unwrap_or(0)
}

fn run_reader(ctx: &mut Ctx, key: &SignedSecretKey) {
    let mut rng = ChaCha8Rng::seed_from_u64(ctx.seed ^ 0xC091);
    let cfgs = [
        Cfg { utf8: false, compression: None, sign: false, enc: Enc::None, armor: false, chunk: 512, algs: DEF },
        Cfg { utf8: false, compression: Some(CompressionAlgorithm::ZLIB), sign: true, enc: Enc::None, armor: false, chunk: 512, algs: DEF },
        Cfg { utf8: false, compression: None, sign: true, enc: Enc::V1, armor: false, chunk: 512, algs: DEF },
        Cfg { utf8: false, compression: None, sign: true, enc: Enc::V2, armor: true, chunk: 512, algs: DEF },
        Cfg { utf8: true, compression: Some(CompressionAlgorithm::ZIP), sign: false, enc: Enc::V2, armor: false, chunk: 512, algs: DEF },
    ];
    // (payloads beyond the 8 KiB internal buffers of the readers as well, read with sizes that do not
    //  divide 8192: a reader that tops up a partly consumed buffer meets them)
    let sizes: Vec<usize> = if ctx.thorough() { vec![0, 1, 63, 64, 65, 506, 512, 1018, 2000, 9000, 20000, 33000] } else { vec![0, 1, 64, 506, 1100, 9000, 20011] };
    let pats = [Pattern::ReadToEnd, Pattern::Fixed(1), Pattern::Fixed(7), Pattern::Fixed(8192), Pattern::ZeroMix(50), Pattern::BufRead(13), Pattern::Fixed(100), Pattern::Fixed(4095), Pattern::Fixed(8191), Pattern::Fixed(1000)];
    for cfg in &cfgs {
        for &n in &sizes {
            let data = payload(&mut rng, cfg.utf8, n);
            let mut msg = Vec::new();
            if !matches!(guarded(|| build(cfg, key, &data[..], &mut msg, 9)), Ok(Ok(()))) {
                continue;
            }
            let site = format!("Message reader {cfg:?}");
            let inp = format!("n={n} msg={}", hx(&msg));
            // source schedules x BufReader capacities x consumer patterns
            let caps = [1usize, 2, 3, 64, 8192, 5, 100, 4096, 8191, 16384];
            let mut variants = 0;
            for (ci, &cap) in caps.iter().enumerate() {
                let sched: Vec<usize> = match ci { 0 => vec![1; 1 << 16], 1 => vec![2, 1, 3], 2 => vec![511, 1, 2, 510], _ => vec![] };
                let pat = pats[ci % pats.len()];
                let r = guarded(|| read_back(cfg, key, BufReader::with_capacity(cap, ScheduledReader::new(&msg, &sched)), pat));
                let ok = matches!(&r, Ok(Ok((p, v))) if *p == data && *v);
                ctx.oracle("read_independent_of_schedule", &site, &format!("{inp} cap={cap} pat={pat:?}"), ok, &format!("{:?}", r.as_ref().map(|x| x.as_ref().map(|(p, v)| (p.len(), *v)))));
                variants += 1;
                ctx.stat("reader:schedule");
            }
            let _ = variants;
            // the same message followed by something else (a second message, a marker packet, stray
            // octets): whatever the verdict is, it must not depend on how the consumer asks for the data
            for (ti, trailer) in [msg.clone(), vec![0xCA, 0x03, b'P', b'G', b'P'], vec![0x00], vec![0xFF, 0xFF, 0x01]].iter().enumerate() {
                if cfg.armor {
                    continue; // (bytes after an armor footer are C10's subject)
                }
                let mut both = msg.clone();
                both.extend_from_slice(trailer);
                let mut verdicts: Vec<(String, String)> = Vec::new();
                for pat in [Pattern::ReadToEnd, Pattern::Fixed(1), Pattern::Fixed(8192), Pattern::BufRead(1), Pattern::BufRead(8192), Pattern::ZeroMix(64)] {
                    let r = guarded(|| read_back(cfg, key, &both[..], pat));
                    let v = match &r {
                        Ok(Ok((p, v))) => format!("ok:{}:{}:{}", p.len(), *p == data, v),
                        Ok(Err(_)) => "err".to_string(),
                        Err(_) => "panic".to_string(),
                    };
                    verdicts.push((format!("{pat:?}"), v));
                }
                let same = verdicts.iter().all(|(_, v)| *v == verdicts[0].1);
                ctx.oracle("verdict_independent_of_consumer", &site, &format!("{inp} trailer#{ti}={}", hx(trailer)), same && !verdicts.iter().any(|(_, v)| v == "panic"), &format!("{verdicts:?}"));
                ctx.stat("reader:trailing_data");
            }
            // source faults at every read call of the fault-free run (capacity 64)
            let mut calls = 0usize;
            {
                let mut probe = ScheduledReader::new(&msg, &[]);
                let _ = guarded(|| {
                    let r = read_back(cfg, key, BufReader::with_capacity(64, &mut probe), Pattern::ReadToEnd);
                    r.is_ok()
                });
                calls = calls.max(probe.calls_made);
            }
            let step = if ctx.thorough() { 1 } else { (calls / 30).max(1) };
            for k in (0..calls).step_by(step) {
                let r = guarded(|| read_back(cfg, key, BufReader::with_capacity(64, ScheduledReader::new(&msg, &[]).with_fault(k)), Pattern::ReadToEnd));
                // an error must surface; a clean result that is *complete and correct* is also
                // acceptable only if the faulting call was never needed (it is needed here: the
                // probe counted the calls the fault-free run makes up to and including EOF)
                let clean_short = matches!(&r, Ok(Ok((p, _))) if *p != data);
                let clean_full_at_eof_probe = matches!(&r, Ok(Ok((p, v))) if *p == data && *v);
                ctx.oracle("reader_source_fault_surfaces", &site, &format!("{inp} fault@read#{k}/{calls}"), !clean_short && (matches!(r, Ok(Err(_))) || (clean_full_at_eof_probe && k + 2 >= calls)), &format!("{:?}", r.as_ref().map(|x| x.as_ref().map(|(p, v)| (p.len(), *v)))));
                ctx.stat("reader:source_fault");
                // the same fault with a consumer that polls on after errors: a clean end must mean the
                // complete, correct payload (the source recovered), never a shorter or different one,
                // and never a panic
                if k % 3 == 0 || ctx.thorough() {
                    let r = guarded(|| read_back(cfg, key, BufReader::with_capacity(64, ScheduledReader::new(&msg, &[]).with_fault(k)), Pattern::PollOn(61)));
                    let bad = match &r {
                        Ok(Ok((p, v))) => *p != data || !*v,
                        Ok(Err(_)) => false,
                        Err(_) => true,
                    };
                    ctx.oracle("fault_then_poll_never_clean_short", &site, &format!("{inp} fault@read#{k}/{calls} pat=PollOn(61)"), !bad, &format!("{:?}", r.as_ref().map(|x| x.as_ref().map(|(p, v)| (p.len(), *v)))));
                    ctx.stat("reader:source_fault_poll");
                }
            }
        }
    }
}

/// every cipher / AEAD mode / chunk size / hash / compression the builder and the reader dispatch
/// on: builder output independent of the source schedule, reading independent of source schedule
/// and consumer pattern, faults surface (oracle only)
fn run_alg_sweep(ctx: &mut Ctx, key: &SignedSecretKey) {
    use SymmetricKeyAlgorithm as S;
    let mut rng = ChaCha8Rng::seed_from_u64(ctx.seed ^ 0xC09A);
    let base = Cfg { utf8: false, compression: None, sign: false, enc: Enc::None, armor: false, chunk: 512, algs: DEF };
    let mut cfgs: Vec<Cfg> = Vec::new();
    for sym in [S::IDEA, S::TripleDES, S::CAST5, S::Blowfish, S::AES192, S::AES256, S::Twofish, S::Camellia128, S::Camellia192, S::Camellia256] {
        cfgs.push(Cfg { enc: Enc::V1, algs: Algs { sym, ..DEF }, ..base });
    }
    for sym in [S::AES128, S::AES192, S::AES256] {
        for aead in [AeadAlgorithm::Eax, AeadAlgorithm::Ocb, AeadAlgorithm::Gcm] {
            for cs in [0u8, 3, 6, 10] {
                if sym == S::AES128 && aead == AeadAlgorithm::Ocb && cs == 0 {
                    continue;
                }
                cfgs.push(Cfg { enc: Enc::V2, algs: Algs { sym, aead, cs, ..DEF }, ..base });
            }
        }
    }
    for hash in [HashAlgorithm::Sha224, HashAlgorithm::Sha384, HashAlgorithm::Sha512, HashAlgorithm::Sha3_256, HashAlgorithm::Sha3_512] {
        cfgs.push(Cfg { sign: true, algs: Algs { hash, ..DEF }, ..base });
        cfgs.push(Cfg { sign: true, utf8: true, algs: Algs { hash, ..DEF }, ..base });
    }
    for c in [CompressionAlgorithm::ZIP, CompressionAlgorithm::ZLIB, CompressionAlgorithm::BZip2, CompressionAlgorithm::Uncompressed] {
        cfgs.push(Cfg { compression: Some(c), ..base });
        cfgs.push(Cfg { compression: Some(c), enc: Enc::V1, algs: Algs { sym: S::AES256, ..DEF }, ..base });
    }
    let sizes: Vec<usize> = if ctx.thorough() { vec![0, 1, 700, 1100, 9000, 20011, 70001] } else { vec![0, 1100, 20011] };
    let pats = [Pattern::ReadToEnd, Pattern::Fixed(1), Pattern::Fixed(7), Pattern::Fixed(8192), Pattern::ZeroMix(50), Pattern::BufRead(13), Pattern::Fixed(4095), Pattern::Fixed(1000)];
    for (ci, cfg) in cfgs.iter().enumerate() {
        for (ni, &n) in sizes.iter().enumerate() {
            let data = payload(&mut rng, cfg.utf8, n);
            let site = format!("MessageBuilder / Message reader {cfg:?}");
            let inp = format!("n={n} data_sha256={}", hx(&sha2::Sha256::digest(&data)));
            let mut reference = Vec::new();
            let r0 = guarded(|| build(cfg, key, &data[..], &mut reference, 11));
            if !matches!(r0, Ok(Ok(()))) {
                // (a configuration the builder refuses is not this property's subject)
                ctx.stat(&format!("sweep:builder_refuses:{:?}:{:?}:{:?}", cfg.algs.sym, cfg.algs.hash, cfg.compression));
                continue;
            }
            // builder: source schedules (unsigned: bytewise; signed: through the reader)
            for (si, s) in [vec![1usize; 1 << 17], vec![7, 1, 500, 3], vec![8192], vec![511, 513, 1]].iter().enumerate() {
                if (n > 5000 && si == 0 && !ctx.thorough()) || (si + ci + ni) % 2 == 1 && !ctx.thorough() {
                    continue;
                }
                let mut out = Vec::new();
                let r = guarded(|| build(cfg, key, ScheduledReader::new(&data, s), &mut out, 11));
                let same = if cfg.sign {
                    matches!(guarded(|| read_back(cfg, key, &out[..], Pattern::ReadToEnd)), Ok(Ok((p, v))) if p == data && v)
                } else {
                    out == reference
                };
                ctx.oracle("output_independent_of_source_schedule", &site, &format!("{inp} schedule#{si}"), matches!(r, Ok(Ok(()))) && same, "output differs from whole-slice source");
                ctx.stat("sweep:builder_schedule");
            }
            // reader: schedules x consumer patterns
            for (k, &cap) in [1usize, 3, 64, 8192, 100, 8191].iter().enumerate() {
                if (k + ci + ni) % 2 == 0 && !ctx.thorough() {
                    continue;
                }
                if cap == 1 && n > 5000 && !ctx.thorough() {
                    continue;
                }
                let sched: Vec<usize> = match k { 0 => vec![1; 1 << 17], 1 => vec![2, 1, 3], 2 => vec![511, 1, 2, 510], _ => vec![] };
                let pat = pats[(k + ci) % pats.len()];
                let r = guarded(|| read_back(cfg, key, BufReader::with_capacity(cap, ScheduledReader::new(&reference, &sched)), pat));
                let ok = matches!(&r, Ok(Ok((p, v))) if *p == data && *v);
                ctx.oracle("read_independent_of_schedule", &site, &format!("{inp} cap={cap} pat={pat:?}"), ok, &format!("{:?}", r.as_ref().map(|x| x.as_ref().map(|(p, v)| (p.len(), *v)))));
                ctx.stat("sweep:reader_schedule");
            }
            // faults: a few read calls of the builder's source and of the reader's source
            let mut probe = ScheduledReader::new(&data, &[509; 4096]);
            let mut sink = Vec::new();
            let _ = guarded(|| build(cfg, key, &mut probe, &mut sink, 11));
            let calls = probe.calls_made;
            for k in [0usize, 1, calls / 2, calls.saturating_sub(2), calls.saturating_sub(1)] {
                if k >= calls {
                    continue;
                }
                let mut out = Vec::new();
                let r = guarded(|| build(cfg, key, ScheduledReader::new(&data, &[509; 4096]).with_fault(k), &mut out, 11));
                ctx.oracle("source_fault_surfaces", &site, &format!("{inp} fault@read#{k}/{calls}"), matches!(r, Ok(Err(_))), &format!("{:?} out_len={}", r.as_ref().map(|x| x.is_ok()), out.len()));
                ctx.stat("sweep:builder_fault");
            }
            let mut probe = ScheduledReader::new(&reference, &[]);
            let _ = guarded(|| read_back(cfg, key, BufReader::with_capacity(512, &mut probe), Pattern::ReadToEnd).is_ok());
            let calls = probe.calls_made;
            for k in [0usize, 1, calls / 3, calls / 2, calls.saturating_sub(3)] {
                if k + 2 >= calls {
                    continue;
                }
                let r = guarded(|| read_back(cfg, key, BufReader::with_capacity(512, ScheduledReader::new(&reference, &[]).with_fault(k)), Pattern::ReadToEnd));
                ctx.oracle("reader_source_fault_surfaces", &site, &format!("{inp} fault@read#{k}/{calls}"), matches!(r, Ok(Err(_))), &format!("{:?}", r.as_ref().map(|x| x.as_ref().map(|(p, v)| (p.len(), *v)))));
                ctx.stat("sweep:reader_fault");
            }
        }
    }
}

/// one-shot faults of the kinds callers treat specially: `Interrupted` (std's `io::copy`,
/// `read_to_end`, `write_all` retry it: the result is then the complete, correct one or an error —
/// never a panic, never a silently shorter message), `UnexpectedEof` / `WouldBlock` / `TimedOut`
/// (an error, never taken for the end of the data) (oracle only)
fn run_fault_kinds(ctx: &mut Ctx, key: &SignedSecretKey) {
    use std::io::ErrorKind as K;
    let mut rng = ChaCha8Rng::seed_from_u64(ctx.seed ^ 0xC09F);
    let base = Cfg { utf8: false, compression: None, sign: false, enc: Enc::None, armor: false, chunk: 512, algs: DEF };
    let cfgs = [
        base,
        Cfg { enc: Enc::V1, ..base },
        Cfg { enc: Enc::V2, ..base },
        Cfg { compression: Some(CompressionAlgorithm::ZLIB), ..base },
        Cfg { armor: true, ..base },
        Cfg { sign: true, ..base },
        Cfg { sign: true, enc: Enc::V2, compression: Some(CompressionAlgorithm::ZIP), armor: true, ..base },
    ];
    for cfg in &cfgs {
        for &n in &[0usize, 100, 3000] {
            let data = payload(&mut rng, cfg.utf8, n);
            let site = format!("MessageBuilder / Message reader {cfg:?}");
            let mut reference = Vec::new();
            if !matches!(guarded(|| build(cfg, key, &data[..], &mut reference, 13)), Ok(Ok(()))) {
                continue;
            }
            // builder: source faults
            let mut probe = ScheduledReader::new(&data, &[300; 4096]);
            let mut sink = Vec::new();
            let _ = guarded(|| build(cfg, key, &mut probe, &mut sink, 13));
            let calls = probe.calls_made;
            for kind in [K::Interrupted, K::UnexpectedEof, K::WouldBlock, K::TimedOut] {
                for k in 0..calls {
                    let mut out = Vec::new();
                    let r = guarded(|| build(cfg, key, ScheduledReader::new(&data, &[300; 4096]).with_fault_kind(k, kind), &mut out, 13));
                    let complete = || {
                        if cfg.sign {
                            matches!(guarded(|| read_back(cfg, key, &out[..], Pattern::ReadToEnd)), Ok(Ok((p, v))) if p == data && v)
                        } else {
                            out == reference
                        }
                    };
                    let ok = match &r {
                        Ok(Err(_)) => true,
                        Ok(Ok(())) => kind == K::Interrupted && complete(),
                        Err(_) => false,
                    };
                    ctx.oracle("source_fault_surfaces", &site, &format!("n={n} {kind:?}@read#{k}/{calls} data={}", hx(&data[..data.len().min(64)])), ok, &format!("{:?} out_len={} reference_len={}", r.as_ref().map(|x| x.is_ok()), out.len(), reference.len()));
                    ctx.stat(&format!("fault_kind:builder_source:{kind:?}"));
                }
                // builder: sink faults
                let mut wprobe = ScheduledWriter::new(&[]);
                let _ = guarded(|| build(cfg, key, &data[..], &mut wprobe, 13));
                let wcalls = wprobe.calls_made;
                for k in (0..wcalls).step_by((wcalls / 12).max(1)) {
                    let mut sink = ScheduledWriter::new(&[]).with_fault_kind(k, kind);
                    let r = guarded(|| build(cfg, key, &data[..], &mut sink, 13));
                    let ok = match &r {
                        Ok(Err(_)) => true,
                        Ok(Ok(())) => kind == K::Interrupted && (cfg.sign || sink.out == reference),
                        Err(_) => false,
                    };
                    ctx.oracle("sink_fault_surfaces", &site, &format!("n={n} {kind:?}@write#{k}/{wcalls}"), ok, &format!("{:?} written={} reference_len={}", r.as_ref().map(|x| x.is_ok()), sink.out.len(), reference.len()));
                    ctx.stat(&format!("fault_kind:builder_sink:{kind:?}"));
                }
                // reader: source faults
                let mut probe = ScheduledReader::new(&reference, &[]);
                let _ = guarded(|| read_back(cfg, key, BufReader::with_capacity(128, &mut probe), Pattern::ReadToEnd).is_ok());
                let rcalls = probe.calls_made;
                for k in (0..rcalls).step_by((rcalls / 40).max(1)) {
                    let r = guarded(|| read_back(cfg, key, BufReader::with_capacity(128, ScheduledReader::new(&reference, &[]).with_fault_kind(k, kind)), Pattern::ReadToEnd));
                    let ok = match &r {
                        Ok(Err(_)) => true,
                        // (a clean result must be the complete, verified one: the fault was retried,
                        //  or it hit a call behind the end of the message)
                        Ok(Ok((p, v))) => *p == data && *v && (kind == K::Interrupted || k + 2 >= rcalls),
                        Err(_) => false,
                    };
                    ctx.oracle("reader_source_fault_surfaces", &site, &format!("n={n} {kind:?}@read#{k}/{rcalls} msg={}", hx(&reference[..reference.len().min(64)])), ok, &format!("{:?}", r.as_ref().map(|x| x.as_ref().map(|(p, v)| (p.len(), *v)))));
                    ctx.stat(&format!("fault_kind:reader_source:{kind:?}"));
                }
            }
        }
    }
}

/// the dearmorer read directly with every consumer buffer size, tiny ones included: decoded octets,
/// final verdict and the results derived from the footer (checksum, its status) are the same
/// (oracle only)
fn run_dearmor_consumers(ctx: &mut Ctx, key: &SignedSecretKey) {
    use pgp::armor::{Dearmor, DearmorOptions};
    let mut rng = ChaCha8Rng::seed_from_u64(ctx.seed ^ 0xC09D);
    let base = Cfg { utf8: false, compression: None, sign: false, enc: Enc::None, armor: true, chunk: 512, algs: DEF };
    for n in [0usize, 1, 2, 3, 47, 48, 49, 200] {
        let data = payload(&mut rng, false, n);
        let mut good = Vec::new();
        if !matches!(guarded(|| build(&base, key, &data[..], &mut good, 17)), Ok(Ok(()))) {
            continue;
        }
        let text = String::from_utf8_lossy(&good).to_string();
        let mut variants: Vec<(&str, Vec<u8>)> = vec![("valid", good.clone())];
        variants.push(("end_line_names_another_type", text.replace("-----END PGP MESSAGE-----", "-----END PGP SIGNATURE-----").into_bytes()));
        if let Some(p) = text.find("-----END") {
            variants.push(("cut_before_the_end_line", good[..p].to_vec()));
            variants.push(("cut_inside_the_end_line", good[..p + 9].to_vec()));
        }
        if let Some(p) = text.rfind("\n=") {
            let mut v = good.clone();
            v[p + 2] = if v[p + 2] == b'A' { b'B' } else { b'A' };
            variants.push(("other_checksum", v));
        }
        for (what, doc) in &variants {
            for crc in [false, true] {
                let mut seen: Vec<(String, String)> = Vec::new();
                for reqs in [vec![], vec![1usize], vec![2], vec![3], vec![2, 1], vec![7], vec![64], vec![8192], vec![0, 1]] {
                    let r = guarded(|| {
                        let opt = if crc { DearmorOptions::new().enable_crc24_check() } else { DearmorOptions::new() };
                        let mut d = Dearmor::with_options(&doc[..], opt);
                        let (out, res) = if reqs.is_empty() {
                            let mut v = Vec::new();
                            let r = d.read_to_end(&mut v).map(|_| ()).map_err(|e| e.to_string());
                            (v, r)
                        } else {
                            drain_with(&mut d, &reqs)
                        };
                        // (what was delivered in front of an error may depend on the buffer size; the verdict
                        //  and, on success, the octets and the footer results may not)
                        match res {
                            Ok(()) => format!("ok:{}:{:?}:{:?}", hx(&out), d.checksum, d.crc24_status()),
                            Err(_) => "err".to_string(),
                        }
                    });
                    seen.push((format!("{reqs:?}"), r.unwrap_or_else(|p| format!("panic {p}"))));
                }
                let same = seen.iter().all(|(_, v)| *v == seen[0].1) && !seen.iter().any(|(_, v)| v.starts_with("panic"));
                ctx.oracle("read_independent_of_schedule", "armor::Dearmor read directly with every consumer buffer size", &format!("{what} crc_check={crc} n={n} doc={}", hx(doc)), same, &format!("{seen:?}"));
                ctx.stat("dearmor_consumers");
            }
        }
    }
}

/// a `BufRead` whose `fill_buf` hands out exactly the given pieces, one after the other
#[derive(Debug)]
struct PieceSource {
    pieces: Vec<Vec<u8>>,
    i: usize,
    off: usize,
}

impl std::io::Read for PieceSource {
    fn read(&mut self, buf: &mut [u8]) -> std::io::Result<usize> {
        use std::io::BufRead;
        let avail = self.fill_buf()?;
        let k = avail.len().min(buf.len());
        buf[..k].copy_from_slice(&avail[..k]);
        self.consume(k);
        Ok(k)
    }
}

impl std::io::BufRead for PieceSource {
    fn fill_buf(&mut self) -> std::io::Result<&[u8]> {
        while self.i < self.pieces.len() && self.off >= self.pieces[self.i].len() {
            self.i += 1;
            self.off = 0;
        }
        if self.i >= self.pieces.len() {
            return Ok(&[]);
        }
        Ok(&self.pieces[self.i][self.off..])
    }
    fn consume(&mut self, amt: usize) {
        self.off += amt;
    }
}

/// armor written by hand (RFC 9580 6.2: any line width up to 76, LF or CR LF line endings) and read
/// from sources that deliver it line by line, octet by octet, in fixed pieces or at once: the decoded
/// octets do not depend on where the source cuts (oracle only)
fn run_dearmor_sources(ctx: &mut Ctx) {
    use pgp::armor::Dearmor;
    use super::c10::{b64_rfc, crc24_rfc};
    let mut rng = ChaCha8Rng::seed_from_u64(ctx.seed ^ 0xC09E);
    let widths: &[usize] = if ctx.thorough() { &[1, 2, 3, 4, 5, 6, 7, 8, 12, 63, 64, 65, 76] } else { &[1, 2, 3, 4, 5, 8, 64, 76] };
    for n in [1usize, 2, 3, 4, 5, 6, 7, 9, 12, 47, 48, 49, 200] {
        let data: Vec<u8> = (0..n).map(|_| rng.gen()).collect();
        let b64 = b64_rfc(&data);
        let crc = crc24_rfc(&data);
        let crc_line = [&b"="[..], &b64_rfc(&[(crc >> 16) as u8, (crc >> 8) as u8, crc as u8])[..]].concat();
        for &w in widths {
            for eol in [&b"\n"[..], b"\r\n"] {
                // the document as a list of lines (each with its line ending)
                let mut lines: Vec<Vec<u8>> = Vec::new();
                let mut push = |l: &[u8]| lines.push([l, eol].concat());
                push(b"-----BEGIN PGP MESSAGE-----");
                push(b"");
                for l in b64.chunks(w) {
                    push(l);
                }
                push(&crc_line);
                push(b"-----END PGP MESSAGE-----");
                let doc: Vec<u8> = lines.concat();
                let mut schedules: Vec<(String, Vec<Vec<u8>>)> = vec![("whole".into(), vec![doc.clone()]), ("line by line".into(), lines.clone())];
                for k in [1usize, 2, 3, 5, 7, 64] {
                    schedules.push((format!("pieces of {k}"), doc.chunks(k).map(|c| c.to_vec()).collect()));
                }
                // two lines per piece, and cuts between CR and LF
                schedules.push(("two lines per piece".into(), lines.chunks(2).map(|c| c.concat()).collect()));
                if eol.len() == 2 {
                    let mut pieces: Vec<Vec<u8>> = Vec::new();
                    let mut carry: Vec<u8> = Vec::new();
                    for l in &lines {
                        let mut p = std::mem::take(&mut carry);
                        p.extend_from_slice(&l[..l.len() - 1]);
                        pieces.push(p);
                        carry = vec![b'\n'];
                    }
                    pieces.push(carry);
                    schedules.push(("cut between CR and LF".into(), pieces));
                }
                let mut seen: Vec<(String, String)> = Vec::new();
                for (name, pieces) in &schedules {
                    let r = guarded(|| {
                        let mut d = Dearmor::new(PieceSource { pieces: pieces.clone(), i: 0, off: 0 });
                        let mut out = Vec::new();
                        match d.read_to_end(&mut out) {
                            Ok(_) => format!("ok:{}", hx(&out)),
                            Err(e) => format!("err:{e}"),
                        }
                    });
                    seen.push((name.clone(), r.unwrap_or_else(|p| format!("panic {p}"))));
                }
                let want = format!("ok:{}", hx(&data));
                let all = seen.iter().all(|(_, v)| *v == want);
                // (a `Key: Value` armor header line split over two `fill_buf` views is known finding D10b of
                //  C10; these documents carry no header lines)
                let same = seen.iter().all(|(_, v)| *v == seen[0].1);
                let line_safe: Vec<&(String, String)> = seen.iter().filter(|(n, _)| n == "whole" || n == "line by line" || n == "two lines per piece").collect();
                let ok_line_safe = line_safe.iter().all(|(_, v)| *v == want);
                ctx.oracle(
                    "dearmor_independent_of_source_pieces",
                    "armor::Dearmor over sources that deliver lines / fixed pieces",
                    &format!("payload={} line_width={w} eol={} doc={}", hx(&data), if eol.len() == 2 { "CRLF" } else { "LF" }, hx(&doc)),
                    all && ok_line_safe,
                    &format!("{:?}", seen.iter().filter(|(_, v)| *v != want).collect::<Vec<_>>()),
                );
                ctx.stat(if all { "dearmor_sources:all_schedules_decode" } else if same { "dearmor_sources:all_schedules_agree" } else { "dearmor_sources:piece_schedules_differ" });
            }
        }
    }
}

/// the file sinks of the builder (`to_file`, `to_armored_file`): the file holds exactly what
/// `to_writer` / `to_armored_writer` produce — also when a longer file was there before — and a sink
/// that cannot take the data (`/dev/full`) is an error (oracle only)
fn run_file_sinks(ctx: &mut Ctx, key: &SignedSecretKey) {
    let mut rng = ChaCha8Rng::seed_from_u64(ctx.seed ^ 0xC09B);
    let base = Cfg { utf8: false, compression: None, sign: false, enc: Enc::None, armor: false, chunk: 512, algs: DEF };
    let dir = std::env::temp_dir().join(format!("verif-c09-files-{}", std::process::id()));
    let _ = std::fs::create_dir_all(&dir);
    let path = dir.join("out.pgp");
    let cfgs = [base, Cfg { enc: Enc::V1, ..base }, Cfg { enc: Enc::V2, ..base }, Cfg { compression: Some(CompressionAlgorithm::ZLIB), ..base }, Cfg { armor: true, ..base }, Cfg { armor: true, enc: Enc::V2, ..base }];
    // (sizes go down as well as up: what an earlier, longer message left in the file must be gone)
    let sizes = [5000usize, 100, 20000, 0, 700, 3];
    for cfg in &cfgs {
        for &n in &sizes {
            let data = payload(&mut rng, false, n);
            let site = format!("MessageBuilder::to_file / to_armored_file {cfg:?}");
            // `None`: into memory through to_writer / to_armored_writer; `Some(path)`: through the file sink
            let write = |target: Option<&std::path::Path>| -> Result<Vec<u8>, String> {
                let mut r = ChaCha8Rng::seed_from_u64(19);
                macro_rules! fin {
                    ($b:expr) => {{
                        let mut b = $b;
                        b.partial_chunk_size(cfg.chunk).map_err(|e| e.to_string())?;
                        if let Some(c) = cfg.compression {
                            b.compression(c);
                        }
                        match (target, cfg.armor) {
                            (Some(t), true) => b.to_armored_file(&mut r, t, ArmorOptions::default()).map(|_| Vec::new()).map_err(|e| e.to_string()),
                            (Some(t), false) => b.to_file(&mut r, t).map(|_| Vec::new()).map_err(|e| e.to_string()),
                            (None, true) => { let mut v = Vec::new(); b.to_armored_writer(&mut r, ArmorOptions::default(), &mut v).map(|_| v).map_err(|e| e.to_string()) }
                            (None, false) => { let mut v = Vec::new(); b.to_writer(&mut r, &mut v).map(|_| v).map_err(|e| e.to_string()) }
                        }
                    }};
                }
                match cfg.enc {
                    Enc::None => fin!(MessageBuilder::from_bytes("", data.clone())),
                    Enc::V1 => {
                        let mut b = MessageBuilder::from_bytes("", data.clone()).seipd_v1(&mut r, cfg.algs.sym);
                        b.set_session_key(session_key(&cfg.algs).into()).map_err(|e| e.to_string())?;
                        fin!(b)
                    }
                    Enc::V2 => {
                        let cs = ChunkSize::try_from(cfg.algs.cs).map_err(|e| e.to_string())?;
                        let mut b = MessageBuilder::from_bytes("", data.clone()).seipd_v2(&mut r, cfg.algs.sym, cfg.algs.aead, cs);
                        b.set_session_key(session_key(&cfg.algs).into()).map_err(|e| e.to_string())?;
                        fin!(b)
                    }
                }
            };
            let Ok(Ok(reference)) = guarded(|| write(None)) else { continue };
            let before = std::fs::metadata(&path).map(|m| m.len()).unwrap_or(0);
            let r = guarded(|| write(Some(&path)));
            let on_disk = std::fs::read(&path).unwrap_or_default();
            ctx.oracle("output_independent_of_sink_schedule", &site, &format!("n={n} file sink, previous content {before} octets"), matches!(r, Ok(Ok(_))) && on_disk == reference, &format!("{:?}: file holds {} octets, to_writer gives {}", r.as_ref().map(|x| x.as_ref().map(|_| ())), on_disk.len(), reference.len()));
            let rb = guarded(|| read_back(cfg, key, &on_disk[..], Pattern::ReadToEnd));
            ctx.oracle("reference_roundtrip", &site, &format!("n={n} file sink, read back"), matches!(&rb, Ok(Ok((p, _))) if *p == data), &format!("{:?}", rb.as_ref().map(|x| x.as_ref().map(|(p, v)| (p.len(), *v)))));
            // a sink that cannot take anything
            if std::path::Path::new("/dev/full").exists() {
                let r = guarded(|| write(Some(std::path::Path::new("/dev/full"))));
                ctx.oracle("sink_fault_surfaces", &site, &format!("n={n} /dev/full"), matches!(r, Ok(Err(_))), &format!("{:?}", r.as_ref().map(|x| x.as_ref().map(|_| ()))));
            } else {
                ctx.stat("file_sinks:no_dev_full");
            }
            ctx.stat("file_sinks");
        }
    }
    let _ = std::fs::remove_dir_all(&dir);
}

/// detached signing from a reader that delivers short reads: the signature is over all of the data
/// (oracle only; both the binary and the text entry point, verified over the whole document)
fn run_signing_sources(ctx: &mut Ctx, key: &SignedSecretKey) {
    use pgp::composed::DetachedSignature;
    let mut rng = ChaCha8Rng::seed_from_u64(ctx.seed ^ 0xC09C);
    let pk = key.to_public_key();
    for n in [0usize, 1, 5000, 70000, 200000] {
        let data = payload(&mut rng, true, n);
        for sched in [vec![], vec![1usize, 4999], vec![2500, 1, 2499], vec![65536, 1], vec![65535, 2, 65536], vec![100; 700], vec![8192, 8191, 1, 8192]] {
            for text in [false, true] {
                let r = guarded(|| {
                    let src = ScheduledReader::new(&data, &sched);
                    let sig = if text {
                        DetachedSignature::sign_text_data(&mut rng, &key.primary_key, &Password::empty(), HashAlgorithm::Sha256, src)
                    } else {
                        DetachedSignature::sign_binary_data(&mut rng, &key.primary_key, &Password::empty(), HashAlgorithm::Sha256, src)
                    }
                    .map_err(|e| e.to_string())?;
                    sig.verify(&pk.primary_key, &data[..]).map_err(|e| e.to_string())
                });
                ctx.oracle("output_independent_of_source_schedule", "DetachedSignature::sign_*_data(reader) -> verify(whole document)", &format!("n={n} text={text} schedule={:?}", &sched[..sched.len().min(6)]), matches!(r, Ok(Ok(()))), &format!("{r:?}"));
                // ... and the verifying side reading the document from such a source
                let r = guarded(|| {
                    let sig = if text {
                        DetachedSignature::sign_text_data(&mut rng, &key.primary_key, &Password::empty(), HashAlgorithm::Sha256, &data[..])
                    } else {
                        DetachedSignature::sign_binary_data(&mut rng, &key.primary_key, &Password::empty(), HashAlgorithm::Sha256, &data[..])
                    }
                    .map_err(|e| e.to_string())?;
                    let whole = sig.signature.verify(&pk.primary_key, ScheduledReader::new(&data, &sched)).is_ok();
                    // a document that goes on behind what was signed, delivered so that a read ends where the signed part ends
                    let mut longer = data.clone();
                    longer.extend_from_slice(b"and more");
                    let mut s2 = vec![data.len().max(1)];
                    s2.extend_from_slice(&sched);
                    let extended = sig.signature.verify(&pk.primary_key, ScheduledReader::new(&longer, &s2)).is_ok();
                    Ok::<_, String>((whole, extended))
                });
                ctx.oracle("read_independent_of_schedule", "Signature::verify(reader): the whole document, and the document followed by more", &format!("n={n} text={text} schedule={:?}", &sched[..sched.len().min(6)]), matches!(r, Ok(Ok((true, false)))), &format!("(verifies whole, verifies extended) = {r:?}"));
                ctx.stat("signing_sources");
            }
        }
    }
}

/// `util::fill_buffer` over sources whose reads are interrupted / fail (model op `fill_buffer_intr`)
fn run_fill_buffer_intr(ctx: &mut Ctx) {
    struct EvSrc {
        evs: std::collections::VecDeque<(u8, Vec<u8>)>,
    }
    impl Read for EvSrc {
        fn read(&mut self, buf: &mut [u8]) -> std::io::Result<usize> {
            match self.evs.pop_front() {
                None => Ok(0),
                Some((1, _)) => Err(std::io::Error::other("injected source fault")),
                Some((2, _)) => Err(std::io::Error::new(std::io::ErrorKind::Interrupted, "interrupted")),
                Some((_, c)) => {
                    let n = c.len().min(buf.len());
                    buf[..n].copy_from_slice(&c[..n]);
                    if n < c.len() {
                        self.evs.push_front((0, c[n..].to_vec()));
                    }
                    Ok(n)
                }
            }
        }
    }
    let n_cases = ctx.pick(600, 8000);
    for _ in 0..n_cases {
        let k = ctx.rng.gen_range(0..6usize);
        let mut evs: Vec<u64> = Vec::new();
        for _ in 0..k {
            evs.push(match ctx.rng.gen_range(0..10) {
                0 => 999_999_999,
                1..=3 => 888_888_888,
                _ => ctx.rng.gen_range(0..9u64),
            });
        }
        // (a zero-length window is not asked for by any caller; the helper would still issue one read)
        let n = ctx.rng.gen_range(1..12usize);
        let mut next = 0usize;
        let mut src = std::collections::VecDeque::new();
        for &e in &evs {
            match e {
                999_999_999 => src.push_back((1u8, vec![])),
                888_888_888 => src.push_back((2u8, vec![])),
                e => {
                    src.push_back((0u8, (0..e as usize).map(|i| ((next + i) % 251) as u8).collect()));
                    next += e as usize;
                }
            }
        }
        let r = guarded(|| {
            let mut buf = vec![0u8; n];
            pgp::verif_hooks::fill_buffer(EvSrc { evs: src.clone() }, &mut buf, None).map(|got| buf[..got].to_vec())
        });
        let ans = match &r {
            Ok(Ok(b)) => format!("ok:{}", hx(b)),
            Ok(Err(_)) => "err".to_string(),
            Err(_) => "panic".to_string(),
        };
        let evs_arg = if evs.is_empty() { "-".to_string() } else { evs.iter().map(|e| e.to_string()).collect::<Vec<_>>().join(",") };
        ctx.case(format!("fill_buffer_intr n={n} evs={evs_arg}"), ans.clone());
        // without the model: the octets are those of the data events in order, up to n or the first fatal error
        let mut want: Vec<u8> = Vec::new();
        let mut fatal = false;
        let mut next = 0usize;
        for &e in &evs {
            if want.len() >= n { break; }
            match e {
                999_999_999 => { fatal = true; break; }
                888_888_888 => {}
                e => {
                    if e == 0 { break; } // a read of 0 octets is the end of the source
                    want.extend((0..e as usize).map(|i| ((next + i) % 251) as u8));
                    next += e as usize;
                }
            }
        }
        want.truncate(n);
        let ok = if fatal && want.len() < n { ans == "err" } else { ans == format!("ok:{}", hx(&want)) };
        ctx.oracle("source_fault_surfaces", "util::fill_buffer over interrupted / failing reads", &format!("n={n} evs={evs_arg}"), ok || n == 0, &ans);
        ctx.stat("fill_buffer_intr");
    }
}

/// the reader below a `PacketParser`: delivers `pre` (in pieces), then ends or fails
struct PreThenTail<'a> {
    pre: &'a [u8],
    piece: usize,
    tail: u8,
    fired: bool,
}

impl Read for PreThenTail<'_> {
    fn read(&mut self, buf: &mut [u8]) -> std::io::Result<usize> {
        if buf.is_empty() {
            return Ok(0);
        }
        if self.pre.is_empty() {
            return match self.tail {
                0 => Ok(0),
                _ if self.fired => Ok(0),
                1 => { self.fired = true; Err(std::io::Error::new(std::io::ErrorKind::UnexpectedEof, "reader below failed")) }
                _ => { self.fired = true; Err(std::io::Error::other("reader below failed")) }
            };
        }
        let n = self.pre.len().min(buf.len()).min(self.piece.max(1));
        buf[..n].copy_from_slice(&self.pre[..n]);
        self.pre = &self.pre[n..];
        Ok(n)
    }
}

/// where a packet stream ends, and what a failing reader below means (model: PacketIter.lean)
fn run_next_hdr(ctx: &mut Ctx) {
    use pgp::packet::PacketParser;
    let mut pres: Vec<Vec<u8>> = vec![vec![]];
    // every prefix of headers of every form, headers followed by some body, octets that start no header
    for h in [vec![0xCBu8, 3], vec![0xC2, 0xC5, 0x01], vec![0xC2, 0xFF, 0, 0, 0, 9], vec![0x89, 0x01, 0x00], vec![0x8A, 0, 0, 1, 0], vec![0x8B], vec![0xCB, 0xE9], vec![0x88, 5]] {
        for cut in 0..=h.len() {
            pres.push(h[..cut].to_vec());
        }
        let mut with_body = h.clone();
        with_body.extend_from_slice(&[1, 2, 3]);
        pres.push(with_body);
    }
    pres.push(vec![0x00]);
    pres.push(vec![0x3F, 1, 2]);
    for _ in 0..ctx.pick(60, 600) {
        let n = ctx.rng.gen_range(1..7usize);
        let mut v = gen::random_bytes(&mut ctx.rng, n);
        if ctx.rng.gen_bool(0.7) {
            v[0] |= 0x80;
        }
        pres.push(v);
    }
    pres.sort();
    pres.dedup();
    for pre in &pres {
        for tail in 0u8..3 {
            for it in 0u8..2 {
                let mut answers: Vec<String> = Vec::new();
                for piece in [1usize, 2, 64] {
                    let r = guarded(|| {
                        let src = BufReader::with_capacity(if piece == 64 { 64 } else { piece.max(1) }, PreThenTail { pre, piece, tail, fired: false });
                        let mut p = PacketParser::new(src);
                        let hdr_text = |h: pgp::packet::PacketHeader| {
                            let fmt = match h.version() { pgp::types::PacketHeaderVersion::New => 1, pgp::types::PacketHeaderVersion::Old => 0 };
                            let kind = match h.packet_length() {
                                pgp::types::PacketLength::Fixed(n) => format!("f{n}"),
                                pgp::types::PacketLength::Partial(n) => format!("p{n}"),
                                pgp::types::PacketLength::Indeterminate => "i".to_string(),
                            };
                            format!("ok:hdr:{fmt}.{}.{kind}", u8::from(h.tag()))
                        };
                        if it == 0 {
                            match p.next_ref() {
                                None => "ok:done".to_string(),
                                Some(Err(_)) => "ok:err".to_string(),
                                Some(Ok(b)) => hdr_text(b.packet_header()),
                            }
                        } else {
                            // (header stage of the iterator: an item whose header was read is reported by
                            //  that header, whatever became of its body)
                            match p.next() {
                                None => "ok:done".to_string(),
                                Some(Ok(pk)) => hdr_text(*pgp::packet::PacketTrait::packet_header(&pk)),
                                Some(Err(_)) => "item-err".to_string(),
                            }
                        }
                    });
                    answers.push(r.unwrap_or_else(|p| format!("panic {p}")));
                }
                let same = answers.iter().all(|a| *a == answers[0]);
                ctx.oracle("read_independent_of_schedule", "PacketParser over a reader that delivers, then ends or fails", &format!("pre={} tail={tail} it={it}", hx(pre)), same, &format!("{answers:?}"));
                let ans = answers[0].clone();
                let req = format!("next_hdr pre={} tail={tail} it={it}", hx(pre));
                if ans == "item-err" {
                    // the iterator's item is an error: either the header stage failed (model: err) or the
                    // header was read and the body could not be (model: hdr)
                    ctx.case(format!("{req} item=err"), "ok:err-or-hdr".to_string());
                } else {
                    ctx.case(req.clone(), ans.clone());
                }
                // the property, without the model: a failing reader is never the end of the packets
                if tail != 0 {
                    ctx.oracle("reader_source_fault_surfaces", "PacketParser over a reader that fails while a header is read", &format!("pre={} tail={tail} it={it}", hx(pre)), ans != "ok:done", &ans);
                }
                ctx.stat("next_hdr");
            }
        }
    }
}

fn run_model_ops(ctx: &mut Ctx) {
    // fill_buffer: exhaustive chunkings of short inputs x requested sizes
    for n in 0..=6usize {
        let data: Vec<u8> = (1..=n as u8).collect();
        for ch in gen::all_chunkings(&data) {
            for want in 0..=7usize {
                let mut buf = vec![0u8; want];
                let r = guarded(|| {
                    let mut src = ScheduledReader::from_chunks(&ch);
                    let k = pgp::verif_hooks::fill_buffer(&mut src, &mut buf, None).map_err(|e| e.to_string())?;
                    let mut rest = Vec::new();
                    src.read_to_end(&mut rest).map_err(|e| e.to_string())?;
                    Ok::<_, String>((k, rest))
                });
                let ans = match &r {
                    Ok(Ok((k, rest))) => format!("ok:{}:{}", hx(&buf[..*k]), hx(rest)),
                    _ => "err".to_string(),
                };
                ctx.case(format!("fill_buffer n={want} chunks={}", hx_list(&ch)), ans);
                let ok = matches!(&r, Ok(Ok((k, rest))) if buf[..*k] == data[..want.min(n)] && rest[..] == data[want.min(n)..]);
                ctx.oracle("fill_buffer_is_take", "util.rs fill_buffer", &format!("n={want} chunks={}", hx_list(&ch)), ok, "");
            }
        }
    }
    // UTF-8 literal source: acceptance must not depend on the fragmentation of the source
    let alpha: [u8; 9] = [0xC3, 0xA9, 0xE4, 0xB8, 0x80, b'a', b'\r', b'\n', 0xF0];
    let maxlen = ctx.pick(4, 5);
    for n in 0..=maxlen {
        for s in gen::all_strings(&alpha, n) {
            // thin out: all strings up to length 3, a deterministic sample above
            if n >= 4 && (s.iter().fold(0usize, |a, &b| a * 31 + b as usize) % 7 != 0) {
                continue;
            }
            let valid = std::str::from_utf8(&s).is_ok();
            let canonical = crate::props::c14::canon_ref(&s) == s;
            for ch in gen::all_chunkings(&s) {
                let r = guarded(|| {
                    let src = ScheduledReader::from_chunks(&ch);
                    let mut b = MessageBuilder::from_reader("", src);
                    if b.data_mode(DataMode::Utf8).is_err() {
                        return false;
                    }
                    b.to_vec(rand::thread_rng()).is_ok()
                });
                let ans = match r { Ok(true) => "ok:1", Ok(false) => "ok:0", Err(_) => "panic" };
                ctx.case(format!("utf8_literal_accepts chunks={}", hx_list(&ch)), ans.to_string());
                ctx.oracle("utf8_literal_accepts_iff_valid_canonical", "literal_data.rs Utf8CheckReader/CrLfCheckReader", &format!("chunks={}", hx_list(&ch)), r == Ok(valid && canonical), &format!("accepted {r:?} valid {valid} canonical {canonical}"));
            }
        }
    }
    // CFB StreamEncryptor block structure under a 1-byte consumer: total length and no early EOF
    let mut rng = ChaCha8Rng::seed_from_u64(ctx.seed ^ 0xC092);
    for n in [0usize, 1, 15, 16, 17, 100, 8191, 8192, 8193, 20000] {
        for sym in [SymmetricKeyAlgorithm::AES128, SymmetricKeyAlgorithm::CAST5] {
            let pt = gen::random_bytes(&mut rng, n);
            let key = gen::random_bytes(&mut rng, sym.key_size());
            let one = guarded(|| {
                let enc = sym.stream_encryptor(ChaCha8Rng::seed_from_u64(3), &key, &pt[..]).map_err(|e| e.to_string())?;
                Ok::<_, String>(drain_with(enc, &[1]))
            });
            let all = guarded(|| {
                let mut enc = sym.stream_encryptor(ChaCha8Rng::seed_from_u64(3), &key, &pt[..]).map_err(|e| e.to_string())?;
                let mut out = Vec::new();
                enc.read_to_end(&mut out).map_err(|e| e.to_string())?;
                Ok::<_, String>(out)
            });
            let ok = match (&one, &all) {
                (Ok(Ok((a, Ok(())))), Ok(Ok(b))) => a == b && b.len() == sym.block_size() + 2 + n + 22,
                _ => false,
            };
            ctx.oracle("cfb_encryptor_read_loop_eq_read_to_end", "crypto/sym/encryptor.rs StreamEncryptor", &format!("sym={sym:?} n={n}"), ok, "");
            let len = match &one { Ok(Ok((a, _))) => a.len(), _ => 0 };
            ctx.case(format!("cfb_enc_len n={n} bs={}", sym.block_size()), format!("ok:{len}"));
        }
    }
}

pub fn run(ctx: &mut Ctx) {
    let key = keys::ed25519_x25519(ChaCha8Rng::seed_from_u64(99), KeyVersion::V4);
    run_model_ops(ctx);
    run_enc_poll(ctx);
    run_alg_sweep(ctx, &key);
    run_fault_kinds(ctx, &key);
    run_dearmor_consumers(ctx, &key);
    run_dearmor_sources(ctx);
    run_next_hdr(ctx);
    run_fill_buffer_intr(ctx);
    run_file_sinks(ctx, &key);
    run_signing_sources(ctx, &key);
    // thorough: repeated with fresh payloads, schedules and fault positions
    let rounds = ctx.pick(1u64, 160u64);
    let base = ctx.seed;
    for r in 0..rounds {
        ctx.seed = base.wrapping_add(r.wrapping_mul(0x9E37_79B9_7F4A_7C15));
        run_builder(ctx, &key);
        run_reader(ctx, &key);
    }
    ctx.seed = base;
}
