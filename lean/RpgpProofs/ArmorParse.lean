import RpgpModel.Armor
import RpgpProofs.ArmorB64
/-!
# Parser lemmas for the armor reader (header side)
-/
namespace Rpgp.Armor

/-! ## small parsers -/

theorem tagS_append (p r : Bytes) : tagS p (p ++ r) = .ok () r := by
  induction p with
  | nil => rfl
  | cons a p ih => simp [tagS, ih]

/-- line ending in use: LF or CR LF -/
def IsNl (nl : Bytes) : Prop := nl = [LF] ∨ nl = [CR, LF]

theorem lineEnding_nl (nl r : Bytes) (h : IsNl nl) : lineEnding (nl ++ r) = .ok () r := by
  rcases h with rfl | rfl
  · simp [lineEnding]
  · simp [lineEnding, CR, LF]

theorem splitOnSub_cons_ne (pat : Bytes) (c : Byte) (r : Bytes) (h : pat.isPrefixOf (c :: r) = false) :
    splitOnSub pat (c :: r) = (match splitOnSub pat r with
      | some (a, b) => some (c :: a, b)
      | none => none) := by
  simp only [splitOnSub, h]; rfl

theorem splitOnSub_lead (lead r : Bytes) (h : ∀ b ∈ lead, b ≠ 45) :
    splitOnSub DASH5 (lead ++ (DASH5 ++ r)) = some (lead, DASH5 ++ r) := by
  induction lead with
  | nil => simp [splitOnSub, DASH5, List.isPrefixOf]
  | cons c l ih =>
    have hc : c ≠ 45 := h c (by simp)
    have hc' : ¬ ((45 : UInt8) = c) := fun e => hc e.symm
    have := ih (fun b hb => h b (by simp [hb]))
    simp only [List.cons_append, splitOnSub]
    rw [this]
    simp [DASH5, List.isPrefixOf, hc']

/-- no occurrence of a pattern starting with `:` in a colon-free text -/
theorem splitOnSub_colon_none (p s : Bytes) (h : ∀ b ∈ s, b ≠ COLON) : splitOnSub (COLON :: p) s = none := by
  induction s with
  | nil => rfl
  | cons c r ih =>
    have hc : c ≠ COLON := h c (by simp)
    have hc' : ¬ (COLON = c) := fun e => hc e.symm
    simp [splitOnSub, List.isPrefixOf, hc', ih (fun b hb => h b (by simp [hb]))]

/-! ## `:` followed by a line break -/

/-- no `:` is immediately followed by CR or LF -/
def colonNlFree : Bytes → Bool
  | a :: b :: r => !(a == COLON && (b == LF || b == CR)) && colonNlFree (b :: r)
  | _ => true

theorem colonNlFree_cons (a : Byte) (s : Bytes) :
    colonNlFree (a :: s) = (!(a == COLON && (s.head? == some LF || s.head? == some CR)) && colonNlFree s) := by
  cases s with
  | nil => simp [colonNlFree]
  | cons b r => simp [colonNlFree]

theorem splitOnSub_colonLf_none (s : Bytes) (h : colonNlFree s = true) : splitOnSub [COLON, LF] s = none := by
  induction s with
  | nil => rfl
  | cons a r ih =>
    rw [colonNlFree_cons] at h
    simp only [Bool.and_eq_true, Bool.not_eq_true', Bool.and_eq_false_imp, Bool.or_eq_false_iff] at h
    have ih' := ih h.2
    simp only [splitOnSub, ih']
    cases r with
    | nil => simp [List.isPrefixOf]
    | cons b r' =>
      by_cases ha : a = COLON
      · have := h.1 (by simp [ha])
        simp at this
        simp [List.isPrefixOf, this.1]
        intro _ hb; exact absurd hb.symm this.1
      · have : ¬ (COLON = a) := fun e => ha e.symm
        simp [List.isPrefixOf, this]

theorem splitOnSub_colonCrLf_none (s : Bytes) (h : colonNlFree s = true) : splitOnSub [COLON, CR, LF] s = none := by
  induction s with
  | nil => rfl
  | cons a r ih =>
    rw [colonNlFree_cons] at h
    simp only [Bool.and_eq_true, Bool.not_eq_true', Bool.and_eq_false_imp, Bool.or_eq_false_iff] at h
    have ih' := ih h.2
    simp only [splitOnSub, ih']
    cases r with
    | nil => simp [List.isPrefixOf]
    | cons b r' =>
      by_cases ha : a = COLON
      · have := h.1 (by simp [ha])
        simp at this
        simp [List.isPrefixOf]
        intro _ hb; exact absurd hb.symm this.2
      · have : ¬ (COLON = a) := fun e => ha e.symm
        simp [List.isPrefixOf, this]

theorem colonNlFree_of_noCrLf (s : Bytes) (h : ∀ b ∈ s, b ≠ CR ∧ b ≠ LF) : colonNlFree s = true := by
  induction s with
  | nil => rfl
  | cons a r ih =>
    rw [colonNlFree_cons, ih (fun b hb => h b (by simp [hb]))]
    cases r with
    | nil => simp
    | cons b r' =>
      have := h b (by simp)
      simp [this.1, this.2]

theorem colonNlFree_of_noColon (s : Bytes) (h : ∀ b ∈ s, b ≠ COLON) : colonNlFree s = true := by
  induction s with
  | nil => rfl
  | cons a r ih =>
    rw [colonNlFree_cons, ih (fun b hb => h b (by simp [hb]))]
    have := h a (by simp)
    simp [this]

/-- concatenation: the seam must not be `:` followed by a line break -/
theorem colonNlFree_append (a b : Bytes) (ha : colonNlFree a = true) (hb : colonNlFree b = true)
    (hseam : a.getLast? ≠ some COLON ∨ (b.head? ≠ some LF ∧ b.head? ≠ some CR)) :
    colonNlFree (a ++ b) = true := by
  induction a with
  | nil => simpa using hb
  | cons x r ih =>
    rw [colonNlFree_cons] at ha
    simp only [Bool.and_eq_true, Bool.not_eq_true', Bool.and_eq_false_imp, Bool.or_eq_false_iff] at ha
    rw [List.cons_append, colonNlFree_cons]
    cases r with
    | nil =>
      simp only [List.nil_append, Bool.and_eq_true, Bool.not_eq_true', Bool.and_eq_false_imp, Bool.or_eq_false_iff]
      refine ⟨?_, hb⟩
      intro hx
      rcases hseam with h | h
      · simp at hx; simp [hx] at h
      · simpa using h
    | cons y r' =>
      have hs : (y :: r').getLast? ≠ some COLON ∨ (b.head? ≠ some LF ∧ b.head? ≠ some CR) := by
        rcases hseam with h | h
        · left; simpa [List.getLast?_cons_cons] using h
        · right; exact h
      have := ih ha.2 hs
      simp only [List.cons_append, List.head?_cons, Bool.and_eq_true, Bool.not_eq_true', Bool.and_eq_false_imp,
        Bool.or_eq_false_iff] at ha ⊢
      exact ⟨ha.1, this⟩

/-! ## `: ` inside a key -/

def noColonSp : Bytes → Bool
  | a :: b :: r => !(a == COLON && b == SP) && noColonSp (b :: r)
  | _ => true

theorem splitOnSub_colonSp (k rest : Bytes) (h : noColonSp k = true) :
    splitOnSub [COLON, SP] (k ++ COLON :: SP :: rest) = some (k, COLON :: SP :: rest) := by
  induction k with
  | nil => simp [splitOnSub, List.isPrefixOf]
  | cons a r ih =>
    cases r with
    | nil =>
      have := ih (by rfl)
      simp only [List.nil_append] at this
      simp only [List.cons_append, List.nil_append, splitOnSub, this]
      simp [List.isPrefixOf, COLON, SP]
    | cons b r' =>
      simp only [noColonSp, Bool.and_eq_true, Bool.not_eq_true', Bool.and_eq_false_imp] at h
      have := ih h.2
      simp only [List.cons_append] at this ⊢
      have hne : ¬ (COLON = a ∧ SP = b) := by
        intro ⟨e1, e2⟩
        have := h.1 (by simp [e1])
        simp [e2] at this
      rw [splitOnSub_cons_ne _ _ _ (by simp [List.isPrefixOf]; intro e1 e2; exact hne ⟨e1, e2⟩), this]

/-! ## value -/

def noCrLf (s : Bytes) : Bool := s.all fun c => c != CR && c != LF

theorem noCrLf_mem (s : Bytes) (h : noCrLf s = true) : ∀ b ∈ s, b ≠ CR ∧ b ≠ LF := by
  intro b hb
  have := List.all_eq_true.mp h b hb
  simpa using this

theorem notLineEnding_value (v nl rest : Bytes) (hv : noCrLf v = true) (hnl : IsNl nl) :
    notLineEnding (v ++ nl ++ rest) = .ok v (nl ++ rest) := by
  induction v with
  | nil =>
    rcases hnl with rfl | rfl
    · simp [notLineEnding]
    · simp [notLineEnding, CR, LF]
  | cons c r ih =>
    have hc := noCrLf_mem _ hv c (by simp)
    have hr : noCrLf r = true := by
      simp only [noCrLf, List.all_cons, Bool.and_eq_true] at hv; exact hv.2
    have := ih hr
    simp only [List.cons_append, List.append_assoc] at this ⊢
    simp [notLineEnding, hc.1, hc.2, this]

theorem space0_ws (ws nl rest : Bytes) (hws : ∀ b ∈ ws, b = SP ∨ b = TAB) (hnl : IsNl nl) :
    space0 (ws ++ nl ++ rest) = .ok () (nl ++ rest) := by
  induction ws with
  | nil =>
    rcases hnl with rfl | rfl
    · simp [space0, LF, SP, TAB]
    · simp [space0, CR, SP, TAB]
  | cons c r ih =>
    have hc := hws c (by simp)
    have := ih (fun b hb => hws b (by simp [hb]))
    simp only [List.cons_append, List.append_assoc] at this ⊢
    simp [space0, hc, this]

end Rpgp.Armor
