import RpgpProofs.Wire
/-!
# C05 — wire fidelity: parse and serialize are mutually inverse and lengths are truthful

Model: `RpgpModel/Wire.lean` (packet bodies) on top of `RpgpModel/Framing.lean` (headers, C17).
Per type there are three kinds of theorem, each for *all* values / byte strings:

* `…_len`        `|ser x| = writeLen x`                      (the length query is truthful)
* `…_parse_ser`  `WF x → parse (ser x) = x`                  (what can be written parses back equal)
* `…_parse_wf`   `parse b = x → WF x`, hence `…_reparse`     (what is accepted is written and read
                                                              back as the same value)
and, from the second one, `…_canonical`: a canonical encoding (= the encoder's image of a
well-formed value) re-serialises to the identical bytes.

Since the D2a repair (found by C02, `ensure_hashed_area_canonical` in `signature/de.rs`) the signature
parser refuses a v4 / v6 packet whose *hashed* area would be written back differently from the octets
read (`Wire.areaParseCanon`), at every nesting level of embedded signatures: `sig_parse_hashed_canonical`,
`embedded_hashed_canonical`; `parse ∘ ser = id` is unaffected because the serialiser's output is
canonical (`sig_parse_ser`).  The unhashed area is still normalised on write.

The defects this check confirmed or found (D5b, D5c, N1, N2, N4, N5, N6, N7) are fixed in the
tree; the model has the fixed forms and the theorems are the full statements.  One deviation is
left on purpose (N3, trust packets drop their body): the witness `trust_body_dropped` stays.
Not covered by theorems (correspondence runs only): `parse_wf` for public-key material and PKESK
(their `parse_ser` and `len` are proved; `parse_wf` / `reparse` is proved for MPI, S2K, secret
section, subpackets, areas, signatures, SKESK, one-pass signatures, literal and SEIPD headers),
opaque algorithm-specific key material
(`PubParams.blob`, unprotected RSA / ECC secret material), user attributes, GnuPG AEAD packets.
-/
namespace Rpgp.C05
open Rpgp Rpgp.Wire

/-! ## constants: RFC values, and reader / writer sites agree -/

theorem mpi_limit : Gen.mpiMaxBits = 16384 := by decide

theorem s2k_sizes_rfc :
    Gen.s2kSaltLen = 8 ∧ Gen.s2kIterSaltLen = Gen.s2kSaltLen ∧ Gen.s2kArgonSaltLen = 16 ∧
    Gen.s2kLenSimple = 2 ∧ Gen.s2kLenSalted = 2 + Gen.s2kSaltLen ∧ Gen.s2kLenIterated = 3 + Gen.s2kSaltLen ∧
    Gen.s2kLenArgon2 = 4 + Gen.s2kArgonSaltLen := by decide

/-- the usage octets the reader recognises are the ones the writer emits (and the RFC's) -/
theorem usage_octets_agree :
    Gen.usageAead = 253 ∧ Gen.usageCfb = 254 ∧ Gen.usageMalleableCfb = 255 ∧
    Gen.wrUsageAead = Gen.usageAead ∧ Gen.wrUsageCfb = Gen.usageCfb ∧ Gen.wrUsageMalleableCfb = Gen.usageMalleableCfb := by
  decide

theorem aead_sizes_rfc :
    Gen.aeadNonceEax = 16 ∧ Gen.aeadNonceOcb = 15 ∧ Gen.aeadNonceGcm = 12 ∧
    Gen.aeadIvEax = Gen.aeadNonceEax ∧ Gen.aeadIvOcb = Gen.aeadNonceOcb ∧ Gen.aeadIvGcm = Gen.aeadNonceGcm ∧
    Gen.chunkSizeMax = 16 := by decide

theorem subpacket_length_ranges :
    Gen.subLenOneMax = 191 ∧ Gen.subLenTwoMin = 192 ∧ Gen.subLenTwoMax = 254 ∧
    Gen.subEncOneMax = Gen.subLenOneMax ∧ Gen.subEncTwoMax = (Gen.subLenTwoMax - 192) * 256 + 192 + 255 := by decide

theorem misc_sizes :
    Gen.sigV3HashedLen = 5 ∧ Gen.wrSigV3HashedLen = Gen.sigV3HashedLen ∧ Gen.revKeyFpLenA = 20 ∧ Gen.revKeyFpLenB = 32 ∧ Gen.fixD5eRevKeyLenTruthful = 1 ∧ Gen.issuerLen = 8 ∧
    Gen.mdcHashLen = 20 ∧ Gen.seipdSaltLen = 32 ∧ Gen.opsFpLen = 32 ∧ Gen.opsOverhead = 5 ∧
    Gen.wireSkesk6FieldsMax = 255 := by decide

/-! ## MPI -/

theorem mpi_len (m : Bytes) : (mpiSer m).length = mpiWriteLen m := mpiSer_length m

/-- every value an `Mpi` can hold after parsing is written and read back as itself, whatever follows -/
theorem mpi_parse_ser (m rest : Bytes) (h : MpiWF m) : mpiParse (mpiSer m ++ rest) = some (m, rest) :=
  Wire.mpi_parse_ser m rest h

/-- the parser only returns such values … -/
theorem mpi_parse_wf (b m r : Bytes) (h : mpiParse b = some (m, r)) : MpiWF m := Wire.mpi_parse_wf h

/-- … so every accepted MPI is written to bytes that parse back to the equal value -/
theorem mpi_reparse (b m r rest : Bytes) (h : mpiParse b = some (m, r)) :
    mpiParse (mpiSer m ++ rest) = some (m, rest) := Wire.mpi_parse_ser m rest (Wire.mpi_parse_wf h)

/-- re-serialising gives the input back *iff* the input was canonical: exact bit count and no
leading zero octet (leading-zero and over-long encodings are accepted and normalised) -/
theorem mpi_ser_parse_iff (b m r : Bytes) (h : mpiParse b = some (m, r)) :
    ∃ hd raw, b = hd ++ raw ++ r ∧ hd.length = 2 ∧
      (mpiSer m ++ r = b ↔ (stripZeros raw = raw ∧ beNat hd = bitLen raw)) := by
  obtain ⟨hd, raw, e, l, _, hiff⟩ := Wire.mpi_ser_parse h
  exact ⟨hd, raw, e, l, hiff⟩

example : mpiParse [0, 9, 1, 255, 7] = some ([1, 255], [7]) := by decide
example : mpiParse [0, 16, 0, 127] = some ([127], []) ∧ mpiSer [127] = [0, 7, 127] := by decide

/-! ## S2K specifier -/

theorem s2k_len (s : S2k) : (s2kSer s).length = s2kWriteLen s := s2kSer_length s

/-- all five kinds (simple, salted, iterated, argon2, unknown type with opaque rest) round trip;
an unknown type swallows whatever follows, so nothing may follow it -/
theorem s2k_parse_ser (s : S2k) (rest : Bytes) (h : S2kWF s) (hr : s.isOther = true → rest = []) :
    s2kParse (s2kSer s ++ rest) = some (s, rest) := Wire.s2k_parse_ser s rest h hr

theorem s2k_parse_wf (b : Bytes) (s : S2k) (r : Bytes) (h : s2kParse b = some (s, r)) : S2kWF s :=
  Wire.s2k_parse_wf h

theorem s2k_reparse (b : Bytes) (s : S2k) (r : Bytes) (h : s2kParse b = some (s, r)) :
    s2kParse (s2kSer s ++ r) = some (s, r) :=
  Wire.s2k_parse_ser s r (Wire.s2k_parse_wf h) (Wire.s2k_parse_other h)

/-! ## secret-key S2K section, every usage octet, v4 and v6 layout -/

theorem secret_len (v6 : Bool) (s : Secret) (b : Bytes) (h : secretSer v6 s = some b) :
    b.length = secretWriteLen v6 s := Wire.secret_len v6 s b h

theorem secret_parse_ser (v6 : Bool) (s : Secret) (b : Bytes) (hw : SecretWF v6 s) (h : secretSer v6 s = some b) :
    secretParseChecked v6 b = some s := Wire.secret_parse_ser v6 s b hw h

/-- every usage octet: 0, legacy cipher ids 1..252, 253 (AEAD), 254 (CFB), 255 (malleable CFB, v4
layout only) — the parser only returns well-formed values -/
theorem secret_parse_wf (v6 : Bool) (b : Bytes) (s : Secret) (h : secretParseChecked v6 b = some s) :
    SecretWF v6 s := Wire.secret_parse_wf h

theorem secret_reparse (v6 : Bool) (b : Bytes) (s : Secret) (h : secretParseChecked v6 b = some s)
    (w : Bytes) (hs : secretSer v6 s = some w) : secretParseChecked v6 w = some s :=
  Wire.secret_parse_ser v6 s w (Wire.secret_parse_wf h) hs

/-- the usage octet is preserved by parse → write (D5b regression: 255 stays 255) -/
theorem usage_255_kept :
    let b : Bytes := [255, 7, 0, 8] ++ List.replicate 16 1 ++ [9, 9]
    (secretParseChecked false b).bind (secretSer false) = some b ∧ secretParseChecked true (255 :: 3 :: b.drop 1) = none := by
  decide

/-! ## signature subpackets: length form kept as parsed (1 / 2 / 5 octets) -/

theorem sublen_parse_ser (form len : Nat) (rest : Bytes) (h : SubLenWF form len) :
    subLenParse (subLenSer form len ++ rest) = some (form, len, rest) := Wire.subLen_parse_ser form len rest h

theorem sublen_parse_wf (b : Bytes) (form len : Nat) (r : Bytes) (h : subLenParse b = some (form, len, r)) :
    SubLenWF form len := Wire.subLen_parse_wf h

/-- non-minimal length forms are preserved: a 5-octet length of a short subpacket comes back as it was -/
theorem sublen_form_kept (b : Bytes) (form len : Nat) (r : Bytes) (h : subLenParse b = some (form, len, r)) :
    subLenParse (subLenSer form len ++ r) = some (form, len, r) :=
  Wire.subLen_parse_ser form len r (Wire.subLen_parse_wf h)

theorem sub_parse_ser (emb : Bytes → Option Bytes) (s : Subpacket) (b rest : Bytes) (hw : SubWF emb s)
    (hs : subSer s = some b) : subParse emb (b ++ rest) = some (s, rest) := Wire.sub_parse_ser emb s b rest hw hs

theorem sub_len (emb : Bytes → Option Bytes) (s : Subpacket) (b : Bytes) (hw : SubWF emb s) (hs : subSer s = some b) :
    b.length = subWriteLen s := Wire.sub_len emb s b hw hs

/-- N4 / N6 regression: a non-ASCII key-server URL and key flags with reserved bits are written
back as read, with the announced length -/
theorem pref_key_server_and_key_flags_kept :
    (subParse (fun _ => none) [3, 24, 0xC3, 0xBC]).map (fun r => (subSer r.1, subWriteLen r.1)) = some (some [3, 24, 0xC3, 0xBC], 4) ∧
    (subParse (fun _ => none) [3, 27, 0xFF, 0xFF]).map (fun r => subSer r.1) = some (some [3, 27, 0xFF, 0xFF]) := by
  decide

theorem area_parse_ser (emb : Bytes → Option Bytes) (ss : List Subpacket) (b : Bytes)
    (hw : ∀ s ∈ ss, SubWF emb s) (hs : areaSer ss = some b) : areaParse emb (b.length + 1) b = some ss :=
  Wire.area_parse_ser emb ss b (b.length + 1) hw hs (by have := Wire.area_length_ge ss b hs; omega)

theorem area_len (emb : Bytes → Option Bytes) (ss : List Subpacket) (b : Bytes)
    (hw : ∀ s ∈ ss, SubWF emb s) (hs : areaSer ss = some b) : b.length = areaWriteLen ss :=
  Wire.area_len emb ss b hw hs

/-- the parser only returns well-formed subpackets (for every embedded-signature normaliser that is
idempotent — `embedded_normaliser_idempotent` shows the one in use is) -/
theorem sub_parse_wf (emb : Bytes → Option Bytes) (hemb : ∀ x y, emb x = some y → emb y = some y)
    (b : Bytes) (s : Subpacket) (r : Bytes) (h : subParse emb b = some (s, r)) : SubWF emb s :=
  Wire.sub_parse_wf emb hemb h

/-- an accepted subpacket is written (in its original length form) and read back as the same value,
and what it consumed is exactly what its `write_len` announces -/
theorem sub_reparse (emb : Bytes → Option Bytes) (hemb : ∀ x y, emb x = some y → emb y = some y)
    (b : Bytes) (s : Subpacket) (r : Bytes) (h : subParse emb b = some (s, r)) :
    b.length = subWriteLen s + r.length ∧ ∃ w, subSer s = some w ∧ subParse emb (w ++ r) = some (s, r) := by
  have hw := Wire.sub_parse_wf emb hemb h
  obtain ⟨w, hs⟩ := Wire.sub_ser_some emb s hw
  exact ⟨Wire.sub_parse_consumed h, w, hs, Wire.sub_parse_ser emb s w r hw hs⟩

theorem area_parse_wf (emb : Bytes → Option Bytes) (hemb : ∀ x y, emb x = some y → emb y = some y)
    (fuel : Nat) (b : Bytes) (ss : List Subpacket) (h : areaParse emb fuel b = some ss) :
    (∀ s ∈ ss, SubWF emb s) ∧ areaWriteLen ss = b.length :=
  ⟨Wire.area_parse_wf emb hemb fuel b ss h, Wire.area_parse_len emb fuel b ss h⟩

/-! ## signature packets v2/v3, v4, v6 and unknown versions -/

theorem sig_len (emb : Bytes → Option Bytes) (s : Sig) (b : Bytes) (hw : SigWF emb s) (hs : sigSer s = some b) :
    b.length = sigWriteLen s := Wire.sig_len emb s b hw hs

/-- every signature type / algorithm id / hash id, any number of subpackets in either area (areas
up to 2¹⁶-1 octets in v4, 2³²-1 in v6), any admissible length form per subpacket -/
theorem sig_parse_ser (emb : Bytes → Option Bytes) (s : Sig) (b : Bytes) (hw : SigWF emb s)
    (hs : sigSer s = some b) : sigParse emb b = some s := Wire.sig_parse_ser emb s b hw hs

theorem sig_parse_wf (emb : Bytes → Option Bytes) (hemb : ∀ x y, emb x = some y → emb y = some y)
    (b : Bytes) (s : Sig) (h : sigParse emb b = some s) : SigWF emb s := Wire.sig_parse_wf emb hemb h

/-- every accepted signature body is written to bytes that parse back to the equal value -/
theorem sig_reparse (emb : Bytes → Option Bytes) (hemb : ∀ x y, emb x = some y → emb y = some y)
    (b : Bytes) (s : Sig) (h : sigParse emb b = some s) :
    ∃ w, sigSer s = some w ∧ w.length = sigWriteLen s ∧ sigParse emb w = some s := by
  obtain ⟨w, hs, hp⟩ := Wire.sig_reparse emb hemb h
  exact ⟨w, hs, Wire.sig_len emb s w (Wire.sig_parse_wf emb hemb h) hs, hp⟩

/-- the normaliser used for embedded signatures (parse, then write back, nesting bounded by `fuel`)
is idempotent at every bound — by induction on the nesting depth -/
theorem embedded_normaliser_idempotent (fuel : Nat) (x y : Bytes) (h : sigNorm fuel x = some y) :
    sigNorm fuel y = some y := Wire.sigNorm_idem fuel x y h

/-- the call `ensure_hashed_area_canonical(&hsub, &hsub_raw)?` is present in the v4 and v6 parsers
(re-extracted on every run): `Wire.areaParseCanon` describes the code -/
theorem hashed_area_check_present : Gen.sndHashedAreaCanonical = 1 := by decide

/-- **the hashed area is kept as received** (D2a repair, `ensure_hashed_area_canonical`): a v4 / v6
signature packet parses only if its hashed subpackets write back to exactly the hashed-area octets
of the packet — no octet of that area is normalised away (boolean octets other than 0/1, notation
flag octets, MPI bit counts of an embedded signature are refused instead) -/
theorem sig_parse_hashed_canonical (emb : Bytes → Option Bytes) (b : Bytes) (v6 : Bool) (typ pk hash : Byte)
    (hashed unhashed : List Subpacket) (left salt : Bytes) (sb : SigBytes)
    (h : sigParse emb b = some (.v4 v6 typ pk hash hashed unhashed left salt sb)) :
    areaSer hashed = some (rawHashedArea b) :=
  Wire.sig_parse_hashed_canonical emb b v6 typ pk hash hashed unhashed left salt sb h

/-- … at every nesting level: an embedded signature is accepted by the normaliser only through the
same parser, one level down -/
theorem embedded_hashed_canonical (fuel : Nat) (x y : Bytes) (h : sigNorm (fuel + 1) x = some y) :
    ∃ s, sigParse (sigNorm fuel) x = some s ∧ sigSer s = some y ∧
      ∀ v6 typ pk hash hashed unhashed left salt sb, s = .v4 v6 typ pk hash hashed unhashed left salt sb →
        areaSer hashed = some (rawHashedArea x) := by
  simp only [sigNorm] at h
  cases hp : sigParse (sigNorm fuel) x with
  | none => simp [hp] at h
  | some s =>
    simp only [hp] at h
    refine ⟨s, rfl, h, ?_⟩
    intro v6 typ pk hash hashed unhashed left salt sb hs
    subst hs
    exact Wire.sig_parse_hashed_canonical _ x v6 typ pk hash hashed unhashed left salt sb hp

/-- … so the two theorems above apply to the parser as it runs (`emb = sigNorm n`) -/
theorem sig_reparse_nested (n : Nat) (b : Bytes) (s : Sig) (h : sigParse (sigNorm n) b = some s) :
    ∃ w, sigSer s = some w ∧ w.length = sigWriteLen s ∧ sigParse (sigNorm n) w = some s :=
  sig_reparse (sigNorm n) (Wire.sigNorm_idem n) b s h

/-! ## keys: v2/v3, v4, v6 public part; secret part -/

theorem pubkey_len (secret : Bool) (k : PubKey) (h : PubKeyWF secret k) :
    (pubKeySer k).length = pubKeyWriteLen k := Wire.pubKeySer_length secret k h

theorem pubkey_parse_ser (trust secret : Bool) (k : PubKey) (rest : Bytes) (h : PubKeyWF secret k)
    (hu : k.version.toNat ≠ 6 → ∀ d, k.params = .unknown d → rest = []) :
    pubKeyParse trust secret (pubKeySer k ++ rest) = some (k, rest) :=
  Wire.pubKey_parse_ser trust secret k rest h hu

/-! ## session-key packets, one-pass signatures, data packets -/

theorem pkesk_len (p : Pkesk) (b : Bytes) (h : pkeskSer p = some b) : b.length = pkeskWriteLen p :=
  Wire.pkesk_len p b h

theorem pkesk_parse_ser (p : Pkesk) (b : Bytes) (hw : PkeskWF p) (h : pkeskSer p = some b) :
    pkeskParse b = some p := Wire.pkesk_parse_ser p b hw h

/-- N2 regression: a PKESK of an unknown version is opaque and round trips -/
theorem pkesk_unknown_version_roundtrip (ver : Byte) (data : Bytes) (h3 : ver.toNat ≠ 3) (h6 : ver.toNat ≠ 6) :
    pkeskParse (ver :: data) = some (.other ver data) ∧ pkeskSer (.other ver data) = some (ver :: data) := by
  refine ⟨?_, rfl⟩
  exact Wire.pkesk_parse_ser (.other ver data) (ver :: data) ⟨h3, h6⟩ rfl

theorem skesk_len (s : Skesk) (b : Bytes) (h : skeskSer s = some b) : b.length = skeskWriteLen s :=
  Wire.skesk_len s b h

theorem skesk_parse_ser (s : Skesk) (b : Bytes) (hw : SkeskWF s) (h : skeskSer s = some b) :
    skeskParse b = some s := Wire.skesk_parse_ser s b hw h

theorem skesk_parse_wf (b : Bytes) (s : Skesk) (h : skeskParse b = some s) : SkeskWF s := Wire.skesk_parse_wf h

theorem skesk_reparse (b : Bytes) (s : Skesk) (h : skeskParse b = some s) :
    ∃ w, skeskSer s = some w ∧ w.length = skeskWriteLen s ∧ skeskParse w = some s := by
  have hw := Wire.skesk_parse_wf h
  obtain ⟨w, hs⟩ := Wire.skesk_ser_some s hw
  exact ⟨w, hs, Wire.skesk_len s w hs, Wire.skesk_parse_ser s w hw hs⟩

/-- N7 regression: parameter fields that do not fit the count octet are rejected -/
theorem skesk6_oversized_rejected :
    skeskParse ([6, 255, 9, 1, 240, 2] ++ List.replicate 239 7 ++ List.replicate 16 1 ++ List.replicate 16 2) = none := by
  decide +kernel

theorem ops_len (o : Ops) (b : Bytes) (h : opsSer o = some b) : b.length = opsWriteLen o := Wire.ops_len o b h

theorem ops_parse_ser (o : Ops) (b : Bytes) (hw : OpsWF o) (h : opsSer o = some b) : opsParse b = some o :=
  Wire.ops_parse_ser o b hw h

theorem ops_reparse (b : Bytes) (o : Ops) (h : opsParse b = some o) :
    ∃ w, opsSer o = some w ∧ w.length = opsWriteLen o ∧ opsParse w = some o := by
  have hw := Wire.ops_parse_wf h
  obtain ⟨w, hs⟩ := Wire.ops_ser_some o hw
  exact ⟨w, hs, Wire.ops_len o w hs, Wire.ops_parse_ser o w hw hs⟩

theorem literal_len (l : Literal) (b : Bytes) (h : literalSer l = some b) : b.length = literalWriteLen l :=
  Wire.literal_len l b h

theorem literal_parse_ser (l : Literal) (b : Bytes) (hw : LiteralWF l) (h : literalSer l = some b) :
    literalParse b = some l := Wire.literal_parse_ser l b hw h

theorem literal_reparse (b : Bytes) (l : Literal) (h : literalParse b = some l) :
    ∃ w, literalSer l = some w ∧ w.length = literalWriteLen l ∧ literalParse w = some l := by
  have hw := Wire.literal_parse_wf h
  obtain ⟨w, hs⟩ := Wire.literal_ser_some l hw
  exact ⟨w, hs, Wire.literal_len l w hs, Wire.literal_parse_ser l w hw hs⟩

theorem seipd_len (s : Seipd) : (seipdSer s).length = seipdWriteLen s := Wire.seipd_len s

theorem seipd_parse_ser (s : Seipd) (hw : SeipdWF s) : seipdParse (seipdSer s) = some s :=
  Wire.seipd_parse_ser s hw

theorem seipd_reparse (b : Bytes) (s : Seipd) (h : seipdParse b = some s) : seipdParse (seipdSer s) = some s :=
  Wire.seipd_parse_ser s (Wire.seipd_parse_wf h)

/-! ## whole packets: every body type behind either header format -/

theorem body_len (trust : Bool) (emb : Bytes → Option Bytes) (body : Body) (b : Bytes)
    (hw : BodyWF trust emb body) (hs : bodySer body = some b) : b.length = bodyWriteLen body :=
  Wire.body_len trust emb body b hw hs

theorem body_parse_ser (trust : Bool) (body : Body) (b : Bytes) (hw : BodyWF trust (embFor b) body)
    (hs : bodySer body = some b) : bodyParse trust (bodyClass body) b = .ok body :=
  Wire.body_parse_ser trust body b hw hs

/-- **header_truthful**: whatever length field the object carries (fixed or partial),
`to_writer_with_header` writes a header whose length is exactly the number of body octets that
follow, in the object's header format -/
theorem header_truthful (trust : Bool) (emb : Bytes → Option Bytes) (p : Packet) (out rest : Bytes)
    (h : packetSer p = some out) (hi : p.hdr.len ≠ .indet) (hw : BodyWF trust emb p.body)
    (ht : if p.hdr.newFormat then p.hdr.tag < 64 else p.hdr.tag < 16) :
    ∃ b, bodySer p.body = some b ∧
      deframe (out ++ rest) = .ok ({ newFormat := p.hdr.newFormat, tag := p.hdr.tag, len := .fixed b.length }, b, rest) :=
  Wire.header_truthful trust emb p out rest h hi hw ht

/-- **parse_ser** for packets -/
theorem packet_parse_ser (trust : Bool) (p : Packet) (out rest : Bytes)
    (h : packetSer p = some out) (hfresh : p.hdr.len = .fixed (bodyWriteLen p.body))
    (ht : if p.hdr.newFormat then p.hdr.tag < 64 else p.hdr.tag < 16)
    (hcl : tagClass p.hdr.tag = bodyClass p.body)
    (hw : ∀ b, bodySer p.body = some b → BodyWF trust (embFor b) p.body) :
    packetParse trust (out ++ rest) = .ok (p, rest) := Wire.packet_parse_ser trust p out rest h hfresh ht hcl hw

/-- **ser_parse_canonical**: a canonically encoded packet (the encoder's image of a well-formed
value with a fresh header) re-serialises to the identical bytes -/
theorem packet_ser_parse_canonical (trust : Bool) (p q : Packet) (out r : Bytes)
    (h : packetSer p = some out) (hfresh : p.hdr.len = .fixed (bodyWriteLen p.body))
    (ht : if p.hdr.newFormat then p.hdr.tag < 64 else p.hdr.tag < 16)
    (hcl : tagClass p.hdr.tag = bodyClass p.body)
    (hw : ∀ b, bodySer p.body = some b → BodyWF trust (embFor b) p.body)
    (hq : packetParse trust out = .ok (q, r)) : packetSer q = some out ∧ r = [] := by
  have := Wire.packet_parse_ser trust p out [] h hfresh ht hcl hw
  simp only [List.append_nil] at this
  rw [this] at hq
  simp only [Except.ok.injEq, Prod.mk.injEq] at hq
  obtain ⟨rfl, rfl⟩ := hq
  exact ⟨h, rfl⟩

/-- **len_truthful** for packets: `write_len_with_header` is the number of octets
`to_writer_with_header` writes — for every stored header (fresh, stale after a mutation, partial,
non-minimal, indeterminate) -/
theorem packet_len (trust : Bool) (emb : Bytes → Option Bytes) (p : Packet) (out : Bytes)
    (h : packetSer p = some out) (hw : BodyWF trust emb p.body) :
    out.length = packetWriteLen p := Wire.packet_len trust emb p out h hw

/-- N1 regression: a literal data packet read from a partial-length framing announces what it writes -/
theorem partial_length_packet_len_truthful :
    let body : Bytes := [98, 0, 0, 0, 0, 0] ++ List.replicate 506 7 ++ [1, 2, 3]
    let inp : Bytes := [0xCB, 233] ++ body.take 512 ++ [3] ++ body.drop 512
    (match packetParse false inp with
     | .ok (p, _) => (packetSer p).map (fun o => (o.length, packetWriteLen p))
     | .error _ => none) = some (518, 518) := by decide +kernel

/-- witness (trust packets): the body is dropped, a canonical trust packet is not written back as read -/
theorem trust_body_dropped :
    (match packetParse false [0xCC, 2, 9, 9] with
     | .ok (p, _) => packetSer p
     | .error _ => none) = some [0xCC, 0] := by decide

/-! ## the length stays truthful under the modelled API mutations -/

/-- `unhashed_subpacket_insert` updates the stored length by the subpacket's `write_len` -/
theorem sig_insert_keeps_header (p q : Packet) (idx : Nat) (sp : Subpacket)
    (hf : p.hdr.len = .fixed (bodyWriteLen p.body)) (h : sigInsertUnhashed p idx sp = some q) :
    q.hdr.len = .fixed (bodyWriteLen q.body) := Wire.sigInsert_fresh p q idx sp hf h

theorem sig_remove_keeps_header (p q : Packet) (idx : Nat)
    (hf : p.hdr.len = .fixed (bodyWriteLen p.body)) (h : sigRemoveUnhashed p idx = some q) :
    q.hdr.len = .fixed (bodyWriteLen q.body) := Wire.sigRemove_fresh p q idx hf h

/-- **len_after_mutation** (unhashed subpacket insert / remove, any number of times): the announced
length of the mutated signature is the number of octets written -/
theorem len_after_sig_insert (trust : Bool) (emb : Bytes → Option Bytes) (p q : Packet) (idx : Nat) (sp : Subpacket)
    (out : Bytes) (hf : p.hdr.len = .fixed (bodyWriteLen p.body)) (h : sigInsertUnhashed p idx sp = some q)
    (hs : packetSer q = some out) (hw : BodyWF trust emb q.body) :
    out.length = packetWriteLen q ∧ q.hdr.len = .fixed (bodyWriteLen q.body) :=
  ⟨Wire.packet_len trust emb q out hs hw, Wire.sigInsert_fresh p q idx sp hf h⟩

theorem len_after_sig_remove (trust : Bool) (emb : Bytes → Option Bytes) (p q : Packet) (idx : Nat)
    (out : Bytes) (hf : p.hdr.len = .fixed (bodyWriteLen p.body)) (h : sigRemoveUnhashed p idx = some q)
    (hs : packetSer q = some out) (hw : BodyWF trust emb q.body) :
    out.length = packetWriteLen q ∧ q.hdr.len = .fixed (bodyWriteLen q.body) :=
  ⟨Wire.packet_len trust emb q out hs hw, Wire.sigRemove_fresh p q idx hf h⟩

/-- **len_after_mutation** (`set_password*` / `remove_password`, any number of times): the stored
header stays as it was, and the announced length is still the number of octets written -/
theorem len_after_lock_unlock (trust : Bool) (emb : Bytes → Option Bytes) (p q : Packet) (s : Secret)
    (out : Bytes) (h : keyReplaceSecret p s = some q)
    (hs : packetSer q = some out) (hw : BodyWF trust emb q.body) :
    out.length = packetWriteLen q ∧ q.hdr = p.hdr := by
  refine ⟨Wire.packet_len trust emb q out hs hw, ?_⟩
  unfold keyReplaceSecret at h
  split at h
  · simp at h; subst h; rfl
  · simp at h

/-- D5c regression: locking a 180-octet secret key packet to 203 octets (across the 192 boundary),
with the stored header still saying 180: announced 203, written 203 -/
theorem d5c_regression :
    let k : PubKey := ⟨4, [0, 0, 0, 1], [], 25, .x25519 (List.replicate 32 1)⟩
    let plain : Secret := ⟨.unprotected, List.replicate 141 5⟩
    let locked : Secret := ⟨.cfb 9 (.iterated 8 (List.replicate 8 2) 96) (List.replicate 16 3), List.replicate 133 4⟩
    let p : Packet := ⟨⟨true, 5, .fixed 180⟩, .secKey k plain⟩
    ((keyReplaceSecret p locked).bind fun q => (packetSer q).map fun o => (o.length, packetWriteLen q)) = some (203, 203) := by
  decide +kernel

/-! ## composite objects: a certificate is its packets one after another -/

/-- D5a / N5 regression: `header_len(write_len) + write_len` per packet (key, subkey, binding, direct
and revocation signature) is what is written -/
theorem cert_len (trust : Bool) (emb : Bytes → Option Bytes) (ps : List Packet) (b : Bytes)
    (h : certSer ps = some b) (hw : ∀ p ∈ ps, p.hdr.len ≠ .indet ∧ BodyWF trust emb p.body) :
    b.length = certWriteLenFixed ps := Wire.cert_len trust emb ps b h hw

/-! ## non-vacuity: the hypotheses are satisfiable, on a packet of every kind -/

example : MpiWF [1, 255] ∧ ¬ MpiWF [0, 1] := by decide
example : S2kWF (.iterated 8 (List.replicate 8 7) 96) ∧ S2kWF (.other 2 [1]) ∧ ¬ S2kWF (.other 3 [1]) := by decide
example : SecretWF true ⟨.aead 9 2 (.argon2 (List.replicate 16 1) 3 4 16) (List.replicate 15 2), [1, 2, 3]⟩ := by
  simp [SecretWF, S2kWF, aeadNonceSize, Gen.aeadNonceOcb, Gen.s2kArgonSaltLen, s2kLen, S2k.isOther]
example :
    let inp : Bytes := [0xC2, 29, 4, 0x13, 1, 8, 0, 15, 3, 27, 3, 0, 4, 27, 1, 4, 1, 2, 30, 1, 2, 7, 1, 0, 0, 0xAB, 0xCD, 0, 9, 1, 0xFF]
    (match packetParse false inp with
     | .ok (p, r) => (packetSer p, bodyWriteLen p.body, packetWriteLen p, r)
     | .error _ => (none, 0, 0, [])) = (some inp, 29, 31, []) := by decide +kernel

end Rpgp.C05
