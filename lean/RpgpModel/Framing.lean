import RpgpModel.Bytes
import RpgpModel.Gen.Constants
/-!
# Framing — packet headers, length codecs, partial-body emit and deframe

* `decodeNewLen`    `types/packet.rs  PacketLength::try_from_reader`
* `encodeNewLen`    `PacketLength::to_writer_new` (Fixed) / `PacketHeaderVersion::write_header` (New)
* `parseHeader`     `packet/header.rs  PacketHeader::try_from_reader`
* `writeHeader`     `PacketHeaderVersion::write_header`
* `deframe`         `PacketParser::next_ref` + `reader/packet_body.rs  PacketBodyReader` read to
                    the end (Fixed / Partial / Indeterminate, tag white-list, first ≥ 512,
                    "fixed chunk shorter than expected")
* `emitPartial`     the scheme shared by `LiteralDataPartialGenerator`,
                    `CompressedDataPartialGenerator` and `encrypt_write`
* `frame` / `Legal` the independent generator of *all* legal framings (RFC 9580 §4.2.1.4)

All numeric thresholds come from `Gen` (re-extracted from the source on every run), one
definition per use site.
-/
namespace Rpgp

inductive Len where
  | fixed (n : Nat)
  | part (n : Nat)
  | indet
deriving DecidableEq, Repr

inductive FrErr where
  /-- the stream ended inside (or before) a header: `PacketParser` yields `None` -/
  | eof
  /-- everything else (`Some(Err(_))` or an error while reading the body) -/
  | bad
deriving DecidableEq, Repr

/-- `PacketLength::try_from_reader` -/
def decodeNewLen : Bytes → Option (Len × Bytes)
  | [] => none
  | o :: r =>
    if o.toNat ≤ Gen.rdOneOctetMax then some (Len.fixed o.toNat, r)
    else if o.toNat ≤ Gen.rdTwoOctetMax then
      match r with
      | a :: r' => some (Len.fixed ((o.toNat - Gen.rdTwoOctetSub) * 2 ^ Gen.rdTwoOctetShift + Gen.rdTwoOctetAdd + a.toNat), r')
      | [] => none
    else if o.toNat ≤ Gen.rdPartialMax then some (Len.part (2 ^ (o.toNat % (Gen.rdPartialMask + 1))), r)
    else
      match r with
      | a :: b :: c :: d :: r' => some (Len.fixed (beNat [a, b, c, d]), r')
      | _ => none

/-- new-format fixed length as written by `PacketLength::to_writer_new` -/
def encodeNewLen (n : Nat) : Bytes :=
  if n < Gen.wrNewOneOctetLimit then [n.toUInt8]
  else if n < Gen.wrNewTwoOctetLimit then
    [((n - 192) / 256 + 192).toUInt8, ((n - 192) % 256).toUInt8]
  else 255 :: be32 n

/-- new-format fixed length as written by `PacketHeaderVersion::write_header` (a second
implementation of the same codec in the source) -/
def encodeNewLenHdr (n : Nat) : Bytes :=
  if n < Gen.whNewOneOctetLimit then [n.toUInt8]
  else if n < Gen.whNewTwoOctetLimit then
    [((n - 192) / 256 + 192).toUInt8, ((n - 192) % 256).toUInt8]
  else 255 :: be32 n

/-- partial-length octet for `2^k` (`224 + trailing_zeros`) -/
def partialOctet (k : Nat) : Byte := (Gen.wrPartialBase + k).toUInt8

/-- old-format length: (length-type bits, length octets) as in `write_header` (Old) -/
def encodeOldLen (n : Nat) : Nat × Bytes :=
  if n < Gen.whOldOneOctetLimit then (0, [n.toUInt8])
  else if n < Gen.whOldTwoOctetLimit then (1, be16 n)
  else (2, be32 n)

structure Hdr where
  newFormat : Bool
  tag : Nat
  len : Len
deriving DecidableEq, Repr

/-- `PacketHeader::try_from_reader` -/
def parseHeader : Bytes → Except FrErr (Hdr × Bytes)
  | [] => .error .eof
  | h :: r =>
    if h.toNat / 64 = 3 then
      match decodeNewLen r with
      | some (l, r') => .ok ({ newFormat := true, tag := h.toNat % 64, len := l }, r')
      | none => .error .eof
    else if h.toNat / 64 = 2 then
      let tag := h.toNat / 4 % 16
      match h.toNat % 4, r with
      | 0, a :: r' => .ok ({ newFormat := false, tag, len := .fixed a.toNat }, r')
      | 1, a :: b :: r' => .ok ({ newFormat := false, tag, len := .fixed (beNat [a, b]) }, r')
      | 2, a :: b :: c :: d :: r' => .ok ({ newFormat := false, tag, len := .fixed (beNat [a, b, c, d]) }, r')
      | 3, r' => .ok ({ newFormat := false, tag, len := .indet }, r')
      | _, _ => .error .eof
    else .error .bad

/-- tags that may carry partial body lengths (`PacketBodyReader::new`) -/
def partialAllowed (tag : Nat) : Bool :=
  tag == 11 || tag == 8 || tag == 9 || tag == 18 || tag == 20

/-- continuation of a partial body: `PacketBodyReader::fill_inner` "new round".
`fuel` bounds the number of segments (every segment consumes its length octet). -/
def deframeCont : Nat → Bytes → Except FrErr (Bytes × Bytes)
  | 0, _ => .error .bad
  | fuel + 1, inp =>
    match decodeNewLen inp with
    | none => .error .bad
    | some (.fixed n, r) =>
      if r.length < n then .error .bad else .ok (r.take n, r.drop n)
    | some (.part n, r) =>
      if r.length < n then .error .bad
      else
        match deframeCont fuel (r.drop n) with
        | .ok (b, rest) => .ok (r.take n ++ b, rest)
        | .error e => .error e
    | some (.indet, _) => .error .bad

/-- body of one packet given its parsed header -/
def deframeBody (h : Hdr) (r : Bytes) : Except FrErr (Bytes × Bytes) :=
  match h.len with
  | .fixed n => if r.length < n then .error .bad else .ok (r.take n, r.drop n)
  | .indet => .ok (r, [])
  | .part n =>
    if !partialAllowed h.tag then .error .bad
    else if n < Gen.rdFirstPartialMin then .error .bad
    else if r.length < n then .error .bad
    else
      match deframeCont (r.length + 1) (r.drop n) with
      | .ok (b, rest) => .ok (r.take n ++ b, rest)
      | .error e => .error e

/-- header + body: (header, body, rest of the stream) -/
def deframe (inp : Bytes) : Except FrErr (Hdr × Bytes × Bytes) :=
  match parseHeader inp with
  | .error e => .error e
  | .ok (h, r) =>
    match deframeBody h r with
    | .ok (b, rest) => .ok (h, b, rest)
    | .error e => .error e

/-! ## writers -/

/-- `PacketHeaderVersion::write_header(tag, len)` -/
def writeHeader (newFormat : Bool) (tag : Nat) (len : Nat) : Bytes :=
  if newFormat then (192 + tag).toUInt8 :: encodeNewLenHdr len
  else
    let (lt, bs) := encodeOldLen len
    (128 + tag * 4 + lt).toUInt8 :: bs

/-- tail of a partial-body stream: `Partial(2^k)` while a full chunk is available, then a
final `Fixed` (possibly of length 0). -/
def emitTail (k : Nat) (body : Bytes) : Bytes :=
  if h : body.length < 2 ^ k then encodeNewLen body.length ++ body
  else partialOctet k :: (body.take (2 ^ k) ++ emitTail k (body.drop (2 ^ k)))
termination_by body.length
decreasing_by
  simp only [List.length_drop]
  have : 0 < 2 ^ k := Nat.pow_pos (by decide)
  omega

/-- `LiteralDataPartialGenerator` / `CompressedDataPartialGenerator` / `encrypt_write`:
chunk size `2^k`, inner header `hdr` (counted in the first chunk), data `body`. -/
def emitPartial (tag k : Nat) (hdr body : Bytes) : Bytes :=
  let first := 2 ^ k - hdr.length
  if body.length < first then
    (192 + tag).toUInt8 :: (encodeNewLen (body.length + hdr.length) ++ hdr ++ body)
  else
    (192 + tag).toUInt8 :: partialOctet k :: (hdr ++ body.take first ++ emitTail k (body.drop first))

/-- a new-format fixed length in a chosen (possibly non-minimal) form: 1, 2 or 5 octets -/
def encodeNewLenAs (form n : Nat) : Option Bytes :=
  match form with
  | 1 => if n < 192 then some [n.toUInt8] else none
  | 2 => if 192 ≤ n ∧ n < 8384 then some [((n - 192) / 256 + 192).toUInt8, ((n - 192) % 256).toUInt8] else none
  | 5 => if n < 4294967296 then some (255 :: be32 n) else none
  | _ => none

/-- an old-format fixed length with length-type `lt` (0: one octet, 1: two, 2: four) -/
def encodeOldLenAs (lt n : Nat) : Option Bytes :=
  match lt with
  | 0 => if n < 256 then some [n.toUInt8] else none
  | 1 => if n < 65536 then some (be16 n) else none
  | 2 => if n < 4294967296 then some (be32 n) else none
  | _ => none

/-- a fixed-length packet in an arbitrary admissible header form -/
def frameFixedAs (newFormat : Bool) (tag form : Nat) (body : Bytes) : Option Bytes :=
  if newFormat then (encodeNewLenAs form body.length).map fun l => (192 + tag).toUInt8 :: (l ++ body)
  else (encodeOldLenAs form body.length).map fun l => (128 + tag * 4 + form).toUInt8 :: (l ++ body)

/-! ## the space of legal framings (independent of the emitters) -/

/-- a segmentation: exponents of the partial chunks, in order; the remainder goes in a final
fixed-length chunk.  `frameSegs` cuts `body` accordingly (`none` if the body is too short). -/
def frameSegs : List Nat → Bytes → Option Bytes
  | [], body => some (encodeNewLen body.length ++ body)
  | k :: ks, body =>
    if body.length < 2 ^ k then none
    else (frameSegs ks (body.drop (2 ^ k))).map fun t => partialOctet k :: (body.take (2 ^ k) ++ t)

/-- new-format packet with partial body lengths `segs` then a final fixed chunk -/
def framePartial (tag : Nat) (segs : List Nat) (body : Bytes) : Option Bytes :=
  (frameSegs segs body).map fun t => (192 + tag).toUInt8 :: t

/-- RFC 9580 §4.2.1.4 legality of a partial segmentation -/
def LegalSegs (tag : Nat) (segs : List Nat) : Prop :=
  (segs ≠ [] → partialAllowed tag = true ∧ 9 ≤ segs.head!) ∧ ∀ k ∈ segs, k ≤ 30

/-! ## fixed-length emitter -/

/-- `LiteralDataFixedGenerator` read to its end: the packet header announces `lit.length + n` octets
(`lit` = the literal data header, `n` = the announced length of the source, e.g. a file's metadata
length); `src` = all the octets the source yields.  As repaired (D17c) the generator hands out
exactly the announced amount and fails when the source has less or more; before the repair it
copied whatever the source yielded. -/
def fixedGenWith (fixed : Bool) (lit : Bytes) (n : Nat) (src : Bytes) : Option Bytes :=
  if fixed then
    (if src.length = n then some (writeHeader true 11 (lit.length + n) ++ lit ++ src) else none)
  else some (writeHeader true 11 (lit.length + n) ++ lit ++ src)

def fixedGen (lit : Bytes) (n : Nat) (src : Bytes) : Option Bytes :=
  fixedGenWith (Gen.fixD17cFixedGeneratorHonoursLength = 1) lit n src

/-! ## packet streams -/

/-- `PacketParser` as an iterator over a stream: one `deframe` after the other until the input is
used up (`none`) or a framing cannot be read (`some e`; the iterator yields the error — or, when the
input ends inside a header, `e = .eof`, just stops — and ends).
Where a packet ends depends on its framing only, never on whether its body means anything: a packet
whose type or content the library refuses is skipped as a whole.  `fuel` bounds the number of
packets (each consumes at least its header octet). -/
def deframeAll : Nat → Bytes → List (Hdr × Bytes) × Option FrErr
  | 0, _ => ([], some .bad)
  | fuel + 1, inp =>
    match inp with
    | [] => ([], none)
    | _ :: _ =>
      match deframe inp with
      | .error e => ([], some e)
      | .ok (h, b, rest) =>
        let r := deframeAll fuel rest
        ((h, b) :: r.1, r.2)

/-- `s` is a framing of the packet `(h, b)`: in front of anything it is read as exactly that packet -/
def Framed (h : Hdr) (b s : Bytes) : Prop := ∀ rest, deframe (s ++ rest) = .ok (h, b, rest)


/-- adler-like digest used by the line protocol for long bodies: (length, s1, s2) -/
def cksum (bs : Bytes) : Nat × Nat × Nat :=
  let (a, b) := bs.foldl (fun (p : Nat × Nat) x =>
    let a := (p.1 + x.toNat) % 65521
    (a, (p.2 + a) % 65521)) (1, 0)
  (bs.length, a, b)

/-- deterministic test pattern of length `n` (line protocol `pat:<seed>:<n>`) -/
def pattern (seed n : Nat) : Bytes :=
  (List.range n).map fun i => ((i * 7 + seed * 13 + i / 251) % 256).toUInt8

end Rpgp
