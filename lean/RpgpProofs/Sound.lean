import RpgpModel.Sound
import RpgpProofs.SigDigest
/-!
# Sound — helper lemmas and the vocabulary of the soundness reduction (C02)

* inversion lemmas: what a successful run of each entry point of `RpgpModel/Sound.lean` has
  established (every guard, the pre-image, the left-16 comparison, the primitive's yes);
* the hypotheses of the reduction as definitions: `Unforgeable` (signing-oracle log), `LogHonest`
  (what honest signers put into the log), `CollisionFreeOn`;
* `sound_core`: from a yes of the primitive to an honestly signed pre-image;
* pre-images of different signature versions never coincide (`preimage_v4_ne_v6`), and a v3
  pre-image equals a v4 / v6 one only if its type octet is 0xFF.
-/
namespace Rpgp.Sound
open Rpgp Rpgp.SigDigest

/-! ## `check`, `finish` -/

theorem check_ok_iff (flag : Nat) (P : Prims) (k : VKey) (s : Sig) (d : Bytes) :
    check flag P k s d = .ok ↔
      (flag = 1 → s.left16 = d.take 2) ∧ P.pkVerify k.mat s.cfg.hash d s.sigval = true := by
  unfold check
  by_cases h1 : flag = 1 ∧ s.left16 ≠ d.take 2
  · rw [if_pos h1]
    constructor
    · intro h; cases h
    · intro ⟨h, _⟩; exact absurd (h h1.1) h1.2
  · rw [if_neg h1]
    by_cases h2 : P.pkVerify k.mat s.cfg.hash d s.sigval = true
    · rw [if_pos h2]
      simp only [h2, and_true, true_iff]
      intro hf
      by_cases h3 : s.left16 = d.take 2
      · exact h3
      · exact absurd ⟨hf, h3⟩ h1
    · rw [if_neg h2]
      constructor
      · intro h; cases h
      · intro ⟨_, h⟩; exact absurd h h2

/-- the left-16 comparison refuses whatever the primitive says -/
theorem check_left16 (P : Prims) (k : VKey) (s : Sig) (d : Bytes) (h : s.left16 ≠ d.take 2) :
    check 1 P k s d = .err .left16 := by
  unfold check
  rw [if_pos ⟨rfl, h⟩]

theorem finish_ok_iff (flag : Nat) (P : Prims) (k : VKey) (s : Sig) (pre : Except Guard Bytes) :
    finish flag P k s pre = .ok ↔
      ∃ p, pre = .ok p ∧ check flag P k s (P.hash s.cfg.hash p) = .ok := by
  cases pre with
  | error g => simp [finish]
  | ok p => simp [finish]

theorem finish_error (flag : Nat) (P : Prims) (k : VKey) (s : Sig) (g : Guard) :
    finish flag P k s (.error g) = .err g := rfl

/-! ## what each `…Pre` establishes -/

theorem dataPre_ok (hk : Byte → Bool) (k : VKey) (s : Sig) (d p : Bytes)
    (h : dataPre hk k s d = .ok p) :
    s.known = true ∧ verifyAligned s.cfg k.ver = true ∧ strengthOk s.cfg = true ∧
    (Gen.sndIdentityData = 1 → matchIdentity s k = true) ∧ hk s.cfg.hash = true ∧
    (Gen.sndSaltCheckVerify = 1 → saltSizeOk s.cfg = true) ∧
    SigDigest.verifyData s.cfg k.ver d = some p ∧ areaScanOk s.cfg s.hashed = true := by
  unfold dataPre at h
  split at h
  · cases h
  split at h
  · cases h
  split at h
  · cases h
  split at h
  · cases h
  split at h
  · cases h
  split at h
  · cases h
  split at h
  · cases h
  split at h
  · cases h
  cases h
  simp_all

theorem certPre_ok (hk : Byte → Bool) (signer : VKey) (signee : Key) (s : Sig) (tag : Nat) (id : Ser) (p : Bytes)
    (h : certPre hk signer signee s tag id = .ok p) :
    s.known = true ∧ isCertification s.cfg.typ = true ∧ verifyAligned s.cfg signer.ver = true ∧
    strengthOk s.cfg = true ∧ (Gen.sndIdentityCert = 1 → matchIdentity s signer = true) ∧
    hk s.cfg.hash = true ∧ verifyCertification s.cfg signer.ver signee tag id = some p ∧
    areaScanOk s.cfg s.hashed = true := by
  unfold certPre at h
  split at h
  · cases h
  split at h
  · cases h
  split at h
  · cases h
  split at h
  · cases h
  split at h
  · cases h
  split at h
  · cases h
  split at h
  · cases h
  split at h
  · cases h
  cases h
  simp_all

theorem subkeyBindingPre_ok (hk : Byte → Bool) (primary : VKey) (sub : Key) (s : Sig) (p : Bytes)
    (h : subkeyBindingPre hk primary sub s = .ok p) :
    s.known = true ∧
    (s.cfg.typ == Gen.sdSigTypeSubkeyBinding.toUInt8 || s.cfg.typ == Gen.sdSigTypeSubkeyRevocation.toUInt8) = true ∧
    verifyAligned s.cfg primary.ver = true ∧ strengthOk s.cfg = true ∧ hk s.cfg.hash = true ∧
    SigDigest.verifySubkeyBinding s.cfg primary.toKey sub = some p ∧ areaScanOk s.cfg s.hashed = true := by
  unfold subkeyBindingPre at h
  split at h
  · cases h
  split at h
  · cases h
  split at h
  · cases h
  split at h
  · cases h
  split at h
  · cases h
  split at h
  · cases h
  split at h
  · cases h
  split at h
  · cases h
  cases h
  have ht : (s.cfg.typ == Gen.sdSigTypeSubkeyBinding.toUInt8 || s.cfg.typ == Gen.sdSigTypeSubkeyRevocation.toUInt8) = true :=
    bool_of_not_bnot _ (by assumption)
  refine ⟨?_, ht, ?_, ?_, ?_, ?_, ?_⟩ <;> simp_all

theorem primaryKeyBindingPre_ok (hk : Byte → Bool) (sub : VKey) (primary : Key) (s : Sig) (p : Bytes)
    (h : primaryKeyBindingPre hk sub primary s = .ok p) :
    s.known = true ∧ (s.cfg.typ == Gen.sdSigTypeKeyBinding.toUInt8) = true ∧
    verifyAligned s.cfg sub.ver = true ∧ strengthOk s.cfg = true ∧ hk s.cfg.hash = true ∧
    SigDigest.verifyPrimaryKeyBinding s.cfg sub.toKey primary = some p ∧ areaScanOk s.cfg s.hashed = true := by
  unfold primaryKeyBindingPre at h
  split at h
  · cases h
  split at h
  · cases h
  split at h
  · cases h
  split at h
  · cases h
  split at h
  · cases h
  split at h
  · cases h
  split at h
  · cases h
  split at h
  · cases h
  cases h
  simp_all

theorem keyPre_ok (hk : Byte → Bool) (signer : VKey) (signee : Key) (s : Sig) (p : Bytes)
    (h : keyPre hk signer signee s = .ok p) :
    s.known = true ∧
    (s.cfg.typ == Gen.sdSigTypeKey.toUInt8 || s.cfg.typ == Gen.sdSigTypeKeyRevocation.toUInt8) = true ∧
    verifyAligned s.cfg signer.ver = true ∧ strengthOk s.cfg = true ∧
    (Gen.sndIdentityKey = 1 → matchIdentity s signer = true) ∧ hk s.cfg.hash = true ∧
    SigDigest.verifyKey s.cfg signer.ver signee = some p ∧ areaScanOk s.cfg s.hashed = true := by
  unfold keyPre at h
  split at h
  · cases h
  split at h
  · cases h
  split at h
  · cases h
  split at h
  · cases h
  split at h
  · cases h
  split at h
  · cases h
  split at h
  · cases h
  split at h
  · cases h
  cases h
  have ht : (s.cfg.typ == Gen.sdSigTypeKey.toUInt8 || s.cfg.typ == Gen.sdSigTypeKeyRevocation.toUInt8) = true :=
    bool_of_not_bnot _ (by assumption)
  refine ⟨?_, ht, ?_, ?_, ?_, ?_, ?_, ?_⟩ <;> simp_all

/-! ## the reduction: vocabulary -/

/-- one honest signing event: the key material it was made under and the RFC 9580 §5.2.4 input
(version, type, both algorithm octets, hashed area, salt, subject) -/
structure Signed where
  km : Bytes
  input : Spec.Input

/-- **unforgeability**, stated with a signing-oracle log: the primitive says yes for key material
`km` and digest `d` only if `d` is among the digests that were signed under `km` -/
def Unforgeable (P : Prims) (L : List (Bytes × Bytes)) : Prop :=
  ∀ km h d sv, P.pkVerify km h d sv = true → (km, d) ∈ L

/-- every entry of the log is the digest, by the hash algorithm named in the signature, of the
pre-image of something an honest signer signed under that key -/
def LogHonest (P : Prims) (L : List (Bytes × Bytes)) (S : List Signed) : Prop :=
  ∀ km d, (km, d) ∈ L → ∃ e ∈ S, e.km = km ∧ P.hash e.input.hash (Spec.preimage e.input) = d

/-- **collision freeness on the two pre-images**: the pre-image `p`, hashed with algorithm `h`,
collides with no honestly signed pre-image other than itself -/
def CollisionFreeOn (P : Prims) (S : List Signed) (h : Byte) (p : Bytes) : Prop :=
  ∀ e ∈ S, P.hash e.input.hash (Spec.preimage e.input) = P.hash h p → Spec.preimage e.input = p

/-- what honest signers sign: well-formed inputs of version 4 or 6 (`sign*` refuse everything
else, `SigDigest.signAligned_not_v3`) -/
def HonestInputs (S : List Signed) : Prop :=
  ∀ e ∈ S, Spec.WF e.input = true ∧ e.input.ver ≠ .v3

/-- from a yes of `check` to an honestly signed pre-image -/
theorem sound_core (P : Prims) (L : List (Bytes × Bytes)) (S : List Signed) (flag : Nat)
    (k : VKey) (s : Sig) (p : Bytes)
    (hU : Unforgeable P L) (hH : LogHonest P L S) (hC : CollisionFreeOn P S s.cfg.hash p)
    (h : check flag P k s (P.hash s.cfg.hash p) = .ok) :
    ∃ e ∈ S, e.km = k.mat ∧ Spec.preimage e.input = p := by
  have hv := ((check_ok_iff flag P k s _).1 h).2
  obtain ⟨e, he, hkm, hd⟩ := hH _ _ (hU _ _ _ _ hv)
  exact ⟨e, he, hkm, hC e he hd⟩

/-! ## pre-images of different versions -/

theorem trailer_v4_length (i : Spec.Input) (h : i.ver = .v4) : (Spec.trailerBytes i).length = 6 := by
  simp [Spec.trailerBytes, h, be32_length]

theorem trailer_v6_length (i : Spec.Input) (h : i.ver = .v6) : (Spec.trailerBytes i).length = 6 := by
  simp [Spec.trailerBytes, h, be32_length]

/-- a version 4 pre-image is never a version 6 pre-image: the sixth octet from the end is the
version octet of the trailer -/
theorem preimage_v4_ne_v6 (a b : Spec.Input) (ha : a.ver = .v4) (hb : b.ver = .v6) :
    Spec.preimage a ≠ Spec.preimage b := by
  intro h
  simp only [Spec.preimage, ha, hb, Spec.trailerBytes] at h
  have h1 := List.append_inj' h (by simp [be32_length])
  have := h1.2
  simp at this

/-- equal pre-images of well-formed v4 / v6 inputs: equal inputs (injectivity across the two
versions) -/
theorem preimage_injective_v4v6 (a b : Spec.Input) (ha : a.ver ≠ .v3) (hb : b.ver ≠ .v3)
    (wa : Spec.WF a = true) (wb : Spec.WF b = true) (h : Spec.preimage a = Spec.preimage b) : a = b := by
  cases hva : a.ver with
  | v3 => exact absurd hva ha
  | v4 =>
    cases hvb : b.ver with
    | v3 => exact absurd hvb hb
    | v4 => exact preimage_injective_v4 a b hva hvb wa wb h
    | v6 => exact absurd h (preimage_v4_ne_v6 a b hva hvb)
  | v6 =>
    cases hvb : b.ver with
    | v3 => exact absurd hvb hb
    | v4 => exact absurd h.symm (preimage_v4_ne_v6 b a hvb hva)
    | v6 => exact preimage_injective_v6 a b hva hvb wa wb h

/-- a version 3 pre-image can coincide with a version 4 / 6 pre-image only if its type octet is
0xFF (it would have to end in the trailer `FF len32`) -/
theorem preimage_v3_eq_needs_ff (a b : Spec.Input) (ha : a.ver = .v3) (hb : b.ver ≠ .v3)
    (h : Spec.preimage a = Spec.preimage b) : a.typ = 0xFF := by
  cases hvb : b.ver with
  | v3 => exact absurd hvb hb
  | v4 =>
    simp only [Spec.preimage, ha, hvb, Spec.trailerBytes] at h
    have e : Spec.subjectBytes .v4 b.typ b.subject ++ Spec.hashedFields b ++ ([0x04, 0xFF] ++ be32 (Spec.hashedFields b).length)
        = (Spec.subjectBytes .v4 b.typ b.subject ++ Spec.hashedFields b ++ [0x04]) ++ (0xFF :: be32 (Spec.hashedFields b).length) := by
      simp [List.append_assoc]
    rw [e] at h
    have h1 := List.append_inj' h (by simp [be32_length])
    have := h1.2
    simp only [List.cons.injEq] at this
    exact this.1
  | v6 =>
    simp only [Spec.preimage, ha, hvb, Spec.trailerBytes] at h
    have e : b.salt ++ Spec.subjectBytes .v6 b.typ b.subject ++ Spec.hashedFields b ++ ([0x06, 0xFF] ++ be32 (Spec.hashedFields b).length)
        = (b.salt ++ Spec.subjectBytes .v6 b.typ b.subject ++ Spec.hashedFields b ++ [0x06]) ++ (0xFF :: be32 (Spec.hashedFields b).length) := by
      simp [List.append_assoc]
    rw [e] at h
    have h1 := List.append_inj' h (by simp [be32_length])
    have := h1.2
    simp only [List.cons.injEq] at this
    exact this.1

/-! ## text documents: the canonical representative -/

theorem canon_idem' (d : Bytes) : canon (canon d) = canon d := Rpgp.canon_idem d

/-- the document as the well-formedness predicate wants it: canonical for text signatures -/
def docRep (typ : Byte) (d : Bytes) : Bytes := if typ = typText then canon d else d

theorem preimage_docRep (c : Cfg) (d : Bytes) :
    Spec.preimage (c.toInput (.document (docRep c.typ d))) = Spec.preimage (c.toInput (.document d)) := by
  unfold docRep
  by_cases ht : c.typ = typText
  · rw [if_pos ht]
    have h1 : (c.toInput (.document (canon d))) = { c.toInput (.document d) with subject := .document (canon d) } := by
      cases hv : c.ver <;> simp [Cfg.toInput, hv]
    have h2 : (c.toInput (.document d)) = { c.toInput (.document d) with subject := .document d } := rfl
    rw [h1]
    conv => rhs; rw [h2]
    have hty : (c.toInput (.document d)).typ = 0x01 := by
      cases hv : c.ver <;> simp [Cfg.toInput, hv, ht, typText_eq]
    exact (doc_text_iff (c.toInput (.document d)) (canon d) d hty).2 (canon_idem' d)
  · rw [if_neg ht]

theorem docRep_canonical (typ : Byte) (d : Bytes) (x : Bytes)
    (h : Spec.Subject.document (docRep typ d) = .document x) (ht : typ = 0x01) : canon x = x := by
  injection h with h
  subst h
  unfold docRep
  rw [if_pos (by rw [ht, typText_eq])]
  exact canon_idem' d

/-! ## lists of results -/

theorem firstErr_ok_iff (l : List Res) : firstErr l = .ok ↔ ∀ r ∈ l, r = .ok := by
  induction l with
  | nil => simp [firstErr]
  | cons a t ih =>
    cases a with
    | ok => simp [firstErr, ih]
    | err g => simp [firstErr]

end Rpgp.Sound
