import RpgpModel.Message
import RpgpModel.Armor
import RpgpModel.SignVerify
import RpgpModel.Ring
import RpgpModel.SymEnc
import RpgpModel.Wire
import RpgpModel.Policy
import RpgpModel.Utf8
import RpgpModel.Canon
/-!
# E2E — `MessageBuilder` and the message reader, end to end, as a composition of the layers

    buildFull cfg src = armor? ( SKESK.. ++ PKESK.. ++ SEIPD (v1 | v2) of ( compressed? ( OPS.. ++ literal ++ SIG.. ) ) )
    readFull  secret msg = dearmor? → split ESKs → recover the session key with ONE presented secret
                           → decrypt → decompress → read literal, pair and verify signatures

Every layer is the model some other property has proved things about; nothing is re-modelled here:

| step                               | Rust                                                         | model used                                   |
|------------------------------------|--------------------------------------------------------------|----------------------------------------------|
| literal header / body              | `LiteralDataHeader::{new,to_writer,try_from_reader}`          | `Wire.literalSer / literalParse` (C05)        |
| utf8 literal check (builder only)  | `LiteralDataGenerator::new` → `CrLfCheckReader<Utf8CheckReader>` | `utf8CheckChunks`, `crlfCheck` (C09, C14)   |
| fixed / partial framing            | `LiteralData{Fixed,Partial}Generator`, `CompressedDataGenerator`, `encrypt_write` | `fixedPkt`, `emitPartial`, `deframe` (C17) |
| what each signer hashes            | `SignatureHashers::read`, `SignatureHasher::sign`             | `SV.signConfig` (C06/C11)                     |
| OPS / signature packets            | `builder.rs prepare`, `Signature::to_writer`                  | `Wire.opsSer/opsParse`, `Wire.sigSer/sigParse` (C05) |
| what inline verification hashes    | `SignatureManyReader`, `OnePassSignature::matches`            | `SV.verifyInlineOps` (C06)                    |
| compression                        | `CompressedDataGenerator`, `CompressedDataReader`             | parameter `compress/decompress`               |
| SEIPDv1 writer / reader            | `sym/encryptor.rs StreamEncryptor`, `sym/decryptor.rs`        | `Sym.Seipd1.stream` (C12), `seipd1CheckFirst` (C03) |
| SEIPDv2 writer / reader            | `aead/encryptor.rs`, `aead_setup_rfc9580`, `aead/decryptor.rs` | `Sym.Seipd2.encrypt` (C12), `seipd2Decrypt` (C03) |
| SKESK v4 / v6                      | `SymKeyEncryptedSessionKey::{encrypt_v4,encrypt_v6,decrypt}`, `decrypt_session_key_with_password` | `Sym.Skesk.body4/body6`, `Sym.S2k.derive` (C12), `Wire.skeskParse` (C05), `Ring.decodeSkeskV4` (C18) |
| PKESK v3 / v6                      | `PublicKeyEncryptedSessionKey::from_session_key_v{3,6}`       | `Ring.prepareSessionKey` (C18), `Wire.pkeskSer/pkeskParse` (C05) |
| ESK filter                         | `parser.rs esk_filter`, `visit_esk`                           | `Policy.keepEsk`, `Policy.filterArgs` (C15)   |
| session-key search                 | `TheRing::find_session_key`, `Message::decrypt{,_with_password}` | `Ring.decrypt`, `Ring.decryptWithPassword` (C18) |
| armor                              | `to_armored_writer`, `Message::from_armor`                    | `Armor.armorWrite`, `Armor.dearmor` (C10)     |

Cryptographic primitives are parameters (`Prims`); nothing here computes AES, SHA, deflate or a
public-key operation.
-/
namespace Rpgp.E2E
open Rpgp

/-! ## primitives -/

structure Prims where
  /-- the forward primitives of C12 (hash, HKDF, CFB encryption, AEAD seal, key wrap, Argon2) -/
  sym : Sym.Prims
  /-- `cfbDec alg key iv ct` — CFB decryption (`decrypt_with_iv_regular`, `StreamDecryptor::v1`) -/
  cfbDec : Nat → Bytes → Bytes → Bytes → Bytes
  /-- `aeadOpen sym mode key nonce ad ct` — AEAD decryption (`None` = authentication failure) -/
  aeadOpen : Nat → Nat → Bytes → Bytes → Bytes → Bytes → Option Bytes
  /-- `compress alg data`, `decompress alg data` (`None` = the decoder reports an error) -/
  compress : Nat → Bytes → Bytes
  decompress : Nat → Bytes → Option Bytes
  /-- `EncryptionKey::encrypt(rng, data, typ)` of recipient key `j` (`typ = V6` ↔ `true`) -/
  pkEnc : Nat → Bytes → Bool → Wire.PkeskVals
  /-- `PlainSecretParams::decrypt(pub, values, typ, recipient)` with the secret material of key `j`,
  including its plausibility tail (`Ring.decodePkSessionKey` & co., see `pkDecOfRaw`) -/
  pkDec : Nat → Wire.PkeskVals → Bool → Option Ring.SessionKey
  /-- `SigningKey::sign(pw, hash_alg, digest)` of signer key `j` -/
  pkSign : Nat → Bytes → Wire.SigBytes
  /-- `VerifyingKey::verify(hash_alg, digest, sig)` under the public part of key `j` -/
  pkVerify : Nat → Bytes → Wire.SigBytes → Bool
  /-- `core::str::from_utf8(..).valid_up_to()` (C09 `VutLaws`) -/
  vut : Bytes → Nat

/-! ## configuration (`Builder` fields after all setters have run) -/

/-- one `SigningConfig` after `prepare`: key, versions, algorithm octets, subpacket areas
(`SubpacketConfig::to_subpackets`), the v6 salt drawn from the rng, the identities the OPS carries -/
structure Signer where
  key : Nat
  /-- `key.version()`: 4 or 6 (anything else: `prepare` bails) -/
  keyVer : Nat
  pk : Byte
  hash : Byte
  hashed : List Wire.Subpacket
  unhashed : List Wire.Subpacket
  salt : Bytes
  /-- `legacy_key_id()` (OPS v3) -/
  keyId : Bytes
  /-- `fingerprint()` bytes (OPS v6) -/
  fp : Bytes

/-- `encrypt_with_password(s2k, pw)`: S2K specifier and, for SKESK v6, the random IV -/
structure PwRcpt where
  pw : Bytes
  s2k : Wire.S2k
  iv : Bytes

/-- `encrypt_to_key{,_anonymous}(rng, pkey)` -/
structure KeyRcpt where
  key : Nat
  /-- `enc.algorithm()` -/
  alg : Byte
  /-- `legacy_key_id()` and `fingerprint()` of the encryption (sub)key -/
  ident : Ring.Ident
  /-- X25519 / X448: no checksum in the encrypted block (`prepare_session_key_for_encryption`) -/
  isX : Bool
  anonymous : Bool

/-- `EncryptionSeipdV1 { sym_alg, .. }` with the random prefix the stream encryptor draws /
`EncryptionSeipdV2 { sym_alg, aead, chunk_size, salt, .. }` -/
inductive Container where
  | v1 (sym : Nat) (pre : Bytes)
  | v2 (sym aead cs : Nat) (salt : Bytes)

structure Encryption where
  container : Container
  /-- `sym_alg.new_session_key(rng)` / `set_session_key` -/
  sessionKey : Bytes
  passwords : List PwRcpt
  keys : List KeyRcpt

structure Cfg where
  /-- `data_mode`: `b` 0x62, `u` 0x75, `t`, `m`, … -/
  mode : Byte
  /-- source length known up front (`from_bytes`, `from_file`) → one fixed-length literal packet;
  otherwise (`from_reader`) partial body lengths of `2^k` -/
  knownLen : Bool
  /-- `sign_typ`: 0 binary, 1 text -/
  signTyp : Byte
  signers : List Signer
  compression : Option Nat
  encryption : Option Encryption
  /-- `partial_chunk_size = 2^k` (literal, compressed and encrypted containers share it) -/
  k : Nat
  /-- `to_armored_writer(.., ArmorOptions { headers: None, include_checksum })` / `to_writer` -/
  armor : Option Bool

/-! ## literal packet -/

/-- `LiteralDataHeader::new(mode)` as written by `to_writer`: mode, empty file name (the builder
drops the name it is given: `_name` is unused in `to_writer_inner`), `Timestamp::default()` -/
def litHdr (mode : Byte) : Bytes := [mode, 0] ++ be32 0

/-- `LiteralDataGenerator::new`: a `Utf8` literal is read through
`CrLfCheckReader<Utf8CheckReader<_>>`, any other mode passes the source through unchecked.
`src` = the successive reads of the source. -/
def srcOk (P : Prims) (mode : Byte) (src : List Bytes) : Bool :=
  if mode.toNat = Gen.e2eModeUtf8 then utf8CheckChunks P.vut [] src && crlfCheck src else true

/-- `LiteralDataFixedGenerator` / `LiteralDataPartialGenerator` -/
def literalPkt (c : Cfg) (payload : Bytes) : Bytes :=
  if c.knownLen then fixedPkt Gen.e2eTagLiteral (litHdr c.mode ++ payload)
  else emitPartial Gen.e2eTagLiteral c.k (litHdr c.mode) payload

/-! ## signatures -/

/-- `SignatureConfig::v4(typ, alg, hash)` / `v6(rng, typ, alg, hash)` + `to_subpackets` as the digest
sees it (C06 `SV.SigCfg`) -/
def sigCfg (typ : Byte) (s : Signer) : SV.SigCfg :=
  { ver := s.keyVer, typ := typ.toNat, pk := s.pk.toNat, hash := s.hash.toNat,
    salt := if s.keyVer = 6 then s.salt else [],
    area := (Wire.areaSer s.hashed).getD [] }

/-- `prepare`: `OnePassSignature::v3(typ, hash, alg, key_id)` / `v6(typ, hash, alg, salt, fp)`;
`set_is_nested` (last octet 0) on all but the last -/
def opsPacket (typ : Byte) (s : Signer) (isLast : Bool) : Wire.Ops :=
  if s.keyVer = 6 then .v6 typ s.hash s.pk s.salt s.fp (if isLast then 1 else 0)
  else .v3 typ s.hash s.pk s.keyId (if isLast then 1 else 0)

/-- `SignatureHasher::sign`: `hash = hasher.finalize()`, `signed_hash_value = hash[0..2]`,
`signature = key.sign(pw, hash_alg, hash)`, `Signature::from_config` -/
def mkSig (P : Prims) (typ : Byte) (s : Signer) (pre : Bytes) : Wire.Sig :=
  let h := P.sym.hash s.hash.toNat pre
  .v4 (s.keyVer == 6) typ s.pk s.hash s.hashed s.unhashed (h.take 2)
    (if s.keyVer = 6 then s.salt else []) (P.pkSign s.key h)

/-- bodies of the OPS packets, in signer order (`None`: `to_writer` fails) -/
def opsBodies (c : Cfg) : List (Option Bytes) :=
  c.signers.zipIdx.map fun si => Wire.opsSer (opsPacket c.signTyp si.1 (si.2 + 1 == c.signers.length))

/-- bodies of the signature packets, in signer order: every signer's hasher has seen each read of
the source (`SV.signConfig` = salt ‖ hashed data ‖ fields ‖ trailer, with its guards) -/
def sigBodies (P : Prims) (c : Cfg) (src : List Bytes) : List (Option Bytes) :=
  c.signers.map fun s =>
    match SV.signConfig s.keyVer (sigCfg c.signTyp s) src with
    | none => none
    | some pre => Wire.sigSer (mkSig P c.signTyp s pre)

/-- `SignGenerator`: OPS₁ … OPSₙ, the literal packet, SIGₙ … SIG₁ (`pop_back`) -/
def signedStream (P : Prims) (c : Cfg) (src : List Bytes) : Option Bytes :=
  if (opsBodies c).all Option.isSome && (sigBodies P c src).all Option.isSome then
    some (((opsBodies c).map fun b => fixedPkt Gen.e2eTagOps (b.getD [])).flatten ++
      literalPkt c src.flatten ++
      ((sigBodies P c src).reverse.map fun b => fixedPkt Gen.e2eTagSignature (b.getD [])).flatten)
  else none

/-! ## compression -/

/-- `CompressedDataGenerator::new(alg, source, None, chunk)`: always partial, because
`SignGenerator::len()` is `None` -/
def compressedLayer (P : Prims) (c : Cfg) (inner : Bytes) : Bytes :=
  match c.compression with
  | none => inner
  | some alg => emitPartial Gen.e2eTagCompressed c.k [alg.toUInt8] (P.compress alg inner)

/-! ## session-key packets -/

/-- `StringToKey` as the derivation of C12 sees it (unknown specifier types derive nothing) -/
def specOfWire : Wire.S2k → Option Sym.S2k.Spec
  | .simple h => some (.simple h.toNat)
  | .salted h s => some (.salted h.toNat s)
  | .iterated h s c => some (.iterated h.toNat s c.toNat)
  | .argon2 s t p m => some (.argon2 s t.toNat p.toNat m.toNat)
  | .other _ _ => none

def Container.isV2 : Container → Bool
  | .v1 .. => false
  | .v2 .. => true

def Container.sym : Container → Nat
  | .v1 s _ => s
  | .v2 s _ _ _ => s

/-- `encrypt_with_password`: `SymKeyEncryptedSessionKey::encrypt_v4` (SEIPDv1) / `encrypt_v6` (SEIPDv2) -/
def skeskBody (P : Prims) (e : Encryption) (r : PwRcpt) : Option Bytes :=
  match specOfWire r.s2k with
  | none => none
  | some spec =>
    match e.container with
    | .v1 sym _ => Sym.Skesk.body4 P.sym sym spec r.pw e.sessionKey
    | .v2 sym aead _ _ => Sym.Skesk.body6 P.sym sym aead spec r.pw e.sessionKey r.iv

/-- `values` of the PKESK: `enc.encrypt(rng, prepare_session_key_for_encryption(..), typ)` -/
def pkVals (P : Prims) (e : Encryption) (r : KeyRcpt) : Wire.PkeskVals :=
  match e.container with
  | .v1 sym _ => P.pkEnc r.key (Ring.prepareSessionKey (some sym) e.sessionKey r.isX) false
  | .v2 .. => P.pkEnc r.key (Ring.prepareSessionKey none e.sessionKey r.isX) true

/-- `from_session_key_v3` / `from_session_key_v6`; anonymous: wildcard key id / no fingerprint -/
def pkeskPacket (P : Prims) (e : Encryption) (r : KeyRcpt) : Wire.Pkesk :=
  match e.container with
  | .v1 .. => .v3 (if r.anonymous then Ring.wildcardKeyId else r.ident.keyId) r.alg (pkVals P e r)
  | .v2 .. =>
    .v6 (if r.anonymous then none else some (r.ident.fp.ver.toUInt8, r.ident.fp.bytes)) r.alg (pkVals P e r)

/-- "Write out symmetric esks", then "Write out public esks" -/
def eskBodies (P : Prims) (e : Encryption) : List (Nat × Option Bytes) :=
  (e.passwords.map fun r => (Gen.e2eTagSkesk, skeskBody P e r)) ++
  (e.keys.map fun r => (Gen.e2eTagPkesk, Wire.pkeskSer (pkeskPacket P e r)))

/-! ## encrypted container -/

/-- the session key the recipients obtain: `PlainSessionKey::V3_4 { sym_alg, key }` / `V6 { key }` -/
def sessionKeyOf (e : Encryption) : Ring.SessionKey :=
  match e.container with
  | .v1 sym _ => .v3_4 sym e.sessionKey
  | .v2 .. => .v6 e.sessionKey

/-- `SymEncryptedProtectedDataConfig::to_writer`: `01` | `02 sym aead chunk salt[32]` -/
def cfgOctets : Container → Bytes
  | .v1 .. => [Gen.e2eSeipdV1Octet.toUInt8]
  | .v2 sym aead cs salt => [Gen.e2eSeipdV2Octet.toUInt8, sym.toUInt8, aead.toUInt8, cs.toUInt8] ++ salt

/-- `sym_alg.stream_encryptor(rng, key, generator)` / `encrypt_seipdv2_stream(..)` read to the end -/
def cipherText (P : Prims) (e : Encryption) (inner : Bytes) : Bytes :=
  match e.container with
  | .v1 sym pre => Sym.Seipd1.stream P.sym sym e.sessionKey pre inner Gen.seBufferSize
  | .v2 sym aead cs salt => Sym.Seipd2.encrypt P.sym sym aead cs salt e.sessionKey inner

/-- `encrypt_write(Tag::SymEncryptedProtectedData, chunk, .., len = None, ..)`: always partial -/
def containerPkt (P : Prims) (k : Nat) (e : Encryption) (inner : Bytes) : Bytes :=
  emitPartial Gen.e2eTagSeipd k (cfgOctets e.container) (cipherText P e inner)

/-- `EncryptionSeipdV2::encrypt`: `ensure_eq!(session_key.len(), sym_alg.key_size())` -/
def sessionKeyOk (e : Encryption) : Bool :=
  match e.container with
  | .v1 .. => true
  | .v2 sym _ _ _ => e.sessionKey.length == Gen.c12SymKeySize sym

/-! ## the builder -/

/-- `Builder::to_writer` → `to_writer_inner` → `Encryption::encrypt`; `None` = it returns an error -/
def buildBinary (P : Prims) (c : Cfg) (src : List Bytes) : Option Bytes :=
  if !srcOk P c.mode src then none
  else
    match signedStream P c src with
    | none => none
    | some s =>
      let inner := compressedLayer P c s
      match c.encryption with
      | none => some inner
      | some e =>
        if !sessionKeyOk e then none
        else if (eskBodies P e).all (fun tb => tb.2.isSome) then
          some (((eskBodies P e).map fun tb => fixedPkt tb.1 (tb.2.getD [])).flatten ++ containerPkt P c.k e inner)
        else none

/-- `to_armored_writer` (block type `Message`, no header lines) or `to_writer` -/
def buildFull (P : Prims) (c : Cfg) (src : List Bytes) : Option Bytes :=
  (buildBinary P c src).map fun b =>
    match c.armor with
    | none => b
    | some ck => Armor.armorWrite .message [] b ck

/-! ## the reader -/

/-- literal metadata as `literal_data_header()` returns it -/
structure Meta where
  mode : Byte
  fileName : Bytes
  created : Bytes
deriving DecidableEq, Repr

structure Result where
  payload : Bytes
  litMeta : Meta
  /-- `verify_nested(keys)`: one entry per presented verification key -/
  verified : List Bool
deriving DecidableEq, Repr

/-- a verification key handed to `verify_nested`: its index for `pkVerify` and `key.version()` -/
structure Verifier where
  key : Nat
  keyVer : Nat
deriving DecidableEq, Repr

/-- reader-side options and sizes -/
structure ReadOpts where
  verifiers : List Verifier
  /-- read size of `SignatureManyReader` (`BUFFER_SIZE`) -/
  hashRead : Nat := Gen.signedManyBufferSize
  /-- `Seipdv1ReadMode::CheckFirst { max_message_size }` -/
  maxV1 : Nat := Gen.seipd1DefaultMaxMessageSize

/-- the OPS packet as the hasher sees it -/
def opsOfWire : Wire.Ops → Option SV.Ops
  | .v3 typ hash pk _ _ => some { ver := 3, typ := typ.toNat, hash := hash.toNat, pk := pk.toNat, salt := [] }
  | .v6 typ hash pk salt _ _ => some { ver := 6, typ := typ.toNat, hash := hash.toNat, pk := pk.toNat, salt := salt }
  | .unknown .. => none

/-- the signature packet as the digest sees it -/
def cfgOfSig : Wire.Sig → Option (SV.SigCfg × Bytes × Wire.SigBytes)
  | .v4 v6 typ pk hash hashed _ left salt sb =>
    some ({ ver := if v6 then 6 else 4, typ := typ.toNat, pk := pk.toNat, hash := hash.toNat, salt := salt,
            area := (Wire.areaSer hashed).getD [] }, left, sb)
  | _ => none

/-- `verify_nested_explicit(index, key)`: the hash slot of OPS `index` (created from the OPS packet,
finished with the fields of the paired signature packet; `None` when they do not match),
`check_inline_verification_preconditions` (document signature type, key/signature version
alignment), the `signed_hash_value` comparison, `key.verify`.  (The hash-strength and issuer
preconditions are C15's subject and not repeated here.) -/
def verifyExplicit (P : Prims) (B : Nat) (v : Verifier) (ops : Option Wire.Ops) (sig : Option Wire.Sig)
    (body : Bytes) : Bool :=
  match ops, sig with
  | some o, some s =>
    match opsOfWire o, cfgOfSig s with
    | some so, some (cfg, left, sb) =>
      match SV.verifyInlineOps B so cfg body with
      | none => false
      | some pre =>
        let h := P.sym.hash cfg.hash pre
        SV.dataSigType cfg.typ && SV.verifyAligned v.keyVer cfg.ver && left == h.take 2 && P.pkVerify v.key h sb
    | _, _ => false
  | _, _ => false

/-- the signed / literal level (`MessageParser::run` → `SignatureManyReader` → `LiteralDataReader`):
leading OPS packets, one literal packet, as many signature packets; OPS `i` (0-based) is paired with
the signature packet `n-1-i`; `verify_nested` marks a key valid when it verifies *some* index -/
def readSigned (P : Prims) (o : ReadOpts) (stream : Bytes) : Option Result :=
  match splitPackets (stream.length + 1) stream with
  | none => none
  | some pkts =>
    let ops := pkts.takeWhile fun p => p.1 == Gen.e2eTagOps
    match pkts.dropWhile fun p => p.1 == Gen.e2eTagOps with
    | (tag, body) :: sigs =>
      if tag ≠ Gen.e2eTagLiteral ∨ sigs.any (fun p => p.1 != Gen.e2eTagSignature) ∨ sigs.length ≠ ops.length then none
      else
        match Wire.literalParse body with
        | none => none
        | some lit =>
          let opsP := ops.map fun p => Wire.opsParse p.2
          let sigP := sigs.reverse.map fun p => Wire.sigParse (Wire.embFor p.2) p.2
          some { payload := lit.data, litMeta := ⟨lit.mode, lit.name, lit.created⟩,
                 verified := o.verifiers.map fun v =>
                   (opsP.zip sigP).any fun os => verifyExplicit P o.hashRead v os.1 os.2 lit.data }
    | [] => none

/-- `Message::decompress` when `is_compressed()`, then the signed / literal level -/
def readInner (P : Prims) (o : ReadOpts) (stream : Bytes) : Option Result :=
  match deframe stream with
  | .error _ => none
  | .ok (h, body, _) =>
    if h.tag = Gen.e2eTagCompressed then
      match body with
      | [] => none
      | a :: data =>
        match P.decompress a.toNat data with
        | none => none
        | some s => readSigned P o s
    else readSigned P o stream

/-- the AEAD of one SEIPDv2 message: message key and nonce prefix fixed, chunk index → nonce
(`aead/decryptor.rs`, `aead/encryptor.rs`: `nonce[l..] = chunk_index.to_be_bytes()`) -/
def aeadOf (P : Prims) (sym mode : Nat) (mk n0 : Bytes) : Aead where
  aeadEnc i ad p := P.sym.aead sym mode mk (Sym.Seipd2.nonceAt n0 i) ad p
  aeadDec i ad c := P.aeadOpen sym mode mk (Sym.Seipd2.nonceAt n0 i) ad c

/-- the SHA-1 of the MDC (`Sha1::digest`, 20 octets) -/
def sha1Of (P : Prims) (x : Bytes) : Bytes := (P.sym.hash Sym.sha1Id x).take 20

/-- `Edata::decrypt_with_options` → `SymEncryptedProtectedDataReader::decrypt` + reading the
decryptor to the end: SEIPDv1 wants a `V3_4` session key, SEIPDv2 a `V6` one of the cipher's size -/
def openContainer (P : Prims) (o : ReadOpts) (ed : Wire.Seipd) (k : Ring.SessionKey) : Option Bytes :=
  match ed, k with
  | .v1 ct, .v3_4 alg key =>
    seipd1CheckFirst (sha1Of P) (Gen.symBlockSize alg) o.maxV1
      (P.cfbDec alg key (List.replicate (Gen.symBlockSize alg) 0) ct)
  | .v2 sym aead cs salt ct, .v6 key =>
    if key.length ≠ Gen.c12SymKeySize sym.toNat then none
    else
      let mkn := Sym.Seipd2.split sym.toNat aead.toNat (Sym.Seipd2.okm P.sym sym.toNat aead.toNat cs.toNat salt key)
      let r := seipd2Decrypt (aeadOf P sym.toNat aead.toNat mkn.1 mkn.2)
        (Sym.Seipd2.info sym.toNat aead.toNat cs.toNat) (Sym.Seipd2.chunkBytes cs.toNat) ct
      if r.2 then some r.1 else none
  | _, _ => none

/-- `decrypt_session_key_with_password(skesk, pw)` + `SymKeyEncryptedSessionKey::decrypt` -/
def skDec (P : Prims) (e : Wire.Skesk) (pw : Bytes) : Option Ring.SessionKey :=
  match e with
  | .v4 sym s esk =>
    match specOfWire s with
    | none => none
    | some spec =>
      match Sym.S2k.derive P.sym spec pw (Gen.c12SymKeySize sym.toNat) with
      | none => none
      | some key =>
        if esk = [] then some (.v3_4 sym.toNat key)
        else Ring.decodeSkeskV4 (P.cfbDec sym.toNat key (List.replicate (Gen.symBlockSize sym.toNat) 0) esk)
  | .v6 sym aead s iv esk =>
    match specOfWire s with
    | none => none
    | some spec =>
      if spec.weakHash then none
      else
        match Sym.S2k.derive P.sym spec pw (Gen.c12SymKeySize sym.toNat) with
        | none => none
        | some ikm =>
          (P.aeadOpen sym.toNat aead.toNat (Sym.Skesk.kek6 P.sym sym.toNat aead.toNat ikm) iv
            (Sym.Skesk.info6 sym.toNat aead.toNat) esk).map Ring.SessionKey.v6
  | _ => none

/-- the primitives `TheRing` is run with: unlocked secret keys (key `j` = index into `Prims`) -/
def ringPrims (P : Prims) : Ring.Prims Nat Unit Bytes Wire.PkeskVals Wire.Skesk where
  unlock _ _ := none
  pkDec := P.pkDec
  skDec := skDec P

/-- `Esk::PublicKeyEncryptedSessionKey` as the search reads it -/
def toRingPk : Wire.Pkesk → Ring.Pkesk Wire.PkeskVals
  | .v3 id _ vals => .v3 id vals
  | .v6 none _ vals => .v6 none vals
  | .v6 (some (kv, fp)) _ vals => .v6 (some ⟨kv.toNat, fp⟩) vals
  | .other v _ => .other v.toNat

/-- `Esk::SymKeyEncryptedSessionKey` as the search reads it (version, `sym_algorithm()`) -/
def toRingSk : Wire.Skesk → Ring.Skesk Wire.Skesk
  | .v4 sym s esk => .known Gen.skeskVersionA sym.toNat (.v4 sym s esk)
  | .v5 sym s iv esk => .known Gen.skeskVersionB sym.toNat (.v5 sym s iv esk)
  | .v6 sym aead s iv esk => .known Gen.skeskVersionC sym.toNat (.v6 sym aead s iv esk)
  | .other v _ => .other v.toNat

inductive WireEsk where
  | pk (p : Wire.Pkesk)
  | sk (s : Wire.Skesk)

def WireEsk.policy : WireEsk → Policy.Esk
  | .pk (.v3 ..) => ⟨true, 3⟩
  | .pk (.v6 ..) => ⟨true, 6⟩
  | .pk (.other v _) => ⟨true, v.toNat⟩
  | .sk (.v4 ..) => ⟨false, 4⟩
  | .sk (.v5 ..) => ⟨false, 5⟩
  | .sk (.v6 ..) => ⟨false, 6⟩
  | .sk (.other v _) => ⟨false, v.toNat⟩

def WireEsk.toRing : WireEsk → Ring.Esk Wire.PkeskVals Wire.Skesk
  | .pk p => .pk (toRingPk p)
  | .sk s => .sk (toRingSk s)

/-- `Esk::try_from_reader` by tag -/
def parseEsk (tb : Nat × Bytes) : Option WireEsk :=
  if tb.1 = Gen.e2eTagPkesk then (Wire.pkeskParse tb.2).map .pk
  else if tb.1 = Gen.e2eTagSkesk then (Wire.skeskParse tb.2).map .sk
  else none

def seipdContainer : Wire.Seipd → Policy.Container
  | .v1 _ => .seipd1
  | .v2 .. => .seipd2

def isEskTag (t : Nat) : Bool := t == Gen.e2eTagPkesk || t == Gen.e2eTagSkesk

/-- `Message::from_bytes` at the top level -/
inductive Top where
  /-- `Message::Literal` / `Compressed` / `Signed`: the stream itself -/
  | plain (stream : Bytes)
  /-- `Message::Encrypted { esk, edata }` after `esk_filter` -/
  | encrypted (esks : List WireEsk) (ed : Wire.Seipd)

/-- `MessageParser::run` + `visit_esk`: the tag of the first packet decides.  ESK or SEIPD: a run of
ESK packets (possibly empty), then the SEIPD packet; the ESKs whose version does not align with the
container are dropped (`esk_filter`); any other packet after an ESK is an error ("unexpected tag in
an encrypted message"), as is a missing encrypted data packet.  Anything else: a literal /
compressed / signed message, handed on unparsed. -/
def parseTop (msg : Bytes) : Option Top :=
  match deframe msg with
  | .error _ => none
  | .ok (h, _, _) =>
    if !(isEskTag h.tag || h.tag == Gen.e2eTagSeipd) then some (.plain msg)
    else
      match splitPackets (msg.length + 1) msg with
      | none => none
      | some pkts =>
        let eskPkts := pkts.takeWhile fun p => isEskTag p.1
        match pkts.dropWhile fun p => isEskTag p.1 with
        | [] => none
        | (t', body) :: _ =>
          if t' ≠ Gen.e2eTagSeipd then none
          else
            match Wire.seipdParse body with
            | none => none
            | some ed =>
              let parsed := eskPkts.map parseEsk
              if parsed.all Option.isSome then
                some (.encrypted
                  ((parsed.filterMap id).filter fun e =>
                    Policy.keepEsk (Policy.filterArgs (seipdContainer ed)).1 (Policy.filterArgs (seipdContainer ed)).2 e.policy)
                  ed)
              else none

/-- what is presented to the reader -/
inductive Secret where
  /-- nothing (unencrypted messages) -/
  | none
  /-- `decrypt_with_password(pw)` -/
  | password (pw : Bytes)
  /-- `decrypt(&Password::empty(), key)` with an unlocked `SignedSecretKey` -/
  | key (K : Ring.SecKey Nat Unit)

/-- `Edata::decrypt_with_options` + reading the decrypted stream to the end (what C18 calls `openEd`) -/
def openEd (P : Prims) (o : ReadOpts) (ed : Wire.Seipd) (k : Ring.SessionKey) : Option Result :=
  match openContainer P o ed k with
  | none => none
  | some inner => readInner P o inner

/-- `Message::from_bytes → decrypt → decompress → read_to_end, literal_data_header, verify_nested` -/
def readBinary (P : Prims) (o : ReadOpts) (secret : Secret) (msg : Bytes) : Option Result :=
  match parseTop msg with
  | none => none
  | some (.plain s) => readInner P o s
  | some (.encrypted esks ed) =>
    let m : Ring.Msg Wire.PkeskVals Wire.Skesk Wire.Seipd := .encrypted (esks.map WireEsk.toRing) ed
    match secret with
    | .none => none
    | .password pw => (Ring.decryptWithPassword (ringPrims P) (openEd P o) pw m).toOption
    | .key K => (Ring.decrypt (ringPrims P) (openEd P o) [] K m).toOption

/-- `Message::from_armor` (CRC checking off by default, block type must be a message type) or
`Message::from_bytes`; `chunks` = the views the source hands out -/
def readFull (P : Prims) (o : ReadOpts) (secret : Secret) (armored : Bool) (chunks : List Bytes) : Option Result :=
  if armored then
    match Armor.dearmor false chunks with
    | .error _ => none
    | .ok d =>
      match d.typ with
      | .message | .file | .multiPart _ _ => readBinary P o secret d.data
      | _ => none
  else readBinary P o secret chunks.flatten

end Rpgp.E2E
