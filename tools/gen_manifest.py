#!/usr/bin/env python3
"""Regenerate MANIFEST.json from tools/manifest_src.json (claimed checks) + properties.jsonl."""
import json, os
ROOT = os.path.join(os.path.dirname(os.path.abspath(__file__)), "..")
src = json.load(open(os.path.join(ROOT, "tools", "manifest_src.json")))
props = [json.loads(l) for l in open(os.path.join(ROOT, "properties.jsonl"))]
checks, na = [], []
for p in props:
    pid = p["id"]
    c = src["claimed"].get(pid)
    if c:
        checks.append({
            "property_id": pid,
            "quick_cmd": f"./check {pid} --tier quick",
            "thorough_cmd": f"./check {pid} --tier thorough",
            "evidence_file": f"/verif/evidence/{pid}.json",
            "replay_cmd_template": f"./check {pid} --replay {{path}}",
            "engine": "lean-proof+correspondence",
            "level_claimed": {"category": "proof", "text": c["text"], "design_ref": c.get("design_ref", f"DESIGN.md section 7, {pid}")},
            "level_note": c["note"],
            "technique": c.get("technique", "Lean 4 theorems over a hand-written model; model tied to the code by constant extraction and differential correspondence"),
        })
    else:
        na.append({"property_id": pid, "reason": src["not_claimed"].get(pid, "not yet claimed: model, theorems and correspondence for this property are still under construction in this session")})
import subprocess
try:
    hooks = subprocess.check_output(["git", "-C", "/repo", "log", "--format=%h %s", "--grep", "^verif-hooks"], text=True).strip().splitlines()
except Exception:
    hooks = []
src["hooks"]["source_commits"] = [h.split(" ")[0] for h in hooks]
m = {
    "version": 1,
    "setup_cmd": "./setup.sh",
    "hooks": src["hooks"],
    "engines": [{
        "name": "lean-proof+correspondence",
        "path": "/verif/check",
        "serves_properties": [c["property_id"] for c in checks],
        "kind_free_text": "Lean 4 (core only) model + theorems in /verif/lean, regenerated constants (tools/extract_constants.py), Rust differential harness in /verif/harness speaking a line protocol to the native model driver, python orchestrator ./check",
    }],
    "checks": checks,
    "notes": src.get("notes", ""),
    "not_applicable": na,
}
json.dump(m, open(os.path.join(ROOT, "MANIFEST.json"), "w"), indent=1)
print(f"{len(checks)} claimed, {len(na)} not claimed")
