use crate::ctx::Ctx;

pub mod c14;
pub mod c17;

pub fn run(prop: &str, ctx: &mut Ctx) -> bool {
    match prop {
        "C14" => c14::run(ctx),
        "C17" => c17::run(ctx),
        _ => return false,
    }
    true
}
