# ---- C15: version alignment / criticality decision tables ---------------------------------
# One definition per use site; the theorems in RpgpProps/C15.lean tie them to RFC 9580 and to
# each other (reader table vs writer table of the subpacket registry, the four esk_filter call
# sites, the version enums).
TP = "src/types/packet.rs"
MP = "src/composed/message/parser.rs"
SP = "src/packet/signature/subpacket.rs"
SC = "src/packet/signature/config.rs"
ST = "src/packet/signature/types.rs"
KP = "src/composed/signed_key/key_parser.rs"

# ---- version enums (types/packet.rs, signature/types.rs) ---------------------------------
item("pkeskV3", TP, r"pub enum PkeskVersion \{\s*V3 = (\d+),", "PkeskVersion::V3 discriminant")
item("pkeskV6", TP, r"pub enum PkeskVersion \{\s*V3 = \d+,\s*V6 = (\d+),", "PkeskVersion::V6 discriminant")
item("skeskV4", TP, r"pub enum SkeskVersion \{.*?\bV4 = (\d+),", "SkeskVersion::V4 discriminant")
item("skeskV5", TP, r"pub enum SkeskVersion \{.*?\bV5 = (\d+),", "SkeskVersion::V5 discriminant")
item("skeskV6", TP, r"pub enum SkeskVersion \{.*?\bV6 = (\d+),", "SkeskVersion::V6 discriminant")
for v in (2, 3, 4, 5, 6):
    item(f"keyV{v}", TP, r"pub enum KeyVersion \{.*?\bV%d = (\d+),(?=.*?impl KeyVersion)" % v, f"KeyVersion::V{v} discriminant")
    item(f"sigV{v}", ST, r"pub enum SignatureVersion \{.*?\bV%d = (\d+),(?=.*?impl Default for SignatureVersion)" % v,
         f"SignatureVersion::V{v} discriminant")

# ---- esk_filter call sites (message/parser.rs visit_esk) ----------------------------------
item("filtSedPk", MP, r"Edata::SymEncryptedData \{ \.\. \} => \{\s*esk_filter\(esks, PkeskVersion::V(\d+), &\[SkeskVersion::V(\d+)\]\)",
     "visit_esk: SED container, allowed PKESK version", group=1)
item("filtSedSk", MP, r"Edata::SymEncryptedData \{ \.\. \} => \{\s*esk_filter\(esks, PkeskVersion::V(\d+), &\[SkeskVersion::V(\d+)\]\)",
     "visit_esk: SED container, allowed SKESK version", group=2)
item("filtSeipd1Pk", MP, r"SymEncryptedProtectedDataConfig::V1\) => \{\s*esk_filter\(esks, PkeskVersion::V(\d+), &\[SkeskVersion::V(\d+)\]\)",
     "visit_esk: SEIPDv1 container, allowed PKESK version", group=1)
item("filtSeipd1Sk", MP, r"SymEncryptedProtectedDataConfig::V1\) => \{\s*esk_filter\(esks, PkeskVersion::V(\d+), &\[SkeskVersion::V(\d+)\]\)",
     "visit_esk: SEIPDv1 container, allowed SKESK version", group=2)
item("filtSeipd2Pk", MP, r"SymEncryptedProtectedDataConfig::V2 \{\s*\.\.\s*\}\) => esk_filter\(esks, PkeskVersion::V(\d+), &\[SkeskVersion::V(\d+)\]\)",
     "visit_esk: SEIPDv2 container, allowed PKESK version", group=1)
item("filtSeipd2Sk", MP, r"SymEncryptedProtectedDataConfig::V2 \{\s*\.\.\s*\}\) => esk_filter\(esks, PkeskVersion::V(\d+), &\[SkeskVersion::V(\d+)\]\)",
     "visit_esk: SEIPDv2 container, allowed SKESK version", group=2)
GN = r"ProtectedDataConfig::GnupgAead \{ \.\. \} => esk_filter\(\s*esks,\s*PkeskVersion::V(\d+),\s*&\[SkeskVersion::V(\d+), SkeskVersion::V(\d+)\],"
item("filtGnupgPk", MP, GN, "visit_esk: GnuPG AEAD container, allowed PKESK version", group=1)
item("filtGnupgSkA", MP, GN, "visit_esk: GnuPG AEAD container, first allowed SKESK version", group=2)
item("filtGnupgSkB", MP, GN, "visit_esk: GnuPG AEAD container, second allowed SKESK version", group=3)

# ---- signature subpacket registry: reader table (from_u8) and writer table (as_u8) --------
SUBPACKET_TYPES = [
    "SignatureCreationTime", "SignatureExpirationTime", "ExportableCertification", "TrustSignature",
    "RegularExpression", "Revocable", "KeyExpirationTime", "PreferredSymmetricAlgorithms", "RevocationKey",
    "IssuerKeyId", "Notation", "PreferredHashAlgorithms", "PreferredCompressionAlgorithms",
    "KeyServerPreferences", "PreferredKeyServer", "PrimaryUserId", "PolicyURI", "KeyFlags", "SignersUserID",
    "RevocationReason", "Features", "SignatureTarget", "EmbeddedSignature", "IssuerFingerprint",
    "PreferredEncryptionModes", "IntendedRecipientFingerprint", "PreferredAead",
]
for t in SUBPACKET_TYPES:
    item(f"spRd{t}", SP, r"pub fn from_u8.*?\b(\d+) => SubpacketType::%s," % t, f"SubpacketType::from_u8: id of {t}")
    item(f"spWr{t}", SP, r"pub fn as_u8.*?SubpacketType::%s => (\d+)," % t, f"SubpacketType::as_u8: id of {t}")
item("spExperimentalMin", SP, r"(\d+)\.\.=(\d+) => SubpacketType::Experimental\(n\)", "from_u8: experimental range, lower bound", group=1)
item("spExperimentalMax", SP, r"(\d+)\.\.=(\d+) => SubpacketType::Experimental\(n\)", "from_u8: experimental range, upper bound", group=2)
item("spCriticalShift", SP, r"let is_critical = \(n >> (\d+)\) == 1;", "from_u8: critical bit position")
item("spTypeMask", SP, lambda text: int(re.search(r"let n = n & 0b([01_]+);", text).group(1).replace("_", ""), 2),
     "from_u8: type mask")

# ---- structural facts read off the source (1 = the check is present) ----------------------
def _count(pattern, flags=re.S):
    return lambda text: len(re.findall(pattern, text, flags))

def _in_block(start, end, needle):
    def f(text):
        m = re.search(start + r"(.*?)" + end, text, re.S)
        if not m:
            return None
        return 1 if re.search(needle, m.group(1), re.S) else 0
    return f

item("secretSubkeyChecksBacksig", "src/composed/signed_key/secret.rs",
     _in_block(r"impl SignedSecretSubKey \{", r"pub fn signed_public_key", r"verify_primary_key_binding"),
     "SignedSecretSubKey::verify_bindings verifies the embedded primary-key-binding signature (1) or not (0)")
item("publicSubkeyChecksBacksig", "src/composed/signed_key/public.rs",
     _in_block(r"impl SignedPublicSubKey \{", r"impl EncryptionKey for SignedPublicSubKey", r"verify_primary_key_binding"),
     "SignedPublicSubKey::verify_bindings verifies the embedded primary-key-binding signature (1) or not (0)")
item("inlineChecksPreconditions", "src/composed/message/types.rs",
     _in_block(r"pub fn verify_nested_explicit", r"pub fn decrypt\(", r"check_inline_verification_preconditions\(signature, key, config\)\?"),
     "Message::verify_nested_explicit applies the key-related guards of Signature::verify (1) or not (0)")
item("hashSigDataChecksCritical", SC,
     _in_block(r"pub fn hash_signature_data", r"pub fn hash_data_to_sign", r"packet\.is_critical && matches!\(packet\.typ\(\), SubpacketType::Other\(_\)\)"),
     "hash_signature_data rejects unknown critical hashed subpackets (1) or not (0)")
item("alignCallSites", ST, _count(r"Self::check_signature_key_version_alignment\(&?\w+, config\)\?;"),
     "number of Signature::verify* entry points that call check_signature_key_version_alignment")
item("signEnsureSites", SC, _count(r"ensure!\(\s*\(\w+\.version\(\) == SignatureVersion::V4 && \w+\.version\(\) == KeyVersion::V4\)\s*\|\| \(\w+\.version\(\) == SignatureVersion::V6\s*&& \w+\.version\(\) == KeyVersion::V6\),"),
     "number of sign-side entry points guarded by (sig v4 & key v4) | (sig v6 & key v6)")

derived("""
/-- subpacket ids the reader (`SubpacketType::from_u8`) maps to a dedicated type -/
def knownSubpacketIdsRd : List Nat := [%s]
/-- subpacket ids the writer (`SubpacketType::as_u8`) emits for the dedicated types (same order) -/
def knownSubpacketIdsWr : List Nat := [%s]
""" % (", ".join("spRd" + t for t in SUBPACKET_TYPES), ", ".join("spWr" + t for t in SUBPACKET_TYPES)))
