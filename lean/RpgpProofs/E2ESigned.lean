import RpgpProofs.E2ESplit
import RpgpProofs.SignVerify
import RpgpProofs.Wire
/-! E2E, part 2: the signed / literal level — `readSigned (signedStream …)`.  Uses C05 (`Wire.*_parse_ser`),
C06 (`SV.signConfig_eq`, `SV.verifyInlineOps_eq`) and C17 (`deframe_literalPkt`-style framing lemmas). -/
namespace Rpgp.E2E
open Rpgp

/-- the verification keys of the signers, in signer order (what the caller hands to `verify_nested`) -/
def verifiersOf (c : Cfg) : List Verifier := c.signers.map fun s => ⟨s.key, s.keyVer⟩

/-- well-formedness of the signed level for one payload: chunk exponent in range, every packet below
the 2³² limit of the wire format, the OPS / signature values inside the ranges their parsers accept
(C05's `OpsWF`, `SigWF`: key id 8 octets, fingerprint 32, salt of the hash's size, well-formed
subpackets, `signed_hash_value` two octets, signature values in the algorithm's shape) -/
structure SignedWF (P : Prims) (c : Cfg) (src : List Bytes) : Prop where
  k : 9 ≤ c.k ∧ c.k ≤ 30
  litLen : (litHdr c.mode).length + src.flatten.length < 4294967296
  ops : ∀ s ∈ c.signers, ∀ isLast, Wire.OpsWF (opsPacket c.signTyp s isLast)
  sig : ∀ s ∈ c.signers, ∀ pre, SV.signConfig s.keyVer (sigCfg c.signTyp s) src = some pre →
    (∀ emb, Wire.SigWF emb (mkSig P c.signTyp s pre)) ∧
    ∀ b, Wire.sigSer (mkSig P c.signTyp s pre) = some b → b.length < 4294967296

theorem litHdr_length (m : Byte) : (litHdr m).length = 6 := rfl

theorem literalPkt_length_ge (c : Cfg) (payload : Bytes) : 2 ≤ (literalPkt c payload).length := by
  unfold literalPkt
  by_cases hk : c.knownLen
  · rw [if_pos hk]; exact fixedPkt_length_ge _ _
  · rw [if_neg hk]
    simp only [emitPartial]
    have := encodeNewLen_length_pos (payload.length + (litHdr c.mode).length)
    split <;> simp only [List.length_cons, List.length_append] <;> omega

theorem deframe_literalPkt (c : Cfg) (payload rest : Bytes) (hk : 9 ≤ c.k ∧ c.k ≤ 30)
    (hlen : (litHdr c.mode).length + payload.length < 4294967296) :
    ∃ h, deframe (literalPkt c payload ++ rest) = .ok (h, litHdr c.mode ++ payload, rest) ∧ h.tag = Gen.e2eTagLiteral := by
  unfold literalPkt
  by_cases hkl : c.knownLen
  · rw [if_pos hkl]
    exact ⟨_, deframe_fixedPkt Gen.e2eTagLiteral (by decide) _ rest (by simpa using hlen), rfl⟩
  · rw [if_neg hkl]
    have h6 : (litHdr c.mode).length ≤ 2 ^ c.k := by
      rw [litHdr_length]
      have : 2 ^ 9 ≤ 2 ^ c.k := Nat.pow_le_pow_right (by decide) hk.1
      omega
    exact deframe_emitPartial Gen.e2eTagLiteral c.k (litHdr c.mode) payload rest (by decide) hk.1 hk.2 h6 hlen

theorem literalParse_litHdr (m : Byte) (payload : Bytes) :
    Wire.literalParse (litHdr m ++ payload) = some ⟨m, [], be32 0, payload⟩ := by
  have : Wire.literalSer ⟨m, [], be32 0, payload⟩ = some (litHdr m ++ payload) := by
    simp [Wire.literalSer, litHdr]
  exact Wire.literal_parse_ser _ _ ⟨by simp, rfl⟩ this

/-! ### list helpers -/

theorem mem_zipIdx_of_mem {α : Type} (l : List α) (x : α) (hx : x ∈ l) : ∀ k, ∃ i, (x, i) ∈ l.zipIdx k := by
  induction l with
  | nil => cases hx
  | cons a l ih =>
    intro k
    rcases List.mem_cons.mp hx with rfl | h
    · exact ⟨k, by simp [List.zipIdx_cons]⟩
    · obtain ⟨i, hi⟩ := ih h (k + 1)
      exact ⟨i, by simp [List.zipIdx_cons, hi]⟩

theorem zipIdx_map_fst_comp {α β : Type} (f : α → β) (l : List α) :
    ∀ k, (l.zipIdx k).map (fun si => f si.1) = l.map f := by
  induction l with
  | nil => intro k; rfl
  | cons a l ih => intro k; simp [List.zipIdx_cons, ih]

theorem all_isSome_map_getD {α : Type} [Inhabited α] (l : List (Option α)) (d : α)
    (h : l.all Option.isSome = true) : l = (l.map (·.getD d)).map some := by
  induction l with
  | nil => rfl
  | cons a l ih =>
    simp only [List.all_cons, Bool.and_eq_true] at h
    cases a with
    | none => simp at h
    | some x =>
      simp only [List.map_cons, Option.getD_some]
      rw [← ih h.2]

theorem takeWhile_tagged (t : Nat) (l : List Bytes) (t' : Nat) (b : Bytes) (r : List (Nat × Bytes)) (hne : t' ≠ t) :
    (l.map (fun x => (t, x)) ++ (t', b) :: r).takeWhile (fun p => p.1 == t) = l.map (fun x => (t, x)) := by
  induction l with
  | nil => simp [hne]
  | cons a l ih => simp [ih]

theorem dropWhile_tagged (t : Nat) (l : List Bytes) (t' : Nat) (b : Bytes) (r : List (Nat × Bytes)) (hne : t' ≠ t) :
    (l.map (fun x => (t, x)) ++ (t', b) :: r).dropWhile (fun p => p.1 == t) = (t', b) :: r := by
  induction l with
  | nil => simp [hne]
  | cons a l ih => simp [ih]

/-! ### one signer's pair verifies -/

theorem opsOfWire_opsPacket (typ : Byte) (s : Signer) (isLast : Bool) :
    opsOfWire (opsPacket typ s isLast) = some (SV.opsOf (sigCfg typ s)) := by
  unfold opsPacket SV.opsOf sigCfg
  by_cases h6 : s.keyVer = 6 <;> simp [h6, opsOfWire]

theorem cfgOfSig_mkSig (P : Prims) (typ : Byte) (s : Signer) (pre : Bytes) (hv : s.keyVer = 4 ∨ s.keyVer = 6) :
    cfgOfSig (mkSig P typ s pre) =
      some (sigCfg typ s, (P.sym.hash s.hash.toNat pre).take 2, P.pkSign s.key (P.sym.hash s.hash.toNat pre)) := by
  unfold mkSig cfgOfSig sigCfg
  rcases hv with h | h <;> simp [h]

theorem signConfig_some_inv (kv : Nat) (cfg : SV.SigCfg) (src : List Bytes) (pre : Bytes)
    (h : SV.signConfig kv cfg src = some pre) :
    SV.signAligned kv cfg.ver = true ∧ SV.dataSigType cfg.typ = true ∧
      pre = SV.preimage cfg (SV.dataHashed cfg.textMode src.flatten) := by
  rw [SV.signConfig_eq] at h
  by_cases hg : (SV.signAligned kv cfg.ver && SV.dataSigType cfg.typ) = true
  · rw [if_pos hg] at h
    simp only [Bool.and_eq_true] at hg
    exact ⟨hg.1, hg.2, (Option.some.inj h).symm⟩
  · rw [if_neg hg] at h; cases h

/-- the pair (OPS of signer `s`, signature of signer `s`) verifies under `s`'s key: the reader's hash
slot, built from the OPS packet and finished with the signature packet's fields, is the pre-image
the signer's hasher was fed (C06), so `signed_hash_value` and the public-key check pass -/
theorem verifyExplicit_own (P : Prims) (LV : ∀ key d, P.pkVerify key d (P.pkSign key d) = true)
    (B : Nat) (hB : 0 < B) (typ : Byte) (s : Signer) (isLast : Bool) (src : List Bytes) (pre : Bytes)
    (hpre : SV.signConfig s.keyVer (sigCfg typ s) src = some pre) :
    verifyExplicit P B ⟨s.key, s.keyVer⟩ (some (opsPacket typ s isLast)) (some (mkSig P typ s pre)) src.flatten = true := by
  obtain ⟨hal, hty, hp⟩ := signConfig_some_inv _ _ _ _ hpre
  have hv : s.keyVer = 4 ∨ s.keyVer = 6 := SV.signAligned_wfver _ _ hal
  have hwf : SV.WFCfg (sigCfg typ s) := by
    unfold SV.WFCfg sigCfg
    rcases hv with h | h <;> simp [h]
  unfold verifyExplicit
  simp only [opsOfWire_opsPacket, cfgOfSig_mkSig P typ s pre hv]
  rw [SV.verifyInlineOps_eq B hB _ hwf, ← hp]
  have hver : (sigCfg typ s).ver = s.keyVer := rfl
  have hh : (sigCfg typ s).hash = s.hash.toNat := rfl
  simp only [hty, hver, SV.signAligned_verifyAligned _ _ (hver ▸ hal), hh, LV, beq_self_eq_true, Bool.and_self]

end Rpgp.E2E

namespace Rpgp.E2E
open Rpgp

/-- what a successful `signedStream` tells: every OPS / signature body was serialised -/
theorem signedStream_some_inv (P : Prims) (c : Cfg) (src : List Bytes) (S : Bytes)
    (h : signedStream P c src = some S) :
    (opsBodies c).all Option.isSome = true ∧ (sigBodies P c src).all Option.isSome = true ∧
    S = (((opsBodies c).map fun b => fixedPkt Gen.e2eTagOps (b.getD [])).flatten ++
      literalPkt c src.flatten ++
      ((sigBodies P c src).reverse.map fun b => fixedPkt Gen.e2eTagSignature (b.getD [])).flatten) := by
  unfold signedStream at h
  by_cases hc : ((opsBodies c).all Option.isSome && (sigBodies P c src).all Option.isSome) = true
  · rw [if_pos hc] at h
    simp only [Bool.and_eq_true] at hc
    exact ⟨hc.1, hc.2, (Option.some.inj h).symm⟩
  · rw [if_neg hc] at h; cases h

theorem opsBody_bound (typ : Byte) (sg : Signer) (isLast : Bool) (b : Bytes)
    (hw : Wire.OpsWF (opsPacket typ sg isLast)) (h : Wire.opsSer (opsPacket typ sg isLast) = some b) :
    b.length < 4294967296 := by
  rw [Wire.ops_len _ b h]
  unfold opsPacket at hw ⊢
  by_cases h6 : sg.keyVer = 6
  · rw [if_pos h6] at hw ⊢
    simp only [Wire.OpsWF] at hw
    simp only [Wire.opsWriteLen]; omega
  · rw [if_neg h6] at hw ⊢
    simp only [Wire.OpsWF] at hw
    simp only [Wire.opsWriteLen]; omega

/-- the pre-image signer `sg` hashed (`[]` when the guards of `SignatureHasher::sign` refuse) -/
def preOf (c : Cfg) (src : List Bytes) (sg : Signer) : Bytes :=
  (SV.signConfig sg.keyVer (sigCfg c.signTyp sg) src).getD []

theorem sigBodies_facts (P : Prims) (c : Cfg) (src : List Bytes)
    (hall : (sigBodies P c src).all Option.isSome = true) (sg : Signer) (hs : sg ∈ c.signers) :
    SV.signConfig sg.keyVer (sigCfg c.signTyp sg) src = some (preOf c src sg) ∧
    ∃ b, Wire.sigSer (mkSig P c.signTyp sg (preOf c src sg)) = some b := by
  have hmem : (match SV.signConfig sg.keyVer (sigCfg c.signTyp sg) src with
      | none => none
      | some pre => Wire.sigSer (mkSig P c.signTyp sg pre)) ∈ sigBodies P c src :=
    List.mem_map.mpr ⟨sg, hs, rfl⟩
  have hsome := (List.all_eq_true.mp hall) _ hmem
  unfold preOf
  cases hp : SV.signConfig sg.keyVer (sigCfg c.signTyp sg) src with
  | none => rw [hp] at hsome; simp at hsome
  | some pre =>
    rw [hp] at hsome
    simp only [Option.getD_some, true_and]
    exact Option.isSome_iff_exists.mp hsome

theorem opsBodies_facts (c : Cfg) (hall : (opsBodies c).all Option.isSome = true)
    (si : Signer × Nat) (hs : si ∈ c.signers.zipIdx) :
    ∃ b, Wire.opsSer (opsPacket c.signTyp si.1 (si.2 + 1 == c.signers.length)) = some b := by
  have hmem : Wire.opsSer (opsPacket c.signTyp si.1 (si.2 + 1 == c.signers.length)) ∈ opsBodies c :=
    List.mem_map.mpr ⟨si, hs, rfl⟩
  exact Option.isSome_iff_exists.mp ((List.all_eq_true.mp hall) _ hmem)

/-- **the signed level round trip**: reading what `SignGenerator` wrote returns the payload, the
literal header, and every presented signer key verifies -/
theorem readSigned_signedStream (P : Prims) (LV : ∀ key d, P.pkVerify key d (P.pkSign key d) = true)
    (o : ReadOpts) (hB : 0 < o.hashRead) (c : Cfg) (src : List Bytes) (S : Bytes) (wf : SignedWF P c src)
    (hS : signedStream P c src = some S) (ho : o.verifiers = verifiersOf c) :
    readSigned P o S = some { payload := src.flatten, litMeta := ⟨c.mode, [], be32 0⟩,
                              verified := List.replicate c.signers.length true } := by
  obtain ⟨hopsA, hsigA, hSeq⟩ := signedStream_some_inv P c src S hS
  -- per-signer facts
  have hopsF := opsBodies_facts c hopsA
  have hsigF := sigBodies_facts P c src hsigA
  -- the serialised bodies, as lists over the signers
  let opsOf : Signer × Nat → Wire.Ops := fun si => opsPacket c.signTyp si.1 (si.2 + 1 == c.signers.length)
  let sigOf : Signer → Wire.Sig := fun sg => mkSig P c.signTyp sg (preOf c src sg)
  let obs : List Bytes := c.signers.zipIdx.map fun si => (Wire.opsSer (opsOf si)).getD []
  let sbs : List Bytes := c.signers.map fun sg => (Wire.sigSer (sigOf sg)).getD []
  have hobs : (opsBodies c).map (fun b => b.getD []) = obs := by
    simp [opsBodies, obs, opsOf, List.map_map, Function.comp_def]
  have hsbs : (sigBodies P c src).map (fun b => b.getD []) = sbs := by
    simp only [sigBodies, sbs, sigOf, List.map_map, Function.comp_def]
    apply List.map_congr_left
    intro sg hsg
    obtain ⟨h1, _⟩ := hsigF sg hsg
    simp only [h1]
  have hshape : S = ((obs.map fun b => (Gen.e2eTagOps, b)).map pkt).flatten ++
      (literalPkt c src.flatten ++ ((sbs.reverse.map fun b => (Gen.e2eTagSignature, b)).map pkt).flatten) := by
    rw [hSeq, ← hobs, ← hsbs]
    simp [pkt, List.map_map, Function.comp_def, List.map_reverse, List.append_assoc]
  -- size bounds
  have hpre : ∀ p ∈ obs.map (fun b => (Gen.e2eTagOps, b)), p.1 < 64 ∧ p.2.length < 4294967296 := by
    intro p hp
    obtain ⟨b, hb, rfl⟩ := List.mem_map.mp hp
    obtain ⟨si, hsi, rfl⟩ := List.mem_map.mp hb
    refine ⟨(by decide : Gen.e2eTagOps < 64), ?_⟩
    obtain ⟨b', hb'⟩ := hopsF si hsi
    simp only [opsOf, hb', Option.getD_some]
    exact opsBody_bound _ _ _ _ (wf.ops si.1 (List.fst_mem_of_mem_zipIdx hsi) _) hb'
  have hpost : ∀ p ∈ sbs.reverse.map (fun b => (Gen.e2eTagSignature, b)), p.1 < 64 ∧ p.2.length < 4294967296 := by
    intro p hp
    obtain ⟨b, hb, rfl⟩ := List.mem_map.mp hp
    rw [List.mem_reverse] at hb
    obtain ⟨sg, hsg, rfl⟩ := List.mem_map.mp hb
    refine ⟨(by decide : Gen.e2eTagSignature < 64), ?_⟩
    obtain ⟨h1, b', hb'⟩ := hsigF sg hsg
    simp only [sigOf, hb', Option.getD_some]
    exact (wf.sig sg hsg _ h1).2 b' hb'
  have hsplit := splitPackets_around (obs.map fun b => (Gen.e2eTagOps, b)) (sbs.reverse.map fun b => (Gen.e2eTagSignature, b))
    (literalPkt c src.flatten) (litHdr c.mode ++ src.flatten) Gen.e2eTagLiteral hpre hpost
    (literalPkt_length_ge c _) (fun rest => deframe_literalPkt c _ rest wf.k wf.litLen) 0
  rw [← hshape, Nat.add_zero] at hsplit
  unfold readSigned
  simp only [hsplit]
  rw [takeWhile_tagged Gen.e2eTagOps obs Gen.e2eTagLiteral _ _ (by decide),
    dropWhile_tagged Gen.e2eTagOps obs Gen.e2eTagLiteral _ _ (by decide)]
  simp only
  have hlen : (sbs.reverse.map fun b => (Gen.e2eTagSignature, b)).length = (obs.map fun b => (Gen.e2eTagOps, b)).length := by
    simp [obs, sbs]
  have hcond : ¬ (Gen.e2eTagLiteral ≠ Gen.e2eTagLiteral ∨
      (sbs.reverse.map fun b => (Gen.e2eTagSignature, b)).any (fun p => p.1 != Gen.e2eTagSignature) = true ∨
      (sbs.reverse.map fun b => (Gen.e2eTagSignature, b)).length ≠ (obs.map fun b => (Gen.e2eTagOps, b)).length) := by
    rw [hlen]
    simp
  rw [if_neg hcond, literalParse_litHdr]
  simp only [Option.some.injEq, Result.mk.injEq, true_and]
  -- the parsed OPS / signature packets
  have hopsP : (obs.map fun b => (Gen.e2eTagOps, b)).map (fun p => Wire.opsParse p.2) =
      c.signers.zipIdx.map fun si => some (opsOf si) := by
    simp only [obs, List.map_map, Function.comp_def]
    apply List.map_congr_left
    intro si hsi
    obtain ⟨b', hb'⟩ := hopsF si hsi
    simp only [opsOf, hb', Option.getD_some]
    exact Wire.ops_parse_ser _ _ (wf.ops si.1 (List.fst_mem_of_mem_zipIdx hsi) _) hb'
  have hsigP : (sbs.reverse.map fun b => (Gen.e2eTagSignature, b)).reverse.map (fun p => Wire.sigParse (Wire.embFor p.2) p.2) =
      c.signers.zipIdx.map fun si => some (sigOf si.1) := by
    rw [← List.map_reverse, List.reverse_reverse]
    simp only [sbs, List.map_map, Function.comp_def]
    rw [zipIdx_map_fst_comp (fun sg => some (sigOf sg)) c.signers 0]
    apply List.map_congr_left
    intro sg hsg
    obtain ⟨h1, b', hb'⟩ := hsigF sg hsg
    simp only [sigOf, hb', Option.getD_some]
    exact Wire.sig_parse_ser _ _ _ ((wf.sig sg hsg _ h1).1 _) hb'
  rw [hopsP, hsigP, List.zip_map', ho]
  -- every presented key verifies the index of its own signer
  rw [List.eq_replicate_iff]
  refine ⟨by simp [verifiersOf], ?_⟩
  intro b hb
  obtain ⟨v, hv, rfl⟩ := List.mem_map.mp hb
  obtain ⟨sg, hsg, rfl⟩ := List.mem_map.mp hv
  obtain ⟨i, hi⟩ := mem_zipIdx_of_mem c.signers sg hsg 0
  rw [List.any_eq_true]
  refine ⟨(some (opsOf (sg, i)), some (sigOf sg)), List.mem_map.mpr ⟨(sg, i), hi, rfl⟩, ?_⟩
  exact verifyExplicit_own P LV o.hashRead hB c.signTyp sg _ src _ (hsigF sg hsg).1

end Rpgp.E2E
