#!/bin/bash
# Run rpgp's pinned baseline suite (guard OFF: default features, no verif-hooks) on /repo (or $1).
# Prints a one-line summary and exits non-zero if any test fails.
REPO_DIR="${1:-/repo}"
cd "$REPO_DIR" || exit 2
export CARGO_NET_OFFLINE=true
if cargo nextest --version >/dev/null 2>&1; then
  cargo nextest run --workspace --no-fail-fast --test-threads 12 --offline 2>&1 | tail -n 40
  exit ${PIPESTATUS[0]}
else
  cargo test --workspace --no-fail-fast --offline 2>&1 | tail -n 40
  exit ${PIPESTATUS[0]}
fi
