import RpgpProofs.Ring
import RpgpModel.Panics
/-!
# C18 — recipients: every intended recipient can decrypt, nobody else gets plaintext

Model: `RpgpModel/Ring.lean` (`findSessionKey` = `TheRing::find_session_key`, `decryptTheRing` =
`Message::decrypt_the_ring` + reading the result).  Primitives (`Prims`: unlocking of secret key
material, public-key decryption incl. its plausibility tail, password decryption of an SKESK) and the
opening of the encrypted data (`openEd`, C03's subject) are parameters; every assumption about them
is a hypothesis of the theorem that uses it.

One clause of the property is NOT true of the code as it stands (reproduced on the real crate by
`harness/src/props/c18.rs`, known finding D18b); it is stated here at full strength in a comment,
proved in a guarded `_partial` form, and refuted on a concrete witness:

* each password recipient alone (SEIPDv1 messages with two or more v4 SKESKs): the v4 plausibility
  check accepts garbage from a *foreign* SKESK for about one password in 64; the consistency check
  then reports a conflict and the legitimate recipient gets an error.

(D18d — the SKESK loop stopping at the first password even with `abort_early = false` — has been
repaired in the tree: the loop now `break`s only under `abort_early`, the model follows, and
`crosscheck_conflict` holds at full strength for every kind of secret.)
-/
namespace Rpgp.C18
open Rpgp Rpgp.Ring

variable {PLAIN ENC PW CT SCT ED PT : Type}

/-! ## constants the model is parametric in are the RFC's (re-extracted from the source on every run) -/

theorem sym_alg_ids_rfc :
    Gen.symIdPlaintext = 0 ∧ Gen.symIdIDEA = 1 ∧ Gen.symIdTripleDES = 2 ∧ Gen.symIdCAST5 = 3 ∧
    Gen.symIdBlowfish = 4 ∧ Gen.symIdAES128 = 7 ∧ Gen.symIdAES192 = 8 ∧ Gen.symIdAES256 = 9 ∧
    Gen.symIdTwofish = 10 ∧ Gen.symIdCamellia128 = 11 ∧ Gen.symIdCamellia192 = 12 ∧
    Gen.symIdCamellia256 = 13 := by decide

theorem sym_key_sizes_rfc :
    Gen.symKeySize 0 = 0 ∧ Gen.symKeySize 1 = 16 ∧ Gen.symKeySize 2 = 24 ∧ Gen.symKeySize 3 = 16 ∧
    Gen.symKeySize 7 = 16 ∧ Gen.symKeySize 8 = 24 ∧ Gen.symKeySize 9 = 32 ∧ Gen.symKeySize 10 = 32 ∧
    Gen.symKeySize 11 = 16 ∧ Gen.symKeySize 12 = 24 ∧ Gen.symKeySize 13 = 32 ∧
    Gen.symKeySize 5 = 0 ∧ Gen.symKeySize 6 = 0 ∧ Gen.symKeySize 110 = 0 ∧ Gen.symKeySize 255 = 0 := by decide

theorem plausibility_layout_rfc :
    Gen.pkV3Overhead = 3 ∧ Gen.pkV3ChecksumEndOffset = Gen.pkV3Overhead ∧ Gen.pkV6MinLen = 2 ∧
    Gen.pkV6ChecksumLen = 2 ∧ Gen.checksumMask = 65535 := by decide

theorem esk_versions_rfc :
    Gen.pkeskVersionA = 3 ∧ Gen.pkeskVersionB = 6 ∧ Gen.skeskVersionA = 4 ∧ Gen.skeskVersionB = 5 ∧
    Gen.skeskVersionC = 6 := by decide

theorem wildcard_key_id_rfc : wildcardKeyId = [0, 0, 0, 0, 0, 0, 0, 0] := by decide

/-! ## recipient field: addressed and anonymous recipients match, nothing else does -/

theorem match_v3_iff (id : Bytes) (ct : CT) (k : Ident) :
    (Pkesk.v3 id ct).matchIdentity k = true ↔ id = wildcardKeyId ∨ id = k.keyId := by
  simp [Pkesk.matchIdentity]

theorem match_v6_iff (f : Option Fingerprint) (ct : CT) (k : Ident) :
    (Pkesk.v6 f ct).matchIdentity k = true ↔ f = none ∨ f = some k.fp := by
  cases f <;> simp [Pkesk.matchIdentity]

theorem match_other_never (v : Nat) (k : Ident) : (Pkesk.other v : Pkesk CT).matchIdentity k = false := rfl

/-! ## clause 1 — each recipient alone -/

/-- **each key recipient alone** (any `abort_early`): a key one of whose components matches the
recipient field of an ESK of the message (addressed or anonymous: `match_v3_iff`/`match_v6_iff`) and
opens it to `sk` — unlocked, or locked and unlockable by a presented key password:
`tryDecrypt_unlocked`/`tryDecrypt_locked` — obtains `sk`, provided no ESK of the message decrypts
under this key's material to a *different* session key (`hsound`: robustness of the public-key
primitive + checksum, an explicit hypothesis). -/
theorem each_key_recipient_alone (P : Prims PLAIN ENC PW CT SCT) (kpws : List PW) (K : SecKey PLAIN ENC)
    (esks : List (Esk CT SCT)) (ae ga : Bool) (sk : SessionKey)
    (hplain : ∀ ver ct, Esk.sk (.known ver Gen.symIdPlaintext ct) ∉ esks)
    (e : Pkesk CT) (he : Esk.pk e ∈ esks) (ct : CT) (v6 : Bool) (hp : e.payload = some (ct, v6))
    (c : Comp PLAIN ENC) (hc : c ∈ K.comps) (hm : e.matchIdentity c.ident = true)
    (hopen : (tryDecrypt P kpws c ct v6).2 = some sk)
    (hsound : ∀ e', Esk.pk e' ∈ esks → ∀ c' ∈ K.comps, ∀ k, CompYields P kpws e' c' k → k = sk) :
    ∃ rr, findSessionKey P
      { secretKeys := [K], keyPasswords := kpws, messagePasswords := [], sessionKeys := [], gnupgAead := ga }
      esks ae = .ok (some sk, rr) := by
  obtain ⟨pk, sks, hg⟩ := groupEsks_ok_of_no_plaintext esks hplain
  have hmem := groupEsks_mem hg
  apply find_unique P _ esks ae (Or.inr rfl) pk sks hg sk
  · intro k' hk'
    rw [mem_foundKeys] at hk'
    rcases hk' with ⟨e', he', K', hK', hk'⟩ | ⟨e', _, _, h⟩ | h
    · have : K' = K := by simpa using hK'
      subst this
      obtain ⟨c', hc', hy⟩ := tryKey_sound P kpws e' K' k' hk'
      exact hsound e' ((hmem.1 e').1 he') c' hc' k' hy
    · obtain ⟨pw, hm, _⟩ := mem_skOpen_sound P ae [] e'.2 k' h
      cases hm
    · simp at h
  · have hne := tryKey_nonempty P kpws e K ct v6 hp c hc hm sk hopen
    intro hnil
    cases hl : (tryKey P kpws e K).2 with
    | nil => exact hne hl
    | cons a t =>
      have : a ∈ foundKeys P
          { secretKeys := [K], keyPasswords := kpws, messagePasswords := [], sessionKeys := [], gnupgAead := ga }
          ae pk sks := by
        rw [mem_foundKeys]
        exact Or.inl ⟨e, (hmem.1 e).2 he, K, by simp, by rw [hl]; exact List.mem_cons_self ..⟩
      rw [hnil] at this
      cases this

/-- … and therefore `Message::decrypt(key_pw, key)` returns the plaintext the data opens to -/
theorem each_key_recipient_decrypts (P : Prims PLAIN ENC PW CT SCT) (openEd : ED → SessionKey → Option PT)
    (kpw : PW) (K : SecKey PLAIN ENC) (esks : List (Esk CT SCT)) (ed : ED) (sk : SessionKey) (pt : PT)
    (hplain : ∀ ver ct, Esk.sk (.known ver Gen.symIdPlaintext ct) ∉ esks)
    (e : Pkesk CT) (he : Esk.pk e ∈ esks) (ct : CT) (v6 : Bool) (hp : e.payload = some (ct, v6))
    (c : Comp PLAIN ENC) (hc : c ∈ K.comps) (hm : e.matchIdentity c.ident = true)
    (hopen : (tryDecrypt P [kpw] c ct v6).2 = some sk)
    (hsound : ∀ e', Esk.pk e' ∈ esks → ∀ c' ∈ K.comps, ∀ k, CompYields P [kpw] e' c' k → k = sk)
    (hed : openEd ed sk = some pt) :
    decrypt P openEd kpw K (.encrypted esks ed) = .ok pt := by
  obtain ⟨rr, h⟩ := each_key_recipient_alone P [kpw] K esks true false sk hplain e he ct v6 hp c hc hm hopen hsound
  simp [decrypt, decryptWithKeys, decryptTheRing, h, hed, Except.map]

/-- unlocked component: it opens the ESK iff the primitive decrypts it -/
theorem unlocked_opens (P : Prims PLAIN ENC PW CT SCT) (kpws : List PW) (c : Comp PLAIN ENC) (ct : CT)
    (v6 : Bool) (p : PLAIN) (hs : c.secret = .plain p) (sk : SessionKey) (hd : P.pkDec p ct v6 = some sk) :
    (tryDecrypt P kpws c ct v6).2 = some sk := by
  rw [tryDecrypt_unlocked P kpws c ct v6 p hs, hd]

/-- locked component: some presented key password unlocks it (others may fail, in any order), and the
unlocked material decrypts the ESK -/
theorem locked_opens (P : Prims PLAIN ENC PW CT SCT) (kpws : List PW) (c : Comp PLAIN ENC) (ct : CT)
    (v6 : Bool) (e : ENC) (hs : c.secret = .encrypted e) (sk : SessionKey)
    (hex : ∃ pw ∈ kpws, (P.unlock e pw).isSome = true)
    (hall : ∀ pw ∈ kpws, ∀ p, P.unlock e pw = some p → P.pkDec p ct v6 = some sk) :
    (tryDecrypt P kpws c ct v6).2 = some sk :=
  tryDecrypt_locked P kpws c ct v6 e hs sk hex hall

/-
FULL STATEMENT (false of the code as it stands, see `password_alone_false_positive_witness`):
  each_password_recipient_alone : a password that opens one SKESK of the message to `k` obtains `k`
  when presented alone — *without* the guard `hguard` below.
-/
/-- **each password recipient alone**, guarded: … provided the password does not "open" another SKESK
of the message to a different key.  For v6 (AEAD) SKESKs the guard follows from ciphertext integrity;
for v4 SKESKs it fails for about one foreign packet in 64 (`skesk_v4_no_integrity`). -/
theorem each_password_recipient_alone_partial (P : Prims PLAIN ENC PW CT SCT) (pw : PW)
    (esks : List (Esk CT SCT)) (ae ga : Bool) (k : SessionKey)
    (hplain : ∀ ver ct, Esk.sk (.known ver Gen.symIdPlaintext ct) ∉ esks)
    (ver alg : Nat) (ct : SCT) (he : Esk.sk (.known ver alg ct) ∈ esks) (hskip : skSkip ga ver = false)
    (hopen : P.skDec ct pw = some k)
    (hguard : ∀ ver' alg' ct', Esk.sk (.known ver' alg' ct') ∈ esks → ∀ k', P.skDec ct' pw = some k' → k' = k) :
    ∃ rr, findSessionKey P
      ({ secretKeys := [], keyPasswords := [], messagePasswords := [pw], sessionKeys := [], gnupgAead := ga } :
        Ring PLAIN ENC PW) esks ae = .ok (some k, rr) := by
  obtain ⟨pk, sks, hg⟩ := groupEsks_ok_of_no_plaintext esks hplain
  have hmem := groupEsks_mem hg
  apply find_unique P _ esks ae (Or.inr rfl) pk sks hg k
  · intro k' hk'
    rw [mem_foundKeys] at hk'
    rcases hk' with ⟨_, _, K', hK', _⟩ | ⟨e', he', _, h⟩ | h
    · simp at hK'
    · obtain ⟨alg', hm'⟩ := (hmem.2 e'.1 e'.2).1 he'
      obtain ⟨pw', hpw', hd⟩ := mem_skOpen_sound P ae [pw] e'.2 k' h
      have : pw' = pw := by simpa using hpw'
      subst this
      exact hguard e'.1 alg' e'.2 hm' k' hd
    · simp at h
  · intro hnil
    have : k ∈ foundKeys P
        ({ secretKeys := [], keyPasswords := [], messagePasswords := [pw], sessionKeys := [], gnupgAead := ga } :
          Ring PLAIN ENC PW) ae pk sks := by
      rw [mem_foundKeys]
      exact Or.inr (Or.inl ⟨(ver, ct), (hmem.2 ver ct).2 ⟨alg, he⟩, hskip, by simp [skOpen_single, hopen]⟩)
    rw [hnil] at this
    cases this

/-- negation of the unguarded statement on a concrete instance: two v4 SKESKs, password 1 opens its
own packet (SKESK 1) to `kA` and passes the plausibility check on SKESK 0 with `kB`: the legitimate
recipient gets `inconsistent session keys detected`, with `abort_early` on or off -/
theorem password_alone_false_positive_witness :
    Witness.falsePositive.skDec 1 1 = some Witness.kA ∧
    findSessionKey Witness.falsePositive (Witness.ringPw [1]) Witness.twoSkesks true = .error .inconsistent ∧
    findSessionKey Witness.falsePositive (Witness.ringPw [1]) Witness.twoSkesks false = .error .inconsistent :=
  ⟨rfl, rfl, rfl⟩

/-- since every password is now tried on every SKESK when `abort_early` is off, the false positive
also bites when both legitimate passwords are presented together: with `abort_early` password 0
opens SKESK 0 first and password 1's garbage is never produced; without, it is, and conflicts -/
theorem false_positive_more_often_without_abort_early :
    (∃ rr, findSessionKey Witness.falsePositive (Witness.ringPw [0, 1]) Witness.twoSkesks true =
      .ok (some Witness.kA, rr)) ∧
    findSessionKey Witness.falsePositive (Witness.ringPw [0, 1]) Witness.twoSkesks false = .error .inconsistent :=
  ⟨⟨_, rfl⟩, rfl⟩

/-- the session key itself, presented to `decrypt_with_session_key`, opens the data -/
theorem session_key_alone (P : Prims PLAIN ENC PW CT SCT) (openEd : ED → SessionKey → Option PT)
    (esks : List (Esk CT SCT)) (ed : ED) (sk : SessionKey) (pt : PT) (hed : openEd ed sk = some pt) :
    decryptWithSessionKey P openEd sk (.encrypted esks ed) = .ok pt := by
  simp [decryptWithSessionKey, decryptTheRing, findSessionKey, hed, Except.map]

/-! ## clause 2 — unrelated secrets presented alongside do not change the result -/

/-- **with unrelated keys**: keys that obtain nothing from any PKESK of the message (decoys — named
in a recipient field or matched by a wildcard, locked or not) can be added anywhere in the ring, in
any number and order, without changing the outcome (session key or error) -/
theorem with_unrelated_keys (P : Prims PLAIN ENC PW CT SCT) (ring : Ring PLAIN ENC PW)
    (esks : List (Esk CT SCT)) (ae : Bool) (isDecoy : SecKey PLAIN ENC → Bool)
    (hdec : ∀ d ∈ ring.secretKeys, isDecoy d = true →
      ∀ e, Esk.pk e ∈ esks → (tryKey P ring.keyPasswords e d).2 = []) :
    (findSessionKey P ring esks ae).map Prod.fst =
      (findSessionKey P { ring with secretKeys := ring.secretKeys.filter (fun k => !isDecoy k) } esks ae).map
        Prod.fst := by
  symm
  refine find_outcome_congr P ring { ring with secretKeys := ring.secretKeys.filter (fun k => !isDecoy k) }
    esks ae rfl ?_
  intro pk sk hg
  have hmem := groupEsks_mem hg
  simp only [foundKeys, pkFound]
  congr 1
  apply flatMap_congr_mem
  intro e he
  symm
  apply flatMap_filter_of_nil
  intro d hd hdc
  exact hdec d hd (by simpa using hdc) e ((hmem.1 e).1 he)

/-- a key none of whose reachable secrets decrypts anything is such a decoy -/
theorem decoy_of_prims (P : Prims PLAIN ENC PW CT SCT) (kpws : List PW) (d : SecKey PLAIN ENC)
    (h : ∀ c ∈ d.comps, ∀ p, Reach P kpws c p → ∀ ct v6, P.pkDec p ct v6 = none) (e : Pkesk CT) :
    (tryKey P kpws e d).2 = [] := by
  cases hl : (tryKey P kpws e d).2 with
  | nil => rfl
  | cons a t =>
    obtain ⟨c, hc, ct, v6, p, _, _, hr, hd⟩ := tryKey_sound P kpws e d a (by rw [hl]; exact List.mem_cons_self ..)
    rw [h c hc p hr ct v6] at hd
    cases hd

/-- **with unrelated passwords** (integrity-protected password packets): message passwords that open
no SKESK of the message — what AEAD integrity gives for v6 SKESKs — can be added anywhere -/
theorem with_unrelated_passwords (P : Prims PLAIN ENC PW CT SCT) (ring : Ring PLAIN ENC PW)
    (esks : List (Esk CT SCT)) (ae : Bool) (isDecoy : PW → Bool)
    (hdec : ∀ q ∈ ring.messagePasswords, isDecoy q = true →
      ∀ ver alg ct, Esk.sk (.known ver alg ct) ∈ esks → P.skDec ct q = none) :
    (findSessionKey P ring esks ae).map Prod.fst =
      (findSessionKey P { ring with messagePasswords := ring.messagePasswords.filter (fun q => !isDecoy q) }
        esks ae).map Prod.fst := by
  symm
  refine find_outcome_congr P ring
    { ring with messagePasswords := ring.messagePasswords.filter (fun q => !isDecoy q) } esks ae rfl ?_
  intro pk sk hg
  have hmem := groupEsks_mem hg
  simp only [foundKeys, skFound]
  congr 2
  apply flatMap_congr_mem
  intro e he
  obtain ⟨alg, hm⟩ := (hmem.2 e.1 e.2).1 he
  rw [skOpen_filter_of_none P ae ring.messagePasswords e.2 (fun q => !isDecoy q)]
  intro q hq hqc
  exact hdec q hq (by simpa using hqc) e.1 alg e.2 hm

/-- **with unrelated key passwords**: key passwords that unlock none of the presented key material can
be added anywhere in the list (a locked recipient key is tried with each password in turn; the
failures are skipped) -/
theorem with_unrelated_key_passwords (P : Prims PLAIN ENC PW CT SCT) (ring : Ring PLAIN ENC PW)
    (esks : List (Esk CT SCT)) (ae : Bool) (isDecoy : PW → Bool)
    (hdec : ∀ q ∈ ring.keyPasswords, isDecoy q = true → ∀ e, P.unlock e q = none) :
    (findSessionKey P ring esks ae).map Prod.fst =
      (findSessionKey P { ring with keyPasswords := ring.keyPasswords.filter (fun q => !isDecoy q) }
        esks ae).map Prod.fst := by
  symm
  refine find_outcome_congr P ring
    { ring with keyPasswords := ring.keyPasswords.filter (fun q => !isDecoy q) } esks ae rfl ?_
  intro pk sk _
  simp only [foundKeys, pkFound]
  congr 1
  apply flatMap_congr_mem
  intro e _
  apply flatMap_congr_mem
  intro K _
  symm
  exact tryKey_filter P ring.keyPasswords (fun q => !isDecoy q)
    (fun q hq hk => hdec q hq (by simpa using hk)) e K

/-! ## clause 3 — non-recipients get an error, never a session key, never plaintext -/

/-- **non-recipient errors**: when no presented key obtains anything from any PKESK, no presented
password opens any SKESK and no session key is presented, the search finds no key (or rejects the
message for a Plaintext-algorithm SKESK) -/
theorem non_recipient_errors (P : Prims PLAIN ENC PW CT SCT) (ring : Ring PLAIN ENC PW)
    (esks : List (Esk CT SCT)) (ae : Bool)
    (hk : ∀ K ∈ ring.secretKeys, ∀ e, Esk.pk e ∈ esks → (tryKey P ring.keyPasswords e K).2 = [])
    (hp : ∀ pw ∈ ring.messagePasswords, ∀ ver alg ct, Esk.sk (.known ver alg ct) ∈ esks → P.skDec ct pw = none)
    (hs : ring.sessionKeys = []) :
    (∃ rr, findSessionKey P ring esks ae = .ok (none, rr)) ∨
      findSessionKey P ring esks ae = .error .plaintextSkesk := by
  cases hg : groupEsks esks with
  | error e =>
    right
    rw [find_group_error P ring esks ae (Or.inr hs) e hg, groupEsks_error hg]
  | ok v =>
    obtain ⟨pk, sk⟩ := v
    left
    have hmem := groupEsks_mem hg
    apply find_none P ring esks ae (Or.inr hs) pk sk hg
    cases hf : foundKeys P ring ae pk sk with
    | nil => rfl
    | cons a t =>
      exfalso
      have ha : a ∈ foundKeys P ring ae pk sk := by rw [hf]; exact List.mem_cons_self ..
      rw [mem_foundKeys] at ha
      rcases ha with ⟨e, he, K, hK, h⟩ | ⟨e, he, _, h⟩ | h
      · rw [hk K hK e ((hmem.1 e).1 he)] at h
        cases h
      · obtain ⟨alg, hm⟩ := (hmem.2 e.1 e.2).1 he
        obtain ⟨pw, hpw, hd⟩ := mem_skOpen_sound P ae ring.messagePasswords e.2 a h
        rw [hp pw hpw e.1 alg e.2 hm] at hd
        cases hd
      · rw [hs] at h
        cases h

/-- … hence `decrypt_the_ring` returns an error (`MissingKey`, or the Plaintext-SKESK rejection) and
never plaintext, right or wrong, whatever the encrypted data would open to -/
theorem non_recipient_never_plaintext (P : Prims PLAIN ENC PW CT SCT) (openEd : ED → SessionKey → Option PT)
    (ring : Ring PLAIN ENC PW) (esks : List (Esk CT SCT)) (ed : ED) (ae : Bool)
    (hk : ∀ K ∈ ring.secretKeys, ∀ e, Esk.pk e ∈ esks → (tryKey P ring.keyPasswords e K).2 = [])
    (hp : ∀ pw ∈ ring.messagePasswords, ∀ ver alg ct, Esk.sk (.known ver alg ct) ∈ esks → P.skDec ct pw = none)
    (hs : ring.sessionKeys = []) :
    decryptTheRing P openEd ring (.encrypted esks ed) ae = .error .missingKey ∨
      decryptTheRing P openEd ring (.encrypted esks ed) ae = .error (.find .plaintextSkesk) := by
  rcases non_recipient_errors P ring esks ae hk hp hs with ⟨rr, h⟩ | h
  · left; simp [decryptTheRing, h]
  · right; simp [decryptTheRing, h]

/-- primitive-level form of the key hypothesis: no reachable secret of any presented key decrypts anything -/
theorem non_recipient_keys_of_prims (P : Prims PLAIN ENC PW CT SCT) (ring : Ring PLAIN ENC PW)
    (h : ∀ K ∈ ring.secretKeys, ∀ c ∈ K.comps, ∀ p, Reach P ring.keyPasswords c p →
      ∀ ct v6, P.pkDec p ct v6 = none) :
    ∀ K ∈ ring.secretKeys, ∀ e : Pkesk CT, (tryKey P ring.keyPasswords e K).2 = [] :=
  fun K hK e => decoy_of_prims P ring.keyPasswords K (h K hK) e

/-- a recipient key whose encryption component is locked, presented without any password that unlocks
it, is a non-recipient: a locked component contributes only through `unlock` -/
theorem locked_without_password (P : Prims PLAIN ENC PW CT SCT) (kpws : List PW) (c : Comp PLAIN ENC)
    (e : ENC) (hs : c.secret = .encrypted e) (hno : ∀ pw ∈ kpws, P.unlock e pw = none) (p : PLAIN) :
    ¬ Reach P kpws c p := by
  rintro (h | ⟨e', pw, hm, he, hu⟩)
  · rw [hs] at h; cases h
  · rw [hs] at he
    cases he
    rw [hno pw hm] at hu
    cases hu

/-- **wrong session key**: `decrypt_with_session_key` hands the key to the data packet unexamined; if
the data does not open under it (C03) the result is an error, never plaintext -/
theorem wrong_session_key_errors (P : Prims PLAIN ENC PW CT SCT) (openEd : ED → SessionKey → Option PT)
    (esks : List (Esk CT SCT)) (ed : ED) (sk' : SessionKey) (h : openEd ed sk' = none) :
    decryptWithSessionKey P openEd sk' (.encrypted esks ed) = .error .edata := by
  simp [decryptWithSessionKey, decryptTheRing, findSessionKey, h, Except.map]

/-- the same through `decrypt_the_ring(abort_early = true)` with any other secrets in the ring: the
first explicit session key is used without looking at anything else -/
theorem wrong_session_key_first_errors (P : Prims PLAIN ENC PW CT SCT) (openEd : ED → SessionKey → Option PT)
    (ring : Ring PLAIN ENC PW) (esks : List (Esk CT SCT)) (ed : ED) (sk' : SessionKey) (rest : List SessionKey)
    (hr : ring.sessionKeys = sk' :: rest) (h : openEd ed sk' = none) :
    decryptTheRing P openEd ring (.encrypted esks ed) true = .error .edata := by
  obtain ⟨rr, hf⟩ := find_shortcut P ring esks sk' rest hr
  simp [decryptTheRing, hf, h]

/-- whatever is returned opens the data: plaintext is only ever produced by `openEd` under the chosen key -/
theorem plaintext_only_from_open (P : Prims PLAIN ENC PW CT SCT) (openEd : ED → SessionKey → Option PT)
    (ring : Ring PLAIN ENC PW) (esks : List (Esk CT SCT)) (ed : ED) (ae : Bool) (pt : PT) (rr : RingResult)
    (h : decryptTheRing P openEd ring (.encrypted esks ed) ae = .ok (pt, rr)) :
    ∃ k, findSessionKey P ring esks ae = .ok (some k, rr) ∧ openEd ed k = some pt := by
  unfold decryptTheRing at h
  cases hf : findSessionKey P ring esks ae with
  | error e => simp [hf] at h
  | ok v =>
    obtain ⟨ok, rr'⟩ := v
    cases ok with
    | none => simp [hf] at h
    | some k =>
      simp only [hf] at h
      cases ho : openEd ed k with
      | none => simp [ho] at h
      | some pt' =>
        simp only [ho, Except.ok.injEq, Prod.mk.injEq] at h
        obtain ⟨rfl, rfl⟩ := h
        exact ⟨k, rfl, ho⟩

/-! ## clause 4 — cross-checking -/

/-- whenever the comparison is reached (`abort_early` off, or no explicit session key), two collected
session keys that differ — from PKESKs, SKESKs or explicit keys, in any combination of groups, D18
being fixed — make the search fail -/
theorem crosscheck_conflict_found (P : Prims PLAIN ENC PW CT SCT) (ring : Ring PLAIN ENC PW)
    (esks : List (Esk CT SCT)) (ae : Bool) (hn : NoShortcut ring ae) (pk : List (Pkesk CT))
    (sk : List (Nat × SCT)) (hg : groupEsks esks = .ok (pk, sk)) (a b : SessionKey)
    (ha : a ∈ foundKeys P ring ae pk sk) (hb : b ∈ foundKeys P ring ae pk sk) (hne : a ≠ b) :
    findSessionKey P ring esks ae = .error .inconsistent :=
  (find_core P ring esks ae hn pk sk hg).1 (allEq_false_of_ne ha hb hne)

/-- conversely a successful search returns a collected key with which every collected key agrees -/
theorem success_all_agree (P : Prims PLAIN ENC PW CT SCT) (ring : Ring PLAIN ENC PW)
    (esks : List (Esk CT SCT)) (ae : Bool) (hn : NoShortcut ring ae) (pk : List (Pkesk CT))
    (sk : List (Nat × SCT)) (hg : groupEsks esks = .ok (pk, sk)) (k : SessionKey) (rr : RingResult)
    (h : findSessionKey P ring esks ae = .ok (some k, rr)) :
    k ∈ foundKeys P ring ae pk sk ∧ ∀ k' ∈ foundKeys P ring ae pk sk, k' = k :=
  find_ok_inv P ring esks ae hn pk sk hg k rr h

/-- with `abort_early` off every presented message password is tried on every (non-skipped) SKESK and
every session key so obtained takes part in the comparison (D18d repaired) -/
theorem every_password_cross_checked (P : Prims PLAIN ENC PW CT SCT) (ring : Ring PLAIN ENC PW)
    (pk : List (Pkesk CT)) (sk : List (Nat × SCT)) (ver : Nat) (ct : SCT) (he : (ver, ct) ∈ sk)
    (hskip : skSkip ring.gnupgAead ver = false) (pw : PW) (hpw : pw ∈ ring.messagePasswords) (k : SessionKey)
    (hk : P.skDec ct pw = some k) : k ∈ foundKeys P ring false pk sk := by
  rw [mem_foundKeys]
  exact Or.inr (Or.inl ⟨(ver, ct), he, hskip, (mem_skOpen_false P ring.messagePasswords ct k).2 ⟨pw, hpw, hk⟩⟩)

/-- **crosscheck conflict**, full strength: with `abort_early` off, two presented secrets — keys,
message passwords, explicit session keys, in any combination, anywhere in the ring — that each
alone yield a session key, the two being different, make the search fail: none is silently chosen. -/
theorem crosscheck_conflict (P : Prims PLAIN ENC PW CT SCT) (ring : Ring PLAIN ENC PW)
    (esks : List (Esk CT SCT)) (s1 s2 : Sec PLAIN ENC PW) (h1 : ring.Presents s1) (h2 : ring.Presents s2)
    (k1 k2 : SessionKey) (y1 : Yields P ring esks s1 k1) (y2 : Yields P ring esks s2 k2) (hne : k1 ≠ k2) :
    ∃ err, findSessionKey P ring esks false = .error err := by
  cases hg : groupEsks esks with
  | error e => exact ⟨e, find_group_error P ring esks false (Or.inl rfl) e hg⟩
  | ok v =>
    obtain ⟨pk, sk⟩ := v
    obtain ⟨rr1, f1⟩ := y1
    obtain ⟨rr2, f2⟩ := y2
    have m1 := (find_ok_inv P (ring.only s1) esks false (Or.inl rfl) pk sk hg k1 rr1 f1).1
    have m2 := (find_ok_inv P (ring.only s2) esks false (Or.inl rfl) pk sk hg k2 rr2 f2).1
    have g1 := found_only_subset P ring pk sk s1 h1 k1 m1
    have g2 := found_only_subset P ring pk sk s2 h2 k2 m2
    exact ⟨_, crosscheck_conflict_found P ring esks false (Or.inl rfl) pk sk hg k1 k2 g1 g2 hne⟩

/-- the error is the conflict itself unless the message is rejected for a Plaintext-algorithm SKESK -/
theorem crosscheck_conflict_class (P : Prims PLAIN ENC PW CT SCT) (ring : Ring PLAIN ENC PW)
    (esks : List (Esk CT SCT)) (s1 s2 : Sec PLAIN ENC PW) (h1 : ring.Presents s1) (h2 : ring.Presents s2)
    (k1 k2 : SessionKey) (y1 : Yields P ring esks s1 k1) (y2 : Yields P ring esks s2 k2) (hne : k1 ≠ k2) :
    findSessionKey P ring esks false = .error .inconsistent := by
  obtain ⟨rr1, f1⟩ := y1
  cases hg : groupEsks esks with
  | error e =>
    rw [find_group_error P (ring.only s1) esks false (Or.inl rfl) e hg] at f1
    cases f1
  | ok v =>
    obtain ⟨pk, sk⟩ := v
    obtain ⟨rr2, f2⟩ := y2
    have m1 := (find_ok_inv P (ring.only s1) esks false (Or.inl rfl) pk sk hg k1 rr1 f1).1
    have m2 := (find_ok_inv P (ring.only s2) esks false (Or.inl rfl) pk sk hg k2 rr2 f2).1
    exact crosscheck_conflict_found P ring esks false (Or.inl rfl) pk sk hg k1 k2
      (found_only_subset P ring pk sk s1 h1 k1 m1) (found_only_subset P ring pk sk s2 h2 k2 m2) hne

/-- the conflict surfaces as an error of `decrypt_the_ring`, never as plaintext -/
theorem crosscheck_conflict_no_plaintext (P : Prims PLAIN ENC PW CT SCT) (openEd : ED → SessionKey → Option PT)
    (ring : Ring PLAIN ENC PW) (esks : List (Esk CT SCT)) (ed : ED) (err : FindErr)
    (h : findSessionKey P ring esks false = .error err) :
    decryptTheRing P openEd ring (.encrypted esks ed) false = .error (.find err) := by
  simp [decryptTheRing, h]

/-- the former D18d witness: one SKESK that every password opens to its own key (v4 SKESK without
encrypted session key), passwords 0 and 1 presented with `abort_early = false` — now a conflict;
with `abort_early = true` the first password is used, as documented ("the first available session
key will be used") -/
theorem crosscheck_direct_skesk_now_conflict :
    findSessionKey Witness.direct (Witness.ringPw [0, 1]) Witness.oneSkesk false = .error .inconsistent ∧
    findSessionKey Witness.direct (Witness.ringPw [0, 1]) Witness.oneSkesk true =
      .ok (some (.v3_4 7 [0]), ⟨[], [.ok, .unchecked], []⟩) :=
  ⟨rfl, rfl⟩

/-! ## `abort_early` -/

/-- with `abort_early` the first explicit session key is returned at once: nothing else is examined,
every other entry of the `RingResult` stays `Unchecked` -/
theorem abort_early_explicit_key (P : Prims PLAIN ENC PW CT SCT) (ring : Ring PLAIN ENC PW)
    (esks : List (Esk CT SCT)) (sk : SessionKey) (rest : List SessionKey) (h : ring.sessionKeys = sk :: rest) :
    findSessionKey P ring esks true = .ok (some sk,
      ⟨List.replicate ring.secretKeys.length .unchecked, List.replicate ring.messagePasswords.length .unchecked,
        .ok :: List.replicate rest.length .unchecked⟩) := by
  simp [findSessionKey, h, List.replicate_succ]

/-- without explicit session keys and with at most one message password `abort_early` changes nothing
(with several passwords it decides whether the SKESK loop stops at the first that opens a packet) -/
theorem abort_early_irrelevant (P : Prims PLAIN ENC PW CT SCT) (ring : Ring PLAIN ENC PW)
    (esks : List (Esk CT SCT)) (h : ring.sessionKeys = []) (hp : ring.messagePasswords.length ≤ 1) :
    findSessionKey P ring esks true = findSessionKey P ring esks false := by
  simp only [findSessionKey, h]
  cases groupEsks esks with
  | error e => rfl
  | ok v =>
    simp only [findCore, skeskPhase_ae_short P ring.gnupgAead ring.messagePasswords hp]

/-! ## what the `RingResult` reports (observation, not a clause of the property) -/

/-- every PKESK resets and overwrites every entry of `secret_keys`: the vector that is returned
describes the *last* PKESK of the message only -/
theorem ring_result_reports_last_pkesk (P : Prims PLAIN ENC PW CT SCT) (kpws : List PW)
    (keys : List (SecKey PLAIN ENC)) (es : List (Pkesk CT)) (e : Pkesk CT) (res : List InnerRes)
    (found : List SessionKey) :
    (pkeskPhase P kpws keys (es ++ [e]) res found).1 = keys.map (fun k => (tryKey P kpws e k).1) :=
  pkeskPhase_res_last P kpws keys es e res found

/-- so a key that obtained the session key from an earlier PKESK is reported `NoMatch`: message to
keys 0 and 1, key 0 presented alone — the search succeeds, the report says "no matching ESK" -/
theorem ring_result_nomatch_although_used :
    findSessionKey Witness.twoKeys
      { secretKeys := [Witness.keyN 0], keyPasswords := [], messagePasswords := [], sessionKeys := [] }
      Witness.twoPkesks false = .ok (some Witness.kA, ⟨[.noMatch], [], []⟩) := rfl

/-! ## the plausibility checks behind the primitives -/

theorem be16_length (n : Nat) : (be16 n).length = 2 := rfl

/-- v6 PKESK payload written by `prepare_session_key_for_encryption` decodes to the session key -/
theorem prepare_decode_v6 (key : Bytes) :
    decodePkSessionKey true (prepareSessionKey none key false) = some (.v6 key) := by
  have h2 : Gen.pkV6MinLen = 2 := rfl
  have h3 : Gen.pkV6ChecksumLen = 2 := rfl
  simp only [decodePkSessionKey, prepareSessionKey, List.nil_append, if_true, h2, h3, List.length_append,
    be16_length, Bool.false_eq_true, if_false]
  have : ¬ (key.length + 2 < 2) := by omega
  simp only [this, if_false, Nat.add_sub_cancel, List.take_left', List.drop_left', if_true]

/-- v3 PKESK payload (algorithm octet, key, checksum) decodes to algorithm + key, for every
algorithm whose key size is the key's length -/
theorem prepare_decode_v3 (alg : Nat) (key : Bytes) (hlt : alg < 256) (h0 : alg ≠ Gen.symIdPlaintext)
    (hks : Gen.symKeySize alg = key.length) :
    decodePkSessionKey false (prepareSessionKey (some alg) key false) = some (.v3_4 alg key) := by
  have h3 : Gen.pkV3Overhead = 3 := rfl
  have h4 : Gen.pkV3ChecksumEndOffset = 3 := rfl
  have ha : alg.toUInt8.toNat = alg := by
    simp only [Nat.toUInt8, UInt8.toNat_ofNat']
    omega
  simp only [decodePkSessionKey, prepareSessionKey, Bool.false_eq_true, if_false, List.cons_append,
    List.nil_append, ha, h0, hks, h3, h4, List.length_cons, List.length_append, be16_length, List.drop_succ_cons,
    List.drop_zero]
  have : ¬ (key.length + 2 + 1 ≠ key.length + 3) := by omega
  simp only [this, if_false, List.take_left', List.drop_left']
  have t2 : List.take 2 (be16 (checksum16 key)) = be16 (checksum16 key) := rfl
  simp [t2]

/-- what the v3 tail accepts: never the Plaintext algorithm, key length = the algorithm's key size -/
theorem decode_v3_guarantees (d : Bytes) (alg : Nat) (key : Bytes)
    (h : decodePkSessionKey false d = some (.v3_4 alg key)) :
    alg ≠ Gen.symIdPlaintext ∧ d.length = Gen.symKeySize alg + 3 ∧ key = (d.drop 1).take (Gen.symKeySize alg) := by
  have h3 : Gen.pkV3Overhead = 3 := rfl
  cases d with
  | nil => simp [decodePkSessionKey] at h
  | cons a t =>
    by_cases c0 : a.toNat = Gen.symIdPlaintext
    · simp [decodePkSessionKey, c0] at h
    · simp [decodePkSessionKey, c0, h3] at h
      obtain ⟨hl, _, rfl, rfl⟩ := h
      exact ⟨c0, by simp [hl], by simp⟩

/-- SKESK v4 plausibility: accepted iff the first octet is a known algorithm whose key size is the
number of remaining octets — nothing ties the octets to the password -/
theorem skesk_v4_plausible_iff (a : Byte) (key : Bytes) (s : SessionKey) :
    decodeSkeskV4 (a :: key) = some s ↔
      Gen.symKeySize a.toNat ≠ 0 ∧ Gen.symKeySize a.toNat = key.length ∧ s = .v3_4 a.toNat key := by
  simp only [decodeSkeskV4]
  by_cases c0 : Gen.symKeySize a.toNat = 0
  · simp [c0]
  · by_cases c1 : Gen.symKeySize a.toNat ≠ key.length
    · simp [c0, c1]
    · simp only [c0, c1, if_false, Option.some.injEq]
      constructor
      · intro h; exact ⟨c0, by simpa using c1, h.symm⟩
      · rintro ⟨_, _, h⟩; exact h.symm

/-- hence *any* 16 octets behind an octet 1, 3, 4, 7 or 11 pass (and 24 behind 2, 8, 12; 32 behind
9, 10, 13): a wrong password passes for 5 (resp. 3) of the 256 values of the first octet -/
theorem skesk_v4_no_integrity (key : Bytes) (h : key.length = 16) :
    decodeSkeskV4 (11 :: key) = some (.v3_4 11 key) ∧ decodeSkeskV4 (7 :: key) = some (.v3_4 7 key) ∧
    decodeSkeskV4 (1 :: key) = some (.v3_4 1 key) ∧ decodeSkeskV4 (3 :: key) = some (.v3_4 3 key) ∧
    decodeSkeskV4 (4 :: key) = some (.v3_4 4 key) := by
  refine ⟨?_, ?_, ?_, ?_, ?_⟩ <;> simp [decodeSkeskV4, h] <;> decide

/-! ## "a wrong session key … never plaintext", session keys of every cipher: octet strings of another
length than the cipher's key size are never handed to the cipher (repair D18d).  The ciphers themselves
are outside the model; what is proved is that the CFB containers (SEIPDv1, SED) admit a v3/v4 session
key only at exactly the key size of the cipher it names, so that the variable-length key schedules of
Blowfish and CAST5 (which map `K ‖ K`, resp. `K` without trailing zero octets, to the schedule of `K`)
are out of reach. -/

theorem d18d_repaired : Gen.fixD18dCfbSessionKeyLenChecked = 1 := by decide

theorem cfb_admits_only_the_key_size (sym keyLen : Nat) (h : Panics.cfbNew sym keyLen = .ok ()) :
    keyLen = Panics.symKeySize sym ∧ Panics.symKeySize sym ≠ 0 := by
  unfold Panics.cfbNew at h
  rw [if_pos d18d_repaired] at h
  unfold Panics.cfbNewFixed Panics.cfbNewPreFix at h
  split at h
  · cases h
  · rename_i hk
    split at h
    · cases h
    · rename_i h0
      exact ⟨by simpa using hk, h0⟩

theorem seipd1_session_key_has_the_key_size (alg keyLen : Nat)
    (h : Panics.seipd1Admit (.v34 alg) keyLen = .ok ()) : keyLen = Panics.symKeySize alg :=
  (cfb_admits_only_the_key_size alg keyLen (by simpa [Panics.seipd1Admit] using h)).1

theorem sed_session_key_has_the_key_size (legacy : Bool) (alg keyLen : Nat)
    (h : Panics.sedAdmit legacy (.v34 alg) keyLen = .ok ()) : keyLen = Panics.symKeySize alg := by
  unfold Panics.sedAdmit at h
  split at h
  · cases h
  · exact (cfb_admits_only_the_key_size alg keyLen h).1

/-- regression witness: before the repair a 32-octet key was admitted for Blowfish (key size 16) and a
15-octet key for CAST5 (key size 16); the repaired admission refuses both and still takes 16 octets -/
theorem d18d_witness :
    Panics.cfbNewPreFix Gen.symIdBlowfish 32 = .ok () ∧ Panics.cfbNewFixed Gen.symIdBlowfish 32 = .err ∧
    Panics.cfbNewPreFix Gen.symIdCAST5 15 = .ok () ∧ Panics.cfbNewFixed Gen.symIdCAST5 15 = .err ∧
    Panics.cfbNewFixed Gen.symIdBlowfish 16 = .ok () ∧ Panics.cfbNewFixed Gen.symIdCAST5 16 = .ok () := by decide

/-! ## non-vacuity and concrete evaluations -/

example : decodePkSessionKey false [9, 1, 2, 0, 3] = none := by decide
example : decodePkSessionKey true [1, 2, 0, 3] = some (.v6 [1, 2]) := by decide
example : decodePkSessionKey true [1, 2, 0, 4] = none := by decide
example : prepareSessionKey (some 7) [1, 255] false = [7, 1, 255, 1, 0] := by decide
example : decodeX25519SessionKey false none [1] = none ∧ decodeX25519SessionKey true none [1] = some (.v6 [1]) := by
  decide
example : (Pkesk.v3 wildcardKeyId (0 : Nat)).matchIdentity ⟨[1, 2, 3, 4, 5, 6, 7, 8], ⟨4, []⟩⟩ = true := by decide
example : (Pkesk.v6 (some ⟨4, [1]⟩) (0 : Nat)).matchIdentity ⟨[], ⟨6, [1]⟩⟩ = false := by decide
/-- the hypotheses of `each_password_recipient_alone_partial` are satisfiable (password 0 of the
false-positive instance opens only its own packet) -/
example : ∃ rr, findSessionKey Witness.falsePositive (Witness.ringPw [0]) Witness.twoSkesks true
    = .ok (some Witness.kA, rr) := ⟨_, rfl⟩
/-- D18 (fixed): a bogus explicit session key next to a password that opens the SKESK is a conflict -/
example : findSessionKey Witness.direct
    { Witness.ringPw [0] with sessionKeys := [.v3_4 7 [9]] } Witness.oneSkesk false = .error .inconsistent := rfl

end Rpgp.C18
