//! Independent (RFC 9580 §4.2) packet framing encoder used by the harness, plus the digest and
//! test pattern shared with the Lean driver.

/// adler-like digest: (len, s1, s2) — same as `Rpgp.cksum` in the model
pub fn cksum(bs: &[u8]) -> String {
    let (mut a, mut b) = (1u64, 0u64);
    for &x in bs {
        a = (a + x as u64) % 65521;
        b = (b + a) % 65521;
    }
    format!("{}.{}.{}", bs.len(), a, b)
}

/// same as `Rpgp.pattern`
pub fn pattern(seed: usize, n: usize) -> Vec<u8> {
    (0..n).map(|i| ((i * 7 + seed * 13 + i / 251) % 256) as u8).collect()
}

pub fn new_len(form: u8, n: usize) -> Option<Vec<u8>> {
    match form {
        1 if n < 192 => Some(vec![n as u8]),
        2 if (192..8384).contains(&n) => Some(vec![((n - 192) / 256 + 192) as u8, ((n - 192) % 256) as u8]),
        5 if n < (1usize << 32) => {
            let mut v = vec![255u8];
            v.extend_from_slice(&(n as u32).to_be_bytes());
            Some(v)
        }
        _ => None,
    }
}

pub fn new_len_min(n: usize) -> Vec<u8> {
    new_len(1, n).or_else(|| new_len(2, n)).or_else(|| new_len(5, n)).expect("len")
}

pub fn old_len(lt: u8, n: usize) -> Option<Vec<u8>> {
    match lt {
        0 if n < 256 => Some(vec![n as u8]),
        1 if n < 65536 => Some((n as u16).to_be_bytes().to_vec()),
        2 if n < (1usize << 32) => Some((n as u32).to_be_bytes().to_vec()),
        _ => None,
    }
}

/// fixed-length packet in a chosen header form
pub fn frame_fixed(new_format: bool, tag: u8, form: u8, body: &[u8]) -> Option<Vec<u8>> {
    let mut out = Vec::with_capacity(body.len() + 6);
    if new_format {
        out.push(0xC0 | tag);
        out.extend(new_len(form, body.len())?);
    } else {
        out.push(0x80 | (tag << 2) | form);
        out.extend(old_len(form, body.len())?);
    }
    out.extend_from_slice(body);
    Some(out)
}

pub fn frame_indet(tag: u8, body: &[u8]) -> Vec<u8> {
    let mut out = vec![0x80 | (tag << 2) | 3];
    out.extend_from_slice(body);
    out
}

/// partial body: chunks 2^k for k in segs, then a final fixed chunk (minimal length form)
pub fn frame_partial(tag: u8, segs: &[u8], body: &[u8]) -> Option<Vec<u8>> {
    let mut out = vec![0xC0 | tag];
    let mut pos = 0usize;
    for &k in segs {
        let n = 1usize << k;
        if body.len() - pos < n {
            return None;
        }
        out.push(224 + k);
        out.extend_from_slice(&body[pos..pos + n]);
        pos += n;
    }
    out.extend(new_len_min(body.len() - pos));
    out.extend_from_slice(&body[pos..]);
    Some(out)
}
