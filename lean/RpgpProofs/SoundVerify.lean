import RpgpProofs.Sound
/-!
# SoundVerify — the reduction, entry point by entry point (C02)

`sound_of_established`: a successful `check` on the digest of an `Established` pre-image (C11)
means an honest signer signed exactly this input under this key material.  Then one lemma per
entry point that supplies the `Established` fact from the corresponding C11 refinement lemma.
-/
namespace Rpgp.Sound
open Rpgp Rpgp.SigDigest

/-- `established_wf` without the side condition on `created` (it does not enter a v4 / v6
pre-image) -/
theorem established_wf' (c : Cfg) (s : Spec.Subject) (p : Bytes) (h : Established c s p) (hv3 : c.ver ≠ .v3)
    (hcls : Spec.classOf c.typ = some s.cls)
    (hcan : ∀ d, s = .document d → c.typ = 0x01 → canon d = d) :
    Spec.WF (c.toInput s) = true := by
  let d : Cfg := { c with created := 0 }
  have e1 : d.toInput s = c.toInput s := by
    cases hc : c.ver <;> simp_all [Cfg.toInput, d]
  have ft1 : fieldsAndTrailer d = fieldsAndTrailer c := by
    cases hc : c.ver
    · exact absurd hc hv3
    · rw [fieldsAndTrailer_v4 c hc, fieldsAndTrailer_v4 d (by simp [d, hc])]
    · rw [fieldsAndTrailer_v6 c hc, fieldsAndTrailer_v6 d (by simp [d, hc])]
      simp [saltSizeOk, d]
  have hd : Established d s p := ⟨by rw [e1]; exact h.1, h.2.1, by rw [ft1]; exact h.2.2⟩
  have := established_wf d s p hd hcls hcan (by simp [d])
  rw [e1] at this
  exact this

theorem toInput_ver' (c : Cfg) (s : Spec.Subject) : (c.toInput s).ver = c.ver := by
  cases hv : c.ver <;> simp [Cfg.toInput, hv]

/-- the core of every `verify_sound_*` theorem -/
theorem sound_of_established (P : Prims) (L : List (Bytes × Bytes)) (S : List Signed) (flag : Nat)
    (k : VKey) (s : Sig) (p : Bytes) (subj : Spec.Subject)
    (hU : Unforgeable P L) (hH : LogHonest P L S) (hS : HonestInputs S)
    (hE : Established s.cfg subj p) (hv : s.cfg.ver ≠ .v3)
    (hcls : Spec.classOf s.cfg.typ = some subj.cls)
    (hcan : ∀ d, subj = .document d → s.cfg.typ = 0x01 → canon d = d)
    (hC : CollisionFreeOn P S s.cfg.hash p)
    (h : check flag P k s (P.hash s.cfg.hash p) = .ok) :
    ∃ e ∈ S, e.km = k.mat ∧ e.input = s.cfg.toInput subj := by
  obtain ⟨e, he, hkm, hp⟩ := sound_core P L S flag k s p hU hH hC h
  refine ⟨e, he, hkm, ?_⟩
  have wf := established_wf' s.cfg subj p hE hv hcls hcan
  have hv' : (s.cfg.toInput subj).ver ≠ .v3 := by rw [toInput_ver']; exact hv
  exact preimage_injective_v4v6 e.input _ (hS e he).2 hv' (hS e he).1 wf (by rw [hp, hE.1])

/-! ## `Signature::verify` (detached, cleartext) -/

theorem established_docRep (c : Cfg) (d p : Bytes) (h : Established c (.document d) p) :
    Established c (.document (docRep c.typ d)) p :=
  ⟨by rw [preimage_docRep]; exact h.1, by simp [Spec.subjectWF], h.2.2⟩

theorem verifyData_sound (P : Prims) (L : List (Bytes × Bytes)) (S : List Signed) (k : VKey) (s : Sig) (d : Bytes)
    (hU : Unforgeable P L) (hH : LogHonest P L S) (hS : HonestInputs S)
    (hv : s.cfg.ver ≠ .v3) (hty : s.cfg.typ = typBinary ∨ s.cfg.typ = typText)
    (hC : ∀ p, SigDigest.verifyData s.cfg k.ver d = some p → CollisionFreeOn P S s.cfg.hash p)
    (h : verifyData P k s d = .ok) :
    ∃ e ∈ S, e.km = k.mat ∧ e.input = s.cfg.toInput (.document (docRep s.cfg.typ d)) := by
  obtain ⟨p, hp, hc⟩ := (finish_ok_iff _ P k s _).1 h
  obtain ⟨_, _, _, _, _, _, hd, _⟩ := dataPre_ok _ k s d p hp
  have hE := established_docRep s.cfg d p (verifyData_eq_spec s.cfg k.ver d p hty hd)
  have hcls : Spec.classOf s.cfg.typ = some (Spec.Subject.document (docRep s.cfg.typ d)).cls := by
    rcases hty with h | h <;> simp [h, Spec.classOf, Spec.Subject.cls, typBinary_eq, typText_eq]
  exact sound_of_established P L S _ k s p _ hU hH hS hE hv hcls
    (fun x hx ht => docRep_canonical s.cfg.typ d x hx ht) (hC p hd) hc

/-! ## certifications, key signatures, bindings -/

theorem verifyCert_sound (P : Prims) (L : List (Bytes × Bytes)) (S : List Signed) (signer : VKey) (signee : Key)
    (s : Sig) (tag : Nat) (id : Ser)
    (hU : Unforgeable P L) (hH : LogHonest P L S) (hS : HonestInputs S)
    (hv : s.cfg.ver ≠ .v3) (ht : signee.ser.truthful) (hi : id.truthful)
    (hC : ∀ p, verifyCertification s.cfg signer.ver signee tag id = some p → CollisionFreeOn P S s.cfg.hash p)
    (h : verifyCert P signer signee s tag id = .ok) :
    ∃ e ∈ S, e.km = signer.mat ∧
      e.input = s.cfg.toInput (.certification signee.toSpec (tag == tagUserAttribute) id.bytes) := by
  obtain ⟨p, hp, hc⟩ := (finish_ok_iff _ P signer s _).1 h
  obtain ⟨_, _, _, _, _, _, hd, _⟩ := certPre_ok _ signer signee s tag id p hp
  obtain ⟨hE, hcl⟩ := verifyCertification_eq_spec s.cfg signer.ver signee tag id p hd ht hi
  exact sound_of_established P L S _ signer s p _ hU hH hS hE hv (by simpa [Spec.Subject.cls] using hcl)
    (by intro d hd; cases hd) (hC p hd) hc

theorem verifyKey_sound (P : Prims) (L : List (Bytes × Bytes)) (S : List Signed) (signer : VKey) (signee : Key) (s : Sig)
    (hU : Unforgeable P L) (hH : LogHonest P L S) (hS : HonestInputs S)
    (hv : s.cfg.ver ≠ .v3) (ht : signee.ser.truthful)
    (hC : ∀ p, SigDigest.verifyKey s.cfg signer.ver signee = some p → CollisionFreeOn P S s.cfg.hash p)
    (h : verifyKey P signer signee s = .ok) :
    ∃ e ∈ S, e.km = signer.mat ∧ e.input = s.cfg.toInput (.directKey signee.toSpec) := by
  obtain ⟨p, hp, hc⟩ := (finish_ok_iff _ P signer s _).1 h
  obtain ⟨_, _, _, _, _, _, hd, _⟩ := keyPre_ok _ signer signee s p hp
  obtain ⟨hE, hcl⟩ := verifyKey_eq_spec s.cfg signer.ver signee p hd ht
  exact sound_of_established P L S _ signer s p _ hU hH hS hE hv (by simpa [Spec.Subject.cls] using hcl)
    (by intro d hd; cases hd) (hC p hd) hc

theorem verifySubkeyBinding_sound (P : Prims) (L : List (Bytes × Bytes)) (S : List Signed) (primary : VKey) (sub : Key) (s : Sig)
    (hU : Unforgeable P L) (hH : LogHonest P L S) (hS : HonestInputs S)
    (hv : s.cfg.ver ≠ .v3) (tp : primary.ser.truthful) (ts : sub.ser.truthful)
    (hC : ∀ p, SigDigest.verifySubkeyBinding s.cfg primary.toKey sub = some p → CollisionFreeOn P S s.cfg.hash p)
    (h : verifySubkeyBinding P primary sub s = .ok) :
    ∃ e ∈ S, e.km = primary.mat ∧ e.input = s.cfg.toInput (.binding primary.toKey.toSpec sub.toSpec) := by
  obtain ⟨p, hp, hc⟩ := (finish_ok_iff _ P primary s _).1 h
  obtain ⟨_, _, _, _, _, hd, _⟩ := subkeyBindingPre_ok _ primary sub s p hp
  obtain ⟨hE, hcl⟩ := verifySubkeyBinding_eq_spec s.cfg primary.toKey sub p hd tp ts
  exact sound_of_established P L S _ primary s p _ hU hH hS hE hv (by simpa [Spec.Subject.cls] using hcl)
    (by intro d hd; cases hd) (hC p hd) hc

theorem verifyPrimaryKeyBinding_sound (P : Prims) (L : List (Bytes × Bytes)) (S : List Signed) (sub : VKey) (primary : Key) (s : Sig)
    (hU : Unforgeable P L) (hH : LogHonest P L S) (hS : HonestInputs S)
    (hv : s.cfg.ver ≠ .v3) (tp : primary.ser.truthful) (ts : sub.ser.truthful)
    (hC : ∀ p, SigDigest.verifyPrimaryKeyBinding s.cfg sub.toKey primary = some p → CollisionFreeOn P S s.cfg.hash p)
    (h : verifyPrimaryKeyBinding P sub primary s = .ok) :
    ∃ e ∈ S, e.km = sub.mat ∧ e.input = s.cfg.toInput (.binding primary.toSpec sub.toKey.toSpec) := by
  obtain ⟨p, hp, hc⟩ := (finish_ok_iff _ P sub s _).1 h
  obtain ⟨_, _, _, _, _, hd, _⟩ := primaryKeyBindingPre_ok _ sub primary s p hp
  obtain ⟨hE, hcl⟩ := verifyPrimaryKeyBinding_eq_spec s.cfg sub.toKey primary p hd tp ts
  exact sound_of_established P L S _ sub s p _ hU hH hS hE hv (by simpa [Spec.Subject.cls] using hcl)
    (by intro d hd; cases hd) (hC p hd) hc

/-! ## inline signatures -/

/-- what a filled hash slot means -/
theorem inlineTail_ok (s : Sig) (ft : Bytes) :
    inlineTail s = .ok ft ↔ areaScanOk s.cfg s.hashed = true ∧ fieldsAndTrailer s.cfg = some ft := by
  unfold inlineTail
  by_cases ha : areaScanOk s.cfg s.hashed = true
  · simp only [ha, Bool.not_true, Bool.false_eq_true, if_false, true_and]
    cases fieldsAndTrailer s.cfg <;> simp
  · simp [ha]

theorem inlinePre_some (hk : Byte → Bool) (ops : Option Ops) (s : Sig) (chunks : List Bytes) (a : Byte) (p : Bytes)
    (h : inlinePre hk ops s chunks = .ok (some (a, p))) :
    a = s.cfg.hash ∧ s.known = true ∧ areaScanOk s.cfg s.hashed = true ∧
    (∀ o, ops = some o → opsMatches o s = true) ∧
    ∃ ft, fieldsAndTrailer s.cfg = some ft ∧
      p = saltBytes s.cfg ++ inlineBody (s.cfg.typ == typText) chunks ++ ft := by
  unfold inlinePre at h
  cases ops with
  | none =>
    simp only at h
    by_cases h1 : (!s.known) = true
    · simp [h1] at h
    by_cases h2 : (!hk s.cfg.hash) = true
    · simp [h1, h2] at h
    by_cases h3 : (!saltSizeOk s.cfg) = true
    · simp [h1, h2, h3] at h
    rw [if_neg h1, if_neg h2, if_neg h3] at h
    cases hT : inlineTail s with
    | error g => simp [hT] at h
    | ok ft =>
      simp only [hT, Except.ok.injEq, Option.some.injEq, Prod.mk.injEq] at h
      obtain ⟨rfl, rfl⟩ := h
      obtain ⟨hs, hft⟩ := (inlineTail_ok s ft).1 hT
      refine ⟨rfl, ?_, hs, ?_, ft, hft, rfl⟩
      · simpa using h1
      · intro o ho; cases ho
  | some o =>
    simp only at h
    by_cases h1 : (!hk o.hash) = true
    · simp [h1] at h
    by_cases h2 : (o.ver == Gen.sndOpsV6 && Gen.sdSaltLenOf o.hash.toNat != some o.salt.length) = true
    · simp [h1, h2] at h
    by_cases h3 : Gen.sndOpsNoneOnMismatch = 1 ∧ (!opsMatches o s) = true
    · simp [h1, h2, h3] at h
    by_cases h4 : (!s.known) = true
    · simp [h1, h2, h3, h4] at h
    rw [if_neg h1, if_neg h2, if_neg h3, if_neg h4] at h
    cases hT : inlineTail s with
    | error g => simp [hT] at h
    | ok ft =>
      simp only [hT, Except.ok.injEq, Option.some.injEq, Prod.mk.injEq] at h
      obtain ⟨rfl, rfl⟩ := h
      obtain ⟨hs, hft⟩ := (inlineTail_ok s ft).1 hT
      have hm : opsMatches o s = true := by
        have : Gen.sndOpsNoneOnMismatch = 1 := by decide
        simp only [this, true_and, Bool.not_eq_true', Bool.not_eq_false] at h3
        simpa using h3
      have hm' := hm
      unfold opsMatches at hm'
      simp only [Bool.and_eq_true, Bool.or_eq_true, beq_iff_eq] at hm'
      obtain ⟨⟨⟨⟨hkn', hty⟩, hha⟩, _⟩, hvs⟩ := hm'
      refine ⟨hha, hkn', hs, ?_, ft, hft, ?_⟩
      · intro o' ho'; cases ho'; exact hm
      rcases hvs with ⟨h3', h4'⟩ | ⟨⟨h6, hv6⟩, hsalt⟩
      · have e : (o.ver == Gen.sndOpsV6) = false := by
          have : o.ver = 3 := by simpa [Gen.sndOpsV3] using h3'
          simp [this, Gen.sndOpsV6]
        simp [e, saltBytes, h4', hty]
      · have e : (o.ver == Gen.sndOpsV6) = true := by simpa using h6
        simp [e, saltBytes, hv6, hsalt, hty]

/-- the slot's pre-image is the one `SigDigest.verifyInline` (C11) describes -/
theorem inline_established (s : Sig) (chunks : List Bytes) (ft : Bytes)
    (hft : fieldsAndTrailer s.cfg = some ft)
    (hty : (s.cfg.typ == typBinary || s.cfg.typ == typText) = true) :
    Established s.cfg (.document chunks.flatten)
      (saltBytes s.cfg ++ inlineBody (s.cfg.typ == typText) chunks ++ ft) ∧
    Spec.classOf s.cfg.typ = some .doc := by
  have hs := fieldsAndTrailer_saltSizeOk s.cfg ft hft
  have hal : verifyAligned s.cfg (if s.cfg.ver = .v6 then 6 else 4) = true := by
    cases hv : s.cfg.ver <;> simp [verifyAligned, hv]
  have : SigDigest.verifyInline s.cfg (if s.cfg.ver = .v6 then 6 else 4) chunks =
      some (saltBytes s.cfg ++ inlineBody (s.cfg.typ == typText) chunks ++ ft) := by
    unfold SigDigest.verifyInline inlineBody
    simp [hs, hft, hty, hal]
  exact verifyInline_eq_spec s.cfg _ chunks _ this

theorem verifyInline_some_ok (P : Prims) (k : VKey) (s : Sig) (d : Bytes) (h : verifyInline P k s (some d) = .ok) :
    s.known = true ∧ (s.cfg.typ == typBinary || s.cfg.typ == typText) = true ∧
    verifyAligned s.cfg k.ver = true ∧ strengthOk s.cfg = true ∧ matchIdentity s k = true ∧
    check Gen.sndLeft16Inline P k s d = .ok := by
  unfold verifyInline at h
  simp only at h
  have hg : Gen.inlineChecksPreconditions = 1 := by decide
  simp only [hg, true_and] at h
  by_cases h1 : (!s.known) = true
  · simp [h1] at h
  by_cases h2 : (!(s.cfg.typ == typBinary || s.cfg.typ == typText)) = true
  · simp [h1, h2] at h
  by_cases h3 : (!verifyAligned s.cfg k.ver) = true
  · simp [h1, h2, h3] at h
  by_cases h4 : (!strengthOk s.cfg) = true
  · simp [h1, h2, h3, h4] at h
  by_cases h5 : (!matchIdentity s k) = true
  · simp [h1, h2, h3, h4, h5] at h
  rw [if_neg h1, if_neg h2, if_neg h3, if_neg h4, if_neg h5] at h
  exact ⟨bool_of_not_bnot _ h1, bool_of_not_bnot _ h2, bool_of_not_bnot _ h3, bool_of_not_bnot _ h4,
    bool_of_not_bnot _ h5, h⟩

theorem verifyMessage_sound (P : Prims) (L : List (Bytes × Bytes)) (S : List Signed) (k : VKey)
    (ops : Option Ops) (s : Sig) (chunks : List Bytes)
    (hU : Unforgeable P L) (hH : LogHonest P L S) (hS : HonestInputs S) (hv : s.cfg.ver ≠ .v3)
    (hC : ∀ a p, inlinePre P.hashKnown ops s chunks = .ok (some (a, p)) → CollisionFreeOn P S s.cfg.hash p)
    (h : verifyMessage P k ops s chunks = .ok) :
    ∃ e ∈ S, e.km = k.mat ∧ e.input = s.cfg.toInput (.document (docRep s.cfg.typ chunks.flatten)) := by
  unfold verifyMessage inlineSlot at h
  cases hp : inlinePre P.hashKnown ops s chunks with
  | error g => simp [hp, Except.map] at h
  | ok slot =>
    cases slot with
    | none =>
      simp [hp, Except.map, verifyInline, Gen.sndInlineNoneIsError] at h
    | some ap =>
      obtain ⟨a, p⟩ := ap
      obtain ⟨ha, _, _, _, ft, hft, hpe⟩ := inlinePre_some _ ops s chunks a p hp
      simp only [hp, Except.map, Option.map] at h
      obtain ⟨_, hty', _, _, _, hc⟩ := verifyInline_some_ok P k s _ h
      obtain ⟨hE, hcl⟩ := inline_established s chunks ft hft hty'
      rw [← hpe] at hE
      have hE' := established_docRep s.cfg chunks.flatten p hE
      subst ha
      exact sound_of_established P L S _ k s p _ hU hH hS hE' hv (by simpa [Spec.Subject.cls] using hcl)
        (fun x hx ht => docRep_canonical s.cfg.typ _ x hx ht) (hC _ p hp) hc

/-- a `None` hash slot is an error -/
theorem none_slot_is_error (P : Prims) (k : VKey) (s : Sig) : verifyInline P k s none = .err .noneSlot := by
  simp [verifyInline, Gen.sndInlineNoneIsError]

/-- a one-pass header that does not match its signature leaves the slot empty, or the reader fails -/
theorem ops_mismatch_slot (hk : Byte → Bool) (o : Ops) (s : Sig) (chunks : List Bytes)
    (hm : opsMatches o s = false) :
    inlinePre hk (some o) s chunks = .ok none ∨ ∃ g, inlinePre hk (some o) s chunks = .error g := by
  unfold inlinePre
  simp only
  by_cases h1 : (!hk o.hash) = true
  · left; simp [h1]
  by_cases h2 : (o.ver == Gen.sndOpsV6 && Gen.sdSaltLenOf o.hash.toNat != some o.salt.length) = true
  · right; exact ⟨.salt, by rw [if_neg h1, if_pos h2]⟩
  · left
    rw [if_neg h1, if_neg h2, if_pos ⟨by decide, by simp [hm]⟩]

/-- … and never yields a successful verification -/
theorem ops_mismatch_never_ok (P : Prims) (k : VKey) (o : Ops) (s : Sig) (chunks : List Bytes)
    (hm : opsMatches o s = false) : verifyMessage P k (some o) s chunks ≠ .ok := by
  unfold verifyMessage inlineSlot
  rcases ops_mismatch_slot P.hashKnown o s chunks hm with h | ⟨g, h⟩
  · rw [h]
    simp [Except.map, none_slot_is_error]
  · rw [h]
    simp [Except.map]

/-! ## messages with several signatures -/

theorem collectSlots_get : ∀ (l : List (Except Guard (Option (Byte × Bytes)))) (xs : List (Option (Byte × Bytes))),
    collectSlots l = Except.ok xs → ∀ (i : Nat) (x : Option (Byte × Bytes)), xs[i]? = some x → l[i]? = some (Except.ok x) := by
  intro l
  induction l with
  | nil => intro xs h i x hx; simp [collectSlots] at h; subst h; simp at hx
  | cons a t ih =>
    intro xs h i x hx
    cases a with
    | error g => simp [collectSlots] at h
    | ok y =>
      simp only [collectSlots] at h
      cases ht : collectSlots t with
      | error g => simp [ht] at h
      | ok ys =>
        simp only [ht, Except.ok.injEq] at h
        subst h
        cases i with
        | zero => simp at hx; subst hx; simp
        | succ j =>
          simp only [List.getElem?_cons_succ] at hx ⊢
          exact ih ys ht j x hx

/-- slot `i` of a message is what `inlinePre` computes from signature `i` alone -/
theorem inlineSlotsPre_get (hk : Byte → Bool) (sigs : List MsgSig) (chunks : List Bytes)
    (slots : List (Option (Byte × Bytes))) (h : inlineSlotsPre hk sigs chunks = .ok slots)
    (i : Nat) (m : MsgSig) (x : Option (Byte × Bytes)) (hm : sigs[i]? = some m) (hx : slots[i]? = some x) :
    inlinePre hk m.ops m.sig chunks = .ok x := by
  unfold inlineSlotsPre at h
  simp only at h
  split at h
  · cases h
  · have := collectSlots_get _ slots h i x hx
    simp only [List.getElem?_map, hm, Option.map_some, Option.some.injEq] at this
    exact this

/-- a successful `verify_nested_explicit(i, key)` is a successful single-signature verification of
signature `i` with its own header -/
theorem verifyMessageAt_ok (P : Prims) (k : VKey) (sigs : List MsgSig) (chunks : List Bytes) (i : Nat)
    (h : verifyMessageAt P k sigs chunks i = .ok) :
    ∃ m, sigs[i]? = some m ∧ verifyMessage P k m.ops m.sig chunks = .ok := by
  unfold verifyMessageAt at h
  cases hs : inlineSlotsPre P.hashKnown sigs chunks with
  | error g => simp [hs] at h
  | ok slots =>
    simp only [hs] at h
    cases hm : sigs[i]? with
    | none => simp [hm] at h
    | some m =>
      cases hx : slots[i]? with
      | none => simp [hm, hx] at h
      | some x =>
        simp only [hm, hx] at h
        refine ⟨m, rfl, ?_⟩
        have hp := inlineSlotsPre_get _ sigs chunks slots hs i m x hm hx
        unfold verifyMessage inlineSlot
        rw [hp]
        simpa [Except.map] using h

/-! ## pairing of One-Pass headers and trailing signatures -/

/-- number of heads before position `i` that take a trailing signature -/
def popsBefore (hk : Byte → Bool) (heads : List MsgHead) (i : Nat) : Nat :=
  ((heads.take i).filter (MsgHead.pops hk)).length

theorem pairHeads_onePass (hk : Byte → Bool) : ∀ (heads : List MsgHead) (rs : List Sig) (l : List (Option MsgSig)),
    pairHeads hk heads rs = some l → ∀ (i : Nat) (o : Ops), heads[i]? = some (.onePass o) → hk o.hash = true →
      ∃ s, rs[popsBefore hk heads i]? = some s ∧ l[i]? = some (some { ops := some o, sig := s }) := by
  intro heads
  induction heads with
  | nil => intro rs l _ i o hi; simp at hi
  | cons h t ih =>
    intro rs l hl i o hi ho
    cases h with
    | prefixed s0 =>
      simp only [pairHeads, Option.map_eq_some_iff] at hl
      obtain ⟨l', hl', rfl⟩ := hl
      cases i with
      | zero => simp at hi
      | succ j =>
        simp only [List.getElem?_cons_succ] at hi ⊢
        obtain ⟨s, hs, hr⟩ := ih rs l' hl' j o hi ho
        refine ⟨s, ?_, hr⟩
        simpa [popsBefore, MsgHead.pops] using hs
    | onePass o0 =>
      simp only [pairHeads] at hl
      by_cases hk0 : hk o0.hash = true
      · simp only [hk0, Bool.not_true, Bool.false_eq_true, if_false] at hl
        cases rs with
        | nil => simp at hl
        | cons s0 rs' =>
          simp only [Option.map_eq_some_iff] at hl
          obtain ⟨l', hl', rfl⟩ := hl
          cases i with
          | zero =>
            simp only [List.getElem?_cons_zero, Option.some.injEq, MsgHead.onePass.injEq] at hi
            subst hi
            exact ⟨s0, by simp [popsBefore], by simp⟩
          | succ j =>
            simp only [List.getElem?_cons_succ] at hi ⊢
            obtain ⟨s, hs, hr⟩ := ih rs' l' hl' j o hi ho
            refine ⟨s, ?_, hr⟩
            simpa [popsBefore, MsgHead.pops, hk0] using hs
      · have hk0' : hk o0.hash = false := by simpa using hk0
        simp only [hk0', Bool.not_false, if_true, Option.map_eq_some_iff] at hl
        obtain ⟨l', hl', rfl⟩ := hl
        cases i with
        | zero =>
          simp only [List.getElem?_cons_zero, Option.some.injEq, MsgHead.onePass.injEq] at hi
          subst hi
          rw [hk0'] at ho
          cases ho
        | succ j =>
          simp only [List.getElem?_cons_succ] at hi ⊢
          obtain ⟨s, hs, hr⟩ := ih rs l' hl' j o hi ho
          refine ⟨s, ?_, hr⟩
          simpa [popsBefore, MsgHead.pops, hk0'] using hs

/-- **positional pairing**: in a message whose `n` One-Pass headers all have a supported hash
algorithm, the header that is the `j`-th One-Pass packet (`j` = number of One-Pass packets before
it) is paired with the trailing signature at wire position `n - 1 - j` - and with no other,
whatever the other trailing signatures look like -/
theorem pairMessage_positional (hk : Byte → Bool) (heads : List MsgHead) (trailing : List Sig)
    (l : List (Option MsgSig)) (h : pairMessage hk heads trailing = some l)
    (i : Nat) (o : Ops) (hi : heads[i]? = some (.onePass o)) (ho : hk o.hash = true) :
    ∃ s, (trailing.take (nOnePass heads))[nOnePass heads - 1 - popsBefore hk heads i]? = some s ∧
      l[i]? = some (some { ops := some o, sig := s }) := by
  unfold pairMessage at h
  split at h
  · cases h
  · rename_i hlen
    obtain ⟨s, hs, hr⟩ := pairHeads_onePass hk heads _ l h i o hi ho
    refine ⟨s, ?_, hr⟩
    have hn : (trailing.take (nOnePass heads)).length = nOnePass heads := by
      simp only [List.length_take]; omega
    have hlt : popsBefore hk heads i < (trailing.take (nOnePass heads)).reverse.length :=
      (List.getElem?_eq_some_iff.1 hs).1
    rw [List.length_reverse] at hlt
    rw [List.getElem?_reverse hlt, hn] at hs
    exact hs
/-- a One-Pass header whose POSITIONAL trailing signature does not match it never yields a successful
verification at its index - even if another trailing signature of the message would match it -/
theorem misplaced_trailer_never_ok (P : Prims) (k : VKey) (heads : List MsgHead) (trailing : List Sig)
    (chunks : List Bytes) (i : Nat) (o : Ops) (t : Sig)
    (hi : heads[i]? = some (.onePass o)) (ho : P.hashKnown o.hash = true)
    (ht : (trailing.take (nOnePass heads))[nOnePass heads - 1 - popsBefore P.hashKnown heads i]? = some t)
    (hm : opsMatches o t = false) :
    verifyMessageWire P k heads trailing chunks i ≠ .ok := by
  intro h
  unfold verifyMessageWire at h
  cases hc : heads.findSome? (headConstructionError P.hashKnown) with
  | some g => simp [hc] at h
  | none =>
    simp only [hc] at h
    cases hp : pairMessage P.hashKnown heads trailing with
    | none => simp [hp] at h
    | some entries =>
      simp only [hp] at h
      obtain ⟨s, hs, he⟩ := pairMessage_positional P.hashKnown heads trailing entries hp i o hi ho
      rw [ht] at hs
      cases hs
      split at h
      · cases h
      · rename_i slots hcs
        cases hx : slots[i]? with
        | none => simp [hx] at h
        | some x =>
          cases x with
          | none => simp [hx] at h
          | some ap =>
            have := collectSlots_get _ slots hcs i (some ap) hx
            simp only [List.getElem?_map, he, Option.map_some, Option.some.injEq] at this
            rcases ops_mismatch_slot P.hashKnown o t chunks hm with h1 | ⟨g, h1⟩
            · rw [h1] at this; cases this
            · rw [h1] at this; cases this

end Rpgp.Sound
