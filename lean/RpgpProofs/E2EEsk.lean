import RpgpProofs.E2EContainer
import RpgpProofs.Ring
/-! E2E, part 5: session-key packets.  The SKESK v4 / v6 bodies of C12 (`Sym.Skesk.body4/body6`) parse
with C05's `skeskParse` and are opened by the reader side (`skDec`: S2K of C12, plausibility check of
C18); PKESK packets parse with `pkeskParse`. -/
namespace Rpgp.E2E
open Rpgp

theorem byte_toNat_toUInt8 (b : Byte) : b.toNat.toUInt8 = b := by
  simp [Nat.toUInt8]

/-- adapter C05 ↔ C12: the S2K specifier the wire layer parses is the one the derivation layer
serialises -/
theorem specBytes_specOfWire (s : Wire.S2k) (spec : Sym.S2k.Spec) (h : specOfWire s = some spec) :
    Sym.S2k.specBytes spec = Wire.s2kSer s := by
  have e0 : Gen.s2kIdSimple.toUInt8 = 0 := by decide
  have e1 : Gen.s2kIdSalted.toUInt8 = 1 := by decide
  have e3 : Gen.s2kIdIterated.toUInt8 = 3 := by decide
  have e4 : Gen.s2kIdArgon2.toUInt8 = 4 := by decide
  cases s <;> simp only [specOfWire, Option.some.injEq] at h <;> (try cases h) <;>
    simp [Sym.S2k.specBytes, Wire.s2kSer, e0, e1, e3, e4, byte_toNat_toUInt8]

/-- key the S2K of recipient `r` derives for cipher `sym` (`[]` when the derivation refuses) -/
def s2kKey (P : Prims) (sym : Nat) (r : PwRcpt) : Bytes :=
  ((specOfWire r.s2k).bind fun spec => Sym.S2k.derive P.sym spec r.pw (Gen.c12SymKeySize sym)).getD []

/-- the SKESK packet of recipient `r` as the reader's parser sees it -/
def skeskOf (P : Prims) (e : Encryption) (r : PwRcpt) : Wire.Skesk :=
  match e.container with
  | .v1 sym _ =>
    .v4 sym.toUInt8 r.s2k
      (P.sym.cfbEnc sym (s2kKey P sym r) (List.replicate (Gen.symBlockSize sym) 0) (sym.toUInt8 :: e.sessionKey))
  | .v2 sym aead _ _ =>
    .v6 sym.toUInt8 aead.toUInt8 r.s2k r.iv
      (P.sym.aead sym aead (Sym.Skesk.kek6 P.sym sym aead (s2kKey P sym r)) r.iv (Sym.Skesk.info6 sym aead) e.sessionKey)

/-- well-formedness of the recipients' part: the cipher octet is a known cipher whose key size is the
session key's, S2K salts have their sizes, the SKESK v6 IV has the AEAD's nonce size -/
structure EskWF (e : Encryption) : Prop where
  sym : e.container.sym < 256 ∧ Gen.symKeySize e.container.sym = e.sessionKey.length ∧ e.sessionKey ≠ []
  pw : ∀ r ∈ e.passwords, Wire.S2kWF r.s2k ∧
    ∀ sym aead cs salt, e.container = .v2 sym aead cs salt →
      aead < 256 ∧ Wire.aeadKnown aead.toUInt8 = true ∧ r.iv.length = Wire.aeadNonceSize aead.toUInt8 ∧
      3 + Wire.s2kWriteLen r.s2k + r.iv.length < 256

theorem specOfWire_not_other (s : Wire.S2k) (spec : Sym.S2k.Spec) (h : specOfWire s = some spec) :
    s.isOther = false := by
  cases s <;> simp [specOfWire] at h <;> rfl

/-- **SKESK round trip**: what `encrypt_with_password` wrote (i) is the serialisation of a
well-formed SKESK value (so C05's parser returns it), and (ii) opens under the recipient's password
to the session key of the message -/
theorem skeskBody_facts (P : Prims) (L : CryptoLaws P) (e : Encryption) (r : PwRcpt) (b : Bytes)
    (wf : EskWF e) (hr : r ∈ e.passwords) (hb : skeskBody P e r = some b) :
    Wire.skeskSer (skeskOf P e r) = some b ∧ Wire.SkeskWF (skeskOf P e r) ∧
    skDec P (skeskOf P e r) r.pw = some (sessionKeyOf e) := by
  obtain ⟨hs2k, hv2⟩ := wf.pw r hr
  obtain ⟨hsym, hks, hne⟩ := wf.sym
  unfold skeskBody at hb
  cases hspec : specOfWire r.s2k with
  | none => simp [hspec] at hb
  | some spec =>
    simp only [hspec] at hb
    have hsb := specBytes_specOfWire _ _ hspec
    have hno := specOfWire_not_other _ _ hspec
    cases hc : e.container with
    | v1 sym pre =>
      simp only [hc, Container.sym] at hsym hks hb
      have et : sym.toUInt8.toNat = sym := toUInt8_toNat_of_lt sym hsym
      unfold Sym.Skesk.body4 at hb
      cases hE : Sym.Skesk.encryptAllowed spec
      · simp [hE] at hb
      · cases hd : Sym.S2k.derive P.sym spec r.pw (Gen.c12SymKeySize sym) with
        | none => simp [hE, hd, bind, Option.bind] at hb
        | some key =>
          simp only [hE, hd, bind, Option.bind, pure, Bool.not_true, Bool.false_eq_true, if_false] at hb
          injection hb with hb
          have hkey : s2kKey P sym r = key := by simp [s2kKey, hspec, hd]
          have e4 : Gen.skesk4WrVersion.toUInt8 = 4 := by decide
          have hlen : (P.sym.cfbEnc sym key (List.replicate (Gen.symBlockSize sym) 0) (sym.toUInt8 :: e.sessionKey)).length
              = e.sessionKey.length + 1 := by rw [(L.cfb_online _ _ _).len]; simp
          refine ⟨?_, ?_, ?_⟩
          · simp only [skeskOf, hc, hkey, Wire.skeskSer]
            rw [← hb, hsb, e4]; simp
          · simp only [skeskOf, hc, Wire.SkeskWF]
            exact ⟨hs2k, fun h => by rw [hno] at h; cases h⟩
          · simp only [skeskOf, hc, hkey, skDec, hspec, et, hd, sessionKeyOf]
            have hne' : P.sym.cfbEnc sym key (List.replicate (Gen.symBlockSize sym) 0) (sym.toUInt8 :: e.sessionKey) ≠ [] := by
              intro h0; rw [h0] at hlen; simp at hlen
            rw [if_neg hne', L.cfb_dec_enc]
            have hk0 : Gen.symKeySize sym ≠ 0 := by
              rw [hks]; intro h0; exact hne (List.eq_nil_of_length_eq_zero h0)
            simp [Ring.decodeSkeskV4, et, hks]
            intro h0; exact absurd h0 hne
    | v2 sym aead cs salt =>
      simp only [hc, Container.sym] at hsym hks hb
      obtain ⟨haead, hknown, hiv, hcount⟩ := hv2 sym aead cs salt hc
      have et : sym.toUInt8.toNat = sym := toUInt8_toNat_of_lt sym hsym
      have ea : aead.toUInt8.toNat = aead := toUInt8_toNat_of_lt aead haead
      unfold Sym.Skesk.body6 at hb
      cases hE : Sym.Skesk.encryptAllowed spec
      · simp [hE] at hb
      · cases hd : Sym.S2k.derive P.sym spec r.pw (Gen.c12SymKeySize sym) with
        | none => simp [hE, hd, bind, Option.bind] at hb
        | some ikm =>
          simp only [hE, hd, bind, Option.bind, pure, Bool.not_true, Bool.false_eq_true, if_false] at hb
          injection hb with hb
          have hkey : s2kKey P sym r = ikm := by simp [s2kKey, hspec, hd]
          have e6 : Gen.skesk6WrVersionOctet.toUInt8 = 6 := by decide
          have e3 : Gen.skesk6CountFixed = 3 := rfl
          have hsl : (Sym.S2k.specBytes spec).length = Wire.s2kWriteLen r.s2k := by
            rw [hsb, Wire.s2kSer_length]
          have hweak : spec.weakHash = false := by
            unfold Sym.Skesk.encryptAllowed at hE
            simp only [Bool.and_eq_true, Bool.not_eq_true'] at hE
            exact hE.2
          refine ⟨?_, ?_, ?_⟩
          · simp only [skeskOf, hc, hkey, Wire.skeskSer, hcount, if_true]
            rw [← hb, e6, e3, hsl, hsb]; simp
          · simp only [skeskOf, hc, Wire.SkeskWF]
            refine ⟨hs2k, hknown, hiv, ?_, hcount⟩
            rw [L.aead_len]; omega
          · simp only [skeskOf, hc, hkey, skDec, hspec, hweak, et, ea, hd, sessionKeyOf, Bool.false_eq_true, if_false]
            rw [L.aead_open_seal]; rfl

end Rpgp.E2E
