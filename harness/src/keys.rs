//! Key material helpers shared by the property modules.

use pgp::composed::{EncryptionCaps, KeyType, SecretKeyParamsBuilder, SignedSecretKey, SubkeyParamsBuilder};
use pgp::types::KeyVersion;
use rand::{CryptoRng, Rng};

/// Ed25519 (RFC 9580) primary with an X25519 encryption subkey, unlocked.
pub fn ed25519_x25519<R: Rng + CryptoRng>(mut rng: R, version: KeyVersion) -> SignedSecretKey {
    let params = SecretKeyParamsBuilder::default()
        .version(version)
        .key_type(KeyType::Ed25519)
        .can_certify(true)
        .can_sign(true)
        .primary_user_id("Verif <verif@example.org>".into())
        .passphrase(None)
        .subkey(
            SubkeyParamsBuilder::default()
                .version(version)
                .key_type(KeyType::X25519)
                .can_encrypt(EncryptionCaps::All)
                .passphrase(None)
                .build()
                .expect("subkey params"),
        )
        .build()
        .expect("key params");
    params.generate(&mut rng).expect("generate key")
}

/// Legacy EdDSA v4 primary with an ECDH Curve25519 subkey (the classic v4 shape).
pub fn eddsa_legacy_ecdh<R: Rng + CryptoRng>(mut rng: R) -> SignedSecretKey {
    use pgp::crypto::ecc_curve::ECCCurve;
    let params = SecretKeyParamsBuilder::default()
        .version(KeyVersion::V4)
        .key_type(KeyType::Ed25519Legacy)
        .can_certify(true)
        .can_sign(true)
        .primary_user_id("Verif legacy <legacy@example.org>".into())
        .passphrase(None)
        .subkey(
            SubkeyParamsBuilder::default()
                .key_type(KeyType::ECDH(ECCCurve::Curve25519Legacy))
                .can_encrypt(EncryptionCaps::All)
                .passphrase(None)
                .build()
                .expect("subkey params"),
        )
        .build()
        .expect("key params");
    params.generate(&mut rng).expect("generate key")
}

fn generic<R: Rng + CryptoRng>(mut rng: R, version: KeyVersion, primary: KeyType, sub: KeyType, uid: &str) -> SignedSecretKey {
    let params = SecretKeyParamsBuilder::default()
        .version(version)
        .key_type(primary)
        .can_certify(true)
        .can_sign(true)
        .primary_user_id(uid.into())
        .passphrase(None)
        .subkey(
            SubkeyParamsBuilder::default()
                .version(version)
                .key_type(sub)
                .can_encrypt(EncryptionCaps::All)
                .passphrase(None)
                .build()
                .expect("subkey params"),
        )
        .build()
        .expect("key params");
    params.generate(&mut rng).expect("generate key")
}

pub fn ecdsa_p256_ecdh<R: Rng + CryptoRng>(rng: R) -> SignedSecretKey {
    use pgp::crypto::ecc_curve::ECCCurve;
    generic(rng, KeyVersion::V4, KeyType::ECDSA(ECCCurve::P256), KeyType::ECDH(ECCCurve::P256), "Verif p256 <p256@example.org>")
}

pub fn rsa2048<R: Rng + CryptoRng>(rng: R) -> SignedSecretKey {
    generic(rng, KeyVersion::V4, KeyType::Rsa(2048), KeyType::Rsa(2048), "Verif rsa <rsa@example.org>")
}

/// DSA 2048/256 primary (q = 256 bits: digests shorter and longer than q both occur), ECDH subkey
pub fn dsa2048_ecdh<R: Rng + CryptoRng>(rng: R) -> SignedSecretKey {
    generic(rng, KeyVersion::V4, KeyType::Dsa(pgp::composed::DsaKeySize::B2048), KeyType::ECDH(pgp::crypto::ecc_curve::ECCCurve::Curve25519Legacy), "Verif dsa <dsa@example.org>")
}

/// ECDSA P-384 / P-521 primaries (field size differs from the common digest sizes)
pub fn ecdsa_p384_ecdh<R: Rng + CryptoRng>(rng: R) -> SignedSecretKey {
    generic(rng, KeyVersion::V4, KeyType::ECDSA(pgp::crypto::ecc_curve::ECCCurve::P384), KeyType::ECDH(pgp::crypto::ecc_curve::ECCCurve::P384), "Verif p384 <p384@example.org>")
}

pub fn ecdsa_p521_ecdh<R: Rng + CryptoRng>(rng: R) -> SignedSecretKey {
    generic(rng, KeyVersion::V4, KeyType::ECDSA(pgp::crypto::ecc_curve::ECCCurve::P521), KeyType::ECDH(pgp::crypto::ecc_curve::ECCCurve::P521), "Verif p521 <p521@example.org>")
}

pub fn ed448_x448<R: Rng + CryptoRng>(rng: R) -> SignedSecretKey {
    generic(rng, KeyVersion::V6, KeyType::Ed448, KeyType::X448, "Verif 448 <x448@example.org>")
}

pub fn ecdsa_secp256k1_ecdh<R: Rng + CryptoRng>(rng: R) -> SignedSecretKey {
    generic(rng, KeyVersion::V4, KeyType::ECDSA(pgp::crypto::ecc_curve::ECCCurve::Secp256k1), KeyType::ECDH(pgp::crypto::ecc_curve::ECCCurve::Curve25519Legacy), "Verif k256 <k256@example.org>")
}
