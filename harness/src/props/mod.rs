use crate::ctx::Ctx;

pub mod c14;

pub fn run(prop: &str, ctx: &mut Ctx) -> bool {
    match prop {
        "C14" => c14::run(ctx),
        _ => return false,
    }
    true
}
