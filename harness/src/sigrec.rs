//! Support for the signature-digest properties (C11, shared with C02/C06):
//!
//! * recording `SigningKey` / `VerifyingKey` wrappers — they see the digest that rpgp hands to
//!   the public-key primitive through its public sign/verify APIs;
//! * an independent mini parser for OpenPGP packet sequences and signature packet bodies
//!   (so that "what is on the wire" is not taken from rpgp's own serializer/parsers);
//! * `rfc_preimage`: RFC 9580 §5.2.4 (and RFC 4880 §5.2.4 for v3) written from the RFC text;
//! * the hash functions, evaluated with the RustCrypto crates directly;
//! * the compact byte-expression syntax of the C11 line protocol.

use std::sync::Mutex;

use digest::Digest;
use pgp::crypto::hash::HashAlgorithm;
use pgp::crypto::public_key::PublicKeyAlgorithm;
use pgp::ser::Serialize;
use pgp::types::{
    Fingerprint, KeyDetails, KeyId, KeyVersion, Password, PublicParams, SignatureBytes, SigningKey, Timestamp,
    VerifyingKey,
};

use crate::frame::pattern;

// ------------------------------------------------------------------------------------------
// recording keys

#[derive(Debug)]
pub struct RecSigner<'a, K: SigningKey> {
    pub inner: &'a K,
    pub seen: Mutex<Vec<(u8, Vec<u8>)>>,
    /// primitive refusals (e.g. "hash too weak for this curve") counted here; the wrapper then
    /// returns a dummy signature so that the signature packet can still be inspected
    pub refused: Mutex<u32>,
}

impl<'a, K: SigningKey> RecSigner<'a, K> {
    pub fn new(inner: &'a K) -> Self {
        Self { inner, seen: Mutex::new(Vec::new()), refused: Mutex::new(0) }
    }
    pub fn take(&self) -> Vec<(u8, Vec<u8>)> {
        std::mem::take(&mut *self.seen.lock().expect("lock"))
    }
    pub fn refused(&self) -> u32 {
        *self.refused.lock().expect("lock")
    }
}

impl<K: SigningKey> KeyDetails for RecSigner<'_, K> {
    fn version(&self) -> KeyVersion {
        self.inner.version()
    }
    fn legacy_key_id(&self) -> KeyId {
        self.inner.legacy_key_id()
    }
    fn fingerprint(&self) -> Fingerprint {
        self.inner.fingerprint()
    }
    fn algorithm(&self) -> PublicKeyAlgorithm {
        self.inner.algorithm()
    }
    fn created_at(&self) -> Timestamp {
        self.inner.created_at()
    }
    fn legacy_v3_expiration_days(&self) -> Option<u16> {
        self.inner.legacy_v3_expiration_days()
    }
    fn public_params(&self) -> &PublicParams {
        self.inner.public_params()
    }
}

impl<K: SigningKey> SigningKey for RecSigner<'_, K> {
    fn sign(&self, key_pw: &Password, hash: HashAlgorithm, data: &[u8]) -> pgp::errors::Result<SignatureBytes> {
        self.seen.lock().expect("lock").push((hash.into(), data.to_vec()));
        match self.inner.sign(key_pw, hash, data) {
            Ok(s) => Ok(s),
            Err(_) => {
                *self.refused.lock().expect("lock") += 1;
                Ok(dummy_signature(self.inner.algorithm().into()))
            }
        }
    }
    fn hash_alg(&self) -> HashAlgorithm {
        self.inner.hash_alg()
    }
}

/// a syntactically plausible signature for algorithm `pk` (content meaningless)
pub fn dummy_signature(pk: u8) -> SignatureBytes {
    let m = |b: &[u8]| pgp::types::Mpi::from_slice(b);
    match pk {
        1 | 3 => SignatureBytes::Mpis(vec![m(&[0x5a; 32])]),
        17 | 19 | 22 => SignatureBytes::Mpis(vec![m(&[0x5a; 32]), m(&[0x5b; 32])]),
        28 => SignatureBytes::Native(vec![0x5au8; 114].into()),
        _ => SignatureBytes::Native(vec![0x5au8; 64].into()),
    }
}

/// wraps a public key; records the digest; `delegate = false` accepts every signature (used
/// with crafted signature packets whose cryptographic part is a dummy)
#[derive(Debug)]
pub struct RecVerifier<'a, K: VerifyingKey + Serialize> {
    pub inner: &'a K,
    pub delegate: bool,
    pub seen: Mutex<Vec<(u8, Vec<u8>)>>,
}

impl<'a, K: VerifyingKey + Serialize> RecVerifier<'a, K> {
    pub fn new(inner: &'a K, delegate: bool) -> Self {
        Self { inner, delegate, seen: Mutex::new(Vec::new()) }
    }
    pub fn take(&self) -> Vec<(u8, Vec<u8>)> {
        std::mem::take(&mut *self.seen.lock().expect("lock"))
    }
}

impl<K: VerifyingKey + Serialize> KeyDetails for RecVerifier<'_, K> {
    fn version(&self) -> KeyVersion {
        self.inner.version()
    }
    fn legacy_key_id(&self) -> KeyId {
        self.inner.legacy_key_id()
    }
    fn fingerprint(&self) -> Fingerprint {
        self.inner.fingerprint()
    }
    fn algorithm(&self) -> PublicKeyAlgorithm {
        self.inner.algorithm()
    }
    fn created_at(&self) -> Timestamp {
        self.inner.created_at()
    }
    fn legacy_v3_expiration_days(&self) -> Option<u16> {
        self.inner.legacy_v3_expiration_days()
    }
    fn public_params(&self) -> &PublicParams {
        self.inner.public_params()
    }
}

impl<K: VerifyingKey + Serialize> VerifyingKey for RecVerifier<'_, K> {
    fn verify(&self, hash: HashAlgorithm, data: &[u8], sig: &SignatureBytes) -> pgp::errors::Result<()> {
        self.seen.lock().expect("lock").push((hash.into(), data.to_vec()));
        if self.delegate {
            self.inner.verify(hash, data, sig)
        } else {
            Ok(())
        }
    }
}

impl<K: VerifyingKey + Serialize> Serialize for RecVerifier<'_, K> {
    fn to_writer<W: std::io::Write>(&self, w: &mut W) -> pgp::errors::Result<()> {
        self.inner.to_writer(w)
    }
    fn write_len(&self) -> usize {
        self.inner.write_len()
    }
}

// ------------------------------------------------------------------------------------------
// hash functions (RustCrypto, no OpenPGP logic)

pub fn hash_with(alg: u8, data: &[u8]) -> Option<Vec<u8>> {
    Some(match alg {
        1 => md5::Md5::digest(data).to_vec(),
        2 => sha1::Sha1::digest(data).to_vec(),
        3 => ripemd::Ripemd160::digest(data).to_vec(),
        8 => sha2::Sha256::digest(data).to_vec(),
        9 => sha2::Sha384::digest(data).to_vec(),
        10 => sha2::Sha512::digest(data).to_vec(),
        11 => sha2::Sha224::digest(data).to_vec(),
        12 => sha3::Sha3_256::digest(data).to_vec(),
        14 => sha3::Sha3_512::digest(data).to_vec(),
        _ => return None,
    })
}

/// RFC 9580 table 23 (salt size of v6 signatures)
pub fn rfc_salt_size(hash: u8) -> Option<usize> {
    match hash {
        8 => Some(16),
        9 => Some(24),
        10 => Some(32),
        11 => Some(16),
        12 => Some(16),
        14 => Some(32),
        _ => None,
    }
}

// ------------------------------------------------------------------------------------------
// independent wire parsing

/// split an OpenPGP packet sequence into (tag, body); partial body lengths are reassembled.
/// `None` on malformed input.
pub fn split_packets(mut d: &[u8]) -> Option<Vec<(u8, Vec<u8>)>> {
    let mut out = Vec::new();
    while !d.is_empty() {
        let h = d[0];
        if h & 0x80 == 0 {
            return None;
        }
        d = &d[1..];
        if h & 0x40 != 0 {
            let tag = h & 0x3f;
            let mut body = Vec::new();
            loop {
                let o = *d.first()? as usize;
                let (len, hl, partial) = if o < 192 {
                    (o, 1, false)
                } else if o < 224 {
                    ((o - 192) * 256 + *d.get(1)? as usize + 192, 2, false)
                } else if o < 255 {
                    (1usize << (o & 0x1f), 1, true)
                } else {
                    (u32::from_be_bytes([*d.get(1)?, *d.get(2)?, *d.get(3)?, *d.get(4)?]) as usize, 5, false)
                };
                d = &d[hl..];
                if d.len() < len {
                    return None;
                }
                body.extend_from_slice(&d[..len]);
                d = &d[len..];
                if !partial {
                    break;
                }
            }
            out.push((tag, body));
        } else {
            let tag = (h >> 2) & 0x0f;
            let len = match h & 3 {
                0 => {
                    let l = *d.first()? as usize;
                    d = &d[1..];
                    l
                }
                1 => {
                    let l = u16::from_be_bytes([*d.first()?, *d.get(1)?]) as usize;
                    d = &d[2..];
                    l
                }
                2 => {
                    let l = u32::from_be_bytes([*d.first()?, *d.get(1)?, *d.get(2)?, *d.get(3)?]) as usize;
                    d = &d[4..];
                    l
                }
                _ => d.len(),
            };
            if d.len() < len {
                return None;
            }
            out.push((tag, d[..len].to_vec()));
            d = &d[len..];
        }
    }
    Some(out)
}

/// new-format packet with a 5-octet length (always legal)
pub fn packet5(tag: u8, body: &[u8]) -> Vec<u8> {
    let mut v = vec![0xC0 | tag, 255];
    v.extend_from_slice(&(body.len() as u32).to_be_bytes());
    v.extend_from_slice(body);
    v
}

/// the fields of a signature packet that enter the hash, taken from the wire
#[derive(Clone, Debug, PartialEq, Eq)]
pub struct SigFields {
    pub ver: u8,
    pub typ: u8,
    pub pk: u8,
    pub hash: u8,
    /// raw hashed subpacket data (v4, v6)
    pub area: Vec<u8>,
    /// raw unhashed subpacket data (v4, v6)
    pub unhashed: Vec<u8>,
    pub salt: Vec<u8>,
    /// v3: creation time
    pub created: u32,
    pub left16: [u8; 2],
}

pub fn parse_sig_body(b: &[u8]) -> Option<SigFields> {
    let ver = *b.first()?;
    match ver {
        2 | 3 => {
            if *b.get(1)? != 5 {
                return None;
            }
            let typ = *b.get(2)?;
            let created = u32::from_be_bytes([*b.get(3)?, *b.get(4)?, *b.get(5)?, *b.get(6)?]);
            let pk = *b.get(15)?;
            let hash = *b.get(16)?;
            let left16 = [*b.get(17)?, *b.get(18)?];
            Some(SigFields { ver, typ, pk, hash, area: vec![], unhashed: vec![], salt: vec![], created, left16 })
        }
        4 | 6 => {
            let w = if ver == 4 { 2 } else { 4 };
            let typ = *b.get(1)?;
            let pk = *b.get(2)?;
            let hash = *b.get(3)?;
            let mut p = 4usize;
            let rd = |p: usize| -> Option<usize> {
                let s = b.get(p..p + w)?;
                Some(s.iter().fold(0usize, |a, &x| a * 256 + x as usize))
            };
            let hl = rd(p)?;
            p += w;
            let area = b.get(p..p + hl)?.to_vec();
            p += hl;
            let ul = rd(p)?;
            p += w;
            let unhashed = b.get(p..p + ul)?.to_vec();
            p += ul;
            let left16 = [*b.get(p)?, *b.get(p + 1)?];
            p += 2;
            let salt = if ver == 6 {
                let sl = *b.get(p)? as usize;
                b.get(p + 1..p + 1 + sl)?.to_vec()
            } else {
                vec![]
            };
            Some(SigFields { ver, typ, pk, hash, area, unhashed, salt, created: 0, left16 })
        }
        _ => None,
    }
}

/// walk a subpacket area: (type octet incl. critical bit, body)
pub fn subpackets(mut a: &[u8]) -> Option<Vec<(u8, Vec<u8>)>> {
    let mut out = Vec::new();
    while !a.is_empty() {
        let o = a[0] as usize;
        let (len, hl) = if o < 192 {
            (o, 1)
        } else if o < 255 {
            ((o - 192) * 256 + *a.get(1)? as usize + 192, 2)
        } else {
            (u32::from_be_bytes([*a.get(1)?, *a.get(2)?, *a.get(3)?, *a.get(4)?]) as usize, 5)
        };
        a = &a[hl..];
        if len == 0 || a.len() < len {
            return None;
        }
        out.push((a[0], a[1..len].to_vec()));
        a = &a[len..];
    }
    Some(out)
}

/// a subpacket in a chosen length form (1, 2 or 5 octets)
pub fn subpacket_raw(form: u8, typ: u8, body: &[u8]) -> Option<Vec<u8>> {
    let n = body.len() + 1;
    let mut v = match form {
        1 if n < 192 => vec![n as u8],
        2 if (192..=16319).contains(&n) => vec![((n - 192) / 256 + 192) as u8, ((n - 192) % 256) as u8],
        5 => {
            let mut v = vec![255u8];
            v.extend_from_slice(&(n as u32).to_be_bytes());
            v
        }
        _ => return None,
    };
    v.push(typ);
    v.extend_from_slice(body);
    Some(v)
}

// ------------------------------------------------------------------------------------------
// RFC 9580 §5.2.4 — written from the RFC text, independent of the Lean model and of rpgp

/// a key as it appears on the wire: the body of its Public-Key / Public-Subkey packet
#[derive(Clone, Debug, PartialEq, Eq)]
pub struct WKey {
    pub body: Vec<u8>,
}

impl WKey {
    pub fn version(&self) -> u8 {
        self.body.first().copied().unwrap_or(0)
    }
}

#[derive(Clone, Debug, PartialEq, Eq)]
pub enum Subject {
    /// document as given to the signer / found in the literal packet (not yet canonicalised)
    Doc(Vec<u8>),
    Direct(WKey),
    /// key, is_attribute, body of the User ID / User Attribute packet
    Cert(WKey, bool, Vec<u8>),
    /// primary, subkey
    Bind(WKey, WKey),
}

#[derive(Clone, Copy, Debug, PartialEq, Eq)]
pub enum Class {
    Doc,
    Direct,
    Cert,
    Bind,
}

impl Subject {
    pub fn class(&self) -> Class {
        match self {
            Subject::Doc(_) => Class::Doc,
            Subject::Direct(_) => Class::Direct,
            Subject::Cert(..) => Class::Cert,
            Subject::Bind(..) => Class::Bind,
        }
    }
}

/// the data a signature of type `typ` is computed over (RFC 9580 §5.2.1, §5.2.4)
pub fn rfc_class(typ: u8) -> Option<Class> {
    match typ {
        0x00 | 0x01 => Some(Class::Doc),
        0x10..=0x13 | 0x30 => Some(Class::Cert),
        0x18 | 0x19 | 0x28 => Some(Class::Bind),
        0x1F | 0x20 => Some(Class::Direct),
        _ => None,
    }
}

/// "any <LF> not preceded by <CR> becomes <CR><LF>" — text documents are hashed in this form
pub fn rfc_canon_text(d: &[u8]) -> Vec<u8> {
    let mut out = Vec::with_capacity(d.len() + 16);
    let mut prev = 0u8;
    for &b in d {
        if b == b'\n' && prev != b'\r' {
            out.push(b'\r');
        }
        out.push(b);
        prev = b;
    }
    out
}

fn rfc_key(out: &mut Vec<u8>, k: &WKey) {
    // "When a version 4 signature is made over a key, the hash data starts with the octet 0x99,
    //  followed by a two-octet length of the key, followed by the body of the key packet.
    //  When a version 6 signature is made over a key, [...] octet 0x9B, followed by a four-octet
    //  length of the key, followed by the body of the key packet."
    // The framing goes with the key's own version (a v6 key is always hashed in the v6 form;
    // this is also how the fingerprint of the key is framed).
    if k.version() == 6 {
        out.push(0x9B);
        out.extend_from_slice(&(k.body.len() as u32).to_be_bytes());
    } else {
        out.push(0x99);
        out.extend_from_slice(&(k.body.len() as u16).to_be_bytes());
    }
    out.extend_from_slice(&k.body);
}

pub fn rfc_preimage(f: &SigFields, s: &Subject) -> Vec<u8> {
    let mut p = Vec::new();
    if f.ver == 6 {
        p.extend_from_slice(&f.salt);
    }
    match s {
        Subject::Doc(d) => {
            if f.typ == 0x01 {
                p.extend(rfc_canon_text(d));
            } else {
                p.extend_from_slice(d);
            }
        }
        Subject::Direct(k) => rfc_key(&mut p, k),
        Subject::Cert(k, attr, body) => {
            rfc_key(&mut p, k);
            // "A certification signature (Type ID 0x10 through 0x13) hashes the User ID [...].
            //  A v3 certification hashes the contents of the User ID or User Attribute packet
            //  without the packet header. A v4 or v6 certification hashes the constant 0xB4 for
            //  User ID certifications or the constant 0xD1 for User Attribute certifications,
            //  followed by a four-octet number giving the length of the User ID or User
            //  Attribute data, followed by the User ID or User Attribute data."
            if f.ver >= 4 {
                p.push(if *attr { 0xD1 } else { 0xB4 });
                p.extend_from_slice(&(body.len() as u32).to_be_bytes());
            }
            p.extend_from_slice(body);
        }
        Subject::Bind(a, b) => {
            rfc_key(&mut p, a);
            rfc_key(&mut p, b);
        }
    }
    if f.ver >= 4 {
        // "the signature version (0x04 or 0x06), signature type, public-key algorithm, hash
        //  algorithm, hashed subpacket length, and hashed subpacket body"
        let start = p.len();
        p.extend_from_slice(&[f.ver, f.typ, f.pk, f.hash]);
        if f.ver == 4 {
            p.extend_from_slice(&(f.area.len() as u16).to_be_bytes());
        } else {
            p.extend_from_slice(&(f.area.len() as u32).to_be_bytes());
        }
        p.extend_from_slice(&f.area);
        let n = p.len() - start;
        // "a trailer: the two octets 0x04/0x06, 0xFF, and a four-octet big-endian number that is
        //  the length of the hashed data from the Signature packet through the hashed subpacket
        //  body"
        p.extend_from_slice(&[f.ver, 0xFF]);
        p.extend_from_slice(&(n as u32).to_be_bytes());
    } else {
        // RFC 4880 §5.2.4: "a V3 signature hashes five octets of the packet body, starting from
        // the signature type field" = type, creation time
        p.push(f.typ);
        p.extend_from_slice(&f.created.to_be_bytes());
    }
    p
}

// ------------------------------------------------------------------------------------------
// line protocol helpers

pub fn find_sub(hay: &[u8], needle: &[u8]) -> Option<usize> {
    if needle.is_empty() || hay.len() < needle.len() {
        return None;
    }
    let first = needle[0];
    let mut i = 0;
    while i + needle.len() <= hay.len() {
        match hay[i..=hay.len() - needle.len()].iter().position(|&b| b == first) {
            None => return None,
            Some(off) => {
                i += off;
                if &hay[i..i + needle.len()] == needle {
                    return Some(i);
                }
                i += 1;
            }
        }
    }
    None
}

/// byte expression: `-` | part(+part)* ; part = hex | p<seed>.<len>.  Occurrences of the given
/// patterns (seed, len ≥ 48) are abbreviated.
pub fn bx(b: &[u8], pats: &[(usize, usize)]) -> String {
    if b.is_empty() {
        return "-".into();
    }
    for &(seed, len) in pats {
        if len >= 48 && b.len() >= len {
            let pat = pattern(seed, len);
            if let Some(i) = find_sub(b, &pat) {
                let mut parts = Vec::new();
                if i > 0 {
                    parts.push(hex::encode(&b[..i]));
                }
                parts.push(format!("p{seed}.{len}"));
                if i + len < b.len() {
                    let rest = bx(&b[i + len..], pats);
                    parts.push(rest);
                }
                return parts.join("+");
            }
        }
    }
    hex::encode(b)
}

/// canonical rendering of a pre-image in answers: full hex when short, otherwise
/// `ck<len>.<s1>.<s2>:<first 32 octets>:<last 16 octets>`
pub fn repr(p: &[u8]) -> String {
    if p.len() <= 160 {
        hex::encode(p)
    } else {
        format!("ck{}:{}:{}", crate::frame::cksum(p), hex::encode(&p[..32]), hex::encode(&p[p.len() - 16..]))
    }
}

// ------------------------------------------------------------------------------------------
// ASCII armor (harness-side, minimal): the first armored block of a file -> binary

pub fn dearmor_first(text: &[u8]) -> Option<Vec<u8>> {
    let s = String::from_utf8_lossy(text);
    let mut lines = s.lines();
    // find BEGIN line
    loop {
        let l = lines.next()?;
        if l.trim_end().starts_with("-----BEGIN PGP ") && !l.contains("SIGNED MESSAGE") {
            break;
        }
    }
    // headers until blank line
    let mut b64 = String::new();
    let mut in_headers = true;
    for l in lines {
        let l = l.trim();
        if in_headers {
            if l.is_empty() {
                in_headers = false;
            } else if !l.contains(": ") && !l.ends_with(':') {
                // no header section at all
                in_headers = false;
                b64.push_str(l);
            }
            continue;
        }
        if l.starts_with("-----END") || l.starts_with('=') {
            break;
        }
        b64.push_str(l);
    }
    base64_decode(&b64)
}

pub fn base64_decode(s: &str) -> Option<Vec<u8>> {
    let mut out = Vec::with_capacity(s.len() * 3 / 4);
    let mut acc = 0u32;
    let mut bits = 0;
    for c in s.bytes() {
        let v = match c {
            b'A'..=b'Z' => c - b'A',
            b'a'..=b'z' => c - b'a' + 26,
            b'0'..=b'9' => c - b'0' + 52,
            b'+' => 62,
            b'/' => 63,
            b'=' => break,
            b' ' | b'\t' | b'\r' | b'\n' => continue,
            _ => return None,
        };
        acc = (acc << 6) | v as u32;
        bits += 6;
        if bits >= 8 {
            bits -= 8;
            out.push((acc >> bits) as u8);
            acc &= (1 << bits) - 1;
        }
    }
    Some(out)
}

/// length of the public part of a key packet body (so that the public body can be cut out of a
/// Secret-Key packet).  RFC 9580 §5.5.2 / §5.5.5; `None` for algorithms the harness does not know.
pub fn pubkey_len(b: &[u8]) -> Option<usize> {
    let ver = *b.first()?;
    let mpi = |p: usize| -> Option<usize> {
        let bits = u16::from_be_bytes([*b.get(p)?, *b.get(p + 1)?]) as usize;
        Some(p + 2 + bits.div_ceil(8))
    };
    let oid = |p: usize| -> Option<usize> {
        let l = *b.get(p)? as usize;
        if l == 0 || l == 0xff {
            return None;
        }
        Some(p + 1 + l)
    };
    let (alg, start) = match ver {
        2 | 3 => (*b.get(7)?, 8),
        4 => (*b.get(5)?, 6),
        6 => {
            let n = u32::from_be_bytes([*b.get(6)?, *b.get(7)?, *b.get(8)?, *b.get(9)?]) as usize;
            return if b.len() >= 10 + n { Some(10 + n) } else { None };
        }
        _ => return None,
    };
    let end = match alg {
        1..=3 => mpi(mpi(start)?)?,
        16 | 20 => mpi(mpi(mpi(start)?)?)?,
        17 => mpi(mpi(mpi(mpi(start)?)?)?)?,
        19 | 22 => mpi(oid(start)?)?,
        18 => {
            let p = mpi(oid(start)?)?;
            let l = *b.get(p)? as usize;
            p + 1 + l
        }
        25 | 27 => start + 32,
        26 => start + 56,
        28 => start + 57,
        _ => return None,
    };
    if end <= b.len() {
        Some(end)
    } else {
        None
    }
}
