//! C02, signed messages with SEVERAL signatures of mixed types (binary / text) and mixed v4 / v6
//! signers, in prefixed, one-pass and mixed layouts.  The message builder only produces uniform
//! messages, so these are assembled here from real signatures (`SignatureConfig::sign` over the
//! document) and hand-written One-Pass Signature packets; the grammar is RFC 9580 10.3
//! (Signed Message :- Signature Packet, OpenPGP Message | One-Pass Signed Message).
//!
//! Every signature must verify on the document it was made over - each through ITS OWN hashing
//! mode: a text signature on the LF and on the CR LF form, a binary one on the exact octets - and,
//! after a content mutation, exactly the signatures whose (canonical, for text) document is
//! unchanged.  Entry points: `verify_nested_explicit(i, key_i)` for every i, `verify_nested(keys)`,
//! `verify` / `verify_read` (signature 0).
use super::inline::{assemble, ops_disagrees};
use super::text::{cut_after_cr, eol_mutations, lit_head, ops_body};
use super::*;
use crate::io::ScheduledReader;

struct Entry<'a> {
    fix: &'a Fix,
    text: bool,
    one_pass: bool,
    sig: Signature,
    body: Vec<u8>,
    ops: Option<Vec<u8>>,
}

fn message_bytes(entries: &[Entry], doc: &[u8]) -> Vec<u8> {
    let any_text = entries.iter().any(|e| e.text);
    let mut lit = lit_head(any_text);
    lit.extend_from_slice(doc);
    let mut pk: Vec<(u8, &[u8])> = Vec::new();
    for e in entries {
        match &e.ops {
            Some(o) if e.one_pass => pk.push((4, o)),
            _ => pk.push((2, &e.body)),
        }
    }
    pk.push((11, &lit));
    for e in entries.iter().rev() {
        if e.one_pass {
            pk.push((2, &e.body));
        }
    }
    assemble(&pk)
}

fn request(entries: &[Entry], i: usize, doc: &[u8], vk: &VK, t: &Tables) -> String {
    let mut r = format!("snd_msg i={i}");
    for e in entries {
        match &e.ops {
            Some(o) if e.one_pass => r.push_str(&format!(" m={}:{}", hex::encode(o), hex::encode(&e.body))),
            _ => r.push_str(&format!(" m=-:{}", hex::encode(&e.body))),
        }
    }
    format!("{r} data={} {} {}", hx(doc), kdesc("k", &vk.k), t.show(false))
}

fn class(stage: &str, msg: &str) -> String {
    super::inline::msg_class(stage, msg)
}

/// per-signature answers of `verify_nested_explicit`, plus the verdicts of `verify_nested`
fn run(bytes: &[u8], keys: &[VK]) -> Result<(Vec<String>, Vec<bool>, String, String), String> {
    let parse = || Message::from_bytes(std::io::Cursor::new(bytes.to_vec())).map_err(|e| class("parse", &e.to_string()));
    let mut m = parse()?;
    let mut sink = Vec::new();
    m.read_to_end(&mut sink).map_err(|e| class("read", &e.to_string()))?;
    let mut per = Vec::new();
    for (i, k) in keys.iter().enumerate() {
        per.push(match m.verify_nested_explicit(i, k) {
            Ok(_) => "ok".to_string(),
            Err(e) => class("verify", &e.to_string()),
        });
    }
    let refs: Vec<&dyn VerifyingKey> = keys.iter().map(|k| k as &dyn VerifyingKey).collect();
    let nested = match m.verify_nested(&refs) {
        Ok(v) => v.iter().map(|r| matches!(r, VerificationResult::Valid(_))).collect(),
        Err(e) => return Err(class("verify", &e.to_string())),
    };
    let first = match m.verify(&keys[0]) {
        Ok(_) => "ok".to_string(),
        Err(e) => class("verify", &e.to_string()),
    };
    let mut m2 = parse()?;
    let vr = match m2.verify_read(&keys[0]) {
        Ok(_) => "ok".to_string(),
        Err(_) => "err".to_string(),
    };
    Ok((per, nested, first, vr))
}

pub(super) fn run_all(ctx: &mut Ctx, fixes: &[Fix]) {
    let mut rng = ChaCha8Rng::seed_from_u64(ctx.rng.gen());
    let pool: Vec<&Fix> = fixes.iter().filter(|f| f.weight <= 1).collect();
    if pool.len() < 2 {
        return;
    }
    let docs: Vec<(&str, Vec<u8>)> = vec![
        ("lf-inside", b"pay 100 to alice\nref 4711".to_vec()),
        ("crlf-only", b"line one\r\nline two\r\n".to_vec()),
        ("ends-cr", b"line one\nline two\r".to_vec()),
        ("mixed", b"a\rb\n\nc\r\n\rd\n".to_vec()),
    ];
    // (types, layout): T = text, B = binary; layout octet per signature: p = prefixed, o = one-pass
    let shapes: Vec<(&str, &str)> = vec![
        ("BT", "pp"), ("TB", "pp"), ("BT", "oo"), ("TB", "oo"), ("BT", "po"), ("TB", "po"), ("BT", "op"), ("TB", "op"),
        ("TT", "pp"), ("BB", "oo"), ("BTB", "ppp"), ("TBT", "ooo"), ("BTT", "poo"), ("TBB", "opo"), ("TTB", "ppo"),
    ];
    let mut rot = 0usize;
    for (di, (dname, doc)) in docs.iter().enumerate() {
        for (si, (types, layout)) in shapes.iter().enumerate() {
            if !ctx.thorough() && di >= 2 && si % 3 != di % 3 {
                continue;
            }
            // sign: signer rotates through the pool (v4 and v6 keys mixed in one message)
            let mut entries: Vec<Entry> = Vec::new();
            let mut t0 = Tables::default();
            let mut ok = true;
            let n = types.len();
            let n_ops = layout.bytes().filter(|&c| c == b'o').count();
            let mut seen_ops = 0usize;
            for (j, (ty, lay)) in types.bytes().zip(layout.bytes()).enumerate() {
                let fix = pool[(rot + j) % pool.len()];
                let text = ty == b'T';
                let typ = if text { SignatureType::Text } else { SignatureType::Binary };
                let Ok(cfg) = config_for(&mut rng, &fix.prim_sec, typ, fix.hashes[0], false, None) else {
                    ok = false;
                    break;
                };
                let sig = match guarded(|| cfg.sign(&fix.prim_sec, &Password::empty(), ScheduledReader::from_chunks(&cut_after_cr(doc, 4096)))) {
                    Ok(Ok(s)) => s,
                    _ => {
                        ok = false;
                        break;
                    }
                };
                let body = body_of(&sig);
                if log_original(&mut t0, &sig, &Subject::Doc(doc.clone()), &fix.prim_pub).is_err() {
                    ok = false;
                    break;
                }
                let one_pass = lay == b'o';
                if one_pass {
                    seen_ops += 1;
                }
                let ops = if one_pass { ops_body(&sig, &fix.prim_pub, if seen_ops == n_ops { 1 } else { 0 }) } else { None };
                entries.push(Entry { fix, text, one_pass, sig, body, ops });
            }
            rot += 1;
            if !ok || entries.len() != n {
                ctx.stat("multi:skipped");
                continue;
            }
            ctx.stat(&format!("multi:{types}:{layout}"));
            let keys: Vec<VK> = entries.iter().map(|e| VK { k: e.fix.prim_pub.clone(), yes: false }).collect();
            let who: Vec<String> = entries.iter().map(|e| format!("{}{}:{}", if e.text { "T" } else { "B" }, if e.one_pass { "o" } else { "p" }, e.fix.name)).collect();
            let label = format!("mixed message [{}] doc={dname}", who.join(" "));

            let mut variants: Vec<(String, Vec<u8>, bool)> = vec![("original".into(), doc.clone(), true)];
            let mut ms = eol_mutations(doc);
            ms.push(flip(doc, 0, 0));
            ms.push(ins(doc, doc.len(), b'x'));
            ms.push(del(doc, doc.len() - 1));
            if !ctx.thorough() {
                ms = ms.into_iter().enumerate().filter(|(i, m)| m.desc.contains("all") || m.off == 0 || m.off + 2 >= doc.len() || i % 4 == 0).map(|(_, m)| m).collect();
            }
            for m in ms {
                variants.push((m.desc, m.out, false));
            }
            for (desc, d2, original) in variants {
                let bytes = message_bytes(&entries, &d2);
                let inp = format!("{label} {desc} msg={}", hx(&bytes));
                let res = guarded(|| run(&bytes, &keys));
                let rfc = Subject::Doc(d2.clone());
                let mut t = t0.clone();
                for e in &entries {
                    t = tables_for(&t, &[&e.body], &rfc);
                }
                match res {
                    Ok(Ok((per, nested, first, vr))) => {
                        for (i, e) in entries.iter().enumerate() {
                            let site = format!("mixed signed message: verify_nested_explicit({i}) on a {} signature", if e.text { "text" } else { "binary" });
                            ctx.case(request(&entries, i, &d2, &keys[i], &t), per[i].clone());
                            let same = if e.text { sigrec::rfc_canon_text(&d2) == sigrec::rfc_canon_text(doc) } else { d2 == *doc };
                            if original {
                                ctx.oracle("original_verifies", &site, &inp, per[i] == "ok", &per[i]);
                            } else if same {
                                ctx.stat("multi:equivalent");
                                ctx.oracle("eol_variant_verifies", &site, &inp, per[i] == "ok", &per[i]);
                            } else {
                                ctx.stat(&format!("multi:changed:{}", per[i]));
                                ctx.oracle("mutation_rejected", &site, &inp, per[i] != "ok", "changed content still verifies");
                            }
                        }
                        // verify_nested says Valid for key j iff some signature verifies under it
                        for (j, kj) in keys.iter().enumerate() {
                            let any = entries.iter().enumerate().any(|(i, e)| per[i] == "ok" && body_of(&e.fix.prim_pub) == body_of(&kj.k));
                            ctx.oracle("entry_points_agree", "mixed signed message: verify_nested vs verify_nested_explicit", &inp, nested.get(j) == Some(&any), &format!("key {j}: nested {:?} explicit {per:?}", nested.get(j)));
                        }
                        ctx.oracle("entry_points_agree", "mixed signed message: verify / verify_read vs verify_nested_explicit(0)", &inp, (first == per[0]) && ((vr == "ok") == (per[0] == "ok")), &format!("{first} {vr} {}", per[0]));
                    }
                    Ok(Err(e)) => {
                        // the reader refused the message as a whole: the model says so for every index
                        for (i, _) in entries.iter().enumerate() {
                            ctx.case(request(&entries, i, &d2, &keys[i], &t), e.clone());
                        }
                        ctx.oracle("original_verifies", "mixed signed message", &inp, !original, &e);
                    }
                    Err(p) => ctx.oracle("original_verifies", "mixed signed message", &inp, false, &format!("panic {p}")),
                }
            }
        }
    }
}

// ------------------------------------------------------------------------------------------
// pairing of One-Pass headers with trailing signatures
// ------------------------------------------------------------------------------------------

struct Signer<'a> {
    name: String,
    sec: &'a SecAny,
    public: &'a PubAny,
    text: bool,
    hash: HashAlgorithm,
    one_pass: bool,
}

struct Made {
    name: String,
    public: PubAny,
    one_pass: bool,
    body: Vec<u8>,
    ops: Option<Vec<u8>>,
}

fn permutations(n: usize) -> Vec<Vec<usize>> {
    if n <= 3 {
        let mut out = vec![vec![]];
        for _ in 0..n {
            let mut next = Vec::new();
            for p in &out {
                for x in 0..n {
                    if !p.contains(&x) {
                        let mut q: Vec<usize> = p.clone();
                        q.push(x);
                        next.push(q);
                    }
                }
            }
            out = next;
        }
        out
    } else {
        // identity and every transposition
        let id: Vec<usize> = (0..n).collect();
        let mut out = vec![id.clone()];
        for a in 0..n {
            for b in a + 1..n {
                let mut p = id.clone();
                p.swap(a, b);
                out.push(p);
            }
        }
        out
    }
}

/// "a one-pass header that does not agree with its trailing signature never yields a successful
/// verification": the reader pairs One-Pass packet number j (of n) with the trailing Signature packet
/// at position n-1-j (RFC 9580 10.3: one-pass signed messages nest).  The trailing signatures of
/// messages whose One-Pass headers differ (hash, type, issuer, version, salt) are permuted; index i
/// may verify, under key m, only if the signature at ITS position was made by m and agrees with
/// header i - whatever other trailing signatures of the message would agree with it.
pub(super) fn run_pairing(ctx: &mut Ctx, fixes: &[Fix]) {
    let mut rng = ChaCha8Rng::seed_from_u64(ctx.rng.gen());
    let find = |n: &str| fixes.iter().find(|f| f.name == n);
    let (Some(l4), Some(e6), Some(e4), Some(p256)) = (find("ed25519legacy-v4"), find("ed25519-v6"), find("ed25519-v4"), find("ecdsa-p256-v4")) else { return };
    use HashAlgorithm::{Sha256, Sha512};
    let mk = |fix: &'static str, sub: bool, text: bool, hash: HashAlgorithm, one_pass: bool| (fix, sub, text, hash, one_pass);
    // (what differs between the headers, signers in order of appearance)
    let shapes: Vec<(&str, Vec<(&'static str, bool, bool, HashAlgorithm, bool)>)> = vec![
        ("hash", vec![mk("l4", false, false, Sha256, true), mk("l4", true, false, Sha512, true)]),
        ("type", vec![mk("l4", false, false, Sha256, true), mk("l4", true, true, Sha256, true)]),
        ("issuer-only", vec![mk("l4", false, false, Sha256, true), mk("l4", true, false, Sha256, true)]),
        ("version", vec![mk("l4", false, false, Sha256, true), mk("e6", false, false, Sha256, true)]),
        ("salt", vec![mk("e6", false, false, Sha256, true), mk("e6", true, false, Sha256, true)]),
        ("pk", vec![mk("e4", false, false, Sha512, true), mk("l4", false, false, Sha512, true)]),
        ("mixed3", vec![mk("l4", false, false, Sha256, true), mk("e6", false, true, Sha512, true), mk("l4", true, false, Sha512, true)]),
        ("v6-3", vec![mk("e6", false, false, Sha256, true), mk("e6", true, false, Sha512, true), mk("e4", false, true, Sha512, true)]),
        ("prefixed-first", vec![mk("p256", false, false, Sha256, false), mk("l4", false, false, Sha256, true), mk("l4", true, false, Sha512, true)]),
        ("prefixed-between", vec![mk("l4", false, true, Sha256, true), mk("p256", false, false, Sha256, false), mk("e6", false, false, Sha512, true)]),
        ("mixed4", vec![mk("l4", false, false, Sha256, true), mk("l4", true, false, Sha512, true), mk("e6", false, true, Sha256, true), mk("e4", false, false, Sha512, true)]),
    ];
    let docs: Vec<(&str, Vec<u8>)> = vec![("lf-inside", b"pay 100 to alice\nref 4711".to_vec()), ("crlf", b"a\r\nb".to_vec())];
    for (di, (dname, doc)) in docs.iter().enumerate() {
        for (what, spec) in &shapes {
            if di > 0 && !ctx.thorough() && !matches!(*what, "hash" | "mixed3") {
                continue;
            }
            let signers: Vec<Signer> = spec
                .iter()
                .map(|(f, sub, text, hash, one_pass)| {
                    let fix = match *f { "l4" => l4, "e6" => e6, "e4" => e4, _ => p256 };
                    Signer { name: format!("{}{}", fix.name, if *sub { "/sub" } else { "" }), sec: if *sub { &fix.sub_sec } else { &fix.prim_sec }, public: if *sub { &fix.sub_pub } else { &fix.prim_pub }, text: *text, hash: *hash, one_pass: *one_pass }
                })
                .collect();
            let n_ops = signers.iter().filter(|s| s.one_pass).count();
            let mut made: Vec<Made> = Vec::new();
            let mut t0 = Tables::default();
            let mut seen_ops = 0;
            for s in &signers {
                let typ = if s.text { SignatureType::Text } else { SignatureType::Binary };
                let Ok(cfg) = config_for(&mut rng, s.sec, typ, s.hash, false, None) else { break };
                let Ok(Ok(sig)) = guarded(|| cfg.sign(s.sec, &Password::empty(), &doc[..])) else { break };
                if log_original(&mut t0, &sig, &Subject::Doc(doc.clone()), s.public).is_err() {
                    break;
                }
                if s.one_pass {
                    seen_ops += 1;
                }
                let ops = if s.one_pass { ops_body(&sig, s.public, if seen_ops == n_ops { 1 } else { 0 }) } else { None };
                made.push(Made { name: s.name.clone(), public: s.public.clone(), one_pass: s.one_pass, body: body_of(&sig), ops });
            }
            if made.len() != signers.len() {
                ctx.stat("pairing:skipped");
                continue;
            }
            ctx.stat(&format!("pairing:{what}"));
            let any_text = signers.iter().any(|s| s.text);
            let keys: Vec<VK> = made.iter().map(|m| VK { k: m.public.clone(), yes: false }).collect();
            // trailing signatures in nesting order: the one-pass signatures, last header first
            let ops_idx: Vec<usize> = made.iter().enumerate().filter(|(_, m)| m.one_pass).map(|(i, _)| i).collect();
            let nested: Vec<usize> = ops_idx.iter().rev().copied().collect();
            // the variants of the heads: as signed, and with the first One-Pass header naming a hash
            // algorithm for which no hasher can be made (it then takes no trailing signature)
            for unknown_first in [false, true] {
                if unknown_first && (di > 0 || !matches!(*what, "mixed3" | "hash" | "prefixed-first")) {
                    continue;
                }
                let heads: Vec<(bool, Vec<u8>)> = made
                    .iter()
                    .enumerate()
                    .map(|(i, m)| match &m.ops {
                        Some(o) => {
                            let mut o = o.clone();
                            if unknown_first && Some(&i) == ops_idx.first() {
                                o[2] = 99;
                            }
                            (true, o)
                        }
                        None => (false, m.body.clone()),
                    })
                    .collect();
                for perm in permutations(n_ops) {
                    let trailing: Vec<usize> = perm.iter().map(|&p| nested[p]).collect();
                    let identity = perm.iter().enumerate().all(|(a, b)| a == *b);
                    // wire bytes
                    let mut lit = lit_head(any_text);
                    lit.extend_from_slice(doc);
                    let mut pk: Vec<(u8, &[u8])> = heads.iter().map(|(op, b)| (if *op { 4u8 } else { 2u8 }, &b[..])).collect();
                    pk.push((11, &lit));
                    for &j in &trailing {
                        pk.push((2, &made[j].body));
                    }
                    let bytes = assemble(&pk);
                    let who: Vec<String> = made.iter().map(|m| format!("{}{}", if m.one_pass { "o:" } else { "p:" }, m.name)).collect();
                    let inp = format!("one-pass pairing [{what}: {}] doc={dname} trailing order {:?}{} msg={}", who.join(" "), trailing, if unknown_first { " first-header-hash=99" } else { "" }, hx(&bytes));
                    let mut t = t0.clone();
                    for m in &made {
                        t = tables_for(&t, &[&m.body], &Subject::Doc(doc.clone()));
                    }
                    let req = |i: usize, vk: &VK| -> String {
                        let mut r = format!("snd_wire i={i}");
                        for (op, b) in &heads {
                            r.push_str(&format!(" h={}:{}", if *op { "o" } else { "p" }, hex::encode(b)));
                        }
                        for &j in &trailing {
                            r.push_str(&format!(" t={}", hex::encode(&made[j].body)));
                        }
                        format!("{r} data={} {} {}", hx(doc), kdesc("k", &vk.k), t.show(false))
                    };
                    // run: the whole matrix index x key
                    let res = guarded(|| -> Result<(Vec<Vec<String>>, Vec<bool>, String, String), String> {
                        let parse = || Message::from_bytes(std::io::Cursor::new(bytes.clone())).map_err(|e| class("parse", &e.to_string()));
                        let mut m = parse()?;
                        let mut sink = Vec::new();
                        m.read_to_end(&mut sink).map_err(|e| class("read", &e.to_string()))?;
                        let mut mat = Vec::new();
                        for i in 0..made.len() {
                            let mut row = Vec::new();
                            for k in &keys {
                                row.push(match m.verify_nested_explicit(i, k) {
                                    Ok(_) => "ok".to_string(),
                                    Err(e) => class("verify", &e.to_string()),
                                });
                            }
                            mat.push(row);
                        }
                        let refs: Vec<&dyn VerifyingKey> = keys.iter().map(|k| k as &dyn VerifyingKey).collect();
                        let nested = m.verify_nested(&refs).map_err(|e| class("verify", &e.to_string()))?;
                        let first = match m.verify(&keys[0]) {
                            Ok(_) => "ok".to_string(),
                            Err(e) => class("verify", &e.to_string()),
                        };
                        let mut m2 = parse()?;
                        let vr = if m2.verify_read(&keys[0]).is_ok() { "ok" } else { "err" }.to_string();
                        Ok((mat, nested.iter().map(|r| matches!(r, VerificationResult::Valid(_))).collect(), first, vr))
                    });
                    match res {
                        Ok(Ok((mat, nestedv, first, vr))) => {
                            for i in 0..made.len() {
                                for (mi, k) in keys.iter().enumerate() {
                                    ctx.case(req(i, k), mat[i][mi].clone());
                                }
                            }
                            if unknown_first {
                                ctx.stat(&format!("pairing:unknown_hash_header:{}", mat.iter().flatten().filter(|a| *a == "ok").count()));
                                continue;
                            }
                            // which signature sits at the position of head i?
                            for (i, m) in made.iter().enumerate() {
                                let at: Option<usize> = if m.one_pass {
                                    let j = ops_idx.iter().position(|&x| x == i).expect("ops");
                                    Some(trailing[n_ops - 1 - j])
                                } else {
                                    Some(i)
                                };
                                for mi in 0..keys.len() {
                                    let ok = mat[i][mi] == "ok";
                                    let own = at.map(|j| {
                                        let agree = match &m.ops {
                                            Some(o) => !ops_disagrees(o, &made[j].body),
                                            None => true,
                                        };
                                        j == mi && agree
                                    }).unwrap_or(false);
                                    let site = format!("one-pass signed message: verify_nested_explicit({i}, key {mi})");
                                    ctx.oracle("valid_only_at_own_position", &site, &inp, !ok || own, &format!("index {i} verifies under key {mi} although the signature at its position is #{at:?}"));
                                    if own {
                                        ctx.oracle(if identity { "original_verifies" } else { "positional_pair_verifies" }, &site, &inp, ok, &mat[i][mi]);
                                    }
                                    ctx.stat(&format!("pairing:{}:{}", if own { "own" } else { "foreign" }, if ok { "ok" } else { "err" }));
                                }
                            }
                            for mi in 0..keys.len() {
                                let any = (0..made.len()).any(|i| mat[i][mi] == "ok");
                                ctx.oracle("entry_points_agree", "one-pass signed message: verify_nested vs verify_nested_explicit", &inp, nestedv.get(mi) == Some(&any), &format!("key {mi}: nested {:?}", nestedv.get(mi)));
                            }
                            ctx.oracle("entry_points_agree", "one-pass signed message: verify / verify_read vs verify_nested_explicit(0, key 0)", &inp, first == mat[0][0] && (vr == "ok") == (mat[0][0] == "ok"), &format!("{first} {vr} {}", mat[0][0]));
                        }
                        Ok(Err(e)) => {
                            for i in 0..made.len() {
                                ctx.case(req(i, &keys[i]), e.clone());
                            }
                            ctx.oracle("original_verifies", "one-pass signed message", &inp, !identity || unknown_first, &e);
                        }
                        Err(p) => ctx.oracle("original_verifies", "one-pass signed message", &inp, false, &format!("panic {p}")),
                    }
                }
            }
        }
    }
}
