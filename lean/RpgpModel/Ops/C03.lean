import RpgpModel.Proto
import RpgpModel.Seipd
namespace Rpgp.Ops.C03
open Rpgp

/-- one recorded primitive call: index, final-tag total (none = chunk AD), segment, result -/
structure Row where
  idx : Nat
  total : Option Nat
  seg : Bytes
  res : Option Bytes

def parseRow (ct : Bytes) (s : String) : Option Row :=
  match s.splitOn ";" with
  | [i, t, off, len, pt] => do
    let i ← i.toNat?
    let total ← if t = "-" then some none else t.toNat?.map some
    let off ← off.toNat?
    let len ← len.toNat?
    let res ← if pt = "x" then some none else (fromHex pt).map some
    pure { idx := i, total, seg := (ct.drop off).take len, res }
  | _ => none

def parseRows (ct : Bytes) (s : String) : Option (List Row) :=
  if s = "-" then some [] else (s.splitOn ",").mapM (parseRow ct)

/-- table-driven AEAD; a lookup miss yields `miss` -/
def tableAead (info : Bytes) (rows : List Row) (miss : Option Bytes) : Aead where
  aeadEnc := fun _ _ _ => []
  aeadDec := fun i ad c =>
    let total : Option (Option Nat) :=
      if ad == info then some none
      else if ad.take info.length == info && ad.length == info.length + 8 then some (some (beNat (ad.drop info.length)))
      else none
    match total with
    | none => miss
    | some t =>
      match rows.find? (fun r => r.idx == i && r.total == t && r.seg == c) with
      | some r => r.res
      | none => miss

def showRes (r : Bytes × Bool) : String :=
  (if r.2 then "ok:" else "err:") ++ hexOrDash r.1

def handle (op : String) (a : Args) : Option String :=
  match op with
  | "seipd2_dec" => do
    let cs ← a.nat "cs"
    let ct ← a.bytes "ct"
    let info ← a.bytes "info"
    let rows ← a.get? "rows" >>= parseRows ct
    let r1 := seipd2Decrypt (tableAead info rows none) info cs ct
    let r2 := seipd2Decrypt (tableAead info rows (some [])) info cs ct
    if r1 != r2 then pure "err:norow" else pure (showRes r1)
  | "seipd1_dec" => do
    let mode ← a.get? "mode"
    let bs ← a.nat "bs"
    let dec ← a.bytes "dec"
    let hin ← a.bytes "hin"     -- the one input on which the harness evaluated SHA-1 …
    let hout ← a.bytes "hout"   -- … and its digest
    let sha1 : Bytes → Bytes := fun x => if x == hin then hout else []
    match mode with
    | "cf" => do
      let max ← a.nat "max"
      match seipd1CheckFirst sha1 bs max dec with
      | some p => pure ("ok:" ++ hexOrDash p)
      | none => pure "err:-"
    | "st" =>
      let r := seipd1Streaming sha1 bs Gen.symDecBufferSize dec
      pure (showRes (r.1.flatten, r.2))
    | _ => none
  | _ => none

end Rpgp.Ops.C03
