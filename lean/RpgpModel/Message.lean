import RpgpModel.Framing
import RpgpModel.Seipd
/-!
# Message — the builder as a composition of layers, and the reader as the inverse chain

`composed/message/builder.rs  to_writer_inner`:

    sign (OPS₁ … OPSₙ ‖ literal ‖ SIGₙ … SIG₁)  →  compress?  →  encrypt?  →  outer framing

and `composed/message/{parser,types}.rs` + `reader/*.rs` as the inverse.  Everything
cryptographic or algorithmic (compression, AEAD, signature creation/verification, the digest
pre-image) is a parameter (`MsgPrims`); the laws used are explicit hypotheses of the theorems.
-/
namespace Rpgp

structure MsgPrims where
  compress : Nat → Bytes → Bytes
  decompress : Nat → Bytes → Option Bytes
  aead : Aead
  /-- bytes that signer `i`'s hasher is fed for literal body `d` (salt ‖ canon? d ‖ trailer) -/
  preimage : Nat → Bytes → Bytes
  /-- body of the one-pass-signature packet announcing signer `i` -/
  opsBody : Nat → Bytes
  /-- body of the signature packet signer `i` produces over a pre-image -/
  sigBody : Nat → Bytes → Bytes
  /-- verification of a signature packet body against a pre-image under signer `i`'s public key -/
  sigOk : Nat → Bytes → Bytes → Bool

inductive LitFraming where
  | fixed
  | part (k : Nat)
deriving DecidableEq, Repr

structure MsgCfg where
  litHdr : Bytes                 -- mode, name length, name, date
  lit : LitFraming               -- Fixed when the source length is known, else partial 2^k
  signers : List Nat
  compression : Option Nat
  /-- SEIPDv2: (configuration octets written before the ciphertext, info, chunk size) -/
  encryption : Option (Bytes × Bytes × Nat)
  /-- chunk exponent of the builder (`partial_chunk_size = 2^k`) -/
  k : Nat

/-- a packet with a new-format fixed-length header -/
def fixedPkt (tag : Nat) (body : Bytes) : Bytes := writeHeader true tag body.length ++ body

def literalPkt (c : MsgCfg) (payload : Bytes) : Bytes :=
  match c.lit with
  | .fixed => fixedPkt 11 (c.litHdr ++ payload)
  | .part k => emitPartial 11 k c.litHdr payload

/-- `SignGenerator`: OPS packets, the literal packet, then the signatures in reverse order -/
def signedStream (P : MsgPrims) (c : MsgCfg) (payload : Bytes) : Bytes :=
  (c.signers.map fun i => fixedPkt 4 (P.opsBody i)).flatten ++ literalPkt c payload ++
    (c.signers.reverse.map fun i => fixedPkt 2 (P.sigBody i (P.preimage i payload))).flatten

def compressedLayer (P : MsgPrims) (c : MsgCfg) (inner : Bytes) : Bytes :=
  match c.compression with
  | none => inner
  | some alg => emitPartial 8 c.k [alg.toUInt8] (P.compress alg inner)

def encryptedLayer (P : MsgPrims) (c : MsgCfg) (inner : Bytes) : Bytes :=
  match c.encryption with
  | none => inner
  | some (cfgOctets, info, cs) => emitPartial 18 c.k cfgOctets (seipd2Encrypt P.aead info cs inner)

def buildMsg (P : MsgPrims) (c : MsgCfg) (payload : Bytes) : Bytes :=
  encryptedLayer P c (compressedLayer P c (signedStream P c payload))

/-! ## reader -/

/-- split a packet stream into (tag, body) pairs (`PacketParser` + `PacketBodyReader`) -/
def splitPackets : Nat → Bytes → Option (List (Nat × Bytes))
  | 0, _ => none
  | fuel + 1, inp =>
    if inp = [] then some []
    else
      match deframe inp with
      | .error _ => none
      | .ok (h, body, rest) =>
        match splitPackets fuel rest with
        | none => none
        | some ps => some ((h.tag, body) :: ps)

structure ReadResult where
  payload : Bytes
  /-- per one-pass signature, in the order of the OPS packets: does the paired signature verify? -/
  verified : List Bool
deriving DecidableEq, Repr

/-- the signed / literal level: n OPS packets, one literal packet, n signature packets; OPS `j`
(0-based) is paired with signature `n-1-j` (`SignatureManyReader`) -/
def readSigned (P : MsgPrims) (litHdrLen : Nat) (signers : List Nat) (stream : Bytes) : Option ReadResult :=
  match splitPackets (stream.length + 1) stream with
  | none => none
  | some pkts =>
    let n := signers.length
    let ops := pkts.take n
    let lit := (pkts.drop n).head?
    let sigs := (pkts.drop (n + 1))
    match lit with
    | none => none
    | some (tag, body) =>
      if tag ≠ 11 ∨ ops.any (fun p => p.1 ≠ 4) ∨ sigs.any (fun p => p.1 ≠ 2) ∨ sigs.length ≠ n ∨ ops.length ≠ n
        ∨ body.length < litHdrLen then none
      else
        let payload := body.drop litHdrLen
        let sigBodies := (sigs.map (·.2)).reverse
        some { payload,
               verified := (signers.zip sigBodies).map fun (i, sb) => P.sigOk i (P.preimage i payload) sb }

def readCompressed (P : MsgPrims) (c : MsgCfg) (stream : Bytes) : Option Bytes :=
  match c.compression with
  | none => some stream
  | some _ =>
    match deframe stream with
    | .ok (h, body, rest) =>
      if h.tag ≠ 8 ∨ rest ≠ [] then none
      else
        match body with
        | a :: data => P.decompress a.toNat data
        | [] => none
    | .error _ => none

def readEncrypted (P : MsgPrims) (c : MsgCfg) (stream : Bytes) : Option Bytes :=
  match c.encryption with
  | none => some stream
  | some (cfgOctets, info, cs) =>
    match deframe stream with
    | .ok (h, body, rest) =>
      if h.tag ≠ 18 ∨ rest ≠ [] ∨ body.take cfgOctets.length ≠ cfgOctets then none
      else
        let r := seipd2Decrypt P.aead info cs (body.drop cfgOctets.length)
        if r.2 then some r.1 else none
    | .error _ => none

def readMsg (P : MsgPrims) (c : MsgCfg) (msg : Bytes) : Option ReadResult :=
  match readEncrypted P c msg with
  | none => none
  | some s1 =>
    match readCompressed P c s1 with
    | none => none
    | some s2 => readSigned P c.litHdr.length c.signers s2

end Rpgp
