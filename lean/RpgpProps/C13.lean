import RpgpProofs.Fingerprint
/-!
# C13 — fingerprints and key ids are the RFC-defined hashes and are stable

Model: `RpgpModel/Fingerprint.lean` (MPI codec, key-material dispatch, public/secret key packet
parser, `Serialize for PubKeyInner`, `imprint`, `fingerprint`, `legacy_key_id`, issuer subpackets,
`match_identity`, PKESK recipient field).  The digests are parameters (`structure Hashes`); nothing
here depends on what MD5/SHA-1/SHA-256 compute — only on *what is hashed*.  Where a statement
needs the digest size (key id = 8 named octets of a 20/32-octet fingerprint) it is an explicit
hypothesis on the lengths.

Literals of the source (0x99/0x9B, the `as u16` cast, 8-octet windows, fingerprint sizes, MPI
limits, subpacket type octets, PKESK version octets) are re-extracted on every run into `Gen`
(`tools/constants/fingerprint.py`), one definition per use site.
-/
namespace Rpgp.C13
open Rpgp

/-! ## the constants are the RFC's and all use sites agree -/

theorem framing_constants_rfc :
    Gen.fpV4Prefix = 0x99 ∧ Gen.fpV6Prefix = 0x9B ∧ Gen.fpV4VersionOctet = 4 ∧ Gen.fpV6VersionOctet = 6 ∧
    Gen.fpV6FixedLen = 1 + 4 + 1 + 4 ∧ Gen.fpV4LenBits = 16 := by decide

/-- the key framing inside signature pre-images (`serialize_for_hashing`) uses the same prefix
octets as the fingerprint (`imprint`) -/
theorem sites_agree_framing :
    Gen.sigKeyPrefixV4 = Gen.fpV4Prefix ∧ Gen.sigKeyPrefixV6 = Gen.fpV6Prefix := by decide

theorem fingerprint_sizes_rfc :
    Gen.fpLenV3 = 16 ∧ Gen.fpLenV4 = 20 ∧ Gen.fpLenV6 = 32 ∧
    Gen.kvFpLenV3 = Gen.fpLenV3 ∧ Gen.kvFpLenV4 = Gen.fpLenV4 ∧ Gen.kvFpLenV6 = Gen.fpLenV6 ∧
    Gen.fpArrV3 = Gen.fpLenV3 ∧ Gen.fpArrV4 = Gen.fpLenV4 ∧ Gen.fpArrV6 = Gen.fpLenV6 := by decide

theorem keyid_windows_are_64_bits :
    Gen.keyIdV3Width = 8 ∧ Gen.keyIdV3Sub = 8 ∧ Gen.keyIdV3Pad = 8 ∧ Gen.keyIdV4Width = 8 ∧
    Gen.keyIdV6Take = 8 ∧ Gen.pkeskKeyIdLen = 8 ∧ Gen.issuerKeyIdLen = 8 := by decide

theorem mpi_constants :
    Gen.maxExternMpiBits = 16384 ∧ Gen.mpiRoundAdd = 7 ∧ Gen.mpiRoundShift = 3 ∧ Gen.mpiBitsPerByte = 8 := by
  decide

theorem identity_field_octets_rfc :
    Gen.spIssuerKeyIdWr = 16 ∧ Gen.spIssuerKeyIdRd = Gen.spIssuerKeyIdWr ∧
    Gen.spIssuerFpWr = 33 ∧ Gen.spIssuerFpRd = Gen.spIssuerFpWr ∧ Gen.pkeskV3 = 3 ∧ Gen.pkeskV6 = 6 := by
  decide

/-- the model's material dispatch (`shape`) is keyed on the algorithm octets and native key sizes
the source has today -/
theorem material_dispatch_matches_source :
    shape Gen.algRsa = [.mpi, .mpi] ∧ shape Gen.algRsaEncrypt = [.mpi, .mpi] ∧ shape Gen.algRsaSign = [.mpi, .mpi] ∧
    shape Gen.algDsa = [.mpi, .mpi, .mpi, .mpi] ∧
    shape Gen.algElgamal = [.mpi, .mpi, .mpi] ∧ shape Gen.algElgamalEncrypt = [.mpi, .mpi, .mpi] ∧
    shape Gen.algEcdsa = [.lp, .mpi] ∧ shape Gen.algEddsaLegacy = [.lp, .mpi] ∧ shape Gen.algEcdh = [.lp, .mpi, .kdf] ∧
    shape Gen.algX25519 = [.fixed Gen.x25519PubLen] ∧ shape Gen.algEd25519 = [.fixed Gen.ed25519PubLen] ∧
    shape Gen.algX448 = [.fixed Gen.x448PubLen] ∧ shape Gen.algEd448 = [.fixed Gen.ed448PubLen] := by decide

theorem version_and_kdf_octets :
    Gen.keyVersionV2 = 2 ∧ Gen.keyVersionV3 = 3 ∧ Gen.keyVersionV4 = 4 ∧ Gen.keyVersionV6 = 6 ∧
    Gen.ecdhKdfParamLen = 3 ∧ Gen.ecdhKdfNative = 1 ∧ Gen.ecdhKdfNativeRd = Gen.ecdhKdfNative := by decide

/-! ## MPIs: normalisation, bit length, round trip, leading zeros -/

/-- MPI normalisation is idempotent -/
theorem mpi_norm_idem (b : Bytes) : stripZeros (stripZeros b) = stripZeros b := stripZeros_idem b

/-- … and does not change the value -/
theorem mpi_norm_value (b : Bytes) : beNat (stripZeros b) = beNat b := beNat_stripZeros b

/-- the bit count `Mpi::to_writer` writes is the bit length of the value (RFC 9580 §3.2) -/
theorem mpi_bit_count_is_bit_length (x : Byte) (r : Bytes) (hx : x ≠ 0) :
    2 ^ (bitSize (x :: r) - 1) ≤ beNat (x :: r) ∧ beNat (x :: r) < 2 ^ bitSize (x :: r) :=
  bitSize_is_bit_length x r hx

/-- write → read, every normalised body up to the 16384-bit limit, any following octets -/
theorem mpi_roundtrip (b rest : Bytes) (hn : stripZeros b = b) (hl : b.length ≤ 2048) :
    mpiParse (mpiSer b ++ rest) = some (b, rest) := mpiParse_mpiSer b rest hn hl

/-- whatever the reader accepts, what it stores is normalised, within the limit, has the value of
the octets on the wire, and the unread input is what followed them -/
theorem mpi_parse_normalises (inp b r : Bytes) (h : mpiParse inp = some (b, r)) :
    stripZeros b = b ∧ b.length ≤ 2048 ∧
    ∃ raw, inp = inp.take 2 ++ raw ++ r ∧ b = stripZeros raw ∧ beNat b = beNat raw := by
  obtain ⟨h1, h2, _, raw, h4, h5⟩ := mpiParse_spec inp b r h
  exact ⟨h1, h2, raw, h4, h5, by rw [h5, beNat_stripZeros]⟩

/-- an encoding with `z` leading zero octets (and any bit count that rounds to the padded
octet count) is read as the very same stored body as the canonical encoding -/
theorem mpi_leading_zeros_same (b rest : Bytes) (z bits : Nat) (hn : stripZeros b = b)
    (hbits : (bits + 7) / 8 = z + b.length) (hmax : bits ≤ 16384) (hl : b.length ≤ 2048) :
    mpiParse (be16 bits ++ List.replicate z 0 ++ b ++ rest) = mpiParse (mpiSer b ++ rest) := by
  rw [mpiParse_leading_zeros b rest z bits hn hbits hmax, mpiParse_mpiSer b rest hn hl]

/-! ## key packets: parse ∘ serialize -/

/-- serialize → parse is the identity on every well-formed key (either parser), with any
following octets (for an unknown algorithm in v2–v4 the material *is* the rest of the packet) -/
theorem parse_ser (strict : Bool) (k : PubKey) (body rest : Bytes) (hw : WF strict k)
    (hs : serBody k = some body) (hr : shape k.alg = [.rest] → k.version ≠ 6 → rest = []) :
    parseBody strict (body ++ rest) = some (k, rest) := parseBody_serBody strict k body rest hw hs hr

/-- every key the parser returns is well formed: MPIs normalised and within the limit, fields
conforming to the algorithm's layout, version/algorithm admitted, sizes in range -/
theorem parse_wellformed (strict : Bool) (w : Bytes) (k : PubKey) (rest : Bytes)
    (h : parseBody strict w = some (k, rest)) : WF strict k := parseBody_wf strict w k rest h

/-- a well-formed key always serializes -/
theorem wellformed_serializes (strict : Bool) (k : PubKey) (hw : WF strict k) : ∃ body, serBody k = some body := by
  obtain ⟨hver, _, _, _, _, _, _, hlen6⟩ := hw
  unfold serBody
  rcases hver with h | h | h | h
  · simp [h]
  · simp [h]
  · simp [h]
  · have := (hlen6 h).1
    simp [h, this]

/-- **stability under parse ∘ serialize.**  Whatever octets a key packet was read from
(non-minimal MPIs, over-long v6 windows, trailing octets), serializing the parsed key and parsing
it again gives the same key — hence the same fingerprint and key id, for every hash. -/
theorem fp_reparse (strict : Bool) (w : Bytes) (k : PubKey) (rest : Bytes)
    (h : parseBody strict w = some (k, rest)) :
    ∃ body, serBody k = some body ∧ parseBody strict body = some (k, []) ∧
      ∀ H : Hashes, (parseBody strict body).map (fun p => (fingerprint H p.1, legacyKeyId H p.1)) =
        some (fingerprint H k, legacyKeyId H k) := by
  have hw := parseBody_wf strict w k rest h
  obtain ⟨body, hs⟩ := wellformed_serializes strict k hw
  have hp := parseBody_serBody strict k body [] hw hs (fun _ _ => rfl)
  rw [List.append_nil] at hp
  exact ⟨body, hs, hp, fun H => by rw [hp]; rfl⟩

/-- … and the re-serialization is a fixed point: serialize ∘ parse ∘ serialize = serialize -/
theorem ser_parse_ser (strict : Bool) (w : Bytes) (k : PubKey) (rest : Bytes)
    (h : parseBody strict w = some (k, rest)) (body : Bytes) (hs : serBody k = some body) :
    (parseBody strict body).bind (fun p => serBody p.1) = some body := by
  have hw := parseBody_wf strict w k rest h
  have hp := parseBody_serBody strict k body [] hw hs (fun _ _ => rfl)
  rw [List.append_nil] at hp
  rw [hp]; exact hs

/-- **secret key = its public half.**  The secret key reports the identity of its public part
(both hash the same public body), and that public part, written out as a public-key packet and
read back by the public-key parser, is the same key. -/
theorem fp_secret_eq_public (w : Bytes) (sk : SecKey) (h : parseSecBody w = some sk) :
    (∀ H : Hashes, sk.fingerprint H = fingerprint H sk.publicPart ∧
      sk.legacyKeyId H = legacyKeyId H sk.publicPart) ∧
    ∀ pb, serBody sk.publicPart = some pb →
      (sk.publicPart.version = 6 → 0 < (serMaterial sk.publicPart.mat).length) →
      parsePubBody pb = some (sk.publicPart, []) := by
  refine ⟨fun H => ⟨rfl, rfl⟩, fun pb hs hpos => ?_⟩
  unfold parseSecBody at h
  cases hc : parseBodyCur true w with
  | none => simp [hc] at h
  | some p =>
    obtain ⟨k, rest⟩ := p
    simp only [hc, Option.some.injEq] at h
    subst h
    have hp := parseBodyCur_some true w (k, rest) hc
    have hw := parseBody_wf true w k rest hp
    have := parseBody_serBody true k pb [] hw hs (fun _ _ => rfl)
    rw [List.append_nil] at this
    have hx := v6CountExact_serBody k pb [] hs hpos
    rw [List.append_nil] at hx
    unfold parsePubBody
    rw [parseBodyCur_eq false pb hx]
    exact this

/-- after repair D15d the public-key parser and the secret-key parser read the public part of a key
packet alike, whatever the octets (before, an over-stated v6 octet count was accepted by the public
parser only, a zero count by the secret parser only) -/
theorem key_parsers_agree (w : Bytes) : parseBodyCur false w = parseBodyCur true w :=
  parseBodyCur_strict_irrelevant w

/-- **leading-zero encodings, whole keys (v2–v4 layout shown for v4).**  A key packet whose MPIs
are written with any numbers of leading zero octets (and any declared bit counts that round to the
padded sizes) is read as *the same key* as the canonical packet — so its fingerprint and key id
are those of the canonical encoding, whatever the hash.  (`PadsOK`, `serMaterialPad`:
`RpgpProofs/Fingerprint.lean`.) -/
theorem leading_zero_encoding_same_key_v4 (strict : Bool) (k : PubKey) (hw : WF strict k) (hv : k.version = 4)
    (hnr : Kind.rest ∉ shape k.alg) (ps : List (Nat × Nat)) (hp : PadsOK ps k.mat) (rest : Bytes) :
    parseBody strict (4 :: be32 k.created ++ [k.alg.toUInt8] ++ serMaterialPad ps k.mat ++ rest) = some (k, rest) :=
  parseBody_padded_v4 strict k hw hv hnr ps hp rest

/-- … and for v6, where the announced material length grows with the padding -/
theorem leading_zero_encoding_same_key_v6 (strict : Bool) (k : PubKey) (hw : WF strict k) (hv : k.version = 6)
    (hnr : Kind.rest ∉ shape k.alg) (ps : List (Nat × Nat)) (hp : PadsOK ps k.mat) (rest : Bytes)
    (hl : (serMaterialPad ps k.mat).length < 4294967296)
    (hpos : strict = false → 0 < (serMaterialPad ps k.mat).length) :
    parseBody strict (6 :: be32 k.created ++ [k.alg.toUInt8] ++ be32 (serMaterialPad ps k.mat).length ++
      serMaterialPad ps k.mat ++ rest) = some (k, rest) :=
  parseBody_padded_v6 strict k hw hv hnr ps hp rest hl hpos

/-- the padded writer with no padding and exact bit counts is the canonical writer -/
theorem padded_writer_generalises_canonical (fs : Material) :
    serMaterialPad (fs.map fun f => match f with | .mpi b => (0, bitSize b) | _ => (0, 0)) fs = serMaterial fs :=
  serMaterialPad_canonical fs

/-! ## the pre-image is the RFC's framing of the serialized body -/

/-- v4: `imprint` rebuilds the packet by hand; it is `0x99 ‖ len16 ‖ body` of what `Serialize`
writes (RFC 9580 §5.5.4.2) -/
theorem imprint_hashes_serialized_body_v4 (k : PubKey) (body : Bytes) (hv : k.version = 4)
    (hs : serBody k = some body) : preimage k = some (0x99 :: be16 body.length ++ body) := by
  simp only [serBody, hv, show ¬ ((4 : Nat) = 2 ∨ (4 : Nat) = 3) by decide, if_false, if_true,
    Option.some.injEq] at hs
  subst hs
  simp [preimage, hv, Gen.fpV4Prefix, Gen.fpV4VersionOctet, Gen.fpV4LenBits, be16]

/-- v6: `0x9B ‖ len32 ‖ body` (§5.5.4.3) -/
theorem imprint_hashes_serialized_body_v6 (k : PubKey) (body : Bytes) (hv : k.version = 6)
    (hs : serBody k = some body) : preimage k = some (0x9B :: be32 body.length ++ body) := by
  simp only [serBody, hv, show ¬ ((6 : Nat) = 2 ∨ (6 : Nat) = 3) by decide, show ¬ ((6 : Nat) = 4) by decide,
    if_false, if_true] at hs
  split at hs
  · simp only [Option.some.injEq] at hs
    subst hs
    have e : ∀ n : Nat, n + 1 + 1 + 1 + 1 + 1 + 1 + 1 + 1 + 1 + 1 = 10 + n := by intro n; omega
    simp [preimage, hv, Gen.fpV6Prefix, Gen.fpV6VersionOctet, Gen.fpV6FixedLen, be32, beBytes, e]
  · simp at hs

/-- v2/v3: MD5 over the MPI *bodies* of n and e, no length prefixes (§5.5.4.1) -/
theorem imprint_v3_bodies_only (k : PubKey) (n e : Bytes) (hv : k.version = 2 ∨ k.version = 3)
    (hm : k.mat = [.mpi n, .mpi e]) : preimage k = some (n ++ e) := by
  simp [preimage, hv, hm]

/-- the reported fingerprint is the RFC 9580 §5.5.4 fingerprint of the serialized key, for
every version the library computes fingerprints for, whatever the hash functions are -/
theorem fingerprint_is_rfc (H : Hashes) (k : PubKey) (fp : Fp) (h : fingerprint H k = some fp)
    (hser : (serBody k).isSome) (hv3 : k.version = 2 ∨ k.version = 3 → ∃ n e, k.mat = [.mpi n, .mpi e]) :
    specFingerprint H k = some fp.bytes ∧ fp.ver = k.version := by
  obtain ⟨body, hs⟩ := Option.isSome_iff_exists.mp hser
  unfold fingerprint at h
  cases hp : preimage k with
  | none => simp [hp] at h
  | some pre =>
    simp only [hp] at h
    by_cases h23 : k.version = 2 ∨ k.version = 3
    · obtain ⟨n, e, hm⟩ := hv3 h23
      have := imprint_v3_bodies_only k n e h23 hm
      rw [hp] at this
      simp only [Option.some.injEq] at this
      subst this
      simp only [h23, if_true, Option.some.injEq] at h
      subst h
      have h32 : k.version = 3 ∨ k.version = 2 := by omega
      simp [specFingerprint, hs, h32, hm]
    · simp only [h23, if_false] at h
      by_cases h4 : k.version = 4
      · have := imprint_hashes_serialized_body_v4 k body h4 hs
        rw [hp] at this
        simp only [Option.some.injEq] at this
        subst this
        simp only [h4, if_true, Option.some.injEq] at h
        subst h
        simp [specFingerprint, hs, h4]
      · have h6 : k.version = 6 := by
          unfold preimage at hp
          simp only [h23, h4, if_false] at hp
          by_cases h6 : k.version = 6
          · exact h6
          · simp [h6] at hp
        have := imprint_hashes_serialized_body_v6 k body h6 hs
        rw [hp] at this
        simp only [Option.some.injEq] at this
        subst this
        simp only [h4, if_false, Option.some.injEq] at h
        subst h
        simp [specFingerprint, hs, h6]

/-- the key framing used inside signature pre-images is, octet for octet, the fingerprint
pre-image (so a certification and the fingerprint commit to the same octets) -/
theorem sig_key_framing_eq_fp_preimage (k : PubKey) (f : Bytes) (hv : k.version = 4 ∨ k.version = 6)
    (h : keyFraming k = some f) : preimage k = some f := by
  unfold keyFraming at h
  cases hs : serBody k with
  | none => simp [hs] at h
  | some body =>
    simp only [hs] at h
    rcases hv with h4 | h6
    · have hc : k.version = 2 ∨ k.version = 3 ∨ k.version = 4 := by omega
      rw [if_pos hc] at h
      by_cases hl : body.length < 65536
      · rw [if_pos hl] at h
        injection h with h
        rw [imprint_hashes_serialized_body_v4 k body h4 hs, ← h]
        simp [Gen.sigKeyPrefixV4]
      · rw [if_neg hl] at h; simp at h
    · have hc : ¬ (k.version = 2 ∨ k.version = 3 ∨ k.version = 4) := by omega
      rw [if_neg hc, if_pos h6] at h
      by_cases hl : body.length < 4294967296
      · rw [if_pos hl] at h
        injection h with h
        rw [imprint_hashes_serialized_body_v6 k body h6 hs, ← h]
        simp [Gen.sigKeyPrefixV6]
      · rw [if_neg hl] at h; simp at h

/-! ## the v4 length field is the body length modulo 2¹⁶ — exactly what the code does -/

/-- `(packet.len() as u16)`: the two length octets are `len mod 65536`, and the *whole* body
follows regardless (RFC 9580 only defines bodies below 65536 octets; the code wraps silently
instead of failing — `serialize_for_hashing` for signatures fails instead, see `keyFraming`) -/
theorem v4_length_field_is_mod_65536 (k : PubKey) (body : Bytes) (hv : k.version = 4)
    (hs : serBody k = some body) :
    ∃ pre l0 l1, preimage k = some pre ∧ pre = 0x99 :: l0 :: l1 :: body ∧
      beNat [l0, l1] = body.length % 65536 := by
  refine ⟨_, (body.length / 256 % 256).toUInt8, (body.length % 256).toUInt8,
    imprint_hashes_serialized_body_v4 k body hv hs, by simp [be16_eq], ?_⟩
  rw [beNat_two, toUInt8_toNat_of_lt _ (Nat.mod_lt _ (by decide)), toUInt8_toNat_of_lt _ (Nat.mod_lt _ (by decide))]
  omega

/-- two lengths that differ by 65536 get the same length field -/
theorem v4_length_field_wraps (n : Nat) : be16 (n + 65536) = be16 n := by
  rw [be16_eq, be16_eq]
  have h1 : (n + 65536) / 256 % 256 = n / 256 % 256 := by omega
  have h2 : (n + 65536) % 256 = n % 256 := by omega
  rw [h1, h2]

/-! ## the framing cannot be confused: injectivity of the pre-image -/

/-- v4: equal pre-images ⇒ equal serialized bodies — for *every* body length, also beyond 65535
where the length field wraps (the prefix has a fixed size, the body follows in full) -/
theorem preimage_injective_body_v4 (k1 k2 : PubKey) (b1 b2 : Bytes) (h1 : k1.version = 4) (h2 : k2.version = 4)
    (s1 : serBody k1 = some b1) (s2 : serBody k2 = some b2) (h : preimage k1 = preimage k2) : b1 = b2 := by
  rw [imprint_hashes_serialized_body_v4 k1 b1 h1 s1, imprint_hashes_serialized_body_v4 k2 b2 h2 s2] at h
  simp only [be16_eq, Option.some.injEq, List.cons.injEq, List.cons_append, List.nil_append] at h
  exact h.2.2.2

theorem preimage_injective_body_v6 (k1 k2 : PubKey) (b1 b2 : Bytes) (h1 : k1.version = 6) (h2 : k2.version = 6)
    (s1 : serBody k1 = some b1) (s2 : serBody k2 = some b2) (h : preimage k1 = preimage k2) : b1 = b2 := by
  rw [imprint_hashes_serialized_body_v6 k1 b1 h1 s1, imprint_hashes_serialized_body_v6 k2 b2 h2 s2] at h
  simp only [be32_eq, Option.some.injEq, List.cons.injEq, List.cons_append, List.nil_append] at h
  exact h.2.2.2.2.2

/-- a v4 pre-image is never a v6 pre-image -/
theorem preimage_versions_separated (k1 k2 : PubKey) (h1 : k1.version = 4) (h2 : k2.version = 6)
    (s1 : (serBody k1).isSome) (s2 : (serBody k2).isSome) : preimage k1 ≠ preimage k2 := by
  obtain ⟨b1, s1⟩ := Option.isSome_iff_exists.mp s1
  obtain ⟨b2, s2⟩ := Option.isSome_iff_exists.mp s2
  rw [imprint_hashes_serialized_body_v4 k1 b1 h1 s1, imprint_hashes_serialized_body_v6 k2 b2 h2 s2]
  simp

/-- **pre-image injectivity in the key.**  Two well-formed v4/v6 keys with the same pre-image are
the same key (version, creation time, algorithm and every field of the material): the only way
to get equal fingerprints from different keys is a collision of the hash itself. -/
theorem preimage_injective_key (strict : Bool) (k1 k2 : PubKey) (w1 : WF strict k1) (w2 : WF strict k2)
    (v1 : k1.version = 4 ∨ k1.version = 6) (v2 : k2.version = 4 ∨ k2.version = 6)
    (h : preimage k1 = preimage k2) : k1 = k2 := by
  obtain ⟨b1, s1⟩ := wellformed_serializes strict k1 w1
  obtain ⟨b2, s2⟩ := wellformed_serializes strict k2 w2
  have hb : b1 = b2 := by
    rcases v1 with a | a <;> rcases v2 with b | b
    · exact preimage_injective_body_v4 k1 k2 b1 b2 a b s1 s2 h
    · exact absurd h (preimage_versions_separated k1 k2 a b (by simp [s1]) (by simp [s2]))
    · exact absurd h.symm (preimage_versions_separated k2 k1 b a (by simp [s2]) (by simp [s1]))
    · exact preimage_injective_body_v6 k1 k2 b1 b2 a b s1 s2 h
  subst hb
  have p1 := parseBody_serBody strict k1 b1 [] w1 s1 (fun _ _ => rfl)
  have p2 := parseBody_serBody strict k2 b1 [] w2 s2 (fun _ _ => rfl)
  rw [p1] at p2
  simp only [Option.some.injEq, Prod.mk.injEq, and_true] at p2
  exact p2

/-- hence: under collision freedom of the digest on the pre-images, equal fingerprints ⇒ equal keys -/
theorem equal_fingerprints_equal_keys (H : Hashes) (strict : Bool) (k1 k2 : PubKey)
    (w1 : WF strict k1) (w2 : WF strict k2) (v1 : k1.version = 4 ∨ k1.version = 6) (v2 : k2.version = 4 ∨ k2.version = 6)
    (hcf1 : ∀ x y, H.sha1 x = H.sha1 y → x = y) (hcf2 : ∀ x y, H.sha256 x = H.sha256 y → x = y)
    (h : fingerprint H k1 = fingerprint H k2) : k1 = k2 := by
  obtain ⟨b1, s1⟩ := wellformed_serializes strict k1 w1
  obtain ⟨b2, s2⟩ := wellformed_serializes strict k2 w2
  apply preimage_injective_key strict k1 k2 w1 w2 v1 v2
  rcases v1 with a | a <;> rcases v2 with b | b
  · have e1 := imprint_hashes_serialized_body_v4 k1 b1 a s1
    have e2 := imprint_hashes_serialized_body_v4 k2 b2 b s2
    simp only [fingerprint, e1, e2, a, b, show ¬ ((4 : Nat) = 2 ∨ (4 : Nat) = 3) by decide, if_false, if_true,
      Option.some.injEq, Fp.mk.injEq, true_and] at h
    rw [e1, e2, hcf1 _ _ h]
  · have e1 := imprint_hashes_serialized_body_v4 k1 b1 a s1
    have e2 := imprint_hashes_serialized_body_v6 k2 b2 b s2
    simp [fingerprint, e1, e2, a, b] at h
  · have e1 := imprint_hashes_serialized_body_v6 k1 b1 a s1
    have e2 := imprint_hashes_serialized_body_v4 k2 b2 b s2
    simp [fingerprint, e1, e2, a, b] at h
  · have e1 := imprint_hashes_serialized_body_v6 k1 b1 a s1
    have e2 := imprint_hashes_serialized_body_v6 k2 b2 b s2
    simp only [fingerprint, e1, e2, a, b, show ¬ ((6 : Nat) = 2 ∨ (6 : Nat) = 3) by decide,
      show ¬ ((6 : Nat) = 4) by decide, if_false, Option.some.injEq, Fp.mk.injEq, true_and] at h
    rw [e1, e2, hcf2 _ _ h]

/-- the v3 definition (RFC 9580 §5.5.4.1: MD5 over the concatenated MPI bodies, no lengths) is
*not* injective in the key — a property of the RFC's definition, faithfully implemented -/
theorem v3_preimage_not_injective :
    ∃ k1 k2 : PubKey, k1.version = 3 ∧ k2.version = 3 ∧ k1 ≠ k2 ∧ preimage k1 = preimage k2 :=
  ⟨{ version := 3, created := 0, expiry := 0, alg := 1, mat := [.mpi [1, 2], .mpi [3]] },
   { version := 3, created := 0, expiry := 0, alg := 1, mat := [.mpi [1], .mpi [2, 3]] },
   rfl, rfl, by decide, by decide⟩

/-! ## key id = the specified 8 octets of the fingerprint -/

/-- v4: the last 8 octets, i.e. the low 64 bits of the fingerprint read as a number -/
theorem keyid_v4_low_64_bits (fp : Bytes) (h : 8 ≤ fp.length) :
    keyIdV4 fp = fp.drop (fp.length - 8) ∧ (keyIdV4 fp).length = 8 ∧
    beNat (keyIdV4 fp) = beNat fp % 18446744073709551616 := by
  refine ⟨rfl, ?_, ?_⟩
  · simp only [keyIdV4, Gen.keyIdV4Width, List.length_drop]; omega
  · have := beNat_drop fp 8 h
    simpa [keyIdV4, Gen.keyIdV4Width] using this

/-- v6: the first 8 octets, i.e. the high 64 bits -/
theorem keyid_v6_high_64_bits (fp : Bytes) (h : 8 ≤ fp.length) :
    keyIdV6 fp = fp.take 8 ∧ (keyIdV6 fp).length = 8 ∧
    beNat (keyIdV6 fp) = beNat fp / 256 ^ (fp.length - 8) := by
  refine ⟨rfl, ?_, ?_⟩
  · simp only [keyIdV6, Gen.keyIdV6Take, List.length_take]; omega
  · exact beNat_take fp 8 h

/-- v6 with a 32-octet digest: `fingerprint / 2¹⁹²` -/
theorem keyid_v6_of_sha256 (fp : Bytes) (h : fp.length = 32) :
    beNat (keyIdV6 fp) = beNat fp / 2 ^ 192 := by
  rw [(keyid_v6_high_64_bits fp (by omega)).2.2, h]

/-- v2/v3: the low 64 bits of the modulus, for a modulus of any length (a short one is
left-padded with zeros) -/
theorem keyid_v3_low_64_bits (n : Bytes) :
    (keyIdV3 n).length = 8 ∧ beNat (keyIdV3 n) = beNat n % 18446744073709551616 := by
  unfold keyIdV3
  simp only [Gen.keyIdV3Width, Gen.keyIdV3Sub, Gen.keyIdV3Pad]
  by_cases h : 8 ≤ n.length
  · simp only [h, if_true]
    refine ⟨by simp only [List.length_drop]; omega, ?_⟩
    simpa using beNat_drop n 8 h
  · simp only [h, if_false]
    refine ⟨by simp only [List.length_append, List.length_replicate]; omega, ?_⟩
    rw [beNat_replicate_zero]
    have := beNat_lt n
    have hp : 256 ^ n.length ≤ 256 ^ 8 := Nat.pow_le_pow_right (by decide) (by omega)
    have e : (256 : Nat) ^ 8 = 18446744073709551616 := by decide
    rw [Nat.mod_eq_of_lt (by omega)]

/-- the key id the library reports is that window of the fingerprint it reports -/
theorem keyid_of_fp (H : Hashes) (k : PubKey) (fp : Fp) (h : fingerprint H k = some fp) :
    (k.version = 4 → legacyKeyId H k = some (keyIdV4 fp.bytes)) ∧
    (k.version = 6 → legacyKeyId H k = some (keyIdV6 fp.bytes)) := by
  constructor
  · intro h4; simp [legacyKeyId, h, h4]
  · intro h6; simp [legacyKeyId, h, h6]

/-! ## the identities the library embeds are the ones it matches against -/

/-- (`HashSizes H`: MD5 16, SHA-1 20, SHA-256 32 octets — `RpgpProofs/Fingerprint.lean`.)
a reported fingerprint always has the length its variant demands (`Fingerprint::new` accepts it) -/
theorem fingerprint_wellformed (H : Hashes) (hs : HashSizes H) (k : PubKey) (fp : Fp)
    (h : fingerprint H k = some fp) : Fp.new fp.ver fp.bytes = some fp ∧ fp.len = fp.bytes.length := by
  unfold fingerprint at h
  cases hp : preimage k with
  | none => simp [hp] at h
  | some pre =>
    simp only [hp] at h
    split at h
    · rename_i h23
      simp only [Option.some.injEq] at h
      subst h
      rcases h23 with e | e <;>
        simp [Fp.new, Fp.len, kvFpLen, e, hs.md5, Gen.kvFpLenV3, Gen.fpLenV3]
    · split at h
      · simp only [Option.some.injEq] at h
        subst h
        simp [Fp.new, Fp.len, kvFpLen, hs.sha1, Gen.kvFpLenV4, Gen.fpLenV4]
      · simp only [Option.some.injEq] at h
        subst h
        simp [Fp.new, Fp.len, kvFpLen, hs.sha256, Gen.kvFpLenV6, Gen.fpLenV6]

theorem match_identity_iff (iss : Issuers) (kid : Bytes) (fp : Fp) :
    matchIdentity iss kid fp = true ↔
      (iss.keyIds = [] ∧ iss.fps = []) ∨ kid ∈ iss.keyIds ∨ fp ∈ iss.fps := by
  unfold matchIdentity
  by_cases h : iss.keyIds.isEmpty && iss.fps.isEmpty
  · simp only [h, if_true, true_iff]
    left
    simpa [List.isEmpty_iff] using h
  · simp only [h]
    have h' : ¬ (iss.keyIds = [] ∧ iss.fps = []) := by
      simpa [List.isEmpty_iff] using h
    simp only [Bool.false_eq_true, if_false, Bool.or_eq_true, List.any_eq_true, beq_iff_eq, h', false_or]
    constructor
    · rintro (⟨x, hx, rfl⟩ | ⟨x, hx, rfl⟩)
      · exact Or.inl hx
      · exact Or.inr hx
    · rintro (hx | hx)
      · exact Or.inl ⟨kid, hx, rfl⟩
      · exact Or.inr ⟨fp, hx, rfl⟩

/-- **embedded_id_matches (signatures).**  The issuer fingerprint / key id the signing helpers
write are the values `match_identity` compares with: a fresh signature always matches its key. -/
theorem embedded_id_matches (H : Hashes) (k : PubKey) (iss : Issuers) (fp : Fp) (kid : Bytes)
    (hi : signIssuers H k = some iss) (hf : fingerprint H k = some fp) (hk : legacyKeyId H k = some kid) :
    fp ∈ iss.fps ∧ (k.version ≤ 4 → kid ∈ iss.keyIds) ∧ (4 < k.version → iss.keyIds = []) ∧
    matchIdentity iss kid fp = true := by
  unfold signIssuers at hi
  simp only [hf, hk] at hi
  by_cases h4 : k.version ≤ 4
  · simp only [h4, if_true, Option.some.injEq] at hi
    subst hi
    refine ⟨by simp, fun _ => by simp, fun h => by omega, ?_⟩
    rw [match_identity_iff]; right; left; simp
  · simp only [h4, if_false, Option.some.injEq] at hi
    subst hi
    refine ⟨by simp, fun h => absurd h h4, fun _ => rfl, ?_⟩
    rw [match_identity_iff]; right; right; simp

/-- … and does not match a key with another fingerprint and another key id -/
theorem embedded_id_rejects_other (H : Hashes) (k : PubKey) (iss : Issuers) (fp fp' : Fp) (kid kid' : Bytes)
    (hi : signIssuers H k = some iss) (hf : fingerprint H k = some fp) (hk : legacyKeyId H k = some kid)
    (h1 : fp' ≠ fp) (h2 : kid' ≠ kid) : matchIdentity iss kid' fp' = false := by
  unfold signIssuers at hi
  simp only [hf, hk] at hi
  by_cases h4 : k.version ≤ 4
  · simp only [h4, if_true, Option.some.injEq] at hi
    subst hi
    simp [matchIdentity, h1.symm, h2.symm]
  · simp only [h4, if_false, Option.some.injEq] at hi
    subst hi
    simp [matchIdentity, h1.symm]

/-- the Issuer Fingerprint subpacket written for a v4/v6 fingerprint is read back as the same
fingerprint; an Issuer Key ID likewise -/
theorem issuer_subpackets_roundtrip (fp : Fp) (hv : fp.ver = 4 ∨ fp.ver = 5 ∨ fp.ver = 6)
    (hn : Fp.new fp.ver fp.bytes = some fp) (kid : Bytes) (hk : kid.length = 8) :
    (∃ b, issuerFpBody fp = some b ∧ parseIssuerFp b = some fp) ∧ parseIssuerKeyId kid = some kid := by
  obtain ⟨ver, bytes⟩ := fp
  simp only at hv hn
  constructor
  · have hv0 : ver ≠ 0 := by omega
    have hlt : ver < 256 := by omega
    refine ⟨ver.toUInt8 :: bytes, by simp [issuerFpBody, hv0], ?_⟩
    unfold Fp.new at hn
    cases hl : kvFpLen ver with
    | none => simp [hl] at hn
    | some n =>
      simp only [hl] at hn
      split at hn
      · rename_i hlen
        have hvn : ver.toUInt8.toNat = ver := toUInt8_toNat_of_lt _ hlt
        have hv' : ver.toUInt8 = 4 ∨ ver.toUInt8 = 5 ∨ ver.toUInt8 = 6 := by
          rcases hv with rfl | rfl | rfl <;> decide
        subst hlen
        simp only [parseIssuerFp, hv', if_true, hvn, hl]
        simp [Fp.new, hl]
      · simp at hn
  · simp [parseIssuerKeyId, Gen.issuerKeyIdLen, hk]

/-- **embedded_id_matches (PKESK).**  The recipient field written for a key by
`from_session_key_v3` / `_v6` matches that key. -/
theorem pkesk_recipient_matches (H : Hashes) (k : PubKey) (pv : Nat) (rc : Recipient) (fp : Fp) (kid : Bytes)
    (hr : recipientFor H k pv = some rc) (hf : fingerprint H k = some fp) (hk : legacyKeyId H k = some kid) :
    (pv = 3 → rc = .v3 kid) ∧ (pv = 6 → rc = .v6 (some fp)) ∧ pkeskMatch rc kid fp = true := by
  unfold recipientFor at hr
  by_cases h3 : pv = 3
  · simp only [h3, if_true, hk, Option.map_some, Option.some.injEq] at hr
    subst hr
    exact ⟨fun _ => rfl, fun h => by omega, by simp [pkeskMatch]⟩
  · by_cases h6 : pv = 6
    · simp [h6, hf] at hr
      subst hr
      exact ⟨fun h => absurd h h3, fun _ => rfl, by simp [pkeskMatch]⟩
    · simp [h3, h6] at hr

/-- a named recipient field does not match a key with another identity (the all-zero key id is
the wildcard and matches everybody, as does the absent v6 fingerprint) -/
theorem pkesk_rejects_other (rc : Recipient) (kid kid' : Bytes) (fp fp' : Fp)
    (hrc : rc = .v3 kid ∧ isWildcard kid = false ∧ kid' ≠ kid ∨ rc = .v6 (some fp) ∧ fp' ≠ fp) :
    pkeskMatch rc kid' fp' = false := by
  rcases hrc with ⟨rfl, hw, hne⟩ | ⟨rfl, hne⟩
  · simp [pkeskMatch, hw, hne.symm]
  · simp [pkeskMatch, hne.symm]

theorem pkesk_wildcards (kid : Bytes) (fp : Fp) :
    pkeskMatch (.v6 none) kid fp = true ∧ pkeskMatch (.v3 (List.replicate 8 0)) kid fp = true := by
  simp [pkeskMatch, isWildcard]

/-- the recipient field survives the wire: what `Serialize` writes, the parser reads back -/
theorem recipient_wire_roundtrip (rc : Recipient) (bs rest : Bytes) (hs : serRecipient rc = some bs)
    (hwf : match rc with
      | .v3 kid => kid.length = 8
      | .v6 (some fp) => Fp.new fp.ver fp.bytes = some fp ∧ fp.ver < 256
      | .v6 none => True
      | .other v => v < 256 ∧ v ≠ 3 ∧ v ≠ 6) :
    parseRecipient (bs ++ rest) = some (rc, rest) := by
  cases rc with
  | v3 kid =>
    simp only at hwf
    simp only [serRecipient, Option.some.injEq] at hs
    subst hs
    have : takeN Gen.pkeskKeyIdLen (kid ++ rest) = some (kid, rest) := by
      have := takeN_append kid rest
      rwa [hwf] at this
    simp [parseRecipient, Gen.pkeskV3, this]
  | v6 o =>
    cases o with
    | none =>
      simp only [serRecipient, Option.some.injEq] at hs
      subst hs
      simp [parseRecipient, Gen.pkeskV3, Gen.pkeskV6]
    | some fp =>
      obtain ⟨hn, hv⟩ := hwf
      obtain ⟨ver, bytes⟩ := fp
      simp only at hn hv
      have hlen : (Fp.mk ver bytes).len = bytes.length := by
        unfold Fp.new at hn
        cases hl : kvFpLen ver with
        | none => simp [hl] at hn
        | some n =>
          simp only [hl] at hn
          split at hn
          · rename_i hlen
            unfold kvFpLen at hl
            unfold Fp.len
            simp only [Gen.kvFpLenV3, Gen.kvFpLenV4, Gen.kvFpLenV6] at hl
            simp only [Gen.fpLenV3, Gen.fpLenV4, Gen.fpLenV6]
            (repeat' split at hl) <;> simp_all
          · simp at hn
      have hv0 : ver ≠ 0 := by
        intro h0; subst h0
        simp [Fp.new, kvFpLen] at hn
      simp only [serRecipient, hv0, if_false, hlen] at hs
      split at hs
      · simp at hs
      · rename_i h256
        simp only [Option.some.injEq] at hs
        subst hs
        have hl1 : (bytes.length + 1).toUInt8.toNat = bytes.length + 1 := toUInt8_toNat_of_lt _ (by omega)
        have hvn : ver.toUInt8.toNat = ver := toUInt8_toNat_of_lt _ hv
        generalize (bytes.length + 1).toUInt8 = l at hl1
        generalize ver.toUInt8 = kv at hvn
        have hne : l ≠ 0 := by
          intro h0; subst h0; simp at hl1
        have ht : takeN (l.toNat - 1) (bytes ++ rest) = some (bytes, rest) := by
          have := takeN_append bytes rest
          rw [hl1]; simpa using this
        have h6 : (Gen.pkeskV6.toUInt8).toNat = Gen.pkeskV6 := by decide
        simp only [parseRecipient, List.cons_append, h6]
        simp [Gen.pkeskV3, Gen.pkeskV6, hne, ht, hvn, hn]
  | other v =>
    obtain ⟨h1, h2, h3⟩ := hwf
    simp only [serRecipient, Option.some.injEq] at hs
    subst hs
    have hvn : v.toUInt8.toNat = v := toUInt8_toNat_of_lt _ h1
    simp [parseRecipient, Gen.pkeskV3, Gen.pkeskV6, hvn, h2, h3]

/-! ## not proved (not counted as obligations)

-- TODO(unproved): the one-pass-signature packet's key id / fingerprint field (`OnePassSignature::v3/v6`
--   in `message/builder.rs`) is not modelled; it is covered by the oracle `embedded_issuer` only.
-- TODO(unproved): cryptographic admission of key material (RSA modulus checks of the `rsa` crate, points
--   on curve, SEC1 re-encoding, DSA component checks) is not modelled: `parseBody` accepts a superset of
--   what the real parser accepts, so `parse_wellformed`/`fp_reparse` cover every key the code returns
--   provided the stored form of the accepted material is the normalised wire form — which is what the
--   correspondence op `pubkey` checks on every fixture, generated and padded key.
-- TODO(unproved): correspondence for `keyFraming` (`serialize_for_hashing`) is not run here (it is the
--   subject of C11); here it is tied by `sites_agree_framing` and `sig_key_framing_eq_fp_preimage` only.
-/

/-! ## non-vacuity and concrete evaluations (`toyH`, `exKey`: `RpgpProofs/Fingerprint.lean`) -/

example : HashSizes toyH := ⟨by intro x; simp [toyH], by intro x; simp [toyH], by intro x; simp [toyH]⟩

example : preimage exKey = some ([0x99, 0, 38, 4, 1, 2, 3, 4, 27] ++ List.replicate 32 7) := by decide
example : (serBody exKey).bind (fun b => parsePubBody b) = some (exKey, []) := by decide
example : mpiSer [0x01, 0xFF] = [0, 9, 1, 0xFF] := by decide
example : mpiParse [0, 16, 0, 0xFF, 9] = some ([0xFF], [9]) := by decide
example : mpiParse [0, 9, 1, 0xFF] = mpiParse [0, 24, 0, 1, 0xFF] := by decide
example : keyIdV3 [1, 2, 3] = [0, 0, 0, 0, 0, 1, 2, 3] := by decide
/-- `PadsOK` is satisfiable: Elgamal material with 2, 0 and 1 leading zero octets -/
example : PadsOK [(2, 24), (0, 1), (1, 16)] [.mpi [0xFF], .mpi [1], .mpi [2]] := by
  simp [PadsOK, PadOK]
example : serRecipient (.v6 (some ⟨4, List.replicate 20 1⟩)) = some (6 :: 21 :: 4 :: List.replicate 20 1) := by decide
/-- the hypothesis of `parse_ser` is satisfiable: a parsed key is well formed -/
example : WF false { version := 4, created := 1, expiry := 0, alg := 16, mat := [.mpi [0xFF], .mpi [1], .mpi [2]] } :=
  parseBody_wf false [4, 0, 0, 0, 1, 16, 0, 8, 0xFF, 0, 1, 1, 0, 16, 0, 2] _ [] (by decide)

end Rpgp.C13
