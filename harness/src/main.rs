#![allow(dead_code, unused_imports)]
//! Correspondence + oracle harness for the rpgp Lean model.
//!
//! `rpgp-verif-harness <PROP> --tier quick|thorough --seed N --out DIR`
//!
//! Runs the real crate (`/repo` working tree, path dependency) in-process on generated
//! inputs and writes, for the property:
//!   requests.txt  one model request per line (`op k=v ...`)
//!   impl.txt      the implementation's canonical answer, line-aligned with requests.txt
//!   oracle.txt    one line per *failed* evaluation of the property's executable restatement
//!   stats.json    counts, input distribution, samples

mod alloc;
mod ctx;
mod frame;
mod gen;
mod io;
mod keys;
mod plan;
mod props;
mod sigrec;
mod wire;

/// counting allocator (C19); a no-op plus one relaxed load unless a measurement is running
#[global_allocator]
static GLOBAL: alloc::Counting = alloc::Counting;

use ctx::{Ctx, Tier};

fn main() {
    let args: Vec<String> = std::env::args().collect();
    if args.len() < 2 {
        eprintln!("usage: {} <PROP> --tier quick|thorough --seed N --out DIR", args[0]);
        std::process::exit(2);
    }
    if args[1] == "C04-child" {
        props::c04::child::child_main(&args);
        return;
    }
    let prop = args[1].clone();
    let mut tier = Tier::Quick;
    let mut seed: u64 = 0;
    let mut out = String::from("work");
    let mut i = 2;
    while i < args.len() {
        match args[i].as_str() {
            "--tier" => {
                tier = if args[i + 1] == "thorough" { Tier::Thorough } else { Tier::Quick };
                i += 2;
            }
            "--seed" => {
                seed = args[i + 1].parse().unwrap_or(0);
                i += 2;
            }
            "--out" => {
                out = args[i + 1].clone();
                i += 2;
            }
            other => {
                eprintln!("unknown argument {other}");
                std::process::exit(2);
            }
        }
    }
    // quiet panics: they are caught and classified per case
    if std::env::var("VERIF_PANIC_VERBOSE").is_err() {
        std::panic::set_hook(Box::new(|_| {}));
    }
    let mut ctx = Ctx::new(&prop, tier, seed, &out);
    let known = props::run(&prop, &mut ctx);
    if !known {
        eprintln!("unknown property {prop}");
        std::process::exit(2);
    }
    ctx.finish();
}
