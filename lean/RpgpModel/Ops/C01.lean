import RpgpModel.Proto
import RpgpModel.Message
namespace Rpgp.Ops.C01
open Rpgp

def showCk (b : Bytes) : String :=
  let (n, x, y) := cksum b
  s!"{n}.{x}.{y}"

def handle (op : String) (a : Args) : Option String :=
  match op with
  | "packets" => do
    let d ← a.bytes "data"
    match splitPackets (d.length + 1) d with
    | some ps => pure ("ok:" ++ ",".intercalate (ps.map fun p => s!"{p.1}.{showCk p.2}"))
    | none => pure "err"
  | _ => none

end Rpgp.Ops.C01
