//! C02, cleartext signature framework: `CleartextSignedMessage::verify` on mutated texts,
//! mutated signature packets and substituted keys.
use super::inline::armor_of;
use super::*;

struct Doc {
    head: String,
    /// the cleartext region as written between the headers' blank line and the signature block
    csf: String,
    sig: Vec<u8>,
}

impl Doc {
    fn armored(&self) -> Option<String> {
        let block = armor_of(&sigrec::packet5(2, &self.sig), BlockType::Signature)?;
        let block = String::from_utf8(block).ok()?;
        let brk = if self.csf.ends_with('\r') { "\r\n" } else { "\n" };
        Some(format!("{}{}{}{}", self.head, self.csf, brk, block))
    }
}

/// parse + verify; the canonical answer, the text region the reader reports, its signed form and
/// the signature packet bodies it holds
fn run_doc(armored: &str, vk: &VK) -> (String, Option<(String, String, Vec<Vec<u8>>)>) {
    let r = guarded(|| CleartextSignedMessage::from_string(armored).map(|x| x.0));
    match r {
        Ok(Ok(csm)) => {
            let v = guarded(|| csm.verify(vk).map(|_| ()));
            let view = (csm.text().to_string(), csm.signed_text(), csm.signatures().iter().map(body_of).collect());
            (answer(&v), Some(view))
        }
        Ok(Err(_)) => ("err:parse".to_string(), None),
        Err(p) => (format!("panic:{p}"), None),
    }
}

fn request(csf: &str, sigs: &[Vec<u8>], vk: &VK, t: &Tables) -> String {
    let list = if sigs.is_empty() { "-".to_string() } else { sigs.iter().map(|s| hx(s)).collect::<Vec<_>>().join(",") };
    format!("snd_cleartext csf={} sigs={} {} {}", hx(csf.as_bytes()), list, kdesc("k", &vk.k), t.show(vk.yes))
}

const CLEARTEXTS: [&str; 3] = ["Hello cleartext\n- dashed line\ntrailing blanks  \t\nlast", "one line", "a\n\nb\r\nc \n"];

pub(super) fn run(ctx: &mut Ctx, fixes: &[Fix]) {
    let mut rng = ChaCha8Rng::seed_from_u64(ctx.rng.gen());
    for fix in fixes {
        if fix.weight >= 2 && !ctx.thorough() {
            continue;
        }
        for (ti, text) in CLEARTEXTS.iter().enumerate() {
            if fix.weight >= 1 && ti > 0 {
                continue;
            }
            let label = format!("{} cleartext#{ti}", fix.name);
            let site = "CleartextSignedMessage::verify";
            let seed: u64 = rng.gen();
            let csm = match guarded(|| CleartextSignedMessage::sign(ChaCha8Rng::seed_from_u64(seed), text, &fix.prim_sec, &Password::empty())) {
                Ok(Ok(c)) => c,
                other => {
                    ctx.oracle("original_verifies", "CleartextSignedMessage::sign", &label, false, &format!("{:?}", other.map(|r| r.map(|_| ()))));
                    continue;
                }
            };
            let armored0 = match csm.to_armored_string(ArmorOptions::default()) {
                Ok(a) => a,
                Err(e) => {
                    ctx.oracle("original_verifies", "CleartextSignedMessage::to_armored_string", &label, false, &e.to_string());
                    continue;
                }
            };
            let Some(hend) = armored0.find("\n\n").map(|i| i + 2) else { continue };
            let sig0 = &csm.signatures()[0];
            let sig_body = body_of(sig0);
            let signed0 = csm.signed_text();
            let mut t0 = Tables::default();
            if let Err(e) = log_original(&mut t0, sig0, &Subject::Doc(signed0.as_bytes().to_vec()), &fix.prim_pub) {
                ctx.oracle("original_verifies", "RFC 9580 5.2.4 digest of the cleartext signature", &label, false, &e);
                continue;
            }
            let vk = VK { k: fix.prim_pub.clone(), yes: false };
            let base = Doc { head: armored0[..hend].to_string(), csf: csm.text().to_string(), sig: sig_body.clone() };
            ctx.stat(&format!("cleartext:{}", fix.name));

            let go = |ctx: &mut Ctx, d: &Doc, vk: &VK, what: &str| -> Option<(String, String)> {
                let a = d.armored()?;
                let (ans, view) = run_doc(&a, vk);
                let (csf, signed, sigs) = view?;
                let mut t = t0.clone();
                for s in &sigs {
                    t = tables_for(&t, &[s], &Subject::Doc(signed.as_bytes().to_vec()));
                }
                ctx.case(request(&csf, &sigs, vk, &t), ans.clone());
                ctx.stat(&format!("cleartext:{}:{ans}", what.split(':').next().unwrap_or("")));
                Some((ans, signed))
            };

            // the original, as written by the library and as re-assembled here
            let (a0, _) = run_doc(&armored0, &vk);
            ctx.oracle("original_verifies", site, &format!("{label} doc={}", hx(armored0.as_bytes())), a0 == "ok", &a0);
            if let Some((a, _)) = go(ctx, &base, &vk, "original") {
                ctx.oracle("original_verifies", site, &format!("{label} reassembled"), a == "ok", &a);
            }

            // (a) the text: ASCII-preserving bit flips, deletions, insertions
            let bytes = base.csf.as_bytes().to_vec();
            let mut texts: Vec<(String, Vec<u8>)> = Vec::new();
            for i in 0..bytes.len() {
                for bit in 0..7u8 {
                    if fix.weight >= 1 && (i + bit as usize) % 4 != 0 {
                        continue;
                    }
                    let mut v = bytes.clone();
                    v[i] ^= 1 << bit;
                    texts.push((format!("text:flip@{i}.{bit}"), v));
                }
                let mut v = bytes.clone();
                v.remove(i);
                texts.push((format!("text:del@{i}"), v));
                let mut v = bytes.clone();
                v.insert(i, b' ');
                texts.push((format!("text:ins@{i}=20"), v));
            }
            for (what, v) in texts {
                let Ok(s) = String::from_utf8(v) else { continue };
                let d = Doc { head: base.head.clone(), csf: s, sig: base.sig.clone() };
                let Some(a) = d.armored() else { continue };
                let (ans, view) = run_doc(&a, &vk);
                let inp = format!("{label} {what} doc={}", hx(a.as_bytes()));
                match view {
                    None => {
                        ctx.stat("cleartext:text:unparseable");
                        ctx.oracle("mutation_rejected", site, &inp, true, "document refused");
                    }
                    Some((csf, signed, sigs)) => {
                        let mut t = t0.clone();
                        for s in &sigs {
                            t = tables_for(&t, &[s], &Subject::Doc(signed.as_bytes().to_vec()));
                        }
                        ctx.case(request(&csf, &sigs, &vk, &t), ans.clone());
                        // "the exact content it was made over (up to the documented text-mode
                        // line-ending equivalence)": the framework signs the text with trailing
                        // blanks removed and line endings as CR LF (RFC 9580 7.2)
                        if signed == signed0 {
                            ctx.stat("cleartext:text:same_signed_form");
                            ctx.oracle("eol_variant_verifies", site, &inp, ans == "ok", &ans);
                        } else {
                            ctx.stat(&format!("cleartext:text:{ans}"));
                            ctx.oracle("mutation_rejected", site, &inp, ans != "ok", "changed text still verifies");
                        }
                    }
                }
            }

            // (b) the signature packet
            let fs = field_map(sig0);
            for m in sig_mutations(&mut rng, &sig_body, &fs, fix.weight.max(1)) {
                if m.out == sig_body {
                    continue;
                }
                let loc = loc_of(sig0, &fs, &m);
                let d = Doc { head: base.head.clone(), csf: base.csf.clone(), sig: m.out.clone() };
                let Some(a) = d.armored() else { continue };
                let (ans, view) = run_doc(&a, &vk);
                let inp = format!("{label} {} [{loc}] doc={}", m.desc, hx(a.as_bytes()));
                match view {
                    None => {
                        ctx.stat(&format!("cleartext:sigmut:{}:unparseable", field_class(&loc)));
                        ctx.case(request(&base.csf, &[m.out.clone()], &vk, &t0), "err:parse".to_string());
                        ctx.oracle("mutation_rejected", site, &inp, true, "document refused");
                    }
                    Some((csf, signed, sigs)) => {
                        let mut t = t0.clone();
                        for s in &sigs {
                            t = tables_for(&t, &[s], &Subject::Doc(signed.as_bytes().to_vec()));
                        }
                        t = tables_for(&t, &[&m.out], &Subject::Doc(signed.as_bytes().to_vec()));
                        // the model is given the packet as it stands in the document
                        ctx.case(request(&csf, &[m.out.clone()], &vk, &t), ans.clone());
                        ctx.stat(&format!("cleartext:sigmut:{}:{ans}", field_class(&loc)));
                        ctx.oracle("mutation_rejected", site, &inp, ans != "ok" || in_exception_list(&loc), &format!("mutation in {loc} still verifies"));
                    }
                }
            }

            // (c) the key
            let mut others: Vec<(&'static str, PubAny)> = vec![("other key of the same algorithm", fix.sub_pub.clone())];
            if let Some(w) = other_version_wrapper(&fix.prim_pub) {
                others.push(("same material, other key version", w));
            }
            for (what, k) in others {
                let ovk = VK { k, yes: false };
                if let Some((a, _)) = go(ctx, &base, &ovk, &format!("keysub:{what}")) {
                    ctx.oracle("mutation_rejected", site, &format!("{label} key=<{what}>"), a != "ok", "another key verifies");
                }
            }
        }
    }
}
