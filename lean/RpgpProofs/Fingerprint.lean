import RpgpModel.Fingerprint
import RpgpProofs.Framing
/-!
# Proofs about `RpgpModel/Fingerprint.lean` (helper lemmas for `RpgpProps/C13.lean`)
-/
namespace Rpgp

theorem stripZeros_idem (b : Bytes) : stripZeros (stripZeros b) = stripZeros b := by
  induction b with
  | nil => rfl
  | cons x r ih =>
    by_cases h : x = 0
    · simp [stripZeros, h, ih]
    · simp [stripZeros, h]

theorem stripZeros_length_le (b : Bytes) : (stripZeros b).length ≤ b.length := by
  induction b with
  | nil => simp [stripZeros]
  | cons y t ih => by_cases hy : y = 0 <;> simp [stripZeros, hy] <;> omega

theorem norm_cons_iff (x : Byte) (r : Bytes) : stripZeros (x :: r) = x :: r ↔ x ≠ 0 := by
  constructor
  · intro h hx
    subst hx
    simp [stripZeros] at h
    have := stripZeros_length_le r
    rw [h] at this
    simp at this
    omega
  · intro h
    simp [stripZeros, h]

theorem clz8_le (b : Byte) : clz8 b ≤ 8 := by
  unfold clz8; (repeat' split) <;> omega

theorem clz8_le7 (b : Byte) (h : b ≠ 0) : clz8 b ≤ 7 := by
  have : b.toNat ≠ 0 := by
    intro h0; apply h; exact UInt8.toNat_inj.mp (by simpa using h0)
  unfold clz8; (repeat' split) <;> omega


theorem beNat_foldl (bs : Bytes) : ∀ a : Nat,
    bs.foldl (fun acc b => acc * 256 + b.toNat) a = a * 256 ^ bs.length + beNat bs := by
  induction bs with
  | nil => intro a; simp [beNat]
  | cons x r ih =>
    intro a
    simp only [List.foldl_cons, List.length_cons, beNat]
    rw [ih (a * 256 + x.toNat), ih (0 * 256 + x.toNat)]
    simp only [beNat, Nat.pow_succ]
    rw [Nat.add_mul, Nat.add_mul]
    simp [Nat.mul_assoc, Nat.mul_comm, Nat.add_assoc]

theorem beNat_cons (x : Byte) (r : Bytes) : beNat (x :: r) = x.toNat * 256 ^ r.length + beNat r := by
  have := beNat_foldl r (0 * 256 + x.toNat)
  simp only [beNat, List.foldl_cons] at *
  rw [this]; simp

theorem beNat_nil : beNat [] = 0 := rfl

theorem beNat_lt (bs : Bytes) : beNat bs < 256 ^ bs.length := by
  induction bs with
  | nil => simp [beNat]
  | cons x r ih =>
    rw [beNat_cons, List.length_cons, Nat.pow_succ]
    have hx : x.toNat < 256 := x.toNat_lt
    have : x.toNat * 256 ^ r.length + 256 ^ r.length ≤ 256 * 256 ^ r.length := by
      have : (x.toNat + 1) * 256 ^ r.length ≤ 256 * 256 ^ r.length := Nat.mul_le_mul_right _ (by omega)
      rw [Nat.add_mul] at this; simpa using this
    rw [Nat.mul_comm (256 ^ r.length) 256]
    omega

theorem beNat_append (a b : Bytes) : beNat (a ++ b) = beNat a * 256 ^ b.length + beNat b := by
  induction a with
  | nil => simp [beNat_nil]
  | cons x r ih =>
    rw [List.cons_append, beNat_cons, beNat_cons, ih, List.length_append, Nat.pow_add, Nat.add_mul]
    simp [Nat.mul_assoc, Nat.add_assoc]

theorem beNat_stripZeros (b : Bytes) : beNat (stripZeros b) = beNat b := by
  induction b with
  | nil => rfl
  | cons x r ih =>
    by_cases h : x = 0
    · subst h; simp [stripZeros, ih, beNat_cons]
    · simp [stripZeros, h]

theorem toNat_ne_zero (b : Byte) (h : b ≠ 0) : b.toNat ≠ 0 := by
  intro h0; apply h; exact UInt8.toNat_inj.mp (by simpa using h0)

theorem clz8_spec (x : Byte) (h : x ≠ 0) :
    2 ^ (7 - clz8 x) ≤ x.toNat ∧ x.toNat < 2 ^ (8 - clz8 x) := by
  have := toNat_ne_zero x h
  have hx : x.toNat < 256 := x.toNat_lt
  unfold clz8; (repeat' split) <;> simp <;> omega

theorem bitSize_cons (x : Byte) (r : Bytes) : bitSize (x :: r) = (r.length + 1) * 8 - clz8 x := by
  simp [bitSize, Gen.mpiBitsPerByte]

theorem bitSize_bounds (x : Byte) (r : Bytes) (hx : x ≠ 0) :
    8 * r.length < bitSize (x :: r) ∧ bitSize (x :: r) ≤ 8 * (r.length + 1) := by
  have := clz8_le7 x hx
  rw [bitSize_cons]; omega

/-- the bit count written by `Mpi::to_writer` is the bit length of the value -/
theorem bitSize_is_bit_length (x : Byte) (r : Bytes) (hx : x ≠ 0) :
    2 ^ (bitSize (x :: r) - 1) ≤ beNat (x :: r) ∧ beNat (x :: r) < 2 ^ bitSize (x :: r) := by
  have hc := clz8_le7 x hx
  obtain ⟨hlo, hhi⟩ := clz8_spec x hx
  have h256 : (256 : Nat) ^ r.length = 2 ^ (8 * r.length) := by
    rw [show (256 : Nat) = 2 ^ 8 by rfl, ← Nat.pow_mul]
  rw [beNat_cons, bitSize_cons, h256]
  have hr := beNat_lt r
  rw [h256] at hr
  constructor
  · have e : (r.length + 1) * 8 - clz8 x - 1 = (7 - clz8 x) + 8 * r.length := by omega
    rw [e, Nat.pow_add]
    have := Nat.mul_le_mul_right (2 ^ (8 * r.length)) hlo
    omega
  · have e : (r.length + 1) * 8 - clz8 x = (8 - clz8 x) + 8 * r.length := by omega
    rw [e, Nat.pow_add]
    have : (x.toNat + 1) * 2 ^ (8 * r.length) ≤ 2 ^ (8 - clz8 x) * 2 ^ (8 * r.length) :=
      Nat.mul_le_mul_right _ (by omega)
    rw [Nat.add_mul] at this
    omega

theorem mpiParse_cons2 (a b : Byte) (r : Bytes) :
    mpiParse (a :: b :: r) =
      if 16384 < a.toNat * 256 + b.toNat then none
      else if r.length < (a.toNat * 256 + b.toNat + 7) / 8 then none
      else some (stripZeros (r.take ((a.toNat * 256 + b.toNat + 7) / 8)), r.drop ((a.toNat * 256 + b.toNat + 7) / 8)) := by
  simp only [mpiParse, Gen.maxExternMpiBits, Gen.mpiRoundAdd, Gen.mpiRoundShift]
  rfl

theorem mpiSer_eq (b : Bytes) (h : bitSize b < 65536) :
    ∃ x y : Byte, mpiSer b = x :: y :: b ∧ x.toNat * 256 + y.toNat = bitSize b := by
  refine ⟨(bitSize b / 256 % 256).toUInt8, (bitSize b % 256).toUInt8, ?_, ?_⟩
  · simp [mpiSer, be16_eq]
  · rw [toUInt8_toNat_of_lt _ (Nat.mod_lt _ (by decide)), toUInt8_toNat_of_lt _ (Nat.mod_lt _ (by decide))]
    omega

/-- bit count → octet count is exact on stored (normalised) bodies -/
theorem bitSize_octets (b : Bytes) (hn : stripZeros b = b) : (bitSize b + 7) / 8 = b.length := by
  cases b with
  | nil => simp [bitSize]
  | cons x r =>
    have hx := (norm_cons_iff x r).mp hn
    have := bitSize_bounds x r hx
    simp only [List.length_cons]; omega

theorem bitSize_le (b : Bytes) : bitSize b ≤ 8 * b.length := by
  cases b with
  | nil => simp [bitSize]
  | cons x r => rw [bitSize_cons]; simp only [List.length_cons]; omega

/-- write → read of an MPI: every normalised body of at most 2048 octets (16384 bits) -/
theorem mpiParse_mpiSer (b rest : Bytes) (hn : stripZeros b = b) (hl : b.length ≤ 2048) :
    mpiParse (mpiSer b ++ rest) = some (b, rest) := by
  have hb := bitSize_le b
  obtain ⟨x, y, hs, hxy⟩ := mpiSer_eq b (by omega)
  rw [hs, List.cons_append, List.cons_append, mpiParse_cons2, hxy, bitSize_octets b hn]
  have h1 : ¬ 16384 < bitSize b := by omega
  have h2 : ¬ (b ++ rest).length < b.length := by simp
  simp only [h1, h2, if_false]
  simp [hn]

/-- what the reader returns is normalised, at most 2048 octets, and the rest is a proper suffix -/
theorem mpiParse_spec (inp b r : Bytes) (h : mpiParse inp = some (b, r)) :
    stripZeros b = b ∧ b.length ≤ 2048 ∧ r.length + 2 ≤ inp.length ∧
    ∃ raw, inp = inp.take 2 ++ raw ++ r ∧ b = stripZeros raw := by
  match inp, h with
  | a :: c :: t, h =>
    rw [mpiParse_cons2] at h
    by_cases h1 : 16384 < a.toNat * 256 + c.toNat
    · simp [h1] at h
    · by_cases h2 : t.length < (a.toNat * 256 + c.toNat + 7) / 8
      · simp [h1, h2] at h
      · simp only [h1, h2, if_false, Option.some.injEq, Prod.mk.injEq] at h
        obtain ⟨hb, hr⟩ := h
        subst hb; subst hr
        refine ⟨stripZeros_idem _, ?_, ?_, ⟨t.take ((a.toNat * 256 + c.toNat + 7) / 8), ?_, rfl⟩⟩
        · have := stripZeros_length_le (t.take ((a.toNat * 256 + c.toNat + 7) / 8))
          simp only [List.length_take] at this
          omega
        · simp only [List.length_drop, List.length_cons]; omega
        · simp

/-- a stored field is one the reader of kind `k` can return -/
def Conf (hint : Option Nat) : Kind → Field → Prop
  | .mpi, .mpi b => stripZeros b = b ∧ b.length ≤ 2048
  | .lp, .lp bs => bs.length < 256
  | .fixed n, .raw bs => bs.length = n
  | .kdf, .raw bs => ∃ h s, bs = [3, 1, h, s]
  | .rest, .raw bs => match hint with
    | none => True
    | some n => bs.length = n
  | _, _ => False

def ConfAll (hint : Option Nat) : List Kind → Material → Prop
  | [], [] => True
  | k :: ks, f :: fs => Conf hint k f ∧ ConfAll hint ks fs
  | _, _ => False

theorem takeN_append (bs rest : Bytes) : takeN bs.length (bs ++ rest) = some (bs, rest) := by
  simp [takeN]

theorem takeN_spec (n : Nat) (inp bs r : Bytes) (h : takeN n inp = some (bs, r)) :
    bs.length = n ∧ inp = bs ++ r := by
  unfold takeN at h
  by_cases hl : inp.length < n
  · simp [hl] at h
  · simp only [hl, if_false, Option.some.injEq, Prod.mk.injEq] at h
    obtain ⟨h1, h2⟩ := h
    subst h1; subst h2
    simp; omega

theorem parseField_serField (hint : Option Nat) (k : Kind) (f : Field) (rest : Bytes)
    (hc : Conf hint k f) (hr : k = .rest → hint = none → rest = []) :
    parseField hint k (serField f ++ rest) = some (f, rest) := by
  cases k <;> cases f <;> simp only [Conf] at hc
  case mpi.mpi b =>
    simp [parseField, serField, mpiParse_mpiSer b rest hc.1 hc.2]
  case lp.lp bs =>
    simp only [parseField, serField, List.cons_append]
    rw [toUInt8_toNat_of_lt _ hc, takeN_append]
  case fixed.raw n bs =>
    subst hc
    simp only [parseField, serField, takeN_append]
  case kdf.raw bs =>
    obtain ⟨h, s, rfl⟩ := hc
    simp [parseField, serField]
  case rest.raw bs =>
    cases hint with
    | none =>
      have := hr rfl rfl
      subst this
      simp [parseField, serField]
    | some n =>
      simp only at hc
      subst hc
      simp only [parseField, serField, takeN_append]

theorem parseField_conf (hint : Option Nat) (k : Kind) (inp : Bytes) (f : Field) (r : Bytes)
    (h : parseField hint k inp = some (f, r)) : Conf hint k f ∧ r.length ≤ inp.length := by
  cases k
  case mpi =>
    simp only [parseField] at h
    cases hm : mpiParse inp with
    | none => simp [hm] at h
    | some p =>
      obtain ⟨b, r'⟩ := p
      simp only [hm, Option.some.injEq, Prod.mk.injEq] at h
      obtain ⟨rfl, rfl⟩ := h
      obtain ⟨h1, h2, h3, _⟩ := mpiParse_spec inp b r' hm
      exact ⟨⟨h1, h2⟩, by omega⟩
  case lp =>
    cases inp with
    | nil => simp [parseField] at h
    | cons l t =>
      simp only [parseField] at h
      cases ht : takeN l.toNat t with
      | none => simp [ht] at h
      | some p =>
        obtain ⟨bs, r'⟩ := p
        simp only [ht, Option.some.injEq, Prod.mk.injEq] at h
        obtain ⟨rfl, rfl⟩ := h
        obtain ⟨h1, h2⟩ := takeN_spec _ _ _ _ ht
        have := l.toNat_lt
        refine ⟨by simp only [Conf]; omega, ?_⟩
        rw [h2]; simp; omega
  case fixed n =>
    simp only [parseField] at h
    cases ht : takeN n inp with
    | none => simp [ht] at h
    | some p =>
      obtain ⟨bs, r'⟩ := p
      simp only [ht, Option.some.injEq, Prod.mk.injEq] at h
      obtain ⟨rfl, rfl⟩ := h
      obtain ⟨h1, h2⟩ := takeN_spec _ _ _ _ ht
      refine ⟨h1, ?_⟩
      rw [h2]; simp
  case kdf =>
    match inp, h with
    | l :: t :: hh :: s :: r', h =>
      simp only [parseField] at h
      by_cases hc : l = 3 ∧ t = 1
      · simp only [hc, and_self, if_true, Option.some.injEq, Prod.mk.injEq] at h
        obtain ⟨rfl, rfl⟩ := h
        obtain ⟨rfl, rfl⟩ := hc
        exact ⟨⟨hh, s, rfl⟩, by simp only [List.length_cons]; omega⟩
      · simp [hc] at h
  case rest =>
    cases hint with
    | none =>
      simp only [parseField, Option.some.injEq, Prod.mk.injEq] at h
      obtain ⟨rfl, rfl⟩ := h
      exact ⟨trivial, by simp⟩
    | some n =>
      simp only [parseField] at h
      cases ht : takeN n inp with
      | none => simp [ht] at h
      | some p =>
        obtain ⟨bs, r'⟩ := p
        simp only [ht, Option.some.injEq, Prod.mk.injEq] at h
        obtain ⟨rfl, rfl⟩ := h
        obtain ⟨h1, h2⟩ := takeN_spec _ _ _ _ ht
        refine ⟨h1, ?_⟩
        rw [h2]; simp

theorem serMaterial_cons (f : Field) (fs : Material) : serMaterial (f :: fs) = serField f ++ serMaterial fs := by
  simp [serMaterial]

theorem serMaterial_nil : serMaterial [] = [] := rfl

theorem parseFields_ser (hint : Option Nat) : ∀ (ks : List Kind) (fs : Material) (rest : Bytes),
    ConfAll hint ks fs → (hint = none → Kind.rest ∉ ks) →
    parseFields hint ks (serMaterial fs ++ rest) = some (fs, rest) := by
  intro ks
  induction ks with
  | nil =>
    intro fs rest hc _
    cases fs with
    | nil => simp [parseFields, serMaterial]
    | cons f fs => simp [ConfAll] at hc
  | cons k ks ih =>
    intro fs rest hc hr
    cases fs with
    | nil => simp [ConfAll] at hc
    | cons f fs =>
      obtain ⟨h1, h2⟩ := hc
      rw [serMaterial_cons, List.append_assoc]
      simp only [parseFields]
      rw [parseField_serField hint k f _ h1 (fun hk hn => absurd (hk ▸ List.mem_cons_self) (hr hn))]
      simp only
      rw [ih fs rest h2 (fun hn hm => hr hn (List.mem_cons_of_mem _ hm))]

theorem parseFields_rest_none (bs : Bytes) : parseFields none [.rest] bs = some ([.raw bs], []) := by
  simp [parseFields, parseField]

theorem serField_le (hint : Option Nat) (k : Kind) (inp : Bytes) (f : Field) (r : Bytes)
    (h : parseField hint k inp = some (f, r)) : (serField f).length + r.length ≤ inp.length := by
  cases k
  case mpi =>
    simp only [parseField] at h
    cases hm : mpiParse inp with
    | none => simp [hm] at h
    | some p =>
      obtain ⟨b, r'⟩ := p
      simp only [hm, Option.some.injEq, Prod.mk.injEq] at h
      obtain ⟨rfl, rfl⟩ := h
      obtain ⟨_, _, h3, raw, h4, h5⟩ := mpiParse_spec inp b r' hm
      have hl : inp.length = (inp.take 2).length + raw.length + r'.length := by
        conv => lhs; rw [h4]
        simp only [List.length_append]
      have h2 : (inp.take 2).length = 2 := by simp only [List.length_take]; omega
      have := stripZeros_length_le raw
      simp only [serField, mpiSer, be16_eq, List.length_append, List.length_cons, List.length_nil]
      rw [h5]; omega
  case lp =>
    cases inp with
    | nil => simp [parseField] at h
    | cons l t =>
      simp only [parseField] at h
      cases ht : takeN l.toNat t with
      | none => simp [ht] at h
      | some p =>
        obtain ⟨bs, r'⟩ := p
        simp only [ht, Option.some.injEq, Prod.mk.injEq] at h
        obtain ⟨rfl, rfl⟩ := h
        obtain ⟨h1, h2⟩ := takeN_spec _ _ _ _ ht
        rw [h2]; simp only [serField, List.length_cons, List.length_append]; omega
  case fixed n =>
    simp only [parseField] at h
    cases ht : takeN n inp with
    | none => simp [ht] at h
    | some p =>
      obtain ⟨bs, r'⟩ := p
      simp only [ht, Option.some.injEq, Prod.mk.injEq] at h
      obtain ⟨rfl, rfl⟩ := h
      obtain ⟨h1, h2⟩ := takeN_spec _ _ _ _ ht
      rw [h2]; simp [serField]
  case kdf =>
    match inp, h with
    | l :: t :: hh :: s :: r', h =>
      simp only [parseField] at h
      by_cases hc : l = 3 ∧ t = 1
      · simp only [hc, and_self, if_true, Option.some.injEq, Prod.mk.injEq] at h
        obtain ⟨rfl, rfl⟩ := h
        simp only [serField, List.length_cons, List.length_nil]; omega
      · simp [hc] at h
  case rest =>
    cases hint with
    | none =>
      simp only [parseField, Option.some.injEq, Prod.mk.injEq] at h
      obtain ⟨rfl, rfl⟩ := h
      simp [serField]
    | some n =>
      simp only [parseField] at h
      cases ht : takeN n inp with
      | none => simp [ht] at h
      | some p =>
        obtain ⟨bs, r'⟩ := p
        simp only [ht, Option.some.injEq, Prod.mk.injEq] at h
        obtain ⟨rfl, rfl⟩ := h
        obtain ⟨h1, h2⟩ := takeN_spec _ _ _ _ ht
        rw [h2]; simp [serField]

theorem parseFields_conf (hint : Option Nat) : ∀ (ks : List Kind) (inp : Bytes) (fs : Material) (r : Bytes),
    parseFields hint ks inp = some (fs, r) →
    ConfAll hint ks fs ∧ (serMaterial fs).length + r.length ≤ inp.length := by
  intro ks
  induction ks with
  | nil =>
    intro inp fs r h
    simp only [parseFields, Option.some.injEq, Prod.mk.injEq] at h
    obtain ⟨rfl, rfl⟩ := h
    simp [ConfAll, serMaterial]
  | cons k ks ih =>
    intro inp fs r h
    simp only [parseFields] at h
    cases h1 : parseField hint k inp with
    | none => simp [h1] at h
    | some p =>
      obtain ⟨f, r1⟩ := p
      simp only [h1] at h
      cases h2 : parseFields hint ks r1 with
      | none => simp [h2] at h
      | some q =>
        obtain ⟨fs', r2⟩ := q
        simp only [h2, Option.some.injEq, Prod.mk.injEq] at h
        obtain ⟨rfl, rfl⟩ := h
        obtain ⟨c1, _⟩ := parseField_conf hint k inp f r1 h1
        have l1 := serField_le hint k inp f r1 h1
        obtain ⟨c2, l2⟩ := ih r1 fs' r2 h2
        refine ⟨⟨c1, c2⟩, ?_⟩
        rw [serMaterial_cons, List.length_append]; omega

/-- the dispatch table either reads "everything else" or never does -/
theorem shape_rest (alg : Nat) : shape alg = [.rest] ∨ Kind.rest ∉ shape alg := by
  unfold shape
  (repeat' split) <;> simp

theorem shape_ne_nil (alg : Nat) : shape alg ≠ [] := by
  unfold shape
  (repeat' split) <;> simp

/-- two stored materials of the same shape with the same serialization are equal -/
theorem serMaterial_injective (hint : Option Nat) (ks : List Kind) (m1 m2 : Material)
    (h1 : ConfAll hint ks m1) (h2 : ConfAll hint ks m2) (hr : ks = [.rest] ∨ Kind.rest ∉ ks)
    (h : serMaterial m1 = serMaterial m2) : m1 = m2 := by
  rcases hr with rfl | hr
  · match m1, m2, h1, h2 with
    | [.raw a], [.raw b], _, _ =>
      simp [serMaterial, serField] at h; subst h; rfl
    | [], _, h1, _ => simp [ConfAll] at h1
    | _ :: _ :: _, _, h1, _ => simp [ConfAll] at h1
    | [.mpi _], _, h1, _ => simp [ConfAll, Conf] at h1
    | [.lp _], _, h1, _ => simp [ConfAll, Conf] at h1
    | [.raw _], [], _, h2 => simp [ConfAll] at h2
    | [.raw _], _ :: _ :: _, _, h2 => simp [ConfAll] at h2
    | [.raw _], [.mpi _], _, h2 => simp [ConfAll, Conf] at h2
    | [.raw _], [.lp _], _, h2 => simp [ConfAll, Conf] at h2
  · have e1 := parseFields_ser hint ks m1 [] h1 (fun _ => hr)
    have e2 := parseFields_ser hint ks m2 [] h2 (fun _ => hr)
    rw [h, e2] at e1
    simp at e1
    exact e1.symm


theorem parseBody_v4_some (strict : Bool) (c0 c1 c2 c3 a : Byte) (r' : Bytes) (m : Material) (rest : Bytes)
    (h : parseFields none (shape a.toNat) r' = some (m, rest)) :
    parseBody strict (4 :: c0 :: c1 :: c2 :: c3 :: a :: r') =
        some ({ version := 4, created := beNat [c0, c1, c2, c3], expiry := 0, alg := a.toNat, mat := m }, rest) := by
  simp [parseBody, h]

theorem parseBody_v4_none (strict : Bool) (c0 c1 c2 c3 a : Byte) (r' : Bytes)
    (h : parseFields none (shape a.toNat) r' = none) :
    parseBody strict (4 :: c0 :: c1 :: c2 :: c3 :: a :: r') = none := by
  simp [parseBody, h]

theorem parseBody_v3_some (strict : Bool) (v c0 c1 c2 c3 e0 e1 a : Byte) (r' : Bytes) (hv : v = 2 ∨ v = 3)
    (m : Material) (rest : Bytes) (h : parseFields none (shape a.toNat) r' = some (m, rest)) :
    parseBody strict (v :: c0 :: c1 :: c2 :: c3 :: e0 :: e1 :: a :: r') =
        if admitted v.toNat a.toNat m then
          some ({ version := v.toNat, created := beNat [c0, c1, c2, c3], expiry := beNat [e0, e1],
                  alg := a.toNat, mat := m }, rest)
        else none := by
  simp [parseBody, hv, h]

theorem parseBody_v3_none (strict : Bool) (v c0 c1 c2 c3 e0 e1 a : Byte) (r' : Bytes) (hv : v = 2 ∨ v = 3)
    (h : parseFields none (shape a.toNat) r' = none) :
    parseBody strict (v :: c0 :: c1 :: c2 :: c3 :: e0 :: e1 :: a :: r') = none := by
  simp [parseBody, hv, h]

theorem parseBody_v6_some (strict : Bool) (c0 c1 c2 c3 a l0 l1 l2 l3 : Byte) (r' : Bytes)
    (m : Material) (left : Bytes)
    (h : parseFields (some (beNat [l0, l1, l2, l3])) (shape a.toNat) (r'.take (beNat [l0, l1, l2, l3])) = some (m, left)) :
    parseBody strict (6 :: c0 :: c1 :: c2 :: c3 :: a :: l0 :: l1 :: l2 :: l3 :: r') =
      if beNat [l0, l1, l2, l3] = 0 ∧ strict = false then none
      else if strict ∧ left ≠ [] then none
      else if admitted 6 a.toNat m then
        some ({ version := 6, created := beNat [c0, c1, c2, c3], expiry := 0, alg := a.toNat, mat := m },
              left ++ r'.drop (beNat [l0, l1, l2, l3]))
      else none := by
  simp [parseBody, h]

theorem parseBody_v6_none (strict : Bool) (c0 c1 c2 c3 a l0 l1 l2 l3 : Byte) (r' : Bytes)
    (h : parseFields (some (beNat [l0, l1, l2, l3])) (shape a.toNat) (r'.take (beNat [l0, l1, l2, l3])) = none) :
    parseBody strict (6 :: c0 :: c1 :: c2 :: c3 :: a :: l0 :: l1 :: l2 :: l3 :: r') = none := by
  simp [parseBody, h]


theorem beNat_be32 (n : Nat) (h : n < 4294967296) :
    beNat [(n / 16777216 % 256).toUInt8, (n / 65536 % 256).toUInt8, (n / 256 % 256).toUInt8, (n % 256).toUInt8] = n := by
  rw [beNat_four]
  repeat rw [toUInt8_toNat_of_lt _ (Nat.mod_lt _ (by decide))]
  omega

theorem beNat_be16 (n : Nat) (h : n < 65536) :
    beNat [(n / 256 % 256).toUInt8, (n % 256).toUInt8] = n := by
  rw [beNat_two]
  repeat rw [toUInt8_toNat_of_lt _ (Nat.mod_lt _ (by decide))]
  omega

theorem parseFields_ser' (hint : Option Nat) (ks : List Kind) (fs : Material) (rest : Bytes)
    (hc : ConfAll hint ks fs) (hks : ks = [.rest] ∨ Kind.rest ∉ ks)
    (hr : ks = [.rest] → hint = none → rest = []) :
    parseFields hint ks (serMaterial fs ++ rest) = some (fs, rest) := by
  rcases hks with rfl | hks
  · match fs, hc with
    | [f], hc =>
      simp only [ConfAll, and_true] at hc
      simp only [serMaterial, List.flatMap_cons, List.flatMap_nil, List.append_nil, parseFields]
      rw [parseField_serField hint .rest f rest hc (fun _ hn => hr rfl hn)]
    | [], hc => simp [ConfAll] at hc
    | _ :: _ :: _, hc => simp [ConfAll] at hc
  · exact parseFields_ser hint ks fs rest hc (fun _ => hks)

/-- announced length handed to the material parser -/
def hintOf (k : PubKey) : Option Nat := if k.version = 6 then some (serMaterial k.mat).length else none

/-- a key as the parser returns it (`strict` = secret-key parser) -/
structure WF (strict : Bool) (k : PubKey) : Prop where
  ver : k.version = 2 ∨ k.version = 3 ∨ k.version = 4 ∨ k.version = 6
  created : k.created < 4294967296
  expiry : k.expiry < 65536
  expiry0 : k.version = 4 ∨ k.version = 6 → k.expiry = 0
  alg : k.alg < 256
  conf : ConfAll (hintOf k) (shape k.alg) k.mat
  adm : admitted k.version k.alg k.mat = true
  len6 : k.version = 6 → (serMaterial k.mat).length < 4294967296 ∧ (strict = false → 0 < (serMaterial k.mat).length)

theorem parseBody_serBody (strict : Bool) (k : PubKey) (body rest : Bytes) (hw : WF strict k)
    (hs : serBody k = some body) (hr : shape k.alg = [.rest] → k.version ≠ 6 → rest = []) :
    parseBody strict (body ++ rest) = some (k, rest) := by
  obtain ⟨version, created, expiry, alg, mat⟩ := k
  obtain ⟨hver, hcr, hex, hex0, halg, hconf, hadm, hlen6⟩ := hw
  simp only at hver hcr hex hex0 halg hconf hadm hlen6 hr
  have ha : alg.toUInt8.toNat = alg := toUInt8_toNat_of_lt _ halg
  rcases hver with rfl | rfl | rfl | rfl
  · -- v2
    simp only [serBody, true_or, if_true, Option.some.injEq] at hs
    subst hs
    have hh : hintOf { version := 2, created, expiry, alg, mat } = none := by simp [hintOf]
    rw [hh] at hconf
    have hp := parseFields_ser' none (shape alg) mat rest hconf (shape_rest alg) (fun h _ => hr h (by decide))
    rw [be32_eq, be16_eq]
    simp only [List.cons_append, List.nil_append]
    have t : (2 : Nat).toUInt8 = 2 := by decide
    rw [t, parseBody_v3_some strict _ _ _ _ _ _ _ _ _ (Or.inl rfl) mat rest (by rw [ha]; exact hp)]
    rw [ha, beNat_be32 _ hcr, beNat_be16 _ hex]
    have : (2 : UInt8).toNat = 2 := by decide
    simp [this, hadm]
  · -- v3
    simp only [serBody, or_true, if_true, Option.some.injEq] at hs
    subst hs
    have hh : hintOf { version := 3, created, expiry, alg, mat } = none := by simp [hintOf]
    rw [hh] at hconf
    have hp := parseFields_ser' none (shape alg) mat rest hconf (shape_rest alg) (fun h _ => hr h (by decide))
    rw [be32_eq, be16_eq]
    simp only [List.cons_append, List.nil_append]
    have t : (3 : Nat).toUInt8 = 3 := by decide
    rw [t, parseBody_v3_some strict _ _ _ _ _ _ _ _ _ (Or.inr rfl) mat rest (by rw [ha]; exact hp)]
    rw [ha, beNat_be32 _ hcr, beNat_be16 _ hex]
    have : (3 : UInt8).toNat = 3 := by decide
    simp [this, hadm]
  · -- v4
    have e0 : expiry = 0 := hex0 (Or.inl rfl)
    subst e0
    simp only [serBody, show ¬ ((4 : Nat) = 2 ∨ (4 : Nat) = 3) by decide, if_false, if_true, Option.some.injEq] at hs
    subst hs
    have hh : hintOf { version := 4, created, expiry := 0, alg, mat } = none := by simp [hintOf]
    rw [hh] at hconf
    have hp := parseFields_ser' none (shape alg) mat rest hconf (shape_rest alg) (fun h _ => hr h (by decide))
    rw [be32_eq]
    simp only [List.cons_append, List.nil_append]
    have : (4 : Nat).toUInt8 = 4 := by decide
    rw [this, parseBody_v4_some strict _ _ _ _ _ _ mat rest (by rw [ha]; exact hp)]
    rw [ha, beNat_be32 _ hcr]
  · -- v6
    have e0 : expiry = 0 := hex0 (Or.inr rfl)
    subst e0
    obtain ⟨hl, hl0⟩ := hlen6 rfl
    simp only [serBody, show ¬ ((6 : Nat) = 2 ∨ (6 : Nat) = 3) by decide, show ¬ ((6 : Nat) = 4) by decide,
      if_false, if_true, hl, Option.some.injEq] at hs
    subst hs
    have hh : hintOf { version := 6, created, expiry := 0, alg, mat } = some (serMaterial mat).length := by simp [hintOf]
    rw [hh] at hconf
    have hp := parseFields_ser' (some (serMaterial mat).length) (shape alg) mat [] hconf (shape_rest alg)
      (fun _ h => by simp at h)
    rw [List.append_nil] at hp
    rw [be32_eq, be32_eq]
    simp only [List.cons_append, List.nil_append]
    have : (6 : Nat).toUInt8 = 6 := by decide
    rw [this, parseBody_v6_some strict _ _ _ _ _ _ _ _ _ _ mat []
      (by rw [ha, beNat_be32 _ hl, List.take_left']; exact hp; rfl)]
    rw [ha, beNat_be32 _ hl, beNat_be32 _ hcr]
    have h1 : ¬ ((serMaterial mat).length = 0 ∧ strict = false) := by
      intro ⟨h0, hs⟩; have := hl0 hs; omega
    simp only [hadm, if_true, h1, if_false]
    simp


theorem conf_rehint (h1 h2 : Option Nat) (k : Kind) (f : Field) (hk : k ≠ .rest) (hc : Conf h1 k f) : Conf h2 k f := by
  cases k <;> cases f <;> simp_all [Conf]

theorem confAll_rehint (h1 h2 : Option Nat) : ∀ (ks : List Kind) (fs : Material), Kind.rest ∉ ks →
    ConfAll h1 ks fs → ConfAll h2 ks fs := by
  intro ks
  induction ks with
  | nil => intro fs _ h; cases fs <;> simp_all [ConfAll]
  | cons k ks ih =>
    intro fs hn h
    cases fs with
    | nil => simp [ConfAll] at h
    | cons f fs =>
      obtain ⟨a, b⟩ := h
      exact ⟨conf_rehint h1 h2 k f (fun hk => hn (hk ▸ List.mem_cons_self)) a,
        ih fs (fun hm => hn (List.mem_cons_of_mem _ hm)) b⟩

/-- a material read with announced length `n` conforms with its own serialized length as hint -/
theorem confAll_self_hint (hint : Option Nat) (ks : List Kind) (fs : Material)
    (hks : ks = [.rest] ∨ Kind.rest ∉ ks) (h : ConfAll hint ks fs) :
    ConfAll (some (serMaterial fs).length) ks fs := by
  rcases hks with rfl | hks
  · match fs, h with
    | [.raw bs], _ => simp [ConfAll, Conf, serMaterial, serField]
    | [], h => simp [ConfAll] at h
    | _ :: _ :: _, h => simp [ConfAll] at h
    | [.mpi _], h => simp [ConfAll, Conf] at h
    | [.lp _], h => simp [ConfAll, Conf] at h
  · exact confAll_rehint hint _ ks fs hks h

theorem serField_pos (hint : Option Nat) (k : Kind) (f : Field) (hc : Conf hint k f)
    (hk : k ≠ .rest) (hf : k ≠ .fixed 0) : 0 < (serField f).length := by
  cases k <;> cases f <;> simp only [Conf] at hc
  case mpi.mpi b => simp [serField, mpiSer, be16_eq]
  case lp.lp bs => simp [serField]
  case fixed.raw n bs =>
    simp only [serField]
    cases n with
    | zero => exact absurd rfl hf
    | succ n => omega
  case kdf.raw bs => obtain ⟨h, s, rfl⟩ := hc; simp [serField]
  case rest.raw bs => exact absurd rfl hk

theorem shape_head (alg : Nat) : ∃ k ks, shape alg = k :: ks ∧ (k = .rest → ks = []) ∧ k ≠ .fixed 0 := by
  unfold shape
  (repeat' split) <;> exact ⟨_, _, rfl, by simp, by simp⟩


theorem serMaterial_pos (n : Nat) (alg : Nat) (m : Material) (hc : ConfAll (some n) (shape alg) m) (hn : 0 < n) :
    0 < (serMaterial m).length := by
  obtain ⟨k, ks, hs, hrest, hf⟩ := shape_head alg
  rw [hs] at hc
  cases m with
  | nil => simp [ConfAll] at hc
  | cons f fs =>
    obtain ⟨c1, c2⟩ := hc
    rw [serMaterial_cons, List.length_append]
    by_cases hk : k = .rest
    · subst hk
      cases f <;> simp only [Conf] at c1
      simp only [serField]; omega
    · have := serField_pos (some n) k f c1 hk hf
      omega

theorem beNat_four_lt (a b c d : Byte) : beNat [a, b, c, d] < 4294967296 := by
  have := beNat_lt [a, b, c, d]; simpa using this

theorem beNat_two_lt (a b : Byte) : beNat [a, b] < 65536 := by
  have := beNat_lt [a, b]; simpa using this

/-- everything the packet parser returns is well formed (normalised MPIs, conforming fields,
admitted version/algorithm) and the unread input is a suffix no longer than the input -/
theorem parseBody_wf (strict : Bool) (w : Bytes) (k : PubKey) (rest : Bytes)
    (h : parseBody strict w = some (k, rest)) : WF strict k := by
  unfold parseBody at h
  split at h
  · simp at h
  · rename_i v r
    split at h
    · -- v2 / v3
      rename_i hv
      split at h
      · rename_i c0 c1 c2 c3 e0 e1 a r'
        split at h
        · simp at h
        · rename_i m rest' hp
          split at h
          · rename_i hadm
            simp only [Option.some.injEq, Prod.mk.injEq] at h
            obtain ⟨rfl, rfl⟩ := h
            obtain ⟨hc, _⟩ := parseFields_conf none _ _ _ _ hp
            have hvn : v.toNat = 2 ∨ v.toNat = 3 := by
              rcases hv with rfl | rfl
              · left; decide
              · right; decide
            refine ⟨by simp only; omega, beNat_four_lt _ _ _ _, beNat_two_lt _ _, ?_, a.toNat_lt, ?_, hadm, ?_⟩
            · intro h'; simp only at h'; omega
            · simp only [hintOf]; rw [if_neg (by omega)]; exact hc
            · intro h'; simp only at h'; omega
          · simp at h
      · simp at h
    · split at h
      · -- v4
        split at h
        · rename_i c0 c1 c2 c3 a r'
          split at h
          · simp at h
          · rename_i m rest' hp
            simp only [Option.some.injEq, Prod.mk.injEq] at h
            obtain ⟨rfl, rfl⟩ := h
            obtain ⟨hc, _⟩ := parseFields_conf none _ _ _ _ hp
            refine ⟨by simp, beNat_four_lt _ _ _ _, by simp, by simp, a.toNat_lt, ?_, by simp [admitted], by simp⟩
            simp only [hintOf]; rw [if_neg (by decide)]; exact hc
        · simp at h
      · split at h
        · -- v6
          split at h
          · rename_i c0 c1 c2 c3 a l0 l1 l2 l3 r'
            simp only at h
            split at h
            · simp at h
            · rename_i hlen
              split at h
              · simp at h
              · rename_i m left hp
                split at h
                · simp at h
                · split at h
                  · rename_i hadm
                    simp only [Option.some.injEq, Prod.mk.injEq] at h
                    obtain ⟨rfl, rfl⟩ := h
                    obtain ⟨hc, hl⟩ := parseFields_conf _ _ _ _ _ hp
                    have hlt := beNat_four_lt l0 l1 l2 l3
                    have hml : (serMaterial m).length < 4294967296 := by
                      simp only [List.length_take] at hl; omega
                    refine ⟨by simp, beNat_four_lt _ _ _ _, by simp, by simp, a.toNat_lt, ?_, hadm, ?_⟩
                    · simp only [hintOf, if_true]
                      exact confAll_self_hint _ _ _ (shape_rest _) hc
                    · intro _
                      refine ⟨hml, fun hs => ?_⟩
                      have : 0 < beNat [l0, l1, l2, l3] := by
                        cases Nat.eq_zero_or_pos (beNat [l0, l1, l2, l3]) with
                        | inl h0 => exact absurd ⟨h0, hs⟩ hlen
                        | inr h0 => exact h0
                      exact serMaterial_pos _ _ _ hc this
                  · simp at h
          · simp at h
        · simp at h


theorem stripZeros_replicate (z : Nat) (b : Bytes) : stripZeros (List.replicate z 0 ++ b) = stripZeros b := by
  induction z with
  | zero => simp
  | succ n ih => simp [List.replicate_succ, stripZeros, ih]

/-- an MPI whose value is preceded by `z` zero octets (bit count raised by `8z`, or by anything
that rounds to the same octet count) is read as the same stored body -/
theorem mpiParse_leading_zeros (b rest : Bytes) (z bits : Nat) (hn : stripZeros b = b)
    (hbits : (bits + 7) / 8 = z + b.length) (hmax : bits ≤ 16384) :
    mpiParse (be16 bits ++ List.replicate z 0 ++ b ++ rest) = some (b, rest) := by
  have hb : bits < 65536 := by omega
  rw [be16_eq]
  simp only [List.cons_append, List.nil_append, List.append_assoc]
  rw [mpiParse_cons2]
  rw [toUInt8_toNat_of_lt _ (Nat.mod_lt _ (by decide)), toUInt8_toNat_of_lt _ (Nat.mod_lt _ (by decide))]
  have e : bits / 256 % 256 * 256 + bits % 256 = bits := by omega
  rw [e, hbits]
  have h1 : ¬ 16384 < bits := by omega
  have h2 : ¬ (List.replicate z (0 : Byte) ++ (b ++ rest)).length < z + b.length := by
    simp only [List.length_append, List.length_replicate]; omega
  simp only [h1, h2, if_false]
  have e2 : List.replicate z (0 : Byte) ++ (b ++ rest) = (List.replicate z 0 ++ b) ++ rest := by simp
  have e3 : z + b.length = (List.replicate z (0 : Byte) ++ b).length := by simp
  rw [e2, e3, List.take_left', List.drop_left', stripZeros_replicate, hn] <;> rfl

/-! key ids as numbers -/

theorem beNat_append_mod (a d : Bytes) : beNat (a ++ d) % 256 ^ d.length = beNat d := by
  rw [beNat_append, Nat.mul_comm, Nat.mul_add_mod, Nat.mod_eq_of_lt (beNat_lt d)]

theorem beNat_append_div (a d : Bytes) : beNat (a ++ d) / 256 ^ d.length = beNat a := by
  have hp : 0 < 256 ^ d.length := Nat.pow_pos (by decide)
  rw [beNat_append, Nat.mul_comm, Nat.mul_add_div hp, Nat.div_eq_of_lt (beNat_lt d), Nat.add_zero]

theorem beNat_drop (bs : Bytes) (n : Nat) (h : n ≤ bs.length) :
    beNat (bs.drop (bs.length - n)) = beNat bs % 256 ^ n := by
  have hl : (bs.drop (bs.length - n)).length = n := by simp only [List.length_drop]; omega
  have := beNat_append_mod (bs.take (bs.length - n)) (bs.drop (bs.length - n))
  rw [List.take_append_drop, hl] at this
  exact this.symm

theorem beNat_take (bs : Bytes) (n : Nat) (_h : n ≤ bs.length) :
    beNat (bs.take n) = beNat bs / 256 ^ (bs.length - n) := by
  have hl : (bs.drop n).length = bs.length - n := by simp
  have := beNat_append_div (bs.take n) (bs.drop n)
  rw [List.take_append_drop, hl] at this
  exact this.symm

theorem beNat_replicate_zero (z : Nat) (b : Bytes) : beNat (List.replicate z 0 ++ b) = beNat b := by
  rw [← beNat_stripZeros, stripZeros_replicate, beNat_stripZeros]


/-- a non-canonical writer: MPI number `i` is written with `pads[i].1` leading zero octets and the
declared bit count `pads[i].2`; every other field as usual -/
def serFieldPad (p : Nat × Nat) : Field → Bytes
  | .mpi b => be16 p.2 ++ List.replicate p.1 0 ++ b
  | f => serField f

def serMaterialPad : List (Nat × Nat) → Material → Bytes
  | p :: ps, f :: fs => serFieldPad p f ++ serMaterialPad ps fs
  | _, _ => []

/-- the declared bit count rounds to the padded octet count and respects the 16384-bit limit -/
def PadOK (p : Nat × Nat) : Field → Prop
  | .mpi b => (p.2 + 7) / 8 = p.1 + b.length ∧ p.2 ≤ 16384
  | _ => True

def PadsOK : List (Nat × Nat) → Material → Prop
  | p :: ps, f :: fs => PadOK p f ∧ PadsOK ps fs
  | [], [] => True
  | _, _ => False

theorem parseField_pad (hint : Option Nat) (k : Kind) (f : Field) (p : Nat × Nat) (rest : Bytes)
    (hc : Conf hint k f) (hp : PadOK p f) (hr : k = .rest → hint = none → rest = []) :
    parseField hint k (serFieldPad p f ++ rest) = some (f, rest) := by
  cases f with
  | mpi b =>
    cases k <;> simp only [Conf] at hc
    simp only [PadOK] at hp
    simp only [serFieldPad, parseField]
    rw [mpiParse_leading_zeros b rest p.1 p.2 hc.1 hp.1 hp.2]
  | lp bs => exact parseField_serField hint k _ rest hc hr
  | raw bs => exact parseField_serField hint k _ rest hc hr

theorem parseFields_pad (hint : Option Nat) : ∀ (ks : List Kind) (fs : Material) (ps : List (Nat × Nat)) (rest : Bytes),
    ConfAll hint ks fs → PadsOK ps fs → Kind.rest ∉ ks →
    parseFields hint ks (serMaterialPad ps fs ++ rest) = some (fs, rest) := by
  intro ks
  induction ks with
  | nil =>
    intro fs ps rest hc _ _
    cases fs with
    | nil => cases ps <;> simp [parseFields, serMaterialPad]
    | cons f fs => simp [ConfAll] at hc
  | cons k ks ih =>
    intro fs ps rest hc hp hr
    cases fs with
    | nil => simp [ConfAll] at hc
    | cons f fs =>
      cases ps with
      | nil => simp [PadsOK] at hp
      | cons p ps =>
        obtain ⟨c1, c2⟩ := hc
        obtain ⟨p1, p2⟩ := hp
        simp only [serMaterialPad, List.append_assoc, parseFields]
        rw [parseField_pad hint k f p _ c1 p1 (fun hk _ => absurd (hk ▸ List.mem_cons_self) hr)]
        simp only
        rw [ih fs ps rest c2 p2 (fun hm => hr (List.mem_cons_of_mem _ hm))]

/-- canonical padding (no zeros, exact bit count) is the canonical writer -/
theorem serMaterialPad_canonical (fs : Material) :
    serMaterialPad (fs.map fun f => match f with | .mpi b => (0, bitSize b) | _ => (0, 0)) fs = serMaterial fs := by
  induction fs with
  | nil => rfl
  | cons f fs ih =>
    rw [List.map_cons, serMaterialPad, ih, serMaterial_cons]
    cases f <;> simp [serFieldPad, serField, mpiSer]


theorem parseBody_padded_v4 (strict : Bool) (k : PubKey) (hw : WF strict k) (hv : k.version = 4)
    (hnr : Kind.rest ∉ shape k.alg) (ps : List (Nat × Nat)) (hp : PadsOK ps k.mat) (rest : Bytes) :
    parseBody strict (4 :: be32 k.created ++ [k.alg.toUInt8] ++ serMaterialPad ps k.mat ++ rest) = some (k, rest) := by
  obtain ⟨version, created, expiry, alg, mat⟩ := k
  obtain ⟨_, hcr, _, hex0, halg, hconf, _, _⟩ := hw
  simp only at hv hcr hex0 halg hconf hnr hp
  subst hv
  have e0 : expiry = 0 := hex0 (Or.inl rfl)
  subst e0
  have ha : alg.toUInt8.toNat = alg := toUInt8_toNat_of_lt _ halg
  have hh : hintOf { version := 4, created, expiry := 0, alg, mat } = none := by simp [hintOf]
  rw [hh] at hconf
  have hpf := parseFields_pad none (shape alg) mat ps rest hconf hp hnr
  rw [be32_eq]
  simp only [List.cons_append, List.nil_append]
  rw [parseBody_v4_some strict _ _ _ _ _ _ mat rest (by rw [ha]; exact hpf)]
  rw [ha, beNat_be32 _ hcr]

theorem parseBody_padded_v6 (strict : Bool) (k : PubKey) (hw : WF strict k) (hv : k.version = 6)
    (hnr : Kind.rest ∉ shape k.alg) (ps : List (Nat × Nat)) (hp : PadsOK ps k.mat) (rest : Bytes)
    (hl : (serMaterialPad ps k.mat).length < 4294967296)
    (hpos : strict = false → 0 < (serMaterialPad ps k.mat).length) :
    parseBody strict (6 :: be32 k.created ++ [k.alg.toUInt8] ++ be32 (serMaterialPad ps k.mat).length ++
      serMaterialPad ps k.mat ++ rest) = some (k, rest) := by
  obtain ⟨version, created, expiry, alg, mat⟩ := k
  obtain ⟨_, hcr, _, hex0, halg, hconf, hadm, _⟩ := hw
  simp only at hv hcr hex0 halg hconf hnr hp hl hpos hadm
  subst hv
  have e0 : expiry = 0 := hex0 (Or.inr rfl)
  subst e0
  have ha : alg.toUInt8.toNat = alg := toUInt8_toNat_of_lt _ halg
  have hconf' := confAll_rehint _ (some (serMaterialPad ps mat).length) (shape alg) mat hnr hconf
  have hpf := parseFields_pad (some (serMaterialPad ps mat).length) (shape alg) mat ps [] hconf' hp hnr
  rw [List.append_nil] at hpf
  rw [be32_eq, be32_eq]
  simp only [List.cons_append, List.nil_append]
  rw [parseBody_v6_some strict _ _ _ _ _ _ _ _ _ _ mat []
    (by rw [ha, beNat_be32 _ hl, List.take_left']; exact hpf; rfl)]
  rw [ha, beNat_be32 _ hl, beNat_be32 _ hcr]
  have h1 : ¬ ((serMaterialPad ps mat).length = 0 ∧ strict = false) := by
    intro ⟨h0, hs⟩; have := hpos hs; omega
  simp only [hadm, if_true, h1, if_false]
  simp


/-! ## vocabulary used by the statements of `RpgpProps/C13.lean` -/

/-- digest sizes (MD5 16, SHA-1 20, SHA-256 32 octets) -/
structure HashSizes (H : Hashes) : Prop where
  md5 : ∀ x, (H.md5 x).length = 16
  sha1 : ∀ x, (H.sha1 x).length = 20
  sha256 : ∀ x, (H.sha256 x).length = 32

/-- a toy hash with the right digest sizes -/
def toyH : Hashes :=
  ⟨fun x => (x ++ List.replicate 16 0).take 16, fun x => (x ++ List.replicate 20 0).take 20,
   fun x => (x ++ List.replicate 32 0).take 32⟩

/-- an Ed25519 v4 key: 32 native octets -/
def exKey : PubKey := { version := 4, created := 0x01020304, expiry := 0, alg := 27, mat := [.raw (List.replicate 32 7)] }


/-! ## the key parsers after repair D15d (`parseBodyCur`) -/

theorem pubLenExactF_on : pubLenExactF = true := by decide

theorem parseBodyCur_some (strict : Bool) (w : Bytes) (p : PubKey × Bytes) (h : parseBodyCur strict w = some p) :
    parseBody true w = some p := by
  unfold parseBodyCur at h
  rw [pubLenExactF_on] at h
  simp only [if_true] at h
  split at h
  · exact h
  · cases h

theorem parseBodyCur_eq (strict : Bool) (w : Bytes) (h : v6CountExact w = true) :
    parseBodyCur strict w = parseBody true w := by
  unfold parseBodyCur
  rw [pubLenExactF_on]
  simp [h]

/-- both parsers are one function of the octets -/
theorem parseBodyCur_strict_irrelevant (w : Bytes) : parseBodyCur false w = parseBodyCur true w := by
  unfold parseBodyCur
  rw [pubLenExactF_on]
  simp

theorem v6CountExact_serBody (k : PubKey) (body rest : Bytes) (hs : serBody k = some body)
    (hpos : k.version = 6 → 0 < (serMaterial k.mat).length) :
    v6CountExact (body ++ rest) = true := by
  unfold serBody at hs
  split at hs
  · rename_i hv
    simp only [Option.some.injEq] at hs
    subst hs
    have : k.version.toUInt8 ≠ 6 := by rcases hv with h | h <;> rw [h] <;> decide
    simp [v6CountExact, this]
  · split at hs
    · rename_i _ hv
      simp only [Option.some.injEq] at hs
      subst hs
      have : k.version.toUInt8 ≠ 6 := by rw [hv]; decide
      simp [v6CountExact, this]
    · split at hs
      · rename_i _ _ hv
        split at hs
        · rename_i hlt
          simp only [Option.some.injEq] at hs
          subst hs
          have h6 : k.version.toUInt8 = 6 := by rw [hv]; decide
          rw [be32_eq, be32_eq]
          simp only [List.cons_append, List.nil_append, v6CountExact, h6, if_true]
          rw [beNat_be32 _ hlt]
          have := hpos hv
          simp only [List.length_append, decide_eq_true_eq]
          omega
        · cases hs
      · cases hs

end Rpgp

