import RpgpModel.E2E
/-!
# E2EToy — toy primitives and two concrete configurations for the end-to-end model

The toy primitives satisfy the correctness laws the theorems of `RpgpProps/C01.lean` assume (shown
there), so the hypotheses are satisfiable; the driver op `e2e_toy` *evaluates* `readFull ∘ buildFull`
natively on them for arbitrary payload lengths (non-vacuity by execution).  Nothing here models a
real cipher.
-/
namespace Rpgp.E2E.Toy
open Rpgp Rpgp.E2E

/-- sum of the octets (mod 256) -/
def bsum (x : Bytes) : Byte := x.foldl (· + ·) 0

def sym : Sym.Prims where
  hash := fun alg x => (bsum x :: x.length.toUInt8 :: alg.toUInt8 :: x.take 2) ++ List.replicate 20 7
  hkdf := fun _ salt ikm info len => ((bsum ikm :: (ikm ++ salt ++ info)) ++ List.replicate len 0).take len
  cfbEnc := fun _ key _ x => x.map (· + key.headD 1)
  aead := fun _ _ k n _ p => p ++ List.replicate 16 (bsum k + n.getLastD 0)
  kwrap := fun _ d => d
  argon2 := fun _ _ _ _ _ len => List.replicate len 9

def prims : Prims where
  sym := sym
  cfbDec := fun _ key _ x => x.map (· - key.headD 1)
  aeadOpen := fun _ _ k n _ c =>
    if 16 ≤ c.length ∧ c.drop (c.length - 16) = List.replicate 16 (bsum k + n.getLastD 0)
    then some (c.take (c.length - 16)) else none
  compress := fun _ x => x
  decompress := fun _ x => some x
  pkEnc := fun j data _ => .other (j.toUInt8 :: data)
  pkDec := fun j vals v6 =>
    match vals with
    | .other (j' :: data) => if j' = j.toUInt8 then Ring.decodePkSessionKey v6 data else none
    | _ => none
  pkSign := fun j d => .native (j.toUInt8 :: d)
  pkVerify := fun j d sb => sb == .native (j.toUInt8 :: d)
  vut := utf8ValidUpTo

/-- a v4 signer (OPS v3, no salt) and a v6 signer (OPS v6, 16-octet salt for hash 8) -/
def s4 : Signer :=
  { key := 1, keyVer := 4, pk := 28, hash := 8, hashed := [], unhashed := [], salt := [],
    keyId := [1, 2, 3, 4, 5, 6, 7, 8], fp := [] }
def s6 : Signer :=
  { key := 2, keyVer := 6, pk := 28, hash := 8, hashed := [], unhashed := [], salt := List.replicate 16 5,
    keyId := [], fp := List.replicate 32 6 }

def rcptK : KeyRcpt :=
  { key := 3, alg := 19, ident := ⟨[9, 9, 9, 9, 9, 9, 9, 9], ⟨6, List.replicate 32 3⟩⟩, isX := false, anonymous := false }
def rcptP : PwRcpt := { pw := [112, 119], s2k := .salted 8 [1, 2, 3, 4, 5, 6, 7, 8], iv := List.replicate 15 4 }
/-- a second password recipient whose S2K key differs from `rcptP`'s by 4 in its first octet: under the
toy CFB its SKESK v4 "decrypts" under `rcptP`'s password to algorithm 11 (a 16-octet-key cipher) — D18b -/
def rcptQ : PwRcpt := { pw := [100, 135], s2k := .salted 8 [1, 2, 3, 4, 5, 6, 7, 8], iv := List.replicate 15 4 }

/-- SEIPDv2, AES-128 / OCB, 64-octet chunks; one password and one key recipient -/
def encV2 : Encryption :=
  { container := .v2 7 2 0 (List.replicate 32 8), sessionKey := List.replicate 16 11, passwords := [rcptP], keys := [rcptK] }
/-- SEIPDv1, AES-128; one password and one anonymous key recipient -/
def encV1 : Encryption :=
  { container := .v1 7 (List.replicate 16 3), sessionKey := List.replicate 16 11, passwords := [rcptP],
    keys := [{ rcptK with anonymous := true }] }

/-- 2 signers, zip, SEIPDv2 with 64-octet chunks, password + key recipient, armored with checksum,
source of unknown length (partial literal framing, chunk 512) -/
def cfgA : Cfg :=
  { mode := 98, knownLen := false, signTyp := 0, signers := [s4, s6], compression := some 1,
    encryption := some encV2, k := 9, armor := some true }
/-- the same signers with text signatures, SEIPDv1, fixed-length literal, binary output -/
def cfgB : Cfg := { cfgA with encryption := some encV1, knownLen := true, signTyp := 1, armor := none }
/-- SEIPDv1 with two password recipients (the D18b shape) -/
def cfgD : Cfg := { cfgB with encryption := some { encV1 with passwords := [rcptQ, rcptP], keys := [] }, signers := [] }

def opts : ReadOpts := { verifiers := [⟨1, 4⟩, ⟨2, 6⟩] }
/-- the recipient's `SignedSecretKey`: a signing primary and the encryption subkey -/
def keyK : Ring.SecKey Nat Unit :=
  { primary := ⟨⟨[7, 7, 7, 7, 7, 7, 7, 7], ⟨6, [1]⟩⟩, .plain 99⟩, subkeys := [⟨rcptK.ident, .plain 3⟩] }

def payload (n : Nat) : Bytes := (List.range n).map fun i => (i % 251).toUInt8

/-- `readFull ∘ buildFull` on a configuration: 1 = payload, header and all verifications as expected -/
def run (c : Cfg) (o : ReadOpts) (secret : Secret) (n cut : Nat) : Option Bool :=
  match buildFull prims c [payload n] with
  | none => none
  | some m =>
    match readFull prims o secret c.armor.isSome (if cut = 0 then [m] else [m.take cut, m.drop cut]) with
    | none => some false
    | some r =>
      some (r.payload == payload n && r.litMeta == ⟨c.mode, [], [0, 0, 0, 0]⟩ &&
        r.verified == List.replicate c.signers.length true)

end Rpgp.E2E.Toy
