//! C04 — hostile input never panics: every processing entry point returns Ok or Err (PARTIAL).
//!
//! Correspondence ops (model: RpgpModel/Panics.lean, ops in RpgpModel/Ops/C04.lean): the model
//! predicts `ok[:payload] | err | panic` for each modelled decision/slicing region, the harness runs
//! the real code on the same input:
//!   pkesk_decode / pkesk_x   decoding of a decrypted session key (RSA, ECDH, X25519, X448 keys it owns)
//!   skesk4 / skesk6          SKESK decode with attacker-chosen decrypted bytes
//!   aeskw / ecdh_derive      AES-KW length arithmetic and PKCS5 unpadding
//!   aead_setup / seipd2_new / seipd2_admit   SEIPDv2 set-up for every AEAD / cipher octet
//!   hdr / mpi / subpkt / esc / argon2 / s2k_hashed / b64read / crc / clearbody / nread / lw
//!
//! Oracle (property text): "no byte sequence ... makes parsing, dearmoring, decrypting,
//! decompressing, reading, serializing or verifying panic, abort, overflow the stack or loop forever;
//! the call returns a value or an error": every call into the crate runs under catch_unwind with the
//! panic location captured; hostile streams and fixture mutations run in a CHILD PROCESS (this binary
//! re-executed with `C04-child`) that reports progress per case, so that an abort / stack overflow /
//! hang (watchdog) is attributed to the case that was running.

pub mod child;
mod containers;
mod rae;
mod sigs;
mod esk;
mod regions;
mod regions2;
mod sweeps;

use std::sync::Mutex;

use pgp::composed::SignedSecretKey;
use pgp::crypto::public_key::PublicKeyAlgorithm;
use pgp::types::{EncryptionKey, EskType, Fingerprint, KeyDetails, KeyId, KeyVersion, PkeskBytes, PublicParams, Timestamp};
use rand::{CryptoRng, Rng, SeedableRng};
use rand_chacha::ChaCha8Rng;

use crate::ctx::Ctx;
use crate::keys;

/// a case that has not answered after this long counts as hung.  (Generous on purpose: the budget
/// is wall-clock time and the checks may run on a loaded machine — a 2.5 s case took 7.5 s with
/// every core busy; a genuine hang is still reported, only later.)
pub const WATCHDOG_MS: u128 = 60_000;

static LAST_PANIC_LOC: Mutex<String> = Mutex::new(String::new());

/// panic hook that remembers the location (file:line) of the last panic
pub fn install_hook() {
    std::panic::set_hook(Box::new(|info| {
        let loc = info.location().map(|l| format!("{}:{}", l.file(), l.line())).unwrap_or_default();
        if std::env::var("C04_BACKTRACE").is_ok() {
            eprintln!("panic at {loc}\n{}", std::backtrace::Backtrace::force_capture());
        }
        if let Ok(mut g) = LAST_PANIC_LOC.lock() {
            *g = loc;
        }
    }));
}

/// catch_unwind; `Err("message @ file:line")` on panic
pub fn guard<T>(f: impl FnOnce() -> T) -> Result<T, String> {
    match std::panic::catch_unwind(std::panic::AssertUnwindSafe(f)) {
        Ok(v) => Ok(v),
        Err(e) => {
            let msg = if let Some(s) = e.downcast_ref::<&str>() {
                s.to_string()
            } else if let Some(s) = e.downcast_ref::<String>() {
                s.clone()
            } else {
                "panic".to_string()
            };
            let loc = LAST_PANIC_LOC.lock().map(|g| g.clone()).unwrap_or_default();
            // paths inside the rpgp tree are shown relative to it (wherever the tree lives)
            let loc = match loc.rfind("/src/") {
                Some(p) if !loc.contains("/.cargo/") && !loc.contains("/rustc/") && !loc.contains("/harness/") => loc[p + 1..].to_string(),
                _ => loc,
            };
            Err(format!("{msg} @ {loc}"))
        }
    }
}

/// class of a guarded Result-returning call
pub fn cls<T, E>(r: &Result<Result<T, E>, String>) -> &'static str {
    match r {
        Ok(Ok(_)) => "ok",
        Ok(Err(_)) => "err",
        Err(_) => "panic",
    }
}

/// the no-panic oracle for one guarded call (plus the watchdog on its duration)
pub fn no_panic<T>(ctx: &mut Ctx, site: &str, input: &str, r: &Result<T, String>, started: std::time::Instant) {
    let ms = started.elapsed().as_millis();
    let detail = match r {
        Ok(_) => String::new(),
        Err(p) => format!("PANIC {p}"),
    };
    ctx.oracle("no_panic", site, input, r.is_ok(), &detail);
    ctx.oracle("returns_within_watchdog", site, input, ms < WATCHDOG_MS, &format!("{ms} ms"));
}

/// An `EncryptionKey` that encrypts the attacker's plaintext instead of the well-formed one
#[derive(Debug)]
pub struct Evil<'a, K: EncryptionKey> {
    pub inner: &'a K,
    pub plain: Vec<u8>,
}

impl<K: EncryptionKey> KeyDetails for Evil<'_, K> {
    fn version(&self) -> KeyVersion {
        self.inner.version()
    }
    fn legacy_key_id(&self) -> KeyId {
        self.inner.legacy_key_id()
    }
    fn fingerprint(&self) -> Fingerprint {
        self.inner.fingerprint()
    }
    fn algorithm(&self) -> PublicKeyAlgorithm {
        self.inner.algorithm()
    }
    fn created_at(&self) -> Timestamp {
        self.inner.created_at()
    }
    fn legacy_v3_expiration_days(&self) -> Option<u16> {
        self.inner.legacy_v3_expiration_days()
    }
    fn public_params(&self) -> &PublicParams {
        self.inner.public_params()
    }
}

impl<K: EncryptionKey> EncryptionKey for Evil<'_, K> {
    fn encrypt<R: CryptoRng + Rng>(&self, rng: R, _plain: &[u8], typ: EskType) -> pgp::errors::Result<PkeskBytes> {
        self.inner.encrypt(rng, &self.plain, typ)
    }
}

/// the recipient's key ring: one key per public-key algorithm, deterministic in the seed
pub struct Ring {
    pub keys: Vec<(&'static str, SignedSecretKey)>,
}

pub fn ring(seed: u64) -> Ring {
    let mut rng = ChaCha8Rng::seed_from_u64(seed ^ 0xC044E1);
    Ring {
        keys: vec![
            ("rsa", keys::rsa2048(&mut rng)),
            ("ecdh25519", keys::eddsa_legacy_ecdh(&mut rng)),
            ("ecdhp256", keys::ecdsa_p256_ecdh(&mut rng)),
            ("x25519v4", keys::ed25519_x25519(&mut rng, KeyVersion::V4)),
            ("x25519v6", keys::ed25519_x25519(&mut rng, KeyVersion::V6)),
            ("x448", keys::ed448_x448(&mut rng)),
        ],
    }
}

/// a `BufRead` whose successive `fill_buf` slices are the given chunks
pub struct Chunked {
    chunks: Vec<Vec<u8>>,
    idx: usize,
    off: usize,
}

impl Chunked {
    pub fn new(chunks: &[Vec<u8>]) -> Self {
        Self { chunks: chunks.iter().filter(|c| !c.is_empty()).cloned().collect(), idx: 0, off: 0 }
    }
    pub fn rest(&self) -> Vec<u8> {
        let mut v = Vec::new();
        for (i, c) in self.chunks.iter().enumerate().skip(self.idx) {
            v.extend_from_slice(if i == self.idx { &c[self.off.min(c.len())..] } else { &c[..] });
        }
        v
    }
}

impl std::io::Read for Chunked {
    fn read(&mut self, buf: &mut [u8]) -> std::io::Result<usize> {
        use std::io::BufRead;
        let n = {
            let b = self.fill_buf()?;
            let n = b.len().min(buf.len());
            buf[..n].copy_from_slice(&b[..n]);
            n
        };
        self.consume(n);
        Ok(n)
    }
}

impl std::io::BufRead for Chunked {
    fn fill_buf(&mut self) -> std::io::Result<&[u8]> {
        while self.idx < self.chunks.len() && self.off >= self.chunks[self.idx].len() {
            self.idx += 1;
            self.off = 0;
        }
        if self.idx >= self.chunks.len() {
            return Ok(&[]);
        }
        Ok(&self.chunks[self.idx][self.off..])
    }
    fn consume(&mut self, amt: usize) {
        self.off += amt;
    }
}

pub fn run(ctx: &mut Ctx) {
    install_hook();
    let t0 = std::time::Instant::now();
    regions::run(ctx);
    ctx.note(&format!("regions: {} ms", t0.elapsed().as_millis()));
    let ring = ring(ctx.seed);
    let t1 = std::time::Instant::now();
    esk::run(ctx, &ring);
    ctx.note(&format!("esk sweep: {} ms", t1.elapsed().as_millis()));
    let t2 = std::time::Instant::now();
    sweeps::run(ctx, &ring);
    ctx.note(&format!("field sweeps: {} ms", t2.elapsed().as_millis()));
    let t4 = std::time::Instant::now();
    containers::run(ctx, &ring);
    ctx.note(&format!("containers x session keys: {} ms", t4.elapsed().as_millis()));
    let t5 = std::time::Instant::now();
    sigs::run(ctx);
    ctx.note(&format!("hostile signature values: {} ms", t5.elapsed().as_millis()));
    let t6 = std::time::Instant::now();
    rae::run(ctx);
    ctx.note(&format!("read after error: {} ms", t6.elapsed().as_millis()));
    let t3 = std::time::Instant::now();
    child::run(ctx, &ring);
    ctx.note(&format!("child batches: {} ms", t3.elapsed().as_millis()));
}
