import RpgpModel.StreamIntr
/-! Proofs: interruptions are transparent to the repaired `fill_buffer` (C09, C14). -/
namespace Rpgp

theorem fixD14c_on : Gen.fixD14cFillBufferRetriesInterrupted = 1 := by decide

/-- two results agree up to the interruptions left in the source -/
def RestAgrees (a : Option (Bytes × List EvI)) (b : Option (Bytes × List Ev)) : Prop :=
  match a, b with
  | none, none => True
  | some (x, ra), some (y, rb) => x = y ∧ dropIntr ra = rb
  | _, _ => False

theorem fillBufferI_zero_req (fixed : Bool) (fuel : Nat) (src : List EvI) :
    fillBufferI fixed fuel src 0 = some ([], src) := by
  cases fuel <;> simp [fillBufferI]

theorem fillBufferEv_zero_req (fuel : Nat) (src : List Ev) : fillBufferEv fuel src 0 = some ([], src) := by
  cases fuel <;> simp [fillBufferEv]

/-- with enough fuel (one unit per event and per octet asked for is plenty) the repaired `fill_buffer`
over a source with interruptions computes what `fill_buffer` computes over the same source without
them: same octets, same remaining source, same failure -/
theorem fillBufferI_transparent (fuelI : Nat) : ∀ (fuel : Nat) (src : List EvI) (n : Nat),
    src.length + n ≤ fuelI → src.length + n ≤ fuel →
    RestAgrees (fillBufferI true fuelI src n) (fillBufferEv fuel (dropIntr src) n) := by
  induction fuelI with
  | zero =>
    intro fuel src n h1 _
    have hs : src = [] := by
      cases src with
      | nil => rfl
      | cons a r => simp at h1
    have hn : n = 0 := by omega
    subst hs; subst hn
    rw [fillBufferI_zero_req, fillBufferEv_zero_req]
    simp [dropIntr, RestAgrees]
  | succ fI ih =>
    intro fuel src n h1 h2
    by_cases hn : n = 0
    · subst hn
      rw [fillBufferI_zero_req, fillBufferEv_zero_req]
      simp [RestAgrees]
    · cases fuel with
      | zero => omega
      | succ f =>
        cases src with
        | nil => simp [fillBufferI, fillBufferEv, hn, evReadI, evRead, dropIntr, RestAgrees]
        | cons e es =>
          cases e with
          | err => simp [fillBufferI, fillBufferEv, hn, evReadI, evRead, dropIntr, RestAgrees]
          | intr =>
            simp only [fillBufferI, hn, if_false, evReadI, if_true, dropIntr]
            have h1' : es.length + n ≤ fI := by simp at h1; omega
            have h2' : es.length + n ≤ f + 1 := by simp at h2; omega
            exact ih (f + 1) es n h1' h2'
          | data c =>
            simp only [fillBufferI, fillBufferEv, hn, if_false, evReadI, evRead, dropIntr]
            by_cases hc : c.length ≤ n
            · simp only [hc, if_true]
              by_cases he : c.isEmpty = true
              · simp [he, RestAgrees]
              · simp only [he, Bool.false_eq_true, if_false]
                have hpos : 0 < c.length := by
                  cases c with
                  | nil => simp at he
                  | cons _ _ => simp
                have h1' : es.length + (n - c.length) ≤ fI := by simp at h1; omega
                have h2' : es.length + (n - c.length) ≤ f := by simp at h2; omega
                have ih' := ih f es (n - c.length) h1' h2'
                revert ih'
                cases fillBufferI true fI es (n - c.length) with
                | none =>
                  cases fillBufferEv f (dropIntr es) (n - c.length) with
                  | none => simp [RestAgrees]
                  | some v => simp [RestAgrees]
                | some u =>
                  cases fillBufferEv f (dropIntr es) (n - c.length) with
                  | none => simp [RestAgrees]
                  | some v =>
                    simp only [RestAgrees]
                    intro h
                    exact ⟨by rw [h.1], h.2⟩
            · simp only [hc, if_false]
              have hne : (c.take n).isEmpty = false := by
                cases c with
                | nil => simp at hc
                | cons a r =>
                  cases n with
                  | zero => exact absurd rfl hn
                  | succ m => simp
              simp only [hne, Bool.false_eq_true, if_false]
              have hl : (c.take n).length = n := by simp [List.length_take]; omega
              simp only [hl, Nat.sub_self]
              rw [fillBufferI_zero_req, fillBufferEv_zero_req]
              simp [dropIntr, RestAgrees]

/-- regression witness (D14c): the source delivers `[1, 2]`, is interrupted, delivers `[3, 4]`.  The
pre-repair helper gives up (and its caller, retrying, starts the window again at `[3, 4]`: a hole);
the repaired one returns the whole window -/
theorem fillBuffer_interrupted_witness :
    fillBufferI false 8 [.data [1, 2], .intr, .data [3, 4]] 4 = none ∧
    fillBufferI true 8 [.data [1, 2], .intr, .data [3, 4]] 4 = some ([1, 2, 3, 4], []) := by decide

end Rpgp
