import RpgpModel.Proto
import RpgpModel.Framing
import RpgpModel.Sound
/-!
# Driver ops for C02 — the verification entry points on (mutated) signature packets

Primitives in the driver.  The model never hashes and never runs a public-key algorithm.  The
request line carries

* `ht=` the **hash table**: `n.s1.s2:<digest hex>` rows, one per pre-image the harness hashed with
  the real hash function (`n.s1.s2` = `Rpgp.cksum` of the pre-image).  The model computes its own
  pre-image from the parsed packet and looks it up; a miss is answered `err:norow`, so a model
  that hashes something else than the RFC transcription of the harness is visible;
* `lg=` the **signing log**: `<key material id>:<digest hex>:<cksum of the signature value>` rows -
  what honest signers produced.  The ideal primitive of the driver accepts exactly the logged
  triples (`lg=yes`: a primitive that accepts everything, used to show that the left-16
  comparison refuses on its own).

Requests

* `snd_verify ep=<data|cert|user|subbind|primbind|key|inline> sig=<packet body> kv= kid= kfp= km= ks=<wl>:<bx>
   [k1=<ver>:<wl>:<bx>] [tag=] [id=<wl>:<bx>] [data=<bx>] [ops=<OPS packet body>] ht= lg=`
  → `ok` | `err:<guard>` | `err:parse` | `err:norow`
* `snd_cleartext csf=<bx> sigs=<body>,<body>… kv= kid= kfp= km= ht= lg=`
* `snd_bind sigs=<body>,… pv= pid= pfp= pm= ps=<wl>:<bx> sv= sid= sfp= sm= ss=<wl>:<bx> ht= lg=`
  (`Signed*SubKey::verify_bindings`)
* `snd_cert pv= pid= pfp= pm= ps= u=<wl>:<id bx>:<sig>.<sig>… a=… r=<sig> d=<sig>
   s=<ver>:<keyid>:<fp>:<mat>:<wl>:<ser bx>:<sig>.<sig>… ht= lg=`  (`Signed*Key::verify_bindings`)
* `snd_msg i=<index> m=<OPS body|->:<signature body> … data=<bx> kv= … ht= lg=` (`verify_nested_explicit`
  on a message with several signatures, each hashed in its own mode)
* `snd_wire i=<index> h=<p:<signature body>|o:<OPS body>> … t=<trailing signature body> … data= kv= … ht= lg=`
  (the same on the message as on the wire: the model pairs One-Pass headers and trailing signatures itself)
* `snd_fields sig=<packet body>` → `ok:<name>@<off>+<len>,…` | `err:parse`
-/
namespace Rpgp.Ops.C02
open Rpgp Rpgp.SigDigest Rpgp.Sound

def parsePart (s : String) : Option Bytes :=
  if s.startsWith "p" then
    match (s.drop 1).toString.splitOn "." with
    | [a, b] => do pure (pattern (← a.toNat?) (← b.toNat?))
    | _ => none
  else fromHex s

def parseBx (s : String) : Option Bytes :=
  if s = "-" then some [] else do
    let parts ← (s.splitOn "+").mapM parsePart
    pure parts.flatten

def parseSer (s : String) : Option Ser :=
  match s.splitOn ":" with
  | [wl, b] => do pure { writeLen := ← wl.toNat?, bytes := ← parseBx b }
  | _ => none

def parseKey (s : String) : Option Key :=
  match s.splitOn ":" with
  | [v, wl, b] => do pure { ver := ← v.toNat?, ser := { writeLen := ← wl.toNat?, bytes := ← parseBx b } }
  | _ => none

def ckStr (p : Bytes) : String :=
  let (n, x, y) := cksum p
  s!"{n}.{x}.{y}"

/-- the value the log and the harness use to name a signature value -/
def sigvalBytes (sv : SigVal) : Bytes := (sv.map fun m => be16 m.length ++ m).flatten

structure Tables where
  ht : List (String × Bytes)
  /-- (key material, digest, cksum of signature value) -/
  lg : List (Bytes × Bytes × String)
  yes : Bool

def parseHt (s : String) : Option (List (String × Bytes)) :=
  if s = "-" then some [] else
    (s.splitOn ",").mapM fun row =>
      match row.splitOn ":" with
      | [ck, d] => do pure (ck, ← fromHex d)
      | _ => none

def parseLg (s : String) : Option (List (Bytes × Bytes × String)) :=
  if s = "-" ∨ s = "yes" then some [] else
    (s.splitOn ",").mapM fun row =>
      match row.splitOn ":" with
      | [km, d, sv] => do pure (← fromHex km, ← fromHex d, sv)
      | _ => none

def tablesOf (a : Args) : Option Tables := do
  let ht ← (a.get? "ht") >>= parseHt
  let lgs ← a.get? "lg"
  let lg ← parseLg lgs
  pure { ht := ht, lg := lg, yes := lgs == "yes" }

/-- hash algorithm octets for which `new_hasher()` succeeds (hash.rs) -/
def hashKnown (h : Byte) : Bool :=
  h == 1 || h == 2 || h == 3 || h == 8 || h == 9 || h == 10 || h == 11 || h == 12 || h == 14

/-- digest returned for a pre-image that is not in the table -/
def noRow : Bytes := [0x6E, 0x6F, 0x72, 0x6F, 0x77]

def lookup (t : Tables) (p : Bytes) : Option Bytes := (t.ht.find? (·.1 == ckStr p)).map (·.2)

/-- the primitives of the driver: table hash, log-defined ideal verification -/
def prims (t : Tables) : Prims :=
  { hashKnown := hashKnown
    hash := fun _ p => (lookup t p).getD noRow
    pkVerify := fun mat _ d sv =>
      t.yes || t.lg.any fun e => e.1 == mat && e.2.1 == d && e.2.2 == ckStr (sigvalBytes sv) }

def guardName : Guard → String
  | .unknown => "unknown" | .typ => "typ" | .align => "align" | .strength => "strength"
  | .issuer => "issuer" | .hashAlg => "hashalg" | .salt => "salt" | .input => "input"
  | .area => "area" | .left16 => "left16" | .pk => "pk" | .noneSlot => "noneslot"
  | .read => "read" | .noSig => "nosig" | .noBacksig => "nobacksig" | .noneMatch => "nonematch"

def showRes : Res → String
  | .ok => "ok"
  | .err g => "err:" ++ guardName g

def vkeyOf (a : Args) (pre : String) : Option VKey := do
  let ser := ((a.get? (pre ++ "s")) >>= parseSer).getD { writeLen := 0, bytes := [] }
  pure { ver := ← a.nat (pre ++ "v"), keyId := ← a.bytes (pre ++ "id"), fp := ← a.bytes (pre ++ "fp"),
         mat := ← a.bytes (pre ++ "m"), ser := ser }

/-- single-signature entry points: guards → pre-image → table → left-16 → primitive -/
def finishWith (t : Tables) (flag : Nat) (k : VKey) (s : Sig) (pre : Except Guard Bytes) : String :=
  match pre with
  | .error g => "err:" ++ guardName g
  | .ok p =>
    match lookup t p with
    | none => "err:norow"
    | some d => showRes (check flag (prims t) k s d)

def handleVerify (a : Args) : Option String := do
  let ep ← a.get? "ep"
  let body ← a.bytes "sig"
  let t ← tablesOf a
  let k ← vkeyOf a "k"
  -- a prefixed signature of a signed message goes through the message parser
  let prefixed := ep == "inline" && (a.get? "ops").isNone
  match (if prefixed then parseSigPrefix body else parseSig body) with
  | none => pure "err:parse"
  | some s =>
    let k1 : Option Key := a.get? "k1" >>= parseKey
    let id : Option Ser := a.get? "id" >>= parseSer
    let tag := (a.nat "tag").getD 0
    let data : Option Bytes := a.get? "data" >>= parseBx
    match ep with
    | "data" => do pure (finishWith t Gen.sndLeft16Data k s (dataPre hashKnown k s (← data)))
    | "cert" => do pure (finishWith t Gen.sndLeft16Cert k s (certPre hashKnown k (← k1) s tag (← id)))
    | "user" => do
      -- `UserId::into_signed(sig)` (= `SignedUser::new`) then `verify_third_party` / `verify_bindings`
      if (userSigsKept [s]).isEmpty then pure "err:nosig"
      else pure (finishWith t Gen.sndLeft16Cert k s (certPre hashKnown k (← k1) s tag (← id)))
    | "subbind" => do pure (finishWith t Gen.sndLeft16SubkeyBinding k s (subkeyBindingPre hashKnown k (← k1) s))
    | "primbind" => do pure (finishWith t Gen.sndLeft16PrimaryKeyBinding k s (primaryKeyBindingPre hashKnown k (← k1) s))
    | "key" => do pure (finishWith t Gen.sndLeft16Key k s (keyPre hashKnown k (← k1) s))
    | "inline" => do
      let d ← data
      let ops : Option (Option Ops) :=
        match a.get? "ops" with
        | none => some none
        | some h => do
          let ob ← fromHex h
          let w ← parseOpsPrefix ob
          pure (some (ofWireOps w))
      match ops with
      | none => pure "err:parse"
      | some o =>
        match inlinePre hashKnown o s (if d.isEmpty then [] else [d]) with
        | .error g => pure ("err:" ++ guardName g)
        | .ok none => pure (showRes (verifyInline (prims t) k s none))
        | .ok (some (_, p)) =>
          match lookup t p with
          | none => pure "err:norow"
          | some dg => pure (showRes (verifyInline (prims t) k s (some dg)))
    | _ => none

def handleCleartext (a : Args) : Option String := do
  let csf ← (a.get? "csf") >>= parseBx
  let t ← tablesOf a
  let k ← vkeyOf a "k"
  let bodies ← a.list "sigs"
  match bodies.mapM parseSig with
  | none => pure "err:parse"
  | some sigs => pure (showRes (verifyCleartext (prims t) k sigs csf))

def handleBind (a : Args) : Option String := do
  let t ← tablesOf a
  let p ← vkeyOf a "p"
  let s ← vkeyOf a "s"
  let bodies ← a.list "sigs"
  match bodies.mapM parseBindSig with
  | none => pure "err:parse"
  | some sigs => pure (showRes (verifySubkeyBindings (prims t) p s sigs))

def parseSigList (s : String) : Option (List Bytes) :=
  if s = "-" then some [] else (s.splitOn ".").mapM fromHex

def Args.all (a : Args) (k : String) : List String := (a.filter (·.1 == k)).map (·.2)

def parseUser (s : String) : Option (Ser × List Bytes) :=
  match s.splitOn ":" with
  | [wl, idb, sigs] => do pure ({ writeLen := ← wl.toNat?, bytes := ← parseBx idb }, ← parseSigList sigs)
  | _ => none

def parseSubkey (s : String) : Option (VKey × List Bytes) :=
  match s.splitOn ":" with
  | [v, kid, fp, mat, wl, ser, sigs] => do
    pure ({ ver := ← v.toNat?, keyId := ← fromHex kid, fp := ← fromHex fp, mat := ← fromHex mat,
            ser := { writeLen := ← wl.toNat?, bytes := ← parseBx ser } }, ← parseSigList sigs)
  | _ => none

def handleCert (a : Args) : Option String := do
  let t ← tablesOf a
  let p ← vkeyOf a "p"
  let us ← (Args.all a "u").mapM parseUser
  let ats ← (Args.all a "a").mapM parseUser
  let rs ← (Args.all a "r").mapM fromHex
  let ds ← (Args.all a "d").mapM fromHex
  let ss ← (Args.all a "s").mapM parseSubkey
  let conv (x : Ser × List Bytes) : Option (Ser × List Sig) := do pure (x.1, ← x.2.mapM parseSig)
  let convS (x : VKey × List Bytes) : Option (VKey × List BindSig) := do pure (x.1, ← x.2.mapM parseBindSig)
  match us.mapM conv, ats.mapM conv, rs.mapM parseSig, ds.mapM parseSig, ss.mapM convS with
  | some u, some av, some r, some d, some s =>
    pure (showRes (verifyCertificate (prims t) p { users := u, attrs := av, revocations := r, directs := d } s))
  | _, _, _, _, _ => pure "err:parse"

def parseMsgSig (s : String) : Option (Option MsgSig) :=
  match s.splitOn ":" with
  | [o, g] => do
    let body ← fromHex g
    if o = "-" then
      pure ((parseSigPrefix body).map fun sg => { ops := none, sig := sg })
    else do
      let ob ← fromHex o
      pure (do
        let w ← parseOpsPrefix ob
        let sg ← parseSig body
        pure { ops := some (ofWireOps w), sig := sg })
  | _ => none

/-- `snd_msg i=<index> m=<ops|->:<sig> … data= k… ht= lg=`: `verify_nested_explicit(i, key)` on a
message with several signatures (in order of appearance, one-pass headers paired with their
trailing signatures) -/
def handleMsg (a : Args) : Option String := do
  let i ← a.nat "i"
  let t ← tablesOf a
  let k ← vkeyOf a "k"
  let d ← (a.get? "data") >>= parseBx
  let ms ← (Args.all a "m").mapM parseMsgSig
  match ms.mapM id with
  | none => pure "err:parse"
  | some sigs =>
    match inlineSlotsPre hashKnown sigs (if d.isEmpty then [] else [d]) with
    | .error g => pure ("err:" ++ guardName g)
    | .ok slots =>
      match sigs[i]?, slots[i]? with
      | some m, some none => pure (showRes (verifyInline (prims t) k m.sig none))
      | some m, some (some (_, p)) =>
        match lookup t p with
        | none => pure "err:norow"
        | some dg => pure (showRes (verifyInline (prims t) k m.sig (some dg)))
      | _, _ => pure "err:noneslot"

def parseHead (s : String) : Option (Option MsgHead) :=
  match s.splitOn ":" with
  | ["p", g] => do
    let body ← fromHex g
    pure ((parseSigPrefix body).map MsgHead.prefixed)
  | ["o", g] => do
    let body ← fromHex g
    pure ((parseOpsPrefix body).map fun w => MsgHead.onePass (ofWireOps w))
  | _ => none

/-- `snd_wire i=<index> h=<p:<signature body>|o:<OPS body>> … t=<trailing signature body> … data= k… ht= lg=`:
`verify_nested_explicit(i, key)` on a signed message as on the wire (heads in order of appearance,
trailing Signature packets in wire order); the pairing is the model's (`pairMessage`) -/
def handleWire (a : Args) : Option String := do
  let i ← a.nat "i"
  let t ← tablesOf a
  let k ← vkeyOf a "k"
  let d ← (a.get? "data") >>= parseBx
  let hs ← (Args.all a "h").mapM parseHead
  let ts ← (Args.all a "t").mapM fromHex
  match hs.mapM id, ts.mapM parseSig with
  | some heads, some trailing =>
    let chunks := if d.isEmpty then [] else [d]
    match heads.findSome? (headConstructionError hashKnown) with
    | some g => pure ("err:" ++ guardName g)
    | none =>
      match pairMessage hashKnown heads trailing with
      | none => pure "err:read"
      | some entries =>
        let pres : List (Except Guard (Option (Byte × Bytes))) := entries.map fun
          | none => .ok none
          | some m => inlinePre hashKnown m.ops m.sig chunks
        match collectSlots pres with
        | .error g => pure ("err:" ++ guardName g)
        | .ok slots =>
          match slots[i]? with
          | some (some (_, p)) =>
            match (entries.filterMap fun e => e.map (·.sig))[i]? with
            | some sg =>
              match lookup t p with
              | none => pure "err:norow"
              | some dg => pure (showRes (verifyInline (prims t) k sg (some dg)))
            | none => pure "err:noneslot"
          | _ => pure "err:noneslot"
  | _, _ => pure "err:parse"

def handleFields (a : Args) : Option String := do
  let body ← a.bytes "sig"
  match Wire.sigParse (Wire.embFor body) body with
  | none => pure "err:parse"
  | some w =>
    pure ("ok:" ++ ",".intercalate ((fieldMap w).map fun (n, o, l) => s!"{n}@{o}+{l}"))

def handle (op : String) (a : Args) : Option String :=
  match op with
  | "snd_verify" => handleVerify a
  | "snd_cleartext" => handleCleartext a
  | "snd_bind" => handleBind a
  | "snd_cert" => handleCert a
  | "snd_fields" => handleFields a
  | "snd_msg" => handleMsg a
  | "snd_wire" => handleWire a
  | _ => none

end Rpgp.Ops.C02
