//! C16 — cleartext signatures: text survives, framing is unspoofable, signature binds.
//!
//! Real code driven (public API only, no hook needed):
//!   CleartextSignedMessage::{sign,new,new_many,to_armored_string,from_string,text,signed_text,verify},
//!   Signature::verify, HashAlgorithm::{from_str,Display}.
//!
//! Correspondence ops (model: lean/RpgpModel/Cleartext.lean, driver lean/RpgpModel/Ops/C16.lean):
//!   c16_escape text=      dash_escape, observed as new_many(text, |_| Ok(vec![])).text()
//!   c16_signin text=      the string new_many hands to its signer
//!   c16_signed csf=       signed_text() of a message whose text() is csf (fresh or parsed)
//!   c16_binds text= cand= does the signature made by new(text) verify over data `cand`
//!   c16_write hashes= text= sig=   whole to_armored_string output (sig = the armored block in it)
//!   c16_read doc= tail=   from_string on emitted, tampered and hand-built foreign documents
//!   c16_roundtrip text=   text() after to_armored_string -> from_string
//!   c16_verify text= how= stage=   does verify() succeed on the fresh / reparsed message
//!   c16_hashname / c16_hashdisp    Hash: header names
//!
//! Oracles (written from the property text only; none of them uses the model):
//!   text_survives        "Signing any text …, writing the armored form and reading it back yields
//!                         the same text": unescape(text()) == given text, fresh and reparsed, and
//!                         text() is unchanged by the round trip
//!   verifies             "… and a signature that verifies" (fresh and reparsed, every signer)
//!   signed_form_rfc      "the signed form of the text is the RFC one (CRLF line endings, trailing
//!                         blanks of each line removed, dash-escaping undone)"
//!   framing_unspoofable  "No text content can make the emitted document parse as different content
//!                         or terminate the text section early": the only lines of the emitted
//!                         document that start with "-----" are the header line and the BEGIN/END
//!                         lines of the signature block, and from_string returns as many signatures
//!                         as signers
//!   tamper_detected      "any change to the signed form of the text makes verification fail"
//!
//! Input classes named in replayable inputs (for known_findings.json predicates):
//!   tb=1     some line of the text has trailing SP/TAB (signed form differs from plain CRLF form)
//!   crend=1  the text ends with CR

use std::str::FromStr;

use pgp::composed::{CleartextSignedMessage, KeyType, SecretKeyParamsBuilder, SignedPublicKey, SignedSecretKey};
use pgp::crypto::hash::HashAlgorithm;
use pgp::packet::{Signature, SignatureConfig, SignatureType, Subpacket, SubpacketData};
use pgp::types::{KeyDetails, KeyVersion, Password, SigningKey, Timestamp};
use rand::{Rng, SeedableRng};
use rand_chacha::ChaCha8Rng;

use crate::ctx::{guarded, hx, Ctx};
use crate::frame::cksum;

const HEADER: &str = "-----BEGIN PGP SIGNED MESSAGE-----";
const SIG_BEGIN: &str = "-----BEGIN PGP SIGNATURE-----";
const SIG_END: &str = "-----END PGP SIGNATURE-----";

// ------------------------------------------------------------------------------------------
// independent restatements (property text / RFC 9580 §7), no model involved
// ------------------------------------------------------------------------------------------

/// RFC 9580 §7.2 signed form of a text, in the two steps the property names: (1) "trailing
/// blanks of each line removed" — a line ends at LF, a CR directly before that LF belongs to the
/// line ending, blanks are SP and TAB; (2) "CRLF line endings" — the C14 canonical form.
pub fn rfc_signed_form(t: &[u8]) -> Vec<u8> {
    let mut trimmed = Vec::with_capacity(t.len() + 8);
    let mut start = 0usize;
    loop {
        let nl = t[start..].iter().position(|&b| b == b'\n').map(|p| p + start);
        let line_end = nl.unwrap_or(t.len());
        let mut end = line_end;
        if nl.is_some() && end > start && t[end - 1] == b'\r' {
            end -= 1;
        }
        let ending_from = end;
        while end > start && (t[end - 1] == b' ' || t[end - 1] == b'\t') {
            end -= 1;
        }
        trimmed.extend_from_slice(&t[start..end]);
        trimmed.extend_from_slice(&t[ending_from..line_end]);
        match nl {
            Some(p) => {
                trimmed.push(b'\n');
                start = p + 1;
            }
            None => break,
        }
    }
    super::c14::canon_ref(&trimmed)
}

/// plain CRLF form (no trimming): what a text-mode signature over the text itself hashes
fn crlf_form(t: &[u8]) -> Vec<u8> {
    super::c14::canon_ref(t)
}

/// RFC 9580 §7.1: undo dash escaping — a line that starts with "- " loses these two bytes
pub fn unescape_ref(csf: &[u8]) -> Vec<u8> {
    let mut out = Vec::with_capacity(csf.len());
    let mut at_start = true;
    let mut i = 0;
    while i < csf.len() {
        if at_start && csf[i] == b'-' && i + 1 < csf.len() && csf[i + 1] == b' ' {
            i += 2;
            at_start = false;
            continue;
        }
        at_start = csf[i] == b'\n';
        out.push(csf[i]);
        i += 1;
    }
    out
}

fn has_trailing_blank(t: &[u8]) -> bool {
    rfc_signed_form(t) != crlf_form(t)
}

fn class_of(t: &[u8]) -> String {
    format!("tb={} crend={}", has_trailing_blank(t) as u8, (t.last() == Some(&b'\r')) as u8)
}

// ------------------------------------------------------------------------------------------
// keys and signing
// ------------------------------------------------------------------------------------------

struct Keys {
    k1: SignedSecretKey,
    p1: SignedPublicKey,
    k2: SignedSecretKey,
    p2: SignedPublicKey,
    pw: Password,
}

fn gen_keys(rng: &mut ChaCha8Rng) -> Keys {
    let k1 = SecretKeyParamsBuilder::default()
        .key_type(KeyType::Ed25519Legacy)
        .can_sign(true)
        .primary_user_id("c16-a".into())
        .build()
        .expect("params")
        .generate(&mut *rng)
        .expect("keygen v4");
    let k2 = SecretKeyParamsBuilder::default()
        .version(KeyVersion::V6)
        .key_type(KeyType::Ed25519)
        .can_sign(true)
        .primary_user_id("c16-b".into())
        .build()
        .expect("params")
        .generate(&mut *rng)
        .expect("keygen v6");
    let p1 = k1.to_public_key();
    let p2 = k2.to_public_key();
    Keys { k1, p1, k2, p2, pw: Password::empty() }
}

fn config_for(rng: &mut ChaCha8Rng, key: &SignedSecretKey, hash: HashAlgorithm) -> pgp::errors::Result<SignatureConfig> {
    let mut config = match key.version() {
        KeyVersion::V6 => SignatureConfig::v6(&mut *rng, SignatureType::Text, key.algorithm(), hash)?,
        _ => SignatureConfig::v4(SignatureType::Text, key.algorithm(), hash),
    };
    // one configuration in four carries NO issuer subpacket at all (legal: they are hints; such a
    // signature is a candidate for every key)
    use rand::Rng;
    if rng.gen_range(0..4) == 0 {
        config.hashed_subpackets = vec![Subpacket::regular(SubpacketData::SignatureCreationTime(Timestamp::now()))?];
        return Ok(config);
    }
    config.hashed_subpackets = vec![
        Subpacket::regular(SubpacketData::SignatureCreationTime(Timestamp::now()))?,
        Subpacket::regular(SubpacketData::IssuerFingerprint(key.fingerprint()))?,
    ];
    if key.version() <= KeyVersion::V4 {
        config.unhashed_subpackets = vec![Subpacket::regular(SubpacketData::IssuerKeyId(key.legacy_key_id()))?];
    }
    Ok(config)
}

#[derive(Clone, Copy, PartialEq, Eq, Debug)]
enum How {
    Sign,         // CleartextSignedMessage::sign, v4 key, key's preferred hash
    New(u8, u8),  // CleartextSignedMessage::new, key 1|2, hash id
    Many,         // new_many, two signers (v4/SHA256 + v6/SHA512)
    ManyOne(u8),  // new_many, one signer v6 with hash id
}

impl How {
    fn name(&self) -> String {
        match self {
            How::Sign => "sign".into(),
            How::New(k, h) => format!("new.k{k}.h{h}"),
            How::Many => "many2".into(),
            How::ManyOne(h) => format!("many1.h{h}"),
        }
    }
    fn model(&self) -> &'static str {
        match self {
            How::Sign | How::New(..) => "new",
            _ => "many",
        }
    }
    fn signers(&self) -> usize {
        if *self == How::Many { 2 } else { 1 }
    }
}

fn make(keys: &Keys, rng: &mut ChaCha8Rng, how: How, t: &str) -> pgp::errors::Result<CleartextSignedMessage> {
    match how {
        How::Sign => CleartextSignedMessage::sign(&mut *rng, t, &*keys.k1, &keys.pw),
        How::New(k, h) => {
            let key = if k == 1 { &keys.k1 } else { &keys.k2 };
            let cfg = config_for(rng, key, HashAlgorithm::from(h))?;
            CleartextSignedMessage::new(t, cfg, &**key, &keys.pw)
        }
        How::Many => CleartextSignedMessage::new_many(t, |s| {
            let c1 = config_for(rng, &keys.k1, HashAlgorithm::Sha256)?;
            let c2 = config_for(rng, &keys.k2, HashAlgorithm::Sha512)?;
            Ok(vec![c1.sign(&*keys.k1, &keys.pw, s.as_bytes())?, c2.sign(&*keys.k2, &keys.pw, s.as_bytes())?])
        }),
        How::ManyOne(h) => CleartextSignedMessage::new_many(t, |s| {
            let c = config_for(rng, &keys.k2, HashAlgorithm::from(h))?;
            Ok(vec![c.sign(&*keys.k2, &keys.pw, s.as_bytes())?])
        }),
    }
}

fn verify_all(keys: &Keys, how: How, m: &CleartextSignedMessage) -> bool {
    match how {
        How::Sign | How::New(1, _) => m.verify(&keys.p1).is_ok(),
        How::New(..) | How::ManyOne(_) => m.verify(&keys.p2).is_ok(),
        How::Many => m.verify(&keys.p1).is_ok() && m.verify(&keys.p2).is_ok(),
    }
}

// ------------------------------------------------------------------------------------------
// document helpers (plain string surgery on what the writer emitted)
// ------------------------------------------------------------------------------------------

fn find_last(hay: &[u8], needle: &[u8]) -> Option<usize> {
    if needle.len() > hay.len() {
        return None;
    }
    (0..=hay.len() - needle.len()).rev().find(|&i| &hay[i..i + needle.len()] == needle)
}

fn find_first(hay: &[u8], needle: &[u8]) -> Option<usize> {
    if needle.len() > hay.len() {
        return None;
    }
    (0..=hay.len() - needle.len()).find(|&i| &hay[i..i + needle.len()] == needle)
}

struct DocParts {
    hash_ids: Vec<u8>,
    text_start: usize, // first byte after the blank line
    sep: usize,        // index of the LF written after the text
}

fn hash_id_of_display(name: &str) -> Option<u8> {
    [0u8, 1, 2, 3, 8, 9, 10, 11, 12, 14, 110].into_iter().find(|&i| HashAlgorithm::from(i).to_string() == name)
}

/// split a document *emitted by to_armored_string*: header up to the first blank line; the
/// signature block starts at the last "\n-----BEGIN PGP SIGNATURE-----\n"
fn split_emitted(doc: &[u8]) -> Option<DocParts> {
    let hdr_end = find_first(doc, b"\n\n")? + 2;
    let sep = find_last(doc, format!("\n{SIG_BEGIN}\n").as_bytes())?;
    if sep < hdr_end {
        return None;
    }
    let mut hash_ids = vec![];
    for line in std::str::from_utf8(&doc[..hdr_end]).ok()?.lines().skip(1) {
        if let Some(v) = line.strip_prefix("Hash: ") {
            for n in v.split(',') {
                hash_ids.push(hash_id_of_display(n)?);
            }
        }
    }
    Some(DocParts { hash_ids, text_start: hdr_end, sep })
}

fn ids_str(ids: &[u8]) -> String {
    if ids.is_empty() { "-".into() } else { ids.iter().map(|i| i.to_string()).collect::<Vec<_>>().join(",") }
}

/// impl answer of c16_read: from_string, then hashes (through the message's own writer) and text()
fn read_answer(doc: &str) -> (String, Option<CleartextSignedMessage>) {
    match guarded(|| CleartextSignedMessage::from_string(doc)) {
        Err(_) => ("panic".into(), None),
        Ok(Err(_)) => ("err".into(), None),
        Ok(Ok((m, _headers))) => {
            let ids = m
                .to_armored_string(None.into())
                .ok()
                .and_then(|d| split_emitted(d.as_bytes()).map(|p| p.hash_ids));
            match ids {
                Some(ids) => (format!("ok:{}:{}", ids_str(&ids), hx(m.text().as_bytes())), Some(m)),
                None => ("ok:?".into(), Some(m)),
            }
        }
    }
}

// ------------------------------------------------------------------------------------------
// the pipeline for one text
// ------------------------------------------------------------------------------------------

struct Env {
    keys: Keys,
    rng: ChaCha8Rng,
    /// a valid armored signature block (from a real message), for hand-built documents
    sig_block: String,
}

fn pure_ops(ctx: &mut Ctx, t: &str) {
    let tb = t.as_bytes();
    let mut seen = String::new();
    let r = guarded(|| {
        CleartextSignedMessage::new_many(t, |s| {
            seen = s.to_string();
            Ok(vec![])
        })
    });
    match r {
        Ok(Ok(m)) => {
            ctx.case(format!("c16_escape text={}", hx(tb)), format!("ok:{}", hx(m.text().as_bytes())));
            ctx.case(format!("c16_signin text={}", hx(tb)), format!("ok:{}", hx(seen.as_bytes())));
            ctx.case(format!("c16_signed csf={}", hx(m.text().as_bytes())), format!("ok:{}", hx(m.signed_text().as_bytes())));
            let input = format!("text={} {}", hx(tb), class_of(tb));
            ctx.oracle("text_survives", "cleartext.rs dash_escape via CleartextSignedMessage::new_many/text", &input,
                unescape_ref(m.text().as_bytes()) == tb, &format!("text()={}", hx(m.text().as_bytes())));
            ctx.oracle("signed_form_rfc", "CleartextSignedMessage::new_many/signed_text (fresh)", &input,
                m.signed_text().as_bytes() == rfc_signed_form(tb).as_slice(),
                &format!("signed_text()={} rfc={}", hx(m.signed_text().as_bytes()), hx(&rfc_signed_form(tb))));
        }
        _ => {
            ctx.case(format!("c16_escape text={}", hx(tb)), "panic".into());
        }
    }
}

fn pipeline(ctx: &mut Ctx, env: &mut Env, t: &str, how: How, n_tamper: usize) {
    let tb = t.as_bytes();
    let hown = how.name();
    let input = format!("text={} how={} {}", hx(tb), hown, class_of(tb));
    ctx.stat(&format!("how:{hown}"));
    let msg = match guarded(|| make(&env.keys, &mut env.rng, how, t)) {
        Ok(Ok(m)) => m,
        Ok(Err(e)) => {
            ctx.oracle("verifies", &format!("CleartextSignedMessage::{hown}"), &input, false, &format!("signing failed: {e}"));
            return;
        }
        Err(p) => {
            ctx.oracle("verifies", &format!("CleartextSignedMessage::{hown}"), &input, false, &format!("panic: {p}"));
            return;
        }
    };
    let site = |what: &str| format!("CleartextSignedMessage::{} -> {what}", hown);
    let rfc = rfc_signed_form(tb);

    // ---- fresh message
    ctx.oracle("text_survives", &site("text (fresh)"), &input, unescape_ref(msg.text().as_bytes()) == tb,
        &format!("text()={}", hx(msg.text().as_bytes())));
    ctx.oracle("signed_form_rfc", &site("signed_text (fresh)"), &input, msg.signed_text().as_bytes() == rfc.as_slice(),
        &format!("signed_text()={} rfc={}", hx(msg.signed_text().as_bytes()), hx(&rfc)));
    let v_fresh = verify_all(&env.keys, how, &msg);
    ctx.oracle("verifies", &site("verify (fresh)"), &input, v_fresh, "verify() returned Err on the message just signed");
    ctx.case(format!("c16_verify text={} how={} stage=fresh", hx(tb), how.model()), format!("ok:{}", v_fresh as u8));

    // what the first signature binds
    if let Some(sig) = msg.signatures().first() {
        let pk = if matches!(how, How::Sign | How::New(1, _) | How::Many) { &env.keys.p1 } else { &env.keys.p2 };
        if how.model() == "new" {
            let mut cands: Vec<Vec<u8>> = vec![tb.to_vec(), rfc.clone(), crlf_form(tb)];
            let mut x = tb.to_vec();
            x.push(b'x');
            cands.push(x);
            cands.dedup();
            for c in cands {
                let ok = sig.verify(pk, &c[..]).is_ok();
                ctx.case(format!("c16_binds text={} cand={}", hx(tb), hx(&c)), format!("ok:{}", ok as u8));
            }
        }
    }

    // ---- armored form
    let doc = match guarded(|| msg.to_armored_string(None.into())) {
        Ok(Ok(d)) => d,
        _ => {
            ctx.oracle("text_survives", &site("to_armored_string"), &input, false, "to_armored_string failed");
            return;
        }
    };
    let db = doc.as_bytes();
    // "framing is unspoofable": lines that start with ----- are exactly header, BEGIN, END
    let dash_lines: Vec<&str> = doc.split('\n').filter(|l| l.starts_with("-----")).collect();
    let framing_ok = dash_lines == vec![HEADER, SIG_BEGIN, SIG_END];
    ctx.oracle("framing_unspoofable", &site("to_armored_string"), &input, framing_ok,
        &format!("lines starting with -----: {dash_lines:?}"));
    let parts = split_emitted(db);
    if let Some(p) = &parts {
        let sig = &db[p.sep + 1..];
        ctx.case(format!("c16_write hashes={} text={} sig={}", ids_str(&p.hash_ids), hx(tb), hx(sig)), format!("ok:{}", cksum(db)));
        ctx.stat(&format!("hash_headers:{}", p.hash_ids.len()));
        let (ans, _) = read_answer(&doc);
        ctx.case(format!("c16_read doc={} tail={}", hx(db), sig.len()), ans);
    } else {
        ctx.oracle("framing_unspoofable", &site("to_armored_string"), &input, false, "emitted document has no header/blank/signature structure");
    }

    // the same document after an LF -> CRLF transport conversion (correspondence only)
    if let Some(p) = &parts {
        if !doc.contains('\r') {
            let doc_crlf = doc.replace('\n', "\r\n");
            let tail = doc[p.sep + 1..].replace('\n', "\r\n").len();
            let (ans, m) = read_answer(&doc_crlf);
            ctx.case(format!("c16_read doc={} tail={}", hx(doc_crlf.as_bytes()), tail), ans);
            if let Some(m) = m {
                ctx.case(format!("c16_signed csf={}", hx(m.text().as_bytes())), format!("ok:{}", hx(m.signed_text().as_bytes())));
                ctx.stat("crlf_transport:parsed");
            } else {
                ctx.stat("crlf_transport:rejected");
            }
        }
    }

    // ---- read back
    let parsed = match guarded(|| CleartextSignedMessage::from_string(&doc)) {
        Ok(Ok((m, _))) => m,
        Ok(Err(e)) => {
            ctx.oracle("text_survives", &site("to_armored_string -> from_string"), &input, false, &format!("from_string failed: {e}"));
            ctx.case(format!("c16_roundtrip text={}", hx(tb)), "err".into());
            return;
        }
        Err(p) => {
            ctx.oracle("text_survives", &site("to_armored_string -> from_string"), &input, false, &format!("panic: {p}"));
            return;
        }
    };
    ctx.case(format!("c16_roundtrip text={}", hx(tb)), format!("ok:{}", hx(parsed.text().as_bytes())));
    ctx.case(format!("c16_signed csf={}", hx(parsed.text().as_bytes())), format!("ok:{}", hx(parsed.signed_text().as_bytes())));
    ctx.oracle("text_survives", &site("to_armored_string -> from_string -> text"), &input,
        parsed.text() == msg.text() && unescape_ref(parsed.text().as_bytes()) == tb,
        &format!("before={} after={}", hx(msg.text().as_bytes()), hx(parsed.text().as_bytes())));
    ctx.oracle("framing_unspoofable", &site("to_armored_string -> from_string -> signatures"), &input,
        parsed.signatures().len() == how.signers(), &format!("{} signatures read back", parsed.signatures().len()));
    ctx.oracle("signed_form_rfc", &site("to_armored_string -> from_string -> signed_text"), &input,
        parsed.signed_text().as_bytes() == rfc.as_slice(),
        &format!("signed_text()={} rfc={}", hx(parsed.signed_text().as_bytes()), hx(&rfc)));
    let v_re = verify_all(&env.keys, how, &parsed);
    ctx.oracle("verifies", &site("to_armored_string -> from_string -> verify"), &input, v_re, "verify() returned Err after the round trip");
    ctx.case(format!("c16_verify text={} how={} stage=reparsed", hx(tb), how.model()), format!("ok:{}", v_re as u8));

    // ---- read back through a reader (`from_armor`) that delivers the document in pieces: the result
    // must be the one `from_string` gives.  Cuts are placed after the cleartext header section (a cut
    // inside a `Key: Value` header line is C10's finding D10b and is not re-judged here); every
    // position from the start of the text to the end is used as the last-but-one boundary, with the
    // final octet delivered on its own, plus single cuts.
    if n_tamper >= 8 || (ctx.cases() % 16 == 0) {
        if let Some(p) = &parts {
            let bytes = doc.as_bytes();
            let n = bytes.len();
            let want_text = parsed.text().to_string();
            let mut schedules: Vec<Vec<usize>> = vec![vec![n.saturating_sub(1), 1], vec![n.saturating_sub(2), 1, 1]];
            let step = if n_tamper >= 8 { 1 } else { 7 };
            let mut a = p.text_start;
            while a + 1 < n {
                schedules.push(vec![a, n - 1 - a, 1]);
                schedules.push(vec![a, n - a]);
                a += step;
            }
            for k in [64usize, 128, 129, 256] {
                schedules.push(vec![p.text_start].into_iter().chain(std::iter::repeat(k).take(n / k + 2)).collect());
            }
            let mut bad: Option<String> = None;
            for sch in &schedules {
                let r = crate::io::ScheduledReader::new(bytes, sch);
                let res = guarded(|| CleartextSignedMessage::from_armor(r));
                let ok = match &res {
                    Ok(Ok((m, _))) => m.text() == want_text && m.signatures().len() == parsed.signatures().len(),
                    _ => false,
                };
                ctx.stat(if ok { "from_armor_schedule:same_as_from_string" } else { "from_armor_schedule:differs" });
                if !ok && bad.is_none() {
                    let why = match res { Ok(Ok(_)) => "different text/signatures".to_string(), Ok(Err(e)) => format!("error: {e}"), Err(pn) => format!("panic: {pn}") };
                    bad = Some(format!("schedule={:?} of {} octets: {}", &sch[..sch.len().min(4)], n, why));
                }
            }
            ctx.oracle("reader_schedule_independent", &site("to_armored_string -> from_armor(reader delivering pieces)"), &input,
                bad.is_none(), bad.as_deref().unwrap_or(""));
        }
    }

    // ---- tamper sweep on the text region of the emitted document
    let Some(p) = parts else { return };
    let region = &doc[p.text_start..p.sep.max(p.text_start)];
    for k in 0..n_tamper {
        let Some(mutated) = mutate_text(&mut env.rng, region, k) else { continue };
        let doc2 = format!("{}{}{}", &doc[..p.text_start], mutated, &doc[p.sep..]);
        let (ans, m2) = read_answer(&doc2);
        // the signature block is unchanged; tail as before (unless the edit made an inner boundary)
        let inner = mutated.starts_with("-----") || mutated.contains("\n-----");
        if inner && m2.is_none() {
            ctx.stat("tamper:inner_boundary_rejected");
        } else {
            let tail = if inner { "any".to_string() } else { (db.len() - p.sep - 1).to_string() };
            ctx.case(format!("c16_read doc={} tail={tail}", hx(doc2.as_bytes())), ans);
        }
        if let Some(m2) = &m2 {
            ctx.case(format!("c16_signed csf={}", hx(m2.text().as_bytes())), format!("ok:{}", hx(m2.signed_text().as_bytes())));
        }
        // the signed form of the text the reader reports for the tampered document
        let changed = match &m2 {
            Some(m) => rfc_signed_form(&unescape_ref(m.text().as_bytes())) != rfc,
            None => true,
        };
        if changed {
            ctx.stat("tamper:signed_form_changed");
            let accepted = m2.as_ref().map(|m| match how {
                How::Many => m.verify(&env.keys.p1).is_ok() || m.verify(&env.keys.p2).is_ok(),
                _ => verify_all(&env.keys, how, m),
            }).unwrap_or(false);
            ctx.oracle("tamper_detected", &site("from_string(tampered) -> verify"),
                &format!("text={} how={} {} tampered_csf={}", hx(tb), hown, class_of(tb), hx(mutated.as_bytes())), !accepted,
                "a document whose signed form differs from the signed one verified");
        } else {
            ctx.stat("tamper:signed_form_same");
        }
    }
}

/// a small edit of the dash-escaped text region (valid UTF-8 preserved)
fn mutate_text(rng: &mut ChaCha8Rng, region: &str, k: usize) -> Option<String> {
    let chars: Vec<char> = region.chars().collect();
    let n = chars.len();
    let pos = if n == 0 { 0 } else { rng.gen_range(0..=n) };
    let mut c = chars.clone();
    match k % 8 {
        0 => c.insert(pos, 'x'),
        1 => {
            if n == 0 { return None; }
            c.remove(pos.min(n - 1));
        }
        2 => {
            if n == 0 { return None; }
            let p = pos.min(n - 1);
            c[p] = if c[p] == 'a' { 'b' } else { 'a' };
        }
        3 => c.insert(pos, '\n'),
        4 => c.insert(pos, ' '),
        5 => c.insert(pos, '\r'),
        6 => c.insert(pos, '-'),
        _ => {
            // append a whole line
            c.extend("\nextra".chars());
        }
    }
    let s: String = c.into_iter().collect();
    if s == region { None } else { Some(s) }
}

// ------------------------------------------------------------------------------------------
// generators
// ------------------------------------------------------------------------------------------

const TOKENS: [&str; 9] = ["-", " ", "\t", "\r", "\n", "a", "é", "-----BEGIN PGP SIGNATURE-----", "- "];

fn all_token_strings(n: usize) -> Vec<String> {
    let mut out = vec![String::new()];
    for _ in 0..n {
        let mut next = Vec::with_capacity(out.len() * TOKENS.len());
        for s in &out {
            for t in TOKENS {
                next.push(format!("{s}{t}"));
            }
        }
        out = next;
    }
    out
}

fn grammar_text(rng: &mut ChaCha8Rng) -> String {
    const STARTS: [&str; 14] = ["", "", "", "-", "- ", "--", "-----", "-----BEGIN PGP SIGNATURE-----",
        "-----BEGIN PGP SIGNED MESSAGE-----", "-----END PGP SIGNATURE-----", "- -----BEGIN PGP SIGNATURE-----",
        "Hash: SHA256", "From ", "=njUN"];
    const MIDS: [&str; 12] = ["", "a", "abc", "é", "日本", "-", " ", "\t", "\r", "x-y", "- ", "-----"];
    const TAILS: [&str; 9] = ["", "", "", " ", "\t", " \t ", "\r", "\r ", "-"];
    const ENDS: [&str; 4] = ["\n", "\n", "\r\n", "\r\r\n"];
    let n_lines = rng.gen_range(0..=8usize);
    let final_nl = rng.gen_bool(0.5);
    let mut s = String::new();
    for i in 0..n_lines {
        s.push_str(STARTS[rng.gen_range(0..STARTS.len())]);
        for _ in 0..rng.gen_range(0..3usize) {
            s.push_str(MIDS[rng.gen_range(0..MIDS.len())]);
        }
        s.push_str(TAILS[rng.gen_range(0..TAILS.len())]);
        if i + 1 < n_lines || final_nl {
            s.push_str(ENDS[rng.gen_range(0..ENDS.len())]);
        }
    }
    s
}

fn stat_text(ctx: &mut Ctx, t: &str) {
    let b = t.as_bytes();
    let lines = if b.is_empty() { 0 } else { b.iter().filter(|&&c| c == b'\n').count() + (b.last() != Some(&b'\n')) as usize };
    ctx.stat(&format!("text:lines:{}", lines.min(9)));
    ctx.stat(if b.last() == Some(&b'\n') { "text:final_newline" } else { "text:no_final_newline" });
    if t.split('\n').any(|l| l.starts_with('-')) { ctx.stat("text:has_dash_line"); }
    if t.contains("-----BEGIN PGP") { ctx.stat("text:has_boundary_string"); }
    if has_trailing_blank(b) { ctx.stat("text:tb=1"); }
    if b.last() == Some(&b'\r') { ctx.stat("text:crend=1"); }
    if !t.is_ascii() { ctx.stat("text:multibyte"); }
}

/// hand-built documents around a body: header / hash / blank-line / separator variants
fn foreign_docs(ctx: &mut Ctx, env: &mut Env, body: &str, all_variants: bool) {
    let sig = env.sig_block.clone();
    let headers: [&str; 8] = ["-----BEGIN PGP SIGNED MESSAGE-----\n", "-----BEGIN PGP SIGNED MESSAGE-----\r\n",
        "-----BEGIN PGP SIGNED MESSAGE----- \n", "x-----BEGIN PGP SIGNED MESSAGE-----\n", "\n-----BEGIN PGP SIGNED MESSAGE-----\n",
        "-----BEGIN PGP MESSAGE-----\n", "-----BEGIN PGP SIGNED MESSAGE-----", "-----BEGIN PGP SIGNED MESSAGE-----\r\r\n"];
    let hashes: [&str; 20] = ["Hash: SHA256\n", "", "Hash: SHA512\r\n", "Hash: SHA256,SHA512\n", "Hash: SHA256\nHash: SHA3-512\n",
        "Hash: sha256\n", "Hash: FOO\n", "Comment: x\n", "Hash: SHA256, SHA512\n", "Hash:SHA256\n", "Hash: \n", "Hash: SHA256,\n",
        "Hash: ,SHA256\n", "hash: SHA256\n", "Hash: SHA256 \n", "Hash: RIPEMD160,MD5,SHA1,SHA224,SHA384,SHA3-256,NONE,Private10\n",
        "Hash: SHA256\nComment: x\n", "Hash: SHA_256\n", "Hash: SHA256\r\r\n", "Hash: SHA256"];
    let blanks: [&str; 7] = ["\n", "\r\n", " \t\n", "  \r\n", "", "x\n", "\r\r\n"];
    let seps: [&str; 3] = ["\n", "\r\n", ""];
    let mut emit = |ctx: &mut Ctx, h: &str, hs: &str, bl: &str, sep: &str, tail_extra: &str| {
        let doc = format!("{h}{hs}{bl}{body}{sep}{sig}{tail_extra}");
        let (ans, m) = read_answer(&doc);
        // a raw body with a line starting with ----- ends the text early; what the armor reader
        // then makes of the remainder is outside the model
        let inner = body.starts_with("-----") || format!("{body}{sep}").contains("\n-----");
        if inner && m.is_none() {
            ctx.stat("foreign:inner_boundary_rejected");
            return;
        }
        let tail = if inner { "any".to_string() } else { (sig.len() + tail_extra.len()).to_string() };
        ctx.case(format!("c16_read doc={} tail={tail}", hx(doc.as_bytes())), ans);
        if inner { ctx.stat("foreign:inner_boundary_accepted"); }
        if let Some(m) = m {
            ctx.case(format!("c16_signed csf={}", hx(m.text().as_bytes())), format!("ok:{}", hx(m.signed_text().as_bytes())));
            ctx.stat("foreign:parsed");
        } else {
            ctx.stat("foreign:rejected");
        }
    };
    if all_variants {
        for h in headers { emit(ctx, h, hashes[0], blanks[0], seps[0], ""); }
        for hs in hashes { emit(ctx, headers[0], hs, blanks[0], seps[0], ""); }
        for bl in blanks { emit(ctx, headers[0], hashes[0], bl, seps[0], ""); }
        for sep in seps { emit(ctx, headers[0], hashes[0], blanks[0], sep, ""); }
        emit(ctx, headers[1], hashes[2], blanks[1], seps[1], "");
        // outside the model (after the signature block): from_armor_after_header/has_rest
        for (name, extra) in [("lf", "\n".to_string()), ("sp", " ".to_string()), ("64sp", " ".repeat(64))] {
            let doc = format!("{}{}{}{body}{}{sig}{extra}", headers[0], hashes[0], blanks[0], seps[0]);
            let ok = matches!(guarded(|| CleartextSignedMessage::from_string(&doc)), Ok(Ok(_)));
            ctx.stat(&format!("observation:trailing_whitespace_after_signature:{name}:{}", if ok { "accepted" } else { "rejected" }));
        }
    } else {
        let r = &mut env.rng;
        let (h, hs, bl, sep) = (headers[if r.gen_bool(0.8) { 0 } else { r.gen_range(0..headers.len()) }],
            hashes[if r.gen_bool(0.6) { 0 } else { r.gen_range(0..hashes.len()) }],
            blanks[if r.gen_bool(0.7) { 0 } else { r.gen_range(0..blanks.len()) }],
            seps[if r.gen_bool(0.7) { 0 } else { r.gen_range(0..seps.len()) }]);
        emit(ctx, h, hs, bl, sep, "");
    }
}

fn hash_names(ctx: &mut Ctx) {
    for id in 0u16..=255 {
        let h = HashAlgorithm::from(id as u8);
        let ans = match h {
            HashAlgorithm::Other(_) => "err".to_string(),
            _ => format!("ok:{}", hx(h.to_string().as_bytes())),
        };
        ctx.case(format!("c16_hashdisp id={id}"), ans);
        // the writer's name must be read back as the same algorithm
        let back = HashAlgorithm::from_str(&h.to_string()).ok();
        if !matches!(h, HashAlgorithm::Other(_)) {
            ctx.oracle("text_survives", "HashAlgorithm Display -> FromStr (Hash: header)", &format!("id={id}"), back == Some(h),
                &format!("{h} read back as {back:?}"));
        }
    }
    let names = ["NONE", "MD5", "SHA1", "RIPEMD160", "SHA256", "SHA384", "SHA512", "SHA224", "SHA3-256", "SHA3-512", "Private10",
        "sha256", "Sha512", "sHa3-256", "SHA3_256", "SHA-256", "SHA2", "", "SHA2560", "XSHA256", "private10", "PRIVATE10", "none", "111", "8"];
    for n in names {
        let ans = match HashAlgorithm::from_str(n) {
            Ok(h) => format!("ok:{}", u8::from(h)),
            Err(_) => "err".to_string(),
        };
        ctx.case(format!("c16_hashname name={}", hx(n.as_bytes())), ans);
    }
}

pub fn run(ctx: &mut Ctx) {
    let mut rng = ChaCha8Rng::seed_from_u64(ctx.rng.gen());
    let keys = gen_keys(&mut rng);
    // a real signature block for hand-built documents
    let sample = CleartextSignedMessage::sign(&mut rng, "sample", &*keys.k1, &keys.pw).expect("sample sign");
    let sdoc = sample.to_armored_string(None.into()).expect("armor");
    let sp = split_emitted(sdoc.as_bytes()).expect("split sample");
    let sig_block = sdoc[sp.sep + 1..].to_string();
    let mut env = Env { keys, rng, sig_block };
    ctx.note("keys: one v4 Ed25519Legacy and one v6 Ed25519 key generated per run (SecretKeyParamsBuilder); hashes SHA256/SHA384/SHA512/SHA3-256; 1..2 signers");

    hash_names(ctx);

    // observation (outside the property's interfaces): from_armor over a reader that delivers the
    // document in small pieces, compared with from_string
    {
        let doc = sdoc.clone();
        for k in [1usize, 2, 3, 5, 7, 16, 40, 41, 45, 46, 47, 48, 49, 50, 64, 100, 4096] {
            let r = crate::io::ScheduledReader::new(doc.as_bytes(), &vec![k; doc.len() / k + 2]);
            let res = guarded(|| CleartextSignedMessage::from_armor(r));
            let ok = matches!(&res, Ok(Ok((m, _))) if m.text() == "sample");
            ctx.stat(&format!("observation:from_armor_chunk_{k}:{}", if ok { "same_as_from_string" } else { "fails" }));
        }
    }

    // D-list witnesses and fixed regression texts first
    let fixed = ["", "abc", "abc\n", "abc \nx", "abc\t\n", "abc\r", "abc\r\n", "-", "-\n", "- ", "-----", "a\n-----BEGIN PGP SIGNATURE-----\n",
        "-----BEGIN PGP SIGNATURE-----", "-----BEGIN PGP SIGNED MESSAGE-----\nHash: SHA1\n\nx\n", "\n", "\n\n", "\r", "\r\n", " ", "a \r\nb",
        "a\r \nb", "- -", "-- ", "From x", "é-\n-é", "a\n\n-----BEGIN PGP SIGNATURE-----\n\nabcd\n=abcd\n-----END PGP SIGNATURE-----\n"];
    // texts whose (trimmed) length sits on the 512-octet window of NormalizedReader / the 1024-octet
    // buffer, ending in a lone CR, CR LF or LF, so that a held-back CR meets the end of the source
    let mut fixed: Vec<String> = fixed.iter().map(|s| s.to_string()).collect();
    for n in [511usize, 512, 513, 1023, 1024, 1025, 1535, 1536] {
        for end in ["\r", "\r\n", "\n", "x"] {
            for fill in ["a", "ab\n"] {
                let mut t: String = fill.repeat(n / fill.len() + 1);
                t.truncate(n - end.len());
                t.push_str(end);
                fixed.push(t);
            }
        }
    }
    let hows = [How::Sign, How::New(1, 8), How::New(1, 10), How::New(2, 8), How::New(2, 10), How::Many, How::ManyOne(9), How::New(2, 12)];
    for t in &fixed {
        let t = t.as_str();
        stat_text(ctx, t);
        pure_ops(ctx, t);
        let long = t.len() > 100;
        for how in hows.iter().copied().take(if long { 3 } else { hows.len() }) {
            pipeline(ctx, &mut env, t, how, if long { 1 } else { 8 });
        }
        foreign_docs(ctx, &mut env, t, !long);
        ctx.stat("gen:fixed");
    }

    // exhaustive over the token alphabet
    let (l_pure, l_sign) = ctx.pick((5usize, 4usize), (6usize, 5usize));
    let mut idx = 0usize;
    for n in 0..=l_pure {
        for t in all_token_strings(n) {
            stat_text(ctx, &t);
            pure_ops(ctx, &t);
            // the same string as a raw (not escaped) body of a hand-built document
            foreign_docs(ctx, &mut env, &t, false);
            if n <= l_sign {
                let how = hows[idx % hows.len()];
                pipeline(ctx, &mut env, &t, how, if n <= 2 { 8 } else { 2 });
                if n <= 2 {
                    pipeline(ctx, &mut env, &t, How::Many, 2);
                }
                ctx.stat("gen:exhaustive_tokens_signed");
            } else {
                ctx.stat("gen:exhaustive_tokens_pure");
            }
            idx += 1;
        }
    }

    // grammar-random texts, 0..8 lines
    let n_rand = ctx.pick(6000usize, 120000usize);
    for i in 0..n_rand {
        let t = grammar_text(&mut env.rng);
        stat_text(ctx, &t);
        pure_ops(ctx, &t);
        let how = hows[i % hows.len()];
        pipeline(ctx, &mut env, &t, how, 3);
        foreign_docs(ctx, &mut env, &t, i % 50 == 0);
        ctx.stat("gen:grammar");
    }
}
