import RpgpProofs.SigDigest
/-!
# C11 — signed digests are exactly those RFC 9580 §5.2.4 prescribes

Model: `RpgpModel/SigDigest.lean`.  It has two layers: `SigDigest.Spec.preimage`, the RFC's pre-image
typed in as data, and one definition per hashing routine of rpgp (`SigDigest.signData`, …,
`SigDigest.verifyInline`), each returning the octets it feeds its hasher (`none` = the routine errors
before the public-key primitive is called).  The hash function is not modelled: "the digest is
the RFC's" is "the hashed octets are `Spec.preimage …`", for every hash function.

Sections: constants = RFC and sites agree · shape (trailer length, salt first, key framing) ·
every routine hashes the RFC pre-image (refinement) · the pre-image determines what was signed
(injectivity; shared with C02) · signing and verifying routines hash the same octets.  (The three
`_partial` groups of the first version - binding signers, inline signatures, salt size - are
full statements since the D11a/b/c fixes.)

What is *not* a theorem here and is carried by the correspondence run only: that the real
routines compute what the model routines compute (hand transcription), that
`write_len()` = length of `to_writer()` for the real key / id types (`Ser.truthful` is a
hypothesis), that the hashed-area octets (`Cfg.area`) are what `Signature::to_writer` puts on the
wire, and the hash functions themselves.
-/
namespace Rpgp.C11
open Rpgp Rpgp.SigDigest

/-! ## constants: the RFC's values, and all use sites agree -/

/-- key framing 0x99 / 0x9B, identity prefixes 0xB4 / 0xD1, trailer marker 0xFF -/
theorem prefix_octets_rfc :
    Gen.sdSfhLegacyPrefix = 0x99 ∧ Gen.sdSfhV6Prefix = 0x9B ∧ Gen.sdSignUidPrefix = 0xB4 ∧
    Gen.sdSignAttrPrefix = 0xD1 ∧ Gen.sdTrailerMarker = 0xFF := by decide

/-- two-octet key length for v4 keys, four-octet for v6; four-octet identity length; two / four
octet hashed-area length; four-octet trailer length; five octets of v3 material -/
theorem length_widths_rfc :
    Gen.sdSfhLegacyLenBits = 16 ∧ Gen.sdSfhV6LenBits = 32 ∧ Gen.sdSignIdLenBits = 32 ∧
    Gen.sdHsdV4AreaLenBits = 16 ∧ Gen.sdHsdV6AreaLenBits = 32 ∧ Gen.sdTrailerLenBits = 32 ∧
    Gen.sdHsdV3Len = 5 := by decide

/-- the signing side (config.rs) and the verifying side (types.rs) carry the same identity
prefixes and widths; the fingerprint framing (key/public.rs `imprint`) uses the same key prefix
octets as the signature framing -/
theorem sign_verify_sites_agree :
    Gen.sdVerUidPrefix = Gen.sdSignUidPrefix ∧ Gen.sdVerAttrPrefix = Gen.sdSignAttrPrefix ∧
    Gen.sdVerIdLenBits = Gen.sdSignIdLenBits ∧
    Gen.sdImprintV4Prefix = Gen.sdSfhLegacyPrefix ∧ Gen.sdImprintV6Prefix = Gen.sdSfhV6Prefix := by decide

theorem version_octets_rfc : Gen.sdSigVerV3 = 3 ∧ Gen.sdSigVerV4 = 4 ∧ Gen.sdSigVerV6 = 6 := by decide

theorem type_octets_rfc :
    Gen.sdSigTypeBinary = 0x00 ∧ Gen.sdSigTypeText = 0x01 ∧ Gen.sdSigTypeStandalone = 0x02 ∧
    Gen.sdSigTypeCertGeneric = 0x10 ∧ Gen.sdSigTypeCertPersona = 0x11 ∧ Gen.sdSigTypeCertCasual = 0x12 ∧
    Gen.sdSigTypeCertPositive = 0x13 ∧ Gen.sdSigTypeSubkeyBinding = 0x18 ∧ Gen.sdSigTypeKeyBinding = 0x19 ∧
    Gen.sdSigTypeKey = 0x1F ∧ Gen.sdSigTypeKeyRevocation = 0x20 ∧ Gen.sdSigTypeSubkeyRevocation = 0x28 ∧
    Gen.sdSigTypeCertRevocation = 0x30 ∧ Gen.sdSigTypeTimestamp = 0x40 := by decide

/-- `HashAlgorithm::salt_len` (hash.rs, re-extracted) is RFC 9580 table 23, for every algorithm
octet -/
theorem salt_table_is_rfc (h : Byte) : Gen.sdSaltLenOf h.toNat = Spec.saltSize h :=
  saltLenOf_eq_spec h

/-! ## shape -/

/-- **the trailer length counts exactly the hashed fields**: `hash_signature_data` returns the
number of octets it fed to the hasher, those octets are version, type, public-key algorithm, hash
algorithm, the two- (v4) / four-octet (v6) area length and the area — 4 + 2|4 + |area| octets —
and `trailer(len)` is version, 0xFF, that number on four octets. -/
theorem trailer_len_counts (c : Cfg) (f t : Bytes) (len : Nat) (hv : c.ver ≠ .v3)
    (h : hashSignatureData c = some (f, len)) (ht : trailer c len = some t) :
    len = f.length ∧
    f = [c.ver.octet, c.typ, c.pk, c.hash] ++
          (if c.ver = .v4 then be16 c.area.length else be32 c.area.length) ++ c.area ∧
    f.length = 4 + (if c.ver = .v4 then 2 else 4) + c.area.length ∧
    t = [c.ver.octet, 0xFF] ++ be32 f.length ∧ beNat (t.drop 2) = f.length := by
  obtain ⟨h1, h2, h3⟩ := hashSignatureData_len c f len hv h
  obtain ⟨h4, h5⟩ := trailer_eq c len t hv ht
  refine ⟨h1, h2, h3, by rw [h4, h1], ?_⟩
  rw [h4]
  simp only [List.cons_append, List.nil_append, List.drop_succ_cons, List.drop_zero]
  rw [beNat_be32 len h5, h1]

/-- the same fact about the specification: the trailer's number is the length of the hashed
fields, 6 + |area| (v4) / 8 + |area| (v6) -/
theorem spec_trailer_len_counts (i : Spec.Input) (hv : i.ver ≠ .v3) :
    Spec.trailerBytes i = [if i.ver = .v4 then 0x04 else 0x06, 0xFF] ++ be32 (Spec.hashedFields i).length ∧
    (Spec.hashedFields i).length = (if i.ver = .v4 then 6 else 8) + i.area.length := by
  cases h : i.ver
  · exact absurd h hv
  · simp [Spec.trailerBytes, Spec.hashedFields, h, be16_length]; omega
  · simp [Spec.trailerBytes, Spec.hashedFields, h, be32_length]; omega

/-- a v4 signature cannot carry more than 65535 octets of hashed subpackets, a v6 signature can
(up to the four-octet trailer count, and with a salt of the tabulated size): exactly then the
routines get past `hash_signature_data` -/
theorem hashed_area_limits (c : Cfg) :
    (c.ver = .v4 → ((fieldsAndTrailer c).isSome = true ↔ c.area.length < 65536)) ∧
    (c.ver = .v6 → ((fieldsAndTrailer c).isSome = true ↔
      (saltSizeOk c = true ∧ c.area.length + 8 < 4294967296))) := by
  constructor
  · intro h
    rw [fieldsAndTrailer_v4 c h]
    split <;> simp_all
  · intro h
    rw [fieldsAndTrailer_v6 c h]
    split <;> simp_all

/-- v3 signatures hash type and creation time after the subject, and nothing else -/
theorem v3_tail (c : Cfg) (h : c.ver = .v3) : fieldsAndTrailer c = some (c.typ :: be32 c.created) :=
  fieldsAndTrailer_v3 c h

/-- the pre-image ends with hashed fields ++ trailer -/
theorem preimage_ends_with_trailer (i : Spec.Input) (hv : i.ver ≠ .v3) :
    (Spec.hashedFields i ++ Spec.trailerBytes i) <:+ Spec.preimage i := by
  cases h : i.ver
  · exact absurd h hv
  · simp only [Spec.preimage, h, List.append_assoc]
    exact List.suffix_append _ _
  · simp only [Spec.preimage, h, List.append_assoc]
    rw [← List.append_assoc]
    exact List.suffix_append _ _

/-- key framing: 0x99, two-octet length, body for key versions 2–4 (refused above 65535 octets) -/
theorem key_framing_v4 (k : Key) (h : k.ver = 4) :
    serializeForHashing k =
      if k.ser.writeLen < 65536 then some (0x99 :: (be16 k.ser.writeLen ++ k.ser.bytes)) else none := by
  simp [serializeForHashing, h, Gen.sdSfhLegacyLenOctets, Gen.sdSfhLegacyLenBits, Gen.sdSfhLegacyPrefix, lenField_two]

/-- key framing: 0x9B, four-octet length, body for version 6 keys -/
theorem key_framing_v6 (k : Key) (h : k.ver = 6) :
    serializeForHashing k =
      if k.ser.writeLen < 4294967296 then some (0x9B :: (be32 k.ser.writeLen ++ k.ser.bytes)) else none := by
  simp [serializeForHashing, h, Gen.sdSfhV6LenOctets, Gen.sdSfhV6LenBits, Gen.sdSfhV6Prefix, lenField_four]

/-- no other key version is hashed at all -/
theorem key_framing_other_refused (k : Key) (h : k.ver ∉ [2, 3, 4, 6]) : serializeForHashing k = none := by
  simp at h
  simp [serializeForHashing, h]

/-- **salt first**: whatever a routine hashed starts with the salt octets — the configured salt
for a v6 signature, nothing for v3 / v4 -/
theorem salt_first (c : Cfg) (s : Spec.Subject) (p : Bytes) (h : Established c s p) :
    saltBytes c <+: p ∧ (c.ver = .v6 → saltBytes c = c.salt) ∧ (c.ver ≠ .v6 → saltBytes c = []) := by
  refine ⟨established_salt_first c s p h, ?_, ?_⟩
  · intro hv; simp [saltBytes, hv]
  · intro hv; cases hc : c.ver <;> simp_all [saltBytes]

/-- salt size, the two early checks: `Signature::verify` and the inline reader
(`SignaturePacket::new_hasher`) compare the v6 salt size with the table before they hash anything
(the general statement, for every routine, is `salt_len_by_hash` below) -/
theorem salt_len_by_hash_verify (c : Cfg) (sv : Nat) (d p : Bytes) (h : verifyData c sv d = some p)
    (hv : c.ver = .v6) : Spec.saltSize c.hash = some c.salt.length := by
  unfold verifyData at h
  split at h
  · simp at h
  · split at h
    · simp at h
    · rename_i _ hs
      have := bool_of_not_bnot _ hs
      simpa [saltSizeOk, hv, saltLenOf_eq_spec] using this

theorem salt_len_by_hash_inline (c : Cfg) (sv : Nat) (chunks : List Bytes) (p : Bytes)
    (h : verifyInline c sv chunks = some p) (hv : c.ver = .v6) :
    Spec.saltSize c.hash = some c.salt.length := by
  unfold verifyInline at h
  split at h
  · simp at h
  · rename_i hs
    have := bool_of_not_bnot _ hs
    simpa [saltSizeOk, hv, saltLenOf_eq_spec] using this

/-! ## every routine hashes the RFC pre-image of the subject its signature type calls for

`Ser.truthful` (`write_len()` is the length of what `to_writer` writes) is the only hypothesis
about the hashed objects; whenever a routine returns `some p`, `p` is `Spec.preimage` of the
corresponding input and the type octet belongs to the class of that subject. -/

theorem sign_data_is_rfc (c : Cfg) (sv : Nat) (chunks : List Bytes) (p : Bytes)
    (h : signData c sv chunks = some p) :
    p = Spec.preimage (c.toInput (.document chunks.flatten)) ∧ Spec.classOf c.typ = some .doc :=
  ⟨(signData_eq_spec c sv chunks p h).1.1, (signData_eq_spec c sv chunks p h).2⟩

/-- … for every way the document is delivered to the hasher -/
theorem sign_data_chunk_indep (c : Cfg) (sv : Nat) (chunks chunks' : List Bytes)
    (hfl : chunks.flatten = chunks'.flatten) : signData c sv chunks = signData c sv chunks' := by
  simp [signData, hashedText_eq_canon, hfl]

theorem verify_data_is_rfc (c : Cfg) (sv : Nat) (d p : Bytes) (hty : c.typ = typBinary ∨ c.typ = typText)
    (h : verifyData c sv d = some p) : p = Spec.preimage (c.toInput (.document d)) :=
  (verifyData_eq_spec c sv d p hty h).1

theorem sign_certification_is_rfc (c : Cfg) (sv : Nat) (k : Key) (tag : Nat) (id : Ser) (p : Bytes)
    (h : signCertification c sv k tag id = some p) (ht : k.ser.truthful) :
    p = Spec.preimage (c.toInput (.certification k.toSpec (tag == tagUserAttribute) id.bytes)) ∧
    Spec.classOf c.typ = some .cert :=
  ⟨(signCertification_eq_spec c sv k tag id p h ht).1.1, (signCertification_eq_spec c sv k tag id p h ht).2⟩

theorem verify_certification_is_rfc (c : Cfg) (sv : Nat) (k : Key) (tag : Nat) (id : Ser) (p : Bytes)
    (h : verifyCertification c sv k tag id = some p) (ht : k.ser.truthful) (hi : id.truthful) :
    p = Spec.preimage (c.toInput (.certification k.toSpec (tag == tagUserAttribute) id.bytes)) ∧
    Spec.classOf c.typ = some .cert :=
  ⟨(verifyCertification_eq_spec c sv k tag id p h ht hi).1.1,
    (verifyCertification_eq_spec c sv k tag id p h ht hi).2⟩

theorem sign_key_is_rfc (c : Cfg) (sv : Nat) (k : Key) (p : Bytes) (h : signKey c sv k = some p)
    (ht : k.ser.truthful) :
    p = Spec.preimage (c.toInput (.directKey k.toSpec)) ∧ Spec.classOf c.typ = some .direct :=
  ⟨(signKey_eq_spec c sv k p h ht).1.1, (signKey_eq_spec c sv k p h ht).2⟩

theorem verify_key_is_rfc (c : Cfg) (sv : Nat) (k : Key) (p : Bytes) (h : verifyKey c sv k = some p)
    (ht : k.ser.truthful) :
    p = Spec.preimage (c.toInput (.directKey k.toSpec)) ∧ Spec.classOf c.typ = some .direct :=
  ⟨(verifyKey_eq_spec c sv k p h ht).1.1, (verifyKey_eq_spec c sv k p h ht).2⟩

theorem verify_subkey_binding_is_rfc (c : Cfg) (pk sk : Key) (p : Bytes)
    (h : verifySubkeyBinding c pk sk = some p) (tp : pk.ser.truthful) (ts : sk.ser.truthful) :
    p = Spec.preimage (c.toInput (.binding pk.toSpec sk.toSpec)) ∧ Spec.classOf c.typ = some .bind :=
  ⟨(verifySubkeyBinding_eq_spec c pk sk p h tp ts).1.1, (verifySubkeyBinding_eq_spec c pk sk p h tp ts).2⟩

theorem verify_primary_key_binding_is_rfc (c : Cfg) (sk pk : Key) (p : Bytes)
    (h : verifyPrimaryKeyBinding c sk pk = some p) (tp : pk.ser.truthful) (ts : sk.ser.truthful) :
    p = Spec.preimage (c.toInput (.binding pk.toSpec sk.toSpec)) ∧ Spec.classOf c.typ = some .bind :=
  ⟨(verifyPrimaryKeyBinding_eq_spec c sk pk p h tp ts).1.1,
    (verifyPrimaryKeyBinding_eq_spec c sk pk p h tp ts).2⟩

/-! ### binding signers, inline signatures, salt size

Until the `fix:` commits for D11a / D11b / D11c these three were `_partial` theorems with
witnesses of the negation (the binding signers and the inline reader did not look at the
signature type; the salt size was compared with the table only in `Signature::verify` and the
inline reader).  The code now has the guards, the model has them, and the statements are the
full ones. -/

theorem sign_subkey_binding_is_rfc (c : Cfg) (sv : Nat) (pk sk : Key) (p : Bytes)
    (h : signSubkeyBinding c sv pk sk = some p) (tp : pk.ser.truthful) (ts : sk.ser.truthful) :
    p = Spec.preimage (c.toInput (.binding pk.toSpec sk.toSpec)) ∧ Spec.classOf c.typ = some .bind :=
  ⟨(signSubkeyBinding_eq_spec c sv pk sk p h tp ts).1.1, (signSubkeyBinding_eq_spec c sv pk sk p h tp ts).2⟩

theorem sign_primary_key_binding_is_rfc (c : Cfg) (sv : Nat) (pk sk : Key) (p : Bytes)
    (h : signPrimaryKeyBinding c sv pk sk = some p) (tp : pk.ser.truthful) (ts : sk.ser.truthful) :
    p = Spec.preimage (c.toInput (.binding pk.toSpec sk.toSpec)) ∧ Spec.classOf c.typ = some .bind :=
  ⟨(signPrimaryKeyBinding_eq_spec c sv pk sk p h tp ts).1.1,
    (signPrimaryKeyBinding_eq_spec c sv pk sk p h tp ts).2⟩

/-- the binding signers refuse every type outside their class (the former witness, a 0x1F
configuration through `sign_subkey_binding`, now evaluates to a refusal) -/
theorem sign_subkey_binding_refuses_other_types :
    signSubkeyBinding { ver := .v4, typ := 0x1F, pk := 1, hash := 8, area := [] } 4
      { ver := 4, ser := { writeLen := 1, bytes := [4] } } { ver := 4, ser := { writeLen := 1, bytes := [4] } } = none ∧
    signPrimaryKeyBinding { ver := .v4, typ := 0x18, pk := 1, hash := 8, area := [] } 4
      { ver := 4, ser := { writeLen := 1, bytes := [4] } } { ver := 4, ser := { writeLen := 1, bytes := [4] } } = none := by
  decide

/-- inline signatures (`Message::verify*`): the digest is the RFC's document digest, and a digest
is produced for the two document types only -/
theorem verify_inline_is_rfc (c : Cfg) (sv : Nat) (chunks : List Bytes) (p : Bytes)
    (h : verifyInline c sv chunks = some p) :
    p = Spec.preimage (c.toInput (.document chunks.flatten)) ∧ Spec.classOf c.typ = some .doc :=
  ⟨(verifyInline_eq_spec c sv chunks p h).1.1, (verifyInline_eq_spec c sv chunks p h).2⟩

/-- … for every chunking of the literal data -/
theorem verify_inline_chunk_indep (c : Cfg) (sv : Nat) (chunks chunks' : List Bytes)
    (hfl : chunks.flatten = chunks'.flatten) : verifyInline c sv chunks = verifyInline c sv chunks' := by
  simp [verifyInline, hashedText_eq_canon, hfl]

/-- a signature of any other type found in a message never reaches the primitive (this closes
the confusion between a certification and a "document" that spells out the framed key and
User ID) -/
theorem verify_inline_refuses_non_document (c : Cfg) (sv : Nat) (chunks : List Bytes)
    (hty : (c.typ == typBinary || c.typ == typText) = false) : verifyInline c sv chunks = none :=
  verifyInline_refuses_non_document c sv chunks hty

/-- **salt size tied to the hash algorithm, on every path**: whatever routine produced a digest
for a v6 signature, the salt it hashed has the size RFC 9580 table 23 gives for the hash
algorithm (`hash_signature_data` compares it) -/
theorem salt_len_by_hash (c : Cfg) (s : Spec.Subject) (p : Bytes) (h : Established c s p)
    (hv : c.ver = .v6) : Spec.saltSize c.hash = some c.salt.length := by
  have := established_saltSizeOk c s p h
  simpa [saltSizeOk, hv, saltLenOf_eq_spec] using this

/-- a v6 configuration with a salt of another size is refused by `hash_signature_data`, hence by
every signing and verifying routine (the former witnesses: SHA2-256 with a 3-octet salt) -/
theorem wrong_salt_size_refused (c : Cfg) (hv : c.ver = .v6) (hs : saltSizeOk c = false) :
    fieldsAndTrailer c = none := by
  rw [fieldsAndTrailer_v6 c hv]
  simp [hs]

theorem wrong_salt_size_refused_examples :
    signData { ver := .v6, typ := 0x00, pk := 27, hash := 8, area := [], salt := [1, 2, 3] } 6 [[7]] = none ∧
    verifyKey { ver := .v6, typ := 0x1F, pk := 27, hash := 8, area := [], salt := [1, 2, 3] } 6
      { ver := 6, ser := { writeLen := 1, bytes := [6] } } = none := by
  decide

/-! ## the pre-image determines what was signed (shared with C02) -/

/-- for version 4: salt-free pre-images of well-formed inputs are equal only if type, both
algorithm octets, hashed area and subject (document / key / key + identity / key pair) are equal —
parse back from the trailer -/
theorem preimage_injective_v4 (a b : Spec.Input) (ha : a.ver = .v4) (hb : b.ver = .v4)
    (wa : Spec.WF a = true) (wb : Spec.WF b = true) (h : Spec.preimage a = Spec.preimage b) : a = b :=
  SigDigest.preimage_injective_v4 a b ha hb wa wb h

/-- for version 6, including the salt (its size is fixed by the recovered hash algorithm) -/
theorem preimage_injective_v6 (a b : Spec.Input) (ha : a.ver = .v6) (hb : b.ver = .v6)
    (wa : Spec.WF a = true) (wb : Spec.WF b = true) (h : Spec.preimage a = Spec.preimage b) : a = b :=
  SigDigest.preimage_injective_v6 a b ha hb wa wb h

/-- for version 3: type, creation time and the subject octets -/
theorem preimage_injective_v3 (a b : Spec.Input) (ha : a.ver = .v3) (hb : b.ver = .v3)
    (wa : Spec.WF a = true) (wb : Spec.WF b = true) (h : Spec.preimage a = Spec.preimage b) :
    a.typ = b.typ ∧ a.created = b.created ∧
      Spec.subjectBytes .v3 a.typ a.subject = Spec.subjectBytes .v3 b.typ b.subject :=
  SigDigest.preimage_injective_v3 a b ha hb wa wb h

/-- the framed key determines the key, and says where it ends -/
theorem key_framing_injective (k k' : Spec.Key) (r r' : Bytes)
    (hk : Spec.keyWF k = true) (hk' : Spec.keyWF k' = true)
    (h : Spec.keyBytes k ++ r = Spec.keyBytes k' ++ r') : k = k' ∧ r = r' :=
  keyBytes_append_inj k k' r r' hk hk' h

/-- text documents: equal pre-images ⇔ equal canonical forms (the documented equivalence) -/
theorem doc_text_equiv (i : Spec.Input) (d d' : Bytes) (ht : i.typ = 0x01) :
    Spec.preimage { i with subject := .document d } = Spec.preimage { i with subject := .document d' } ↔
      canon d = canon d' :=
  doc_text_iff i d d' ht

/-- binary documents: equal pre-images ⇔ equal documents -/
theorem doc_binary_equiv (i : Spec.Input) (d d' : Bytes) (ht : i.typ ≠ 0x01) :
    Spec.preimage { i with subject := .document d } = Spec.preimage { i with subject := .document d' } ↔
      d = d' :=
  doc_binary_iff i d d' ht

/-- **the serializer establishes the well-formedness predicate**: whenever a routine produced a
digest (`Established`), all lengths fitted their fields; with the type in the subject's class,
text given canonically and a 32-bit creation time, `Spec.WF` holds — so the
injectivity theorems apply to everything the code hashes -/
theorem serializer_establishes_wf (c : Cfg) (s : Spec.Subject) (p : Bytes) (h : Established c s p)
    (hcls : Spec.classOf c.typ = some s.cls)
    (hcan : ∀ d, s = .document d → c.typ = 0x01 → canon d = d)
    (hcr : c.created < 4294967296) :
    Spec.WF (c.toInput s) = true :=
  established_wf c s p h hcls hcan hcr

/-- two successful hashing routines (any two, signing or verifying) that fed the same octets to
their hashers were given the same signature fields and the same subject -/
theorem hashed_octets_determine_input (c c' : Cfg) (s s' : Spec.Subject) (p : Bytes)
    (h : Established c s p) (h' : Established c' s' p)
    (hv : c.ver = c'.ver) (hv3 : c.ver ≠ .v3)
    (hcls : Spec.classOf c.typ = some s.cls) (hcls' : Spec.classOf c'.typ = some s'.cls)
    (hcan : ∀ d, s = .document d → c.typ = 0x01 → canon d = d)
    (hcan' : ∀ d, s' = .document d → c'.typ = 0x01 → canon d = d) :
    c.toInput s = c'.toInput s' := by
  -- `created` does not enter a v4 / v6 pre-image; normalise it away
  let d : Cfg := { c with created := 0 }
  let d' : Cfg := { c' with created := 0 }
  have e1 : d.toInput s = c.toInput s := by
    cases hc : c.ver <;> simp_all [Cfg.toInput, d]
  have e2 : d'.toInput s' = c'.toInput s' := by
    have : c'.ver ≠ .v3 := by rw [← hv]; exact hv3
    cases hc : c'.ver <;> simp_all [Cfg.toInput, d']
  have ft1 : fieldsAndTrailer d = fieldsAndTrailer c := by
    cases hc : c.ver
    · exact absurd hc hv3
    · rw [fieldsAndTrailer_v4 c hc, fieldsAndTrailer_v4 d (by simp [d, hc])]
    · rw [fieldsAndTrailer_v6 c hc, fieldsAndTrailer_v6 d (by simp [d, hc])]
      simp [saltSizeOk, d]
  have ft2 : fieldsAndTrailer d' = fieldsAndTrailer c' := by
    have hv3' : c'.ver ≠ .v3 := by rw [← hv]; exact hv3
    cases hc : c'.ver
    · exact absurd hc hv3'
    · rw [fieldsAndTrailer_v4 c' hc, fieldsAndTrailer_v4 d' (by simp [d', hc])]
    · rw [fieldsAndTrailer_v6 c' hc, fieldsAndTrailer_v6 d' (by simp [d', hc])]
      simp [saltSizeOk, d']
  have hd : Established d s p := ⟨by rw [e1]; exact h.1, h.2.1, by rw [ft1]; exact h.2.2⟩
  have hd' : Established d' s' p := ⟨by rw [e2]; exact h'.1, h'.2.1, by rw [ft2]; exact h'.2.2⟩
  have w := established_wf d s p hd hcls hcan (by simp [d])
  have w' := established_wf d' s' p hd' hcls' hcan' (by simp [d'])
  have hpe : Spec.preimage (d.toInput s) = Spec.preimage (d'.toInput s') := by rw [← hd.1, ← hd'.1]
  rw [← e1, ← e2]
  cases hc : c.ver
  · exact absurd hc hv3
  · exact SigDigest.preimage_injective_v4 _ _ (by simp [d, hc]) (by simp [d', ← hv, hc]) w w' hpe
  · exact SigDigest.preimage_injective_v6 _ _ (by simp [d, hc]) (by simp [d', ← hv, hc]) w w' hpe

/-- instance: everything `Signature::verify_key` hashes is well-formed -/
theorem verify_key_establishes_wf (c : Cfg) (sv : Nat) (k : Key) (p : Bytes)
    (h : verifyKey c sv k = some p) (ht : k.ser.truthful) (hcr : c.created < 4294967296) :
    Spec.WF (c.toInput (.directKey k.toSpec)) = true := by
  obtain ⟨he, hc⟩ := verifyKey_eq_spec c sv k p h ht
  exact established_wf c _ p he (by simpa [Spec.Subject.cls] using hc) (by intro d hd; cases hd) hcr

/-- instance: everything `Signature::verify_third_party_certification` hashes is well-formed -/
theorem verify_certification_establishes_wf (c : Cfg) (sv : Nat) (k : Key) (tag : Nat) (id : Ser) (p : Bytes)
    (h : verifyCertification c sv k tag id = some p) (ht : k.ser.truthful) (hi : id.truthful)
    (hcr : c.created < 4294967296) :
    Spec.WF (c.toInput (.certification k.toSpec (tag == tagUserAttribute) id.bytes)) = true := by
  obtain ⟨he, hc⟩ := verifyCertification_eq_spec c sv k tag id p h ht hi
  exact established_wf c _ p he (by simpa [Spec.Subject.cls] using hc) (by intro d hd; cases hd) hcr

/-! ## what is signed is what is verified (same octets on both sides) -/

theorem sign_then_verify_data (c : Cfg) (sv sv' : Nat) (chunks : List Bytes) (p : Bytes)
    (h : signData c sv chunks = some p) (hs : saltSizeOk c = true)
    (hal : verifyAligned c sv' = true) : verifyData c sv' chunks.flatten = some p :=
  SigDigest.sign_then_verify_data c sv sv' chunks p h hs hal

theorem sign_then_verify_inline (c : Cfg) (sv sv' : Nat) (chunks chunks' : List Bytes) (p : Bytes)
    (h : signData c sv chunks = some p) (hs : saltSizeOk c = true) (hfl : chunks'.flatten = chunks.flatten)
    (hal : verifyAligned c sv' = true) : verifyInline c sv' chunks' = some p :=
  SigDigest.sign_then_verify_inline c sv sv' chunks chunks' p h hs hfl hal

/-- needs `write_len()` of the identity to be truthful: the signer announces the length of what
it serialized, the verifier announces `write_len()` -/
theorem sign_then_verify_certification (c : Cfg) (sv sv' : Nat) (k : Key) (tag : Nat) (id : Ser) (p : Bytes)
    (h : signCertification c sv k tag id = some p) (hi : id.truthful)
    (hal : verifyAligned c sv' = true) : verifyCertification c sv' k tag id = some p :=
  SigDigest.sign_then_verify_certification c sv sv' k tag id p h hi hal

theorem sign_then_verify_key (c : Cfg) (sv sv' : Nat) (k : Key) (p : Bytes)
    (h : signKey c sv k = some p) (hal : verifyAligned c sv' = true) : verifyKey c sv' k = some p :=
  SigDigest.sign_then_verify_key c sv sv' k p h hal

theorem sign_then_verify_subkey_binding (c : Cfg) (sv : Nat) (pk sk : Key) (p : Bytes)
    (h : signSubkeyBinding c sv pk sk = some p)
    (hal : verifyAligned c pk.ver = true) : verifySubkeyBinding c pk sk = some p :=
  SigDigest.sign_then_verify_subkey_binding c sv pk sk p h hal

theorem sign_then_verify_primary_key_binding (c : Cfg) (sv : Nat) (pk sk : Key) (p : Bytes)
    (h : signPrimaryKeyBinding c sv pk sk = some p)
    (hal : verifyAligned c sk.ver = true) : verifyPrimaryKeyBinding c sk pk = some p :=
  SigDigest.sign_then_verify_primary_key_binding c sv pk sk p h hal

/-- an untruthful `write_len()` of the identity is exactly what separates the two sides: witness
(identity of one octet announced as two) -/
theorem untruthful_write_len_splits_sign_and_verify :
    ∃ c sv k tag id p q, signCertification c sv k tag id = some p ∧
      verifyCertification c sv k tag id = some q ∧ p ≠ q :=
  ⟨{ ver := .v4, typ := 0x13, pk := 1, hash := 8, area := [] }, 4,
    { ver := 4, ser := { writeLen := 1, bytes := [4] } }, 13, { writeLen := 2, bytes := [65] }, _, _, rfl, rfl,
    by decide⟩

/-! ## non-vacuity / concrete evaluations -/

/-- RFC 9580 §5.2.4 on a toy v4 direct-key signature: 0x99 len16 key, fields, trailer 04 FF 00000006 -/
example : Spec.preimage
    { ver := .v4, typ := 0x1F, pk := 1, hash := 8, area := [], salt := [], created := 0,
      subject := .directKey { fmt := .legacy, body := [4, 0, 0, 0, 0, 1] } } =
    [0x99, 0, 6, 4, 0, 0, 0, 0, 1, 4, 0x1F, 1, 8, 0, 0, 4, 0xFF, 0, 0, 0, 6] := by decide

/-- v6: salt, 0x9B len32 key, 0xB4 len32 uid, four-octet area length, trailer 06 FF 00000008+|area| -/
example : Spec.preimage
    { ver := .v6, typ := 0x13, pk := 27, hash := 8, area := [2, 9], salt := [0xAA, 0xBB],
      created := 0, subject := .certification { fmt := .v6, body := [6, 1] } false [0x41] } =
    [0xAA, 0xBB, 0x9B, 0, 0, 0, 2, 6, 1, 0xB4, 0, 0, 0, 1, 0x41,
     6, 0x13, 27, 8, 0, 0, 0, 2, 2, 9, 6, 0xFF, 0, 0, 0, 10] := by decide

/-- v3: subject, type, creation time -/
example : Spec.preimage
    { ver := .v3, typ := 0x00, pk := 1, hash := 1, area := [], salt := [], created := 258,
      subject := .document [0x61] } = [0x61, 0x00, 0, 0, 1, 2] := by decide

example : Spec.WF
    { ver := .v4, typ := 0x1F, pk := 1, hash := 8, area := [], salt := [], created := 0,
      subject := .directKey { fmt := .legacy, body := [4, 0, 0, 0, 0, 1] } } = true := by decide

example : signKey { ver := .v4, typ := 0x1F, pk := 1, hash := 8, area := [] } 4
      { ver := 4, ser := { writeLen := 6, bytes := [4, 0, 0, 0, 0, 1] } } =
    some [0x99, 0, 6, 4, 0, 0, 0, 0, 1, 4, 0x1F, 1, 8, 0, 0, 4, 0xFF, 0, 0, 0, 6] := by decide

/-- a v4 configuration whose hashed area does not fit two octets is refused, a v6 one is not -/
example : lenField 2 65536 = none ∧ lenField 4 65536 = some [0, 1, 0, 0] := by decide

end Rpgp.C11
