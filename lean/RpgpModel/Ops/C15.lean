import RpgpModel.Proto
import RpgpModel.Policy
/-!
# Driver ops for C15 (decision tables of `RpgpModel/Policy.lean`); every op name is prefixed `c15_`

  eskf     c=<sed|s1|s2|gn> esks=<p3,s4,..|->                     → ok:<kept esks>
  decrypt  c= calg= cks= esks= legacy= gnupg= key= pw= sks=<kind:alg:key:len,..|-> abort=
           kalg= kid= klen= bypass=<0|1>                          → ok | missing | err
  align    kv= sv=                                                → ok:0|1   (driver only; exercised through `verify`)
  signok   kv= sv=                                                → ok:0|1
  fromkey  kv=                                                    → ok:<sig version> | err
  subclass id=                                                    → known | experimental | other
  verify   path=<data|cert|subkey|pkb|key|inline> kv= sv= typ= known= strong= saltok= hashed=<subs>
           unhashed=<subs> v3iss= prefix= crypto= [ops=<ver.typ.hash.pk.salt.issuer> shash= spk= ssalt=]
                                                                  → ok | err
  opsmatch ops=<..> sv= typ= shash= spk= ssalt= known=            → ok:0|1
  cert     rep=<pub|sec> pv= details= subs=<s|p><ver>:<b.f.k>/<b.f.k>;..   (k: n|g|b) → ok | parse | bind

subs: `id.critical.fpver.issuermatch` with fpver `x` for none, comma separated, `-` for empty.
-/
namespace Rpgp.Ops.C15
open Rpgp Rpgp.Policy

def bool? (s : String) : Option Bool :=
  if s = "1" then some true else if s = "0" then some false else none

def flag (a : Args) (k : String) : Option Bool := a.get? k >>= bool?

def container? (s : String) : Option Container :=
  match s with
  | "sed" => some .sed
  | "s1" => some .seipd1
  | "s2" => some .seipd2
  | "gn" => some .gnupg
  | _ => none

def splitList (s : String) (sep : String) : List String :=
  if s = "-" then [] else s.splitOn sep

def esk? (s : String) : Option Esk :=
  match s.toList with
  | 'p' :: r => (String.ofList r).toNat?.map fun v => ⟨true, v⟩
  | 's' :: r => (String.ofList r).toNat?.map fun v => ⟨false, v⟩
  | _ => none

def showEsk (e : Esk) : String := (if e.isPk then "p" else "s") ++ toString e.ver

def showEsks (l : List Esk) : String :=
  if l.isEmpty then "-" else ",".intercalate (l.map showEsk)

def kind? (s : String) : Option SkKind :=
  match s with
  | "34" => some .v3_4
  | "5" => some .v5
  | "6" => some .v6
  | _ => none

def sessKey? (s : String) : Option SessKey :=
  match s.splitOn ":" with
  | [k, a, key, len] => do pure ⟨← kind? k, ← a.toNat?, ← key.toNat?, ← len.toNat?⟩
  | _ => none

def sub? (s : String) : Option Sub :=
  match s.splitOn "." with
  | [id, c, fp, m] => do
    let fpv ← if fp = "x" then some none else fp.toNat?.map some
    pure { id := ← id.toNat?, critical := ← bool? c, fpVer := fpv, issuerMatch := ← bool? m }
  | _ => none

def subs? (a : Args) (k : String) : Option (List Sub) := do
  (splitList (← a.get? k) ",").mapM sub?

def path? (s : String) : Option VPath :=
  match s with
  | "data" => some .data
  | "cert" => some .cert
  | "subkey" => some .subkeyBinding
  | "pkb" => some .primaryKeyBinding
  | "key" => some .key
  | "inline" => some .inline
  | _ => none

def ops? (s : String) : Option OpsDesc :=
  match s.splitOn "." with
  | [v, t, h, p, sa, i] => do
    pure ⟨← v.toNat?, ← t.toNat?, ← h.toNat?, ← p.toNat?, ← sa.toNat?, ← i.toNat?⟩
  | _ => none

def sigDesc (a : Args) : Option SigDesc := do
  pure {
    known := (flag a "known").getD true
    ver := ← a.nat "sv"
    typ := ← a.nat "typ"
    hashAlg := (a.nat "shash").getD 8
    pubAlg := (a.nat "spk").getD 22
    salt := (a.nat "ssalt").getD 0
    saltLenOk := (flag a "saltok").getD true
    hashStrong := (flag a "strong").getD true
    hashed := (subs? a "hashed").getD []
    unhashed := (subs? a "unhashed").getD []
    v3IssuerMatch := (flag a "v3iss").getD true
    prefixOk := (flag a "prefix").getD true
    cryptoOk := (flag a "crypto").getD true }

def back? (s : String) : Option BackSig :=
  match s with
  | "n" => some .absent
  | "g" => some .good
  | "b" => some .bad
  | _ => none

def subSig? (s : String) : Option SubSig :=
  match s.splitOn "." with
  | [b, f, k] => do pure ⟨← bool? b, ← bool? f, ← back? k⟩
  | _ => none

def subkey? (s : String) : Option SubkeyDesc :=
  match s.splitOn ":" with
  | [hd, sigs] =>
    match hd.toList with
    | c :: r => do
      let sec ← if c = 's' then some true else if c = 'p' then some false else none
      let ver ← (String.ofList r).toNat?
      let gs ← (splitList sigs "/").mapM subSig?
      pure ⟨sec, ver, gs⟩
    | [] => none
  | _ => none

def okB (b : Bool) : String := if b then "ok" else "err"

def handle (op : String) (a : Args) : Option String :=
  match op with
  | "c15_eskf" => do
    let c ← a.get? "c" >>= container?
    let esks ← (splitList (← a.get? "esks") ",").mapM esk?
    pure ("ok:" ++ showEsks (parsedEsks c esks))
  | "c15_decrypt" => do
    let c ← a.get? "c" >>= container?
    let cfg : ContainerCfg := ⟨c, ← a.nat "calg", ← a.nat "cks"⟩
    let esks ← (splitList (← a.get? "esks") ",").mapM esk?
    let sks ← (splitList (← a.get? "sks") ",").mapM sessKey?
    let r : Ring := ⟨← flag a "key", ← flag a "pw", sks, ⟨← flag a "legacy", ← flag a "gnupg"⟩⟩
    let k : RawKey := ⟨← a.nat "kalg", ← a.nat "kid", ← a.nat "klen"⟩
    let ab ← flag a "abort"
    let bypass ← flag a "bypass"
    let out := if bypass then decryptParsed cfg esks r k ab else decryptMessage cfg esks r k ab
    pure (match out with
      | .ok => "ok"
      | .missing => "missing"
      | .err => "err")
  | "c15_align" => do pure (okBool (alignSigKey (← a.nat "kv") (← a.nat "sv")))
  | "c15_signok" => do pure (okBool (signAllowed (← a.nat "kv") (← a.nat "sv")))
  | "c15_fromkey" => do
    pure (match fromKeySigVersion (← a.nat "kv") with
      | some v => s!"ok:{v}"
      | none => "err")
  | "c15_subclass" => do
    pure (match subClass (← a.nat "id") with
      | .known => "known"
      | .experimental => "experimental"
      | .other => "other")
  | "c15_verify" => do
    let p ← a.get? "path" >>= path?
    let kv ← a.nat "kv"
    let s ← sigDesc a
    match a.get? "ops" with
    | some o => do pure (okB (verifyInline (some (← ops? o)) kv s))
    | none => pure (okB (if p = .inline then verifyInline none kv s else verifyPath p kv s))
  | "c15_opsmatch" => do
    let o ← a.get? "ops" >>= ops?
    let s ← sigDesc a
    pure (okBool (opsMatches o s))
  | "c15_cert" => do
    let rep ← a.get? "rep"
    let asSecret ← if rep = "sec" then some true else if rep = "pub" then some false else none
    let subs ← (splitList (← a.get? "subs") ";").mapM subkey?
    let c : CertDesc := ⟨← a.nat "pv", ← flag a "details", subs⟩
    pure (if !certParseOk c then "parse" else if verifyBindings asSecret c then "ok" else "bind")
  | _ => none

end Rpgp.Ops.C15
