import RpgpProofs.E2ERing
import RpgpProofs.E2EInner
import RpgpProps.C10
/-! E2E, part 8: assembling the layers — `readFull secret (buildFull cfg src)`. -/
namespace Rpgp.E2E
open Rpgp

/-- correctness laws of the primitives (nothing else is assumed about them): CFB⁻¹ ∘ CFB = id, CFB is
online and length preserving, SHA-1 has 20 octets, AEAD open ∘ seal = id with 16-octet tags,
decompress ∘ compress = id, verify (sign d) d -/
structure Laws (P : Prims) : Prop where
  crypto : CryptoLaws P
  decompress_compress : ∀ a x, P.decompress a (P.compress a x) = some x
  verify_sign : ∀ key d, P.pkVerify key d (P.pkSign key d) = true

/-- what the property demands of the reader: payload, literal header as the builder wrote it (mode,
empty file name, zero date), every signer's key verified -/
def expected (c : Cfg) (src : List Bytes) : Result :=
  { payload := src.flatten, litMeta := ⟨c.mode, [], be32 0⟩,
    verified := List.replicate c.signers.length true }

/-- well-formedness of a configuration / payload / reader-options triple: size limits of the wire
format and value ranges of the packet fields (`SignedWF`, `ContainerWF`, `EskWF`, `EskPktWF`), the
reader is handed the signers' keys in signer order -/
structure WF (P : Prims) (o : ReadOpts) (c : Cfg) (src : List Bytes) : Prop where
  signed : SignedWF P c src
  hashRead : 0 < o.hashRead
  verifiers : o.verifiers = verifiersOf c
  comp : ∀ S, signedStream P c src = some S → ∀ a, c.compression = some a →
    a < 256 ∧ 1 + (P.compress a S).length < 4294967296
  enc : ∀ S e, signedStream P c src = some S → c.encryption = some e →
    ContainerWF P o c.k e (compressedLayer P c S) ∧ EskWF e ∧ EskPktWF P e

/-- the builder succeeded: what that says about its parts -/
theorem buildBinary_some_inv (P : Prims) (c : Cfg) (src : List Bytes) (msg : Bytes)
    (h : buildBinary P c src = some msg) :
    srcOk P c.mode src = true ∧ ∃ S, signedStream P c src = some S ∧
      ((c.encryption = none ∧ msg = compressedLayer P c S) ∨
       (∃ e, c.encryption = some e ∧ sessionKeyOk e = true ∧ (eskBodies P e).all (fun tb => tb.2.isSome) = true ∧
          msg = ((eskBodies P e).map fun tb => fixedPkt tb.1 (tb.2.getD [])).flatten ++
            containerPkt P c.k e (compressedLayer P c S))) := by
  unfold buildBinary at h
  cases hok : srcOk P c.mode src
  · simp [hok] at h
  · simp only [hok, Bool.not_true, Bool.false_eq_true, if_false] at h
    refine ⟨rfl, ?_⟩
    cases hS : signedStream P c src with
    | none => simp [hS] at h
    | some S =>
      simp only [hS] at h
      refine ⟨S, rfl, ?_⟩
      cases he : c.encryption with
      | none => simp only [he] at h; exact Or.inl ⟨rfl, (Option.some.inj h).symm⟩
      | some e =>
        simp only [he] at h
        cases hk : sessionKeyOk e
        · simp [hk] at h
        · simp only [hk, Bool.not_true, Bool.false_eq_true, if_false] at h
          by_cases ha : ((eskBodies P e).all fun tb => tb.2.isSome) = true
          · rw [if_pos ha] at h
            exact Or.inr ⟨e, rfl, hk, ha, (Option.some.inj h).symm⟩
          · rw [if_neg ha] at h; cases h

/-- the decrypted / unencrypted inner stream is read back to the expected result -/
theorem readInner_inner (P : Prims) (L : Laws P) (o : ReadOpts) (c : Cfg) (src : List Bytes) (S : Bytes)
    (wf : WF P o c src) (hS : signedStream P c src = some S) :
    readInner P o (compressedLayer P c S) = some (expected c src) := by
  rw [readInner_compressedLayer P L.decompress_compress o c src S wf.signed hS (wf.comp S hS)]
  exact readSigned_signedStream P L.verify_sign o wf.hashRead c src S wf.signed hS wf.verifiers

/-- unencrypted message (literal only, signed, compressed, any combination) -/
theorem readBinary_plain (P : Prims) (L : Laws P) (o : ReadOpts) (c : Cfg) (src : List Bytes) (msg : Bytes)
    (wf : WF P o c src) (henc : c.encryption = none) (hb : buildBinary P c src = some msg) (secret : Secret) :
    readBinary P o secret msg = some (expected c src) := by
  obtain ⟨_, S, hS, hcase⟩ := buildBinary_some_inv P c src msg hb
  rcases hcase with ⟨_, rfl⟩ | ⟨e, he, _⟩
  · have hin := readInner_inner P L o c src S wf hS
    -- the first packet is OPS / literal / compressed: not an encrypted message
    have hhead : ∃ h b r, deframe (compressedLayer P c S) = .ok (h, b, r) ∧
        (isEskTag h.tag || h.tag == Gen.e2eTagSeipd) = false := by
      unfold compressedLayer
      cases hc : c.compression with
      | none =>
        obtain ⟨h, b, r, hd, _⟩ := deframe_signedStream_head P c src S wf.signed hS
        refine ⟨h, b, r, hd, ?_⟩
        -- tag is 4 or 11
        obtain ⟨hopsA, _, hSeq⟩ := signedStream_some_inv P c src S hS
        cases hob : opsBodies c with
        | nil =>
          rw [hSeq, hob] at hd
          simp only [List.map_nil, List.flatten_nil, List.nil_append] at hd
          obtain ⟨h', hd', ht'⟩ := deframe_literalPkt c src.flatten
            ((sigBodies P c src).reverse.map fun b => fixedPkt Gen.e2eTagSignature (b.getD [])).flatten
            wf.signed.k wf.signed.litLen
          rw [hd'] at hd
          injection hd with hd
          injection hd with hh _
          rw [← hh, ht']; decide
        | cons ob rest =>
          have hmem : ob ∈ opsBodies c := by rw [hob]; exact List.mem_cons_self ..
          obtain ⟨si, hsi, hobeq⟩ := List.mem_map.mp hmem
          obtain ⟨b', hb'⟩ := opsBodies_facts c hopsA si hsi
          have hbound : (ob.getD []).length < 4294967296 := by
            rw [← hobeq, hb', Option.getD_some]
            exact opsBody_bound _ _ _ _ (wf.signed.ops si.1 (List.fst_mem_of_mem_zipIdx hsi) _) hb'
          rw [hSeq, hob] at hd
          simp only [List.map_cons, List.flatten_cons, List.append_assoc] at hd
          rw [deframe_fixedPkt Gen.e2eTagOps (by decide) _ _ hbound] at hd
          injection hd with hd
          injection hd with hh _
          rw [← hh]
          exact (by decide : (isEskTag Gen.e2eTagOps || Gen.e2eTagOps == Gen.e2eTagSeipd) = false)
      | some a =>
        obtain ⟨ha, hl⟩ := wf.comp S hS a hc
        have h1 : ([a.toUInt8] : Bytes).length ≤ 2 ^ c.k := by
          have : 1 ≤ 2 ^ c.k := Nat.one_le_two_pow
          simpa using this
        obtain ⟨h, hd, htag⟩ := deframe_emitPartial Gen.e2eTagCompressed c.k [a.toUInt8] (P.compress a S) []
          (by decide) wf.signed.k.1 wf.signed.k.2 h1 (by simpa using hl)
        simp only [List.append_nil] at hd
        exact ⟨h, _, _, hd, by rw [htag]; decide⟩
    obtain ⟨h, b, r, hd, ht⟩ := hhead
    unfold readBinary parseTop
    simp only [hd, ht, Bool.not_false, if_true]
    exact hin
  · rw [henc] at he; cases he

/-- the `openEd` of `readBinary` on the builder's container -/
theorem openEd_container (P : Prims) (L : Laws P) (o : ReadOpts) (c : Cfg) (src : List Bytes) (S : Bytes)
    (e : Encryption) (wf : WF P o c src) (hS : signedStream P c src = some S) (he : c.encryption = some e)
    (hsk : sessionKeyOk e = true) :
    openEd P o (edataOf P e (compressedLayer P c S)) (sessionKeyOf e) = some (expected c src) := by
  unfold openEd
  rw [openContainer_edataOf P L.crypto o c.k e _ (wf.enc S e hS he).1 hsk]
  exact readInner_inner P L o c src S wf hS

/-- encrypted message, a password recipient presents her password alone (guarded, see D18b) -/
theorem readBinary_password (P : Prims) (L : Laws P) (o : ReadOpts) (c : Cfg) (src : List Bytes) (msg : Bytes)
    (wf : WF P o c src) (e : Encryption) (he : c.encryption = some e) (hb : buildBinary P c src = some msg)
    (r : PwRcpt) (hr : r ∈ e.passwords)
    (hguard : ∀ r' ∈ e.passwords, ∀ k', skDec P (skeskOf P e r') r.pw = some k' → k' = sessionKeyOf e) :
    readBinary P o (.password r.pw) msg = some (expected c src) := by
  obtain ⟨_, S, hS, hcase⟩ := buildBinary_some_inv P c src msg hb
  rcases hcase with ⟨hn, _⟩ | ⟨e', he', hsk, hall, rfl⟩
  · rw [he] at hn; cases hn
  · have : e' = e := by rw [he] at he'; exact (Option.some.inj he').symm
    subst this
    obtain ⟨wfC, wfE, wfP⟩ := wf.enc S e' hS he
    unfold readBinary
    rw [parseTop_encrypted P L.crypto o c.k e' _ wfC wfE wfP hall]
    simp only
    have hbody : ∀ r' ∈ e'.passwords, ∃ b, skeskBody P e' r' = some b := by
      intro r' hr'
      have hmem : (Gen.e2eTagSkesk, skeskBody P e' r') ∈ eskBodies P e' := by
        unfold eskBodies; exact List.mem_append_left _ (List.mem_map.mpr ⟨r', hr', rfl⟩)
      exact Option.isSome_iff_exists.mp ((List.all_eq_true.mp hall) _ hmem)
    have := ring_password P L.crypto e' wfE (openEd P o) (edataOf P e' (compressedLayer P c S)) (expected c src) r hr hbody hguard
      (openEd_container P L o c src S e' wf hS he hsk)
    unfold ringEsks at this
    rw [this]; rfl

/-- encrypted message, a key recipient presents her (unlocked) secret key alone -/
theorem readBinary_key (P : Prims) (L : Laws P) (o : ReadOpts) (c : Cfg) (src : List Bytes) (msg : Bytes)
    (wf : WF P o c src) (e : Encryption) (he : c.encryption = some e) (hb : buildBinary P c src = some msg)
    (K : Ring.SecKey Nat Unit) (r : KeyRcpt) (hr : r ∈ e.keys) (hK : HoldsKey K r) (hver : r.ident.fp.ver < 256)
    (hlaw : PkLaw P r.key r.isX)
    (hrob : ∀ c' ∈ K.comps, ∀ p, c'.secret = .plain p → ∀ r' ∈ e.keys, ∀ k,
      P.pkDec p (pkVals P e r') e.container.isV2 = some k → k = sessionKeyOf e) :
    readBinary P o (.key K) msg = some (expected c src) := by
  obtain ⟨_, S, hS, hcase⟩ := buildBinary_some_inv P c src msg hb
  rcases hcase with ⟨hn, _⟩ | ⟨e', he', hsk, hall, rfl⟩
  · rw [he] at hn; cases hn
  · have : e' = e := by rw [he] at he'; exact (Option.some.inj he').symm
    subst this
    obtain ⟨wfC, wfE, wfP⟩ := wf.enc S e' hS he
    unfold readBinary
    rw [parseTop_encrypted P L.crypto o c.k e' _ wfC wfE wfP hall]
    simp only
    have hopen : P.pkDec r.key (pkVals P e' r) e'.container.isV2 = some (sessionKeyOf e') := by
      obtain ⟨hsym, hks, _⟩ := wfE.sym
      have h0 := sym_ne_zero e' wfE
      cases hc : e'.container with
      | v1 sym pre =>
        simp only [hc, Container.sym] at hsym hks h0
        simp only [pkVals, hc, Container.isV2, sessionKeyOf]
        exact hlaw.1 sym _ hsym h0 hks
      | v2 sym aead cs salt =>
        simp only [pkVals, hc, Container.isV2, sessionKeyOf]
        exact hlaw.2 _
    have := ring_key P e' wfE (openEd P o) (edataOf P e' (compressedLayer P c S)) (expected c src) K r hr hK hver hopen hrob
      (openEd_container P L o c src S e' wf hS he hsk)
    unfold ringEsks at this
    rw [this]; rfl

/-! ### armor and source schedules -/

/-- `buildFull` = `buildBinary`, optionally armored -/
theorem buildFull_some_inv (P : Prims) (c : Cfg) (src : List Bytes) (m : Bytes) (h : buildFull P c src = some m) :
    ∃ b, buildBinary P c src = some b ∧
      m = (match c.armor with | none => b | some ck => Armor.armorWrite .message [] b ck) := by
  unfold buildFull at h
  cases hb : buildBinary P c src with
  | none => simp [hb] at h
  | some b => simp only [hb, Option.map_some, Option.some.injEq] at h; exact ⟨b, rfl, h.symm⟩

/-- **every way of handing the bytes to the reader** (C10 `schedule_independent_no_headers` for the
armored form): reading any chunking of what the builder wrote is reading its binary form -/
theorem readFull_chunks (P : Prims) (o : ReadOpts) (secret : Secret) (c : Cfg) (m b : Bytes)
    (hb : m = (match c.armor with | none => b | some ck => Armor.armorWrite .message [] b ck))
    (chunks : List Bytes) (hflat : chunks.flatten = m) :
    readFull P o secret c.armor.isSome chunks = readBinary P o secret b := by
  unfold readFull
  cases ha : c.armor with
  | none =>
    simp only [ha] at hb
    simp [hflat, hb]
  | some ck =>
    simp only [ha] at hb
    simp only [Option.isSome_some, if_true]
    rw [C10.schedule_independent_no_headers false .message (by decide) b ck chunks (by rw [hflat, hb]),
      C10.armor_roundtrip .message [] b ck (by decide) (by decide)]
    rfl

/-! ### the composed statement -/

/-- the presented secret belongs to an intended recipient of the message (for an unencrypted message
nothing needs to be presented, and whatever is presented is ignored) -/
inductive Intended (P : Prims) (c : Cfg) : Secret → Prop where
  | unencrypted (s : Secret) : c.encryption = none → Intended P c s
  | password (e : Encryption) (r : PwRcpt) : c.encryption = some e → r ∈ e.passwords → Intended P c (.password r.pw)
  | key (e : Encryption) (r : KeyRcpt) (K : Ring.SecKey Nat Unit) : c.encryption = some e → r ∈ e.keys →
      HoldsKey K r → r.ident.fp.ver < 256 → PkLaw P r.key r.isX → Intended P c (.key K)

/-- the presented secret obtains no *other* session key from any ESK of the message.  For a key this is
robustness of the public-key scheme; for a password on SKESK v6 robustness of the AEAD; for a password
on SKESK v4 packets of *other* recipients nothing in CFB provides it (finding D18b). -/
def NoForeignOpen (P : Prims) (c : Cfg) : Secret → Prop
  | .none => True
  | .password pw => ∀ e, c.encryption = some e → ∀ r' ∈ e.passwords, ∀ k',
      skDec P (skeskOf P e r') pw = some k' → k' = sessionKeyOf e
  | .key K => ∀ e, c.encryption = some e → ∀ c' ∈ K.comps, ∀ p, c'.secret = .plain p → ∀ r' ∈ e.keys, ∀ k,
      P.pkDec p (pkVals P e r') e.container.isV2 = some k → k = sessionKeyOf e

/-- **end-to-end round trip, guarded form**: for every configuration, every payload (delivered to the
builder in any reads `src`), every intended recipient secret presented alone and every way `chunks`
of handing the message to the reader -/
theorem roundtrip_guarded (P : Prims) (L : Laws P) (o : ReadOpts) (c : Cfg) (src : List Bytes)
    (wf : WF P o c src) (m : Bytes) (hb : buildFull P c src = some m)
    (secret : Secret) (hint : Intended P c secret) (hrob : NoForeignOpen P c secret)
    (chunks : List Bytes) (hflat : chunks.flatten = m) :
    readFull P o secret c.armor.isSome chunks = some (expected c src) := by
  obtain ⟨b, hbin, hm⟩ := buildFull_some_inv P c src m hb
  rw [readFull_chunks P o secret c m b hm chunks hflat]
  cases hint with
  | unencrypted _ henc => exact readBinary_plain P L o c src b wf henc hbin _
  | password e r he hr => exact readBinary_password P L o c src b wf e he hbin r hr (hrob e he)
  | key e r K he hr hK hver hlaw => exact readBinary_key P L o c src b wf e he hbin K r hr hK hver hlaw (hrob e he)

/-- robustness laws of the primitives ("a ciphertext made under one key never opens under another to
something else").  `pk_foreign` and `aead_committing` hold of the real primitives up to negligible
probability.  `skesk4_committing` does **not** hold of CFB: SKESK v4 has no integrity, and the
plausibility check of `SymKeyEncryptedSessionKey::decrypt` accepts about one foreign packet in 50
(finding D18b); it is listed so that the one place where it is needed is visible. -/
structure RobustLaws (P : Prims) : Prop where
  pk_foreign : ∀ p j d v6, p ≠ j → P.pkDec p (P.pkEnc j d v6) v6 = none
  aead_committing : ∀ s m k k' n ad pt x, P.aeadOpen s m k' n ad (P.sym.aead s m k n ad pt) = some x → x = pt
  skesk4_committing : ∀ alg k k' iv (a : Byte) sk x,
    Ring.decodeSkeskV4 (P.cfbDec alg k' iv (P.sym.cfbEnc alg k iv (a :: sk))) = some x → x = .v3_4 a.toNat sk

/-- a presented key obtains nothing else from the PKESKs of the message, by `pk_foreign` -/
theorem noForeignOpen_key (P : Prims) (R : ∀ p j d v6, p ≠ j → P.pkDec p (P.pkEnc j d v6) v6 = none)
    (o : ReadOpts) (c : Cfg) (src : List Bytes) (wf : WF P o c src) (S : Bytes) (hS : signedStream P c src = some S)
    (K : Ring.SecKey Nat Unit)
    (hlaws : ∀ e, c.encryption = some e → ∀ r' ∈ e.keys, PkLaw P r'.key r'.isX) :
    NoForeignOpen P c (.key K) := by
  intro e he c' _ p _ r' hr' k hk
  obtain ⟨_, wfE, _⟩ := wf.enc S e hS he
  by_cases hp : p = r'.key
  · subst hp
    obtain ⟨hsym, hks, _⟩ := wfE.sym
    have h0 := sym_ne_zero e wfE
    have hlaw := hlaws e he r' hr'
    cases hc : e.container with
    | v1 sym pre =>
      simp only [hc, Container.sym] at hsym hks h0
      simp only [pkVals, hc, Container.isV2] at hk
      rw [hlaw.1 sym _ hsym h0 hks] at hk
      simp only [sessionKeyOf, hc]
      exact (Option.some.inj hk).symm
    | v2 sym aead cs salt =>
      simp only [pkVals, hc, Container.isV2] at hk
      rw [hlaw.2] at hk
      simp only [sessionKeyOf, hc]
      exact (Option.some.inj hk).symm
  · exfalso
    cases hc : e.container with
    | v1 sym pre =>
      simp only [pkVals, hc, Container.isV2] at hk
      rw [R p r'.key _ _ hp] at hk; cases hk
    | v2 sym aead cs salt =>
      simp only [pkVals, hc, Container.isV2] at hk
      rw [R p r'.key _ _ hp] at hk; cases hk

/-- a presented password obtains nothing else from the SKESK v6 packets of the message, by
`aead_committing` (SEIPDv2 messages) -/
theorem noForeignOpen_password_v2 (P : Prims)
    (R : ∀ s m k k' n ad pt x, P.aeadOpen s m k' n ad (P.sym.aead s m k n ad pt) = some x → x = pt)
    (c : Cfg) (pw : Bytes) (hwf : ∀ e, c.encryption = some e → EskWF e)
    (hv2 : ∀ e, c.encryption = some e → e.container.isV2 = true) :
    NoForeignOpen P c (.password pw) := by
  intro e he r' hr' k' hk
  have h2 := hv2 e he
  have wfE := hwf e he
  cases hc : e.container with
  | v1 sym pre => simp [hc, Container.isV2] at h2
  | v2 sym aead cs salt =>
    have hsym : sym < 256 := by have := wfE.sym.1; simpa [hc, Container.sym] using this
    obtain ⟨haead, _, _, _⟩ := (wfE.pw r' hr').2 sym aead cs salt hc
    have et : sym.toUInt8.toNat = sym := toUInt8_toNat_of_lt sym hsym
    have ea : aead.toUInt8.toNat = aead := toUInt8_toNat_of_lt aead haead
    simp only [skeskOf, hc, skDec, et, ea] at hk
    simp only [sessionKeyOf, hc]
    cases hspec : specOfWire r'.s2k with
    | none => simp [hspec] at hk
    | some spec =>
      simp only [hspec] at hk
      by_cases hw : spec.weakHash = true
      · simp [hw] at hk
      · simp only [hw, Bool.false_eq_true, if_false] at hk
        cases hd : Sym.S2k.derive P.sym spec pw (Gen.c12SymKeySize sym) with
        | none => simp [hd] at hk
        | some ikm =>
          simp only [hd] at hk
          cases ho : P.aeadOpen sym aead (Sym.Skesk.kek6 P.sym sym aead ikm) r'.iv (Sym.Skesk.info6 sym aead)
              (P.sym.aead sym aead (Sym.Skesk.kek6 P.sym sym aead (s2kKey P sym r')) r'.iv (Sym.Skesk.info6 sym aead) e.sessionKey) with
          | none => simp [ho] at hk
          | some x =>
            simp only [ho, Option.map_some, Option.some.injEq] at hk
            rw [← hk, R _ _ _ _ _ _ _ _ ho]

/-- a presented password obtains nothing else from the SKESK v4 packets of the message — under
`skesk4_committing`, which CFB does not provide (D18b) -/
theorem noForeignOpen_password_v1 (P : Prims) (LC : CryptoLaws P)
    (R : ∀ alg k k' iv (a : Byte) sk x,
      Ring.decodeSkeskV4 (P.cfbDec alg k' iv (P.sym.cfbEnc alg k iv (a :: sk))) = some x → x = .v3_4 a.toNat sk)
    (c : Cfg) (pw : Bytes) (hwf : ∀ e, c.encryption = some e → EskWF e)
    (hv1 : ∀ e, c.encryption = some e → e.container.isV2 = false) :
    NoForeignOpen P c (.password pw) := by
  intro e he r' _ k' hk
  have h1 := hv1 e he
  have wfE := hwf e he
  cases hc : e.container with
  | v2 sym aead cs salt => simp [hc, Container.isV2] at h1
  | v1 sym pre =>
    have hsym : sym < 256 := by have := wfE.sym.1; simpa [hc, Container.sym] using this
    have et : sym.toUInt8.toNat = sym := toUInt8_toNat_of_lt sym hsym
    simp only [skeskOf, hc, skDec, et] at hk
    simp only [sessionKeyOf, hc]
    cases hspec : specOfWire r'.s2k with
    | none => simp [hspec] at hk
    | some spec =>
      simp only [hspec] at hk
      cases hd : Sym.S2k.derive P.sym spec pw (Gen.c12SymKeySize sym) with
      | none => simp [hd] at hk
      | some key =>
        simp only [hd] at hk
        have hne : P.sym.cfbEnc sym (s2kKey P sym r') (List.replicate (Gen.symBlockSize sym) 0) (sym.toUInt8 :: e.sessionKey) ≠ [] := by
          intro h0
          have := (LC.cfb_online sym (s2kKey P sym r') (List.replicate (Gen.symBlockSize sym) 0)).len (sym.toUInt8 :: e.sessionKey)
          rw [h0] at this; simp at this
        rw [if_neg hne] at hk
        have := R _ _ _ _ _ _ _ hk
        rw [this, et]

/-- with a single SKESK the only packet a password is tried on is its own (no robustness needed) -/
theorem noForeignOpen_single_password (P : Prims) (L : Laws P) (o : ReadOpts) (c : Cfg) (src : List Bytes)
    (wf : WF P o c src) (b : Bytes) (hbin : buildBinary P c src = some b)
    (e : Encryption) (he : c.encryption = some e) (r : PwRcpt) (hr : r ∈ e.passwords) (hone : e.passwords.length ≤ 1) :
    NoForeignOpen P c (.password r.pw) := by
  obtain ⟨_, S, hS, hcase⟩ := buildBinary_some_inv P c src b hbin
  intro e' he' r' hr' k' hk'
  have : e' = e := by rw [he] at he'; exact (Option.some.inj he').symm
  subst this
  have hsingle : ∀ (l : List PwRcpt) (a b : PwRcpt), l.length ≤ 1 → a ∈ l → b ∈ l → a = b := by
    intro l a b hl ha hb
    match l, hl, ha, hb with
    | [x], _, ha, hb =>
      simp only [List.mem_singleton] at ha hb
      rw [ha, hb]
    | [], _, ha, _ => cases ha
    | _ :: _ :: _, hl, _, _ => simp at hl
  have hrr : r' = r := hsingle _ _ _ hone hr' hr
  subst hrr
  rcases hcase with ⟨hn, _⟩ | ⟨e'', he'', _, hall, _⟩
  · rw [he] at hn; cases hn
  · have : e'' = e' := by rw [he] at he''; exact (Option.some.inj he'').symm
    subst this
    have hmem : (Gen.e2eTagSkesk, skeskBody P e'' r') ∈ eskBodies P e'' := by
      unfold eskBodies; exact List.mem_append_left _ (List.mem_map.mpr ⟨r', hr', rfl⟩)
    obtain ⟨bb, hbb⟩ := Option.isSome_iff_exists.mp ((List.all_eq_true.mp hall) _ hmem)
    obtain ⟨_, _, hopen⟩ := skeskBody_facts P L.crypto e'' r' bb (wf.enc S e'' hS he).2.1 hr' hbb
    rw [hopen] at hk'
    exact (Option.some.inj hk').symm

end Rpgp.E2E
