import RpgpModel.PacketIter
/-! Proofs about the end of a packet stream (C09, C04). -/
namespace Rpgp.PacketIter
open Rpgp

theorem fixD4n_on : Gen.fixD4nNextRefTracksErrors = 1 := by decide
theorem fixD4p_on : Gen.fixD4pIteratorTracksErrors = 1 := by decide

theorem nextRef_eq : nextRef = nextWith true := by
  funext pre t; simp [nextRef, fixD4n_on]

theorem nextIter_eq : nextIter = nextWith true := by
  funext pre t; simp [nextIter, fixD4p_on]

/-- a failing reader below is never the end of the packets: whenever the header could not be
completed from what was delivered, a failure of any kind is an error -/
theorem nextWith_failed_is_err (pre : Bytes) (k : Bool) (h : ∀ hd rest, parseHeader pre ≠ .ok (hd, rest)) :
    nextWith true pre (.failed k) = .err := by
  unfold nextWith
  cases hp : parseHeader pre with
  | ok v => exact absurd hp (h v.1 v.2)
  | error e => cases e <;> simp

/-- the packet stream ends only where the input ends -/
theorem nextWith_done_only_at_end (pre : Bytes) (t : Tail) (h : nextWith true pre t = .done) : t = .ended := by
  unfold nextWith at h
  cases hp : parseHeader pre with
  | ok v =>
    simp only [hp] at h
    split at h
    · split at h <;> simp at h
    · simp at h
  | error e =>
    cases e <;> simp [hp] at h
    cases t <;> simp_all

/-- a complete header is delivered whatever follows it -/
theorem nextWith_complete_header (fixed : Bool) (pre : Bytes) (t : Tail) (hd : Hdr) (rest : Bytes)
    (h : parseHeader pre = .ok (hd, rest)) (hf : ∀ n, hd.len ≠ .part n) : nextWith fixed pre t = .hdr hd rest := by
  unfold nextWith
  rw [h]
  cases hl : hd.len with
  | part n => exact absurd hl (hf n)
  | fixed n => simp [hl]
  | indet => simp [hl]

/-- nothing delivered and the input ended: no more packets -/
theorem nextWith_clean_end (fixed : Bool) : nextWith fixed [] .ended = .done := by
  simp [nextWith, parseHeader]

/-- regression witness: before the repairs a reader that fails with `UnexpectedEof` after the first
octet of a header was taken for the end of the packets -/
theorem prefix_swallows_unexpected_eof_witness :
    nextWith false [0xC2] (.failed true) = .done ∧ nextWith true [0xC2] (.failed true) = .err ∧
    nextWith false [0xC2] (.failed false) = .err := by decide

end Rpgp.PacketIter
