import RpgpModel.Armor
import RpgpProofs.ArmorB64
/-!
# Parser lemmas for the armor reader (header side)
-/
namespace Rpgp.Armor

/-! ## small parsers -/

theorem tagS_append (p r : Bytes) : tagS p (p ++ r) = .ok () r := by
  induction p with
  | nil => rfl
  | cons a p ih => simp [tagS, ih]

/-- line ending in use: LF or CR LF -/
def IsNl (nl : Bytes) : Prop := nl = [LF] ∨ nl = [CR, LF]

theorem lineEnding_nl (nl r : Bytes) (h : IsNl nl) : lineEnding (nl ++ r) = .ok () r := by
  rcases h with rfl | rfl
  · simp [lineEnding]
  · simp [lineEnding, CR, LF]

theorem splitOnSub_cons_ne (pat : Bytes) (c : Byte) (r : Bytes) (h : pat.isPrefixOf (c :: r) = false) :
    splitOnSub pat (c :: r) = (match splitOnSub pat r with
      | some (a, b) => some (c :: a, b)
      | none => none) := by
  simp only [splitOnSub, h]; rfl

theorem splitOnSub_lead (lead r : Bytes) (h : ∀ b ∈ lead, b ≠ 45) :
    splitOnSub DASH5 (lead ++ (DASH5 ++ r)) = some (lead, DASH5 ++ r) := by
  induction lead with
  | nil => simp [splitOnSub, DASH5, List.isPrefixOf]
  | cons c l ih =>
    have hc : c ≠ 45 := h c (by simp)
    have hc' : ¬ ((45 : UInt8) = c) := fun e => hc e.symm
    have := ih (fun b hb => h b (by simp [hb]))
    simp only [List.cons_append, splitOnSub]
    rw [this]
    simp [DASH5, List.isPrefixOf, hc']

/-- no occurrence of a pattern starting with `:` in a colon-free text -/
theorem splitOnSub_colon_none (p s : Bytes) (h : ∀ b ∈ s, b ≠ COLON) : splitOnSub (COLON :: p) s = none := by
  induction s with
  | nil => rfl
  | cons c r ih =>
    have hc : c ≠ COLON := h c (by simp)
    have hc' : ¬ (COLON = c) := fun e => hc e.symm
    simp [splitOnSub, List.isPrefixOf, hc', ih (fun b hb => h b (by simp [hb]))]

/-! ## `: ` inside a key -/

def noColonSp : Bytes → Bool
  | a :: b :: r => !(a == COLON && b == SP) && noColonSp (b :: r)
  | _ => true

theorem splitOnSub_colonSp (k rest : Bytes) (h : noColonSp k = true) :
    splitOnSub [COLON, SP] (k ++ COLON :: SP :: rest) = some (k, COLON :: SP :: rest) := by
  induction k with
  | nil => simp [splitOnSub, List.isPrefixOf]
  | cons a r ih =>
    cases r with
    | nil =>
      have := ih (by rfl)
      simp only [List.nil_append] at this
      simp only [List.cons_append, List.nil_append, splitOnSub, this]
      simp [List.isPrefixOf, COLON, SP]
    | cons b r' =>
      simp only [noColonSp, Bool.and_eq_true, Bool.not_eq_true', Bool.and_eq_false_imp] at h
      have := ih h.2
      simp only [List.cons_append] at this ⊢
      have hne : ¬ (COLON = a ∧ SP = b) := by
        intro ⟨e1, e2⟩
        have := h.1 (by simp [e1])
        simp [e2] at this
      rw [splitOnSub_cons_ne _ _ _ (by simp [List.isPrefixOf]; intro e1 e2; exact hne ⟨e1, e2⟩), this]

/-! ## value -/

def noCrLf (s : Bytes) : Bool := s.all fun c => c != CR && c != LF

theorem noCrLf_mem (s : Bytes) (h : noCrLf s = true) : ∀ b ∈ s, b ≠ CR ∧ b ≠ LF := by
  intro b hb
  have := List.all_eq_true.mp h b hb
  simpa using this

theorem notLineEnding_value (v nl rest : Bytes) (hv : noCrLf v = true) (hnl : IsNl nl) :
    notLineEnding (v ++ nl ++ rest) = .ok v (nl ++ rest) := by
  induction v with
  | nil =>
    rcases hnl with rfl | rfl
    · simp [notLineEnding]
    · simp [notLineEnding, CR, LF]
  | cons c r ih =>
    have hc := noCrLf_mem _ hv c (by simp)
    have hr : noCrLf r = true := by
      simp only [noCrLf, List.all_cons, Bool.and_eq_true] at hv; exact hv.2
    have := ih hr
    simp only [List.cons_append, List.append_assoc] at this ⊢
    simp [notLineEnding, hc.1, hc.2, this]

theorem space0_ws (ws nl rest : Bytes) (hws : ∀ b ∈ ws, b = SP ∨ b = TAB) (hnl : IsNl nl) :
    space0 (ws ++ nl ++ rest) = .ok () (nl ++ rest) := by
  induction ws with
  | nil =>
    rcases hnl with rfl | rfl
    · simp [space0, LF, SP, TAB]
    · simp [space0, CR, SP, TAB]
  | cons c r ih =>
    have hc := hws c (by simp)
    have := ih (fun b hb => hws b (by simp [hb]))
    simp only [List.cons_append, List.append_assoc] at this ⊢
    simp [space0, hc, this]

/-! ## UTF-8 validity of concatenations -/

def u8cont (b : Byte) : Bool := decide (128 ≤ b.toNat) && decide (b.toNat ≤ 191)

theorem validUtf8_cons (b0 : Byte) (r : Bytes) : validUtf8 (b0 :: r) =
    (if b0.toNat < 128 then validUtf8 r
     else if 194 ≤ b0.toNat ∧ b0.toNat ≤ 223 then
       (match r with
        | b1 :: r' => u8cont b1 && validUtf8 r'
        | _ => false)
     else if 224 ≤ b0.toNat ∧ b0.toNat ≤ 239 then
       (match r with
        | b1 :: b2 :: r' =>
          (if b0.toNat = 224 then decide (160 ≤ b1.toNat) && decide (b1.toNat ≤ 191)
           else if b0.toNat = 237 then decide (128 ≤ b1.toNat) && decide (b1.toNat ≤ 159)
           else u8cont b1) && u8cont b2 && validUtf8 r'
        | _ => false)
     else if 240 ≤ b0.toNat ∧ b0.toNat ≤ 244 then
       (match r with
        | b1 :: b2 :: b3 :: r' =>
          (if b0.toNat = 240 then decide (144 ≤ b1.toNat) && decide (b1.toNat ≤ 191)
           else if b0.toNat = 244 then decide (128 ≤ b1.toNat) && decide (b1.toNat ≤ 143)
           else u8cont b1) && u8cont b2 && u8cont b3 && validUtf8 r'
        | _ => false)
     else false) := by
  conv => lhs; unfold validUtf8
  rfl

theorem validUtf8_append : ∀ (n : Nat) (a b : Bytes), a.length ≤ n → validUtf8 a = true → validUtf8 b = true →
    validUtf8 (a ++ b) = true := by
  intro n
  induction n with
  | zero =>
    intro a b hl _ hb
    have : a = [] := List.eq_nil_of_length_eq_zero (by omega)
    subst this; simpa using hb
  | succ n ih =>
    intro a b hl ha hb
    match a, hl, ha with
    | [], _, _ => simpa using hb
    | b0 :: r, hl, ha =>
      have hlr : r.length ≤ n := by simp at hl; omega
      rw [List.cons_append, validUtf8_cons]
      rw [validUtf8_cons] at ha
      by_cases h1 : b0.toNat < 128
      · simp only [h1, if_true] at ha ⊢
        exact ih r b hlr ha hb
      · by_cases h2 : 194 ≤ b0.toNat ∧ b0.toNat ≤ 223
        · match r, hlr, ha with
          | [], _, ha => simp [h1, h2] at ha
          | b1 :: r', hlr, ha =>
            rw [if_neg h1, if_pos h2] at ha ⊢
            simp only [List.cons_append, Bool.and_eq_true] at ha ⊢
            exact ⟨ha.1, ih r' b (by simp at hlr; omega) ha.2 hb⟩
        · by_cases h3 : 224 ≤ b0.toNat ∧ b0.toNat ≤ 239
          · match r, hlr, ha with
            | [], _, ha => simp [h1, h2, h3] at ha
            | [_], _, ha => simp [h1, h2, h3] at ha
            | b1 :: b2 :: r', hlr, ha =>
              rw [if_neg h1, if_neg h2, if_pos h3] at ha ⊢
              simp only [List.cons_append, Bool.and_eq_true] at ha ⊢
              exact ⟨ha.1, ih r' b (by simp at hlr; omega) ha.2 hb⟩
          · by_cases h4 : 240 ≤ b0.toNat ∧ b0.toNat ≤ 244
            · match r, hlr, ha with
              | [], _, ha => simp [h1, h2, h3, h4] at ha
              | [_], _, ha => simp [h1, h2, h3, h4] at ha
              | [_, _], _, ha => simp [h1, h2, h3, h4] at ha
              | b1 :: b2 :: b3 :: r', hlr, ha =>
                rw [if_neg h1, if_neg h2, if_neg h3, if_pos h4] at ha ⊢
                simp only [List.cons_append, Bool.and_eq_true] at ha ⊢
                exact ⟨ha.1, ih r' b (by simp at hlr; omega) ha.2 hb⟩
            · simp [h1, h2, h3, h4] at ha

theorem validUtf8_ascii (s : Bytes) (h : ∀ b ∈ s, b.toNat < 128) : validUtf8 s = true := by
  induction s with
  | nil => rfl
  | cons c r ih =>
    have := h c (by simp)
    rw [validUtf8_cons]
    simp only [this, if_true]
    exact ih (fun b hb => h b (by simp [hb]))
end Rpgp.Armor
