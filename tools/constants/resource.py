# ---- C19: resource bounds (parsing_reader.rs, signature/de.rs, types/mpi.rs, types/s2k.rs, armor/reader.rs,
#      types.rs, lib.rs, composed/message/reader/*.rs, normalize_lines.rs) ---------------------------------
item("takeBytesPreallocCap", "src/parsing_reader.rs", r"fn take_bytes.*?BytesMut::with_capacity\(size\.min\((\d+)\)\)",
     "parsing_reader.rs take_bytes: BytesMut::with_capacity(size.min(k))")
item("drainChunk", "src/parsing_reader.rs", r"fn drain.*?let mut buffer = \[0u8; (\d+)\];",
     "parsing_reader.rs drain: stack buffer size")
item("subpacketVecCapLimit", "src/packet/signature/de.rs", r"fn subpackets.*?Vec::with_capacity\(len\.min\((\d+)\)\)",
     "signature/de.rs subpackets: Vec::with_capacity(len.min(k))")
item("subLenOneOctetMax", "src/packet/signature/subpacket.rs", r"0\.\.=(\d+) => Self::One\(olen\)",
     "signature/subpacket.rs SubpacketLength::try_from_reader: one-octet range end")
item("subLenTwoOctetMin", "src/packet/signature/subpacket.rs", r"(\d+)\.\.=\d+ => \{\s*let a = i\.read_u8\(\)\?;",
     "signature/subpacket.rs SubpacketLength::try_from_reader: two-octet range start")
item("subLenTwoOctetMax", "src/packet/signature/subpacket.rs", r"\d+\.\.=(\d+) => \{\s*let a = i\.read_u8\(\)\?;",
     "signature/subpacket.rs SubpacketLength::try_from_reader: two-octet range end")
item("subLenTwoOctetSub", "src/packet/signature/subpacket.rs", r"let l = \(\(olen as u16 - (\d+)\) << 8\) \+ \d+ \+ a as u16;",
     "signature/subpacket.rs two-octet decode: subtract")
item("subLenTwoOctetAdd", "src/packet/signature/subpacket.rs", r"let l = \(\(olen as u16 - \d+\) << 8\) \+ (\d+) \+ a as u16;",
     "signature/subpacket.rs two-octet decode: add")
item("subLenFiveOctetMarker", "src/packet/signature/subpacket.rs", r"(\d+) => \{\s*let len = i\.read_be_u32\(\)\?;\s*Self::Five",
     "signature/subpacket.rs five-octet marker")
item("subTypeEmbeddedSignature", "src/packet/signature/subpacket.rs", r"(\d+) => SubpacketType::EmbeddedSignature",
     "signature/subpacket.rs SubpacketType::from_u8: Embedded Signature")
item("subTypeCriticalShift", "src/packet/signature/subpacket.rs", r"let is_critical = \(n >> (\d+)\) == 1;",
     "signature/subpacket.rs SubpacketType::from_u8: critical bit position")
item("maxExternMpiBits", "src/types/mpi.rs", r"const MAX_EXTERN_MPI_BITS: u16 = (\d+);", "types/mpi.rs MAX_EXTERN_MPI_BITS")
item("mpiRoundAdd", "src/types/mpi.rs", r"let len_bytes = \(len_bits \+ (\d+)\) >> \d+;", "types/mpi.rs (bits + k) >> s")
item("mpiRoundShift", "src/types/mpi.rs", r"let len_bytes = \(len_bits \+ \d+\) >> (\d+);", "types/mpi.rs (bits + k) >> s")
item("s2kExpbias", "src/types/s2k.rs", r"const EXPBIAS: u32 = (\d+);", "types/s2k.rs EXPBIAS")
item("argon2MaxT", "src/types/s2k.rs", r"\*t <= (\d+) && \*p <= \d+,", "types/s2k.rs derive_key: t <= k")
item("argon2MaxP", "src/types/s2k.rs", r"\*t <= \d+ && \*p <= (\d+),", "types/s2k.rs derive_key: p <= k")
item("argon2MaxMEnc", "src/types/s2k.rs", r"\*m_enc >= min_m && \*m_enc <= (\d+),", "types/s2k.rs derive_key: m_enc <= k")
item("argon2MemoryLimitKib", "src/types/s2k.rs", r"const ARGON2_MEMORY_LIMIT_KIB: u32 = ([^;]+);", "types/s2k.rs ARGON2_MEMORY_LIMIT_KIB")
item("armorDefaultLimit", "src/armor/reader.rs", r"impl Default for DearmorOptions.*?limit: ([0-9 *]+),", "armor/reader.rs DearmorOptions::default limit")
item("seipd1DefaultMaxMessageSize", "src/types.rs", r"const MAX_DEFAULT_UNSTREAMED_MSG_SIZE: usize = ([^;]+);",
     "types.rs MAX_DEFAULT_UNSTREAMED_MSG_SIZE (CheckFirst default)")
item("libMaxBufferSize", "src/lib.rs", r"pub const MAX_BUFFER_SIZE: usize = ([^;]+);", "lib.rs MAX_BUFFER_SIZE")
item("literalReaderBufferSize", "src/composed/message/reader/literal.rs", r"const BUFFER_SIZE: usize = ([^;]+);", "reader/literal.rs BUFFER_SIZE")
item("compressedReaderBufferSize", "src/composed/message/reader/compressed.rs", r"const BUFFER_SIZE: usize = ([^;]+);", "reader/compressed.rs BUFFER_SIZE")
item("signedManyBufferSize", "src/composed/message/reader/signed_many.rs", r"const BUFFER_SIZE: usize = ([^;]+);", "reader/signed_many.rs BUFFER_SIZE")
item("aeadMaxChunkSizeOctet", "src/crypto/aead.rs", r"C4MiB = (\d+),", "aead.rs ChunkSize: largest octet")

derived("""
/-- largest AEAD chunk the crate accepts (`ChunkSize::C4MiB`), in octets -/
def aeadMaxChunkBytes : Nat := 2 ^ (aeadMaxChunkSizeOctet + chunkSizeShiftBase)
/-- the SEIPDv2 decryptor window for chunk size `cs` -/
def aeadWindow (cs : Nat) : Nat := aeadWindowFactor * (cs + aeadTagSize)
""")

item("base64DecoderBufSize", "src/base64/decoder.rs", r"const BUF_SIZE: usize = ([^;]+);", "base64/decoder.rs BUF_SIZE (input BufReader)")
item("base64DecoderOutDiv", "src/base64/decoder.rs", r"const BUF_CAPACITY: usize = BUF_SIZE / (\d+) \* \d+;", "base64/decoder.rs BUF_CAPACITY = BUF_SIZE / a * b")
item("base64DecoderOutMul", "src/base64/decoder.rs", r"const BUF_CAPACITY: usize = BUF_SIZE / \d+ \* (\d+);", "base64/decoder.rs BUF_CAPACITY = BUF_SIZE / a * b")
derived("""
/-- fixed output buffer of `Base64Decoder` -/
def base64DecoderOutCap : Nat := base64DecoderBufSize / base64DecoderOutDiv * base64DecoderOutMul
""")

item("maxEmbeddedSignatureDepth", "src/packet/signature/de.rs", r"const MAX_EMBEDDED_SIGNATURE_DEPTH: usize = (\d+);",
     "signature/de.rs MAX_EMBEDDED_SIGNATURE_DEPTH (nesting cap of Embedded Signature subpackets)")

# ---- Message::check_trailing_data: ignored trailing packets are drained (D19e) -------------------
flag("fixD19eTrailingPacketsDrained", "src/composed/message/types.rs",
     r"fn check_trailing_data\(&mut self\) -> io::Result<\(\)> \{\s*fn check_next_packet.*?\| Tag::Experimental\(_\) => \{(?:(?!read_to_end)[\s\S])*?packet\.drain\(\)\?;(?:(?!read_to_end)[\s\S])*?_ => \{\s*return Err\(io::Error::new\(",
     "D19e repaired: an ignored packet behind a message (Padding, Marker, unassigned non-critical, experimental) is drained through a fixed buffer instead of being collected in a Vec")
