import RpgpModel.Armor
import RpgpProofs.ArmorParse
/-!
# The header stage of `Dearmor` on well-formed armor text
-/
namespace Rpgp.Armor

/-! ## well-formedness of types and header maps (decidable) -/

/-- a key the header-line grammar can carry: non-empty, one line, no `": "` inside, UTF-8 -/
def keyOk (k : Bytes) : Bool := !k.isEmpty && noCrLf k && noColonSp k && validUtf8 k

/-- a value the reader as it is returns unchanged: one line, UTF-8, **not ending in `:`** (a value
ending in `:` is representable in the format but is mis-read by `key_value_pair`, finding D10c) -/
def valOk (v : Bytes) : Bool := noCrLf v && (v.getLast? != some COLON) && validUtf8 v

/-- keys strictly increasing (what iterating a `BTreeMap` yields) -/
def pairwiseKeys : Headers → Bool
  | [] => true
  | a :: r => r.all (fun b => bytesLt a.1 b.1) && pairwiseKeys r

def WFHeaders (h : Headers) : Bool :=
  pairwiseKeys h && h.all fun kv => keyOk kv.1 && !kv.2.isEmpty && kv.2.all valOk

/-- block types `armor::write` is meant for (the cleartext type has its own `Hash:` header grammar);
part numbers must fit `usize` -/
def typeOk : BlockType → Bool
  | .cleartext => false
  | .multiPart x y => decide (x < 18446744073709551616) && decide (y < 18446744073709551616)
  | _ => true

/-! ## armor text, generalised over the tolerated variations -/

def pairLines (nl : Bytes) (ps : List (Bytes × Bytes)) : Bytes :=
  ps.flatMap fun kv => kv.1 ++ COLON :: SP :: (kv.2 ++ nl)

def pairsOf (h : Headers) : List (Bytes × Bytes) := h.flatMap fun kv => kv.2.map fun v => (kv.1, v)

/-- the header section: leading text, BEGIN line, `Key: Value` lines, separator line of blanks -/
def headText (lead nl ws : Bytes) (t : BlockType) (h : Headers) : Bytes :=
  lead ++ (DASH5 ++ (asc "BEGIN " ++ (typeName t ++ (DASH5 ++ (nl ++ (pairLines nl (pairsOf h) ++ (ws ++ nl)))))))

theorem valueLines_eq (k : Bytes) (vs : List Bytes) :
    (vs.flatMap fun v => k ++ asc ": " ++ v ++ [LF]) = pairLines [LF] (vs.map fun v => (k, v)) := by
  have e3 : asc ": " = [COLON, SP] := by decide
  induction vs with
  | nil => rfl
  | cons v r ih =>
    rw [List.flatMap_cons, ih]
    simp [pairLines, e3]

theorem armorHead_eq (t : BlockType) (h : Headers) : armorHead t h = headText [] [LF] [] t h := by
  have e1 : asc "-----BEGIN " = DASH5 ++ asc "BEGIN " := by decide
  have e2 : asc "-----\n" = DASH5 ++ [LF] := by decide
  have : (h.flatMap fun kv => kv.2.flatMap fun v => kv.1 ++ asc ": " ++ v ++ [LF]) = pairLines [LF] (pairsOf h) := by
    induction h with
    | nil => rfl
    | cons kv r ih =>
      rw [List.flatMap_cons, ih, valueLines_eq]
      simp [pairLines, pairsOf]
  unfold armorHead headText
  rw [this, e1, e2]
  simp [List.append_assoc]

/-! ## one header line -/

theorem kvKey_err_of_noColon (s : Bytes) (h : ∀ b ∈ s, b ≠ COLON) : kvKey s = .err := by
  simp [kvKey, takeUntil1C, splitOnSub_colon_none _ s h, PR.orElse]

theorem kvPair_err_of_noColon (s : Bytes) (h : ∀ b ∈ s, b ≠ COLON) : kvPair s = .err := by
  simp [kvPair, kvKey_err_of_noColon s h]

theorem kvPair_line (k v nl T : Bytes) (hk : keyOk k = true) (hv : valOk v = true) (hnl : IsNl nl)
    (hT : colonNlFree T = true) :
    kvPair (k ++ COLON :: SP :: (v ++ nl ++ T)) = .ok (k, v) T := by
  simp only [keyOk, valOk, Bool.and_eq_true, Bool.not_eq_true', bne_iff_ne, ne_eq] at hk hv
  obtain ⟨⟨⟨hk0, hk1⟩, hk2⟩, hk3⟩ := hk
  obtain ⟨⟨hv1, hv2⟩, hv3⟩ := hv
  -- the whole remaining text has no ':' followed by a line break
  have hnlT : colonNlFree (nl ++ T) = true := by
    apply colonNlFree_append _ _ _ hT
    · left; rcases hnl with rfl | rfl <;> decide
    · rcases hnl with rfl | rfl <;> decide
  have hvT : colonNlFree (v ++ (nl ++ T)) = true :=
    colonNlFree_append _ _ (colonNlFree_of_noCrLf _ (noCrLf_mem _ hv1)) hnlT (Or.inl hv2)
  have hcs : colonNlFree ([COLON, SP] ++ (v ++ (nl ++ T))) = true :=
    colonNlFree_append _ _ (by decide) hvT (Or.inl (by decide))
  have hall : colonNlFree (k ++ ([COLON, SP] ++ (v ++ (nl ++ T)))) = true :=
    colonNlFree_append _ _ (colonNlFree_of_noCrLf _ (noCrLf_mem _ hk1)) hcs (Or.inr (by simp [COLON, LF, CR]))
  have etext : k ++ COLON :: SP :: (v ++ nl ++ T) = k ++ ([COLON, SP] ++ (v ++ (nl ++ T))) := by simp
  have hkey : kvKey (k ++ COLON :: SP :: (v ++ nl ++ T)) = .ok k (COLON :: SP :: (v ++ nl ++ T)) := by
    have h1 := splitOnSub_colonCrLf_none _ hall
    have h2 := splitOnSub_colonLf_none _ hall
    have h3 := splitOnSub_colonSp k (v ++ nl ++ T) hk2
    rw [← etext] at h1 h2
    cases k with
    | nil => simp at hk0
    | cons c k' =>
      simp only [kvKey, takeUntil1C, h1, h2, h3, PR.orElse, hk3, if_true]
  simp only [kvPair, hkey, tagS, if_true]
  have hval := notLineEnding_value v nl T hv1 hnl
  simp only [hval, hv3, if_true, lineEnding_nl nl T hnl]

/-! ## all header lines -/

theorem colonNlFree_pairLines (nl : Bytes) (hnl : IsNl nl) (Y : Bytes) (hY : colonNlFree Y = true) :
    ∀ ps : List (Bytes × Bytes), (∀ kv ∈ ps, keyOk kv.1 = true ∧ valOk kv.2 = true) →
      colonNlFree (pairLines nl ps ++ Y) = true := by
  intro ps
  induction ps with
  | nil => intro _; simpa [pairLines] using hY
  | cons kv r ih =>
    intro h
    have hr := ih (fun x hx => h x (by simp [hx]))
    obtain ⟨hk, hv⟩ := h kv (by simp)
    simp only [keyOk, valOk, Bool.and_eq_true, Bool.not_eq_true', bne_iff_ne, ne_eq] at hk hv
    obtain ⟨⟨⟨_, hk1⟩, _⟩, _⟩ := hk
    obtain ⟨⟨hv1, hv2⟩, _⟩ := hv
    have e : pairLines nl (kv :: r) ++ Y = kv.1 ++ ([COLON, SP] ++ (kv.2 ++ (nl ++ (pairLines nl r ++ Y)))) := by
      simp [pairLines]
    rw [e]
    have hnlT : colonNlFree (nl ++ (pairLines nl r ++ Y)) = true := by
      apply colonNlFree_append _ _ _ hr
      · left; rcases hnl with rfl | rfl <;> decide
      · rcases hnl with rfl | rfl <;> decide
    exact colonNlFree_append _ _ (colonNlFree_of_noCrLf _ (noCrLf_mem _ hk1))
      (colonNlFree_append _ _ (by decide)
        (colonNlFree_append _ _ (colonNlFree_of_noCrLf _ (noCrLf_mem _ hv1)) hnlT (Or.inl hv2))
        (Or.inl (by decide))) (Or.inr (by simp [COLON, LF, CR]))

theorem kvPairs_lines (nl : Bytes) (hnl : IsNl nl) (Y : Bytes) (hY : ∀ b ∈ Y, b ≠ COLON) :
    ∀ (ps : List (Bytes × Bytes)) (fuel : Nat), (∀ kv ∈ ps, keyOk kv.1 = true ∧ valOk kv.2 = true) →
      ps.length ≤ fuel → kvPairs fuel (pairLines nl ps ++ Y) = (ps, Y) := by
  intro ps
  induction ps with
  | nil =>
    intro fuel _ _
    cases fuel with
    | zero => rfl
    | succ f => simp [kvPairs, pairLines, kvPair_err_of_noColon Y hY, PR.complete]
  | cons kv r ih =>
    intro fuel h hf
    cases fuel with
    | zero => simp at hf
    | succ f =>
      obtain ⟨hk, hv⟩ := h kv (by simp)
      have hT := colonNlFree_pairLines nl hnl Y (colonNlFree_of_noColon Y hY) r (fun x hx => h x (by simp [hx]))
      have e : pairLines nl (kv :: r) ++ Y = kv.1 ++ COLON :: SP :: (kv.2 ++ nl ++ (pairLines nl r ++ Y)) := by
        simp [pairLines]
      rw [e]
      simp only [kvPairs, kvPair_line kv.1 kv.2 nl _ hk hv hnl hT, PR.complete]
      rw [ih f (fun x hx => h x (by simp [hx])) (by simp at hf; omega)]

/-! ## rebuilding the map -/

theorem bytesLt_irrefl (a : Bytes) : bytesLt a a = false := by
  induction a with
  | nil => rfl
  | cons x r ih => simp [bytesLt, ih]

theorem bytesLt_asymm (a : Bytes) : ∀ b, bytesLt a b = true → bytesLt b a = false := by
  induction a with
  | nil => intro b h; cases b <;> simp [bytesLt] at h ⊢
  | cons x r ih =>
    intro b h
    cases b with
    | nil => simp [bytesLt] at h
    | cons y s =>
      simp only [bytesLt] at h ⊢
      by_cases h1 : x < y
      · have : ¬ (y < x) := by
          intro h2; exact absurd (UInt8.lt_trans h1 h2) (UInt8.lt_irrefl x)
        simp [this, h1]
      · simp only [h1, if_false] at h
        by_cases h2 : y < x
        · simp [h2] at h
        · simp only [h2, if_false] at h
          simp only [h2, h1, if_false]
          exact ih s h

/-- inserting under a key larger than every key present appends a new entry -/
theorem hdrInsert_new (k v : Bytes) (acc : Headers) (h : ∀ e ∈ acc, bytesLt e.1 k = true) :
    hdrInsert k v acc = acc ++ [(k, [v])] := by
  induction acc with
  | nil => rfl
  | cons e r ih =>
    have he := h e (by simp)
    have hne : k ≠ e.1 := by
      intro e'; rw [e', bytesLt_irrefl] at he; simp at he
    have hnl : bytesLt k e.1 = false := bytesLt_asymm _ _ he
    obtain ⟨k', vs⟩ := e
    simp only [hdrInsert, List.cons_append]
    simp only at hne hnl
    simp [hne, hnl, ih (fun x hx => h x (by simp [hx]))]

/-- inserting under the last (largest) key extends its value list -/
theorem hdrInsert_last (k v : Bytes) (vs : List Bytes) (acc : Headers) (h : ∀ e ∈ acc, bytesLt e.1 k = true) :
    hdrInsert k v (acc ++ [(k, vs)]) = acc ++ [(k, vs ++ [v])] := by
  induction acc with
  | nil => simp [hdrInsert]
  | cons e r ih =>
    have he := h e (by simp)
    have hne : k ≠ e.1 := by
      intro e'; rw [e', bytesLt_irrefl] at he; simp at he
    have hnl : bytesLt k e.1 = false := bytesLt_asymm _ _ he
    obtain ⟨k', vs'⟩ := e
    simp only [hdrInsert, List.cons_append]
    simp only at hne hnl
    simp [hne, hnl, ih (fun x hx => h x (by simp [hx]))]

theorem foldl_insert_values (k : Bytes) (acc : Headers) (h : ∀ e ∈ acc, bytesLt e.1 k = true) :
    ∀ (vs cur : List Bytes),
      (vs.map fun v => (k, v)).foldl (fun m kv => hdrInsert kv.1 kv.2 m) (acc ++ [(k, cur)]) = acc ++ [(k, cur ++ vs)] := by
  intro vs
  induction vs with
  | nil => intro cur; simp
  | cons v r ih =>
    intro cur
    simp only [List.map_cons, List.foldl_cons]
    rw [hdrInsert_last k v cur acc h, ih (cur ++ [v])]
    simp

theorem foldl_insert_pairs :
    ∀ (h acc : Headers), pairwiseKeys (acc ++ h) = true → (∀ kv ∈ h, kv.2 ≠ []) →
      (pairsOf h).foldl (fun m kv => hdrInsert kv.1 kv.2 m) acc = acc ++ h := by
  intro h
  induction h with
  | nil => intro acc _ _; simp [pairsOf]
  | cons e r ih =>
    intro acc hs hne
    obtain ⟨k, vs⟩ := e
    have hvs : vs ≠ [] := hne (k, vs) (by simp)
    -- every key of acc is below k
    have hlt : ∀ x ∈ acc, bytesLt x.1 k = true := by
      clear ih hne hvs
      induction acc with
      | nil => intro x hx; simp at hx
      | cons a acc' ih' =>
        intro x hx
        simp only [List.cons_append, pairwiseKeys, Bool.and_eq_true, List.all_eq_true] at hs
        rcases List.mem_cons.mp hx with rfl | hx'
        · exact hs.1 (k, vs) (by simp)
        · exact ih' hs.2 x hx'
    cases vs with
    | nil => exact absurd rfl hvs
    | cons v vs' =>
      simp only [pairsOf, List.flatMap_cons, List.map_cons, List.cons_append, List.foldl_cons, List.foldl_append]
      rw [hdrInsert_new k v acc hlt, foldl_insert_values k acc hlt vs' [v]]
      have := ih (acc ++ [(k, v :: vs')]) (by simpa [List.append_assoc] using hs) (fun kv hkv => hne kv (by simp [hkv]))
      simp only [pairsOf] at this
      simp only [List.singleton_append]
      rw [this]; simp

theorem WFHeaders_pairs (h : Headers) (hw : WFHeaders h = true) :
    (∀ kv ∈ pairsOf h, keyOk kv.1 = true ∧ valOk kv.2 = true) ∧ (∀ kv ∈ h, kv.2 ≠ []) ∧ pairwiseKeys h = true := by
  simp only [WFHeaders, Bool.and_eq_true, List.all_eq_true, Bool.not_eq_true'] at hw
  refine ⟨?_, ?_, hw.1⟩
  · intro kv hkv
    simp only [pairsOf, List.mem_flatMap, List.mem_map] at hkv
    obtain ⟨e, he, v, hv, rfl⟩ := hkv
    have := hw.2 e he
    exact ⟨this.1.1, this.2 v hv⟩
  · intro kv hkv hnil
    have := (hw.2 kv hkv).1.2
    simp [hnil] at this

end Rpgp.Armor
