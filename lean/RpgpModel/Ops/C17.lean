import RpgpModel.Proto
import RpgpModel.Framing
namespace Rpgp.Ops.C17
open Rpgp

/-- `seed:len` test pattern -/
def pat (a : Args) (k : String) : Option Bytes := do
  let v ← a.get? k
  match v.splitOn ":" with
  | [s, n] => pure (pattern (← s.toNat?) (← n.toNat?))
  | _ => none

def showCk (b : Bytes) : String :=
  let (n, x, y) := cksum b
  s!"{n}.{x}.{y}"

def showDeframe (r : Except FrErr (Hdr × Bytes × Bytes)) : String :=
  match r with
  | .error .eof => "none"
  | .error .bad => "err"
  | .ok (h, b, rest) =>
    let kind := match h.len with
      | .fixed n => s!"f{n}"
      | .part n => s!"p{n}"
      | .indet => "i"
    s!"ok:{if h.newFormat then 1 else 0}:{h.tag}:{kind}:{showCk b}:{showCk rest}"

def handleFrame (a : Args) : Option String := do
  let fmt ← a.nat "fmt"
  let tag ← a.nat "tag"
  let kind ← a.get? "kind"
  let body ← pat a "body"
  let restLen ← a.nat "rest"
  let trunc ← a.nat "trunc"
  let seed ← (do let v ← a.get? "body"; (v.splitOn ":").head? >>= String.toNat?)
  let rest := pattern (seed + 1) restLen
  let framed ← match kind with
    | "fixed" => do frameFixedAs (fmt == 1) tag (← a.nat "form") body
    | "indet" => some ((128 + tag * 4 + 3).toUInt8 :: body)
    | "partial" => do framePartial tag (← a.natList "segs") body
    | _ => none
  let stream := framed ++ rest
  let stream := stream.take (stream.length - trunc)
  pure (showDeframe (deframe stream))

def handle (op : String) (a : Args) : Option String :=
  match op with
  | "frame" => handleFrame a
  | "deframe" => do
    let d ← a.bytes "data"
    pure (showDeframe (deframe d))
  | "stream" => do
    let d ← a.bytes "data"
    let (ps, e) := deframeAll (d.length + 1) d
    let items := ps.map fun (h, b) => s!"{if h.newFormat then 1 else 0}.{h.tag}.{showCk b}"
    let fin := match e with
      | none => "end"
      | some .eof => "eof"
      | some .bad => "err"
    pure ("ok:" ++ ";".intercalate (items ++ [fin]))
  | "fixed_gen" => do
    -- LiteralDataFixedGenerator (binary mode, no name, time 0) announcing `n` over a source of `src` octets
    let n ← a.nat "n"
    let src ← pat a "src"
    match fixedGen [98, 0, 0, 0, 0, 0] n src with
    | some out => pure ("ok:" ++ showCk out)
    | none => pure "err"
  | "emit" => do
    let tag ← a.nat "tag"
    let k ← a.nat "k"
    let hdr ← a.bytes "hdr"
    let body ← pat a "body"
    pure ("ok:" ++ showCk (emitPartial tag k hdr body))
  | _ => none

end Rpgp.Ops.C17
