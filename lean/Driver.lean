import RpgpModel.Bytes
import RpgpModel.Stream
import RpgpModel.Canon
import RpgpModel.Framing
import RpgpModel.Gen.Constants
/-!
# Driver — `rpgp_model`: one request line in, one canonical answer line out.

Requests are `op k1=v1 k2=v2 …`; byte strings are lowercase hex (`-` = empty), lists of byte
strings are comma separated.  Answers: `ok:<payload>`, `err:<class>`, or `bad-request`.
-/
open Rpgp

abbrev Args := List (String × String)

def parseArgs (ws : List String) : Args :=
  ws.filterMap fun w =>
    match w.splitOn "=" with
    | [k, v] => some (k, v)
    | _ => none

def Args.get? (a : Args) (k : String) : Option String := (a.find? (·.1 == k)).map (·.2)

def Args.bytes (a : Args) (k : String) : Option Bytes := a.get? k >>= fromHex

def Args.nat (a : Args) (k : String) : Option Nat := a.get? k >>= String.toNat?

def parseList (s : String) : Option (List Bytes) :=
  if s = "-" then some [] else (s.splitOn ",").mapM fromHex

def Args.list (a : Args) (k : String) : Option (List Bytes) := a.get? k >>= parseList

def okBytes (b : Bytes) : String := "ok:" ++ hexOrDash b
def okBool (b : Bool) : String := if b then "ok:1" else "ok:0"

def parseNatList (s : String) : Option (List Nat) :=
  if s = "-" then some [] else (s.splitOn ",").mapM String.toNat?

/-- `seed:len` test pattern -/
def Args.pat (a : Args) (k : String) : Option Bytes := do
  let v ← a.get? k
  match v.splitOn ":" with
  | [s, n] => pure (pattern (← s.toNat?) (← n.toNat?))
  | _ => none

def showCk (b : Bytes) : String :=
  let (n, x, y) := cksum b
  s!"{n}.{x}.{y}"

def showDeframe (r : Except FrErr (Hdr × Bytes × Bytes)) : String :=
  match r with
  | .error .eof => "none"
  | .error .bad => "err"
  | .ok (h, b, rest) =>
    let kind := match h.len with
      | .fixed n => s!"f{n}"
      | .part n => s!"p{n}"
      | .indet => "i"
    s!"ok:{if h.newFormat then 1 else 0}:{h.tag}:{kind}:{showCk b}:{showCk rest}"

def handleFrame (a : Args) : Option String := do
  let fmt ← a.nat "fmt"
  let tag ← a.nat "tag"
  let kind ← a.get? "kind"
  let body ← a.pat "body"
  let restLen ← a.nat "rest"
  let trunc ← a.nat "trunc"
  let seed ← (do let v ← a.get? "body"; (v.splitOn ":").head? >>= String.toNat?)
  let rest := pattern (seed + 1) restLen
  let framed ← match kind with
    | "fixed" => do frameFixedAs (fmt == 1) tag (← a.nat "form") body
    | "indet" => some ((128 + tag * 4 + 3).toUInt8 :: body)
    | "partial" => do framePartial tag (← a.get? "segs" >>= parseNatList) body
    | _ => none
  let stream := framed ++ rest
  let stream := stream.take (stream.length - trunc)
  pure (showDeframe (deframe stream))

def handle (op : String) (a : Args) : Option String :=
  match op with
  | "canon_hasher" => do
    let cs ← a.list "chunks"
    pure (okBytes (hashedText cs))
  | "canon_reader" => do
    let d ← a.bytes "data"
    pure (okBytes (normalizedRead Gen.normalizedReaderWindow d))
  | "canon_replace" => do
    let d ← a.bytes "data"
    pure (okBytes (replaceNewlines CRLF d))
  | "crlf_accepts" => do
    let cs ← a.list "chunks"
    pure (okBool (crlfCheck cs))
  | "frame" => handleFrame a
  | "deframe" => do
    let d ← a.bytes "data"
    pure (showDeframe (deframe d))
  | "emit" => do
    let tag ← a.nat "tag"
    let k ← a.nat "k"
    let hdr ← a.bytes "hdr"
    let body ← a.pat "body"
    pure ("ok:" ++ showCk (emitPartial tag k hdr body))
  | _ => none

def answer (line : String) : String :=
  match line.trimAscii.toString.splitOn " " with
  | [] => "bad-request"
  | op :: rest => (handle op (parseArgs rest)).getD "bad-request"

partial def loop (hin hout : IO.FS.Stream) : IO Unit := do
  let line ← hin.getLine
  if line.isEmpty then return ()
  hout.putStrLn (answer line)
  loop hin hout

def main : IO Unit := do
  let hin ← IO.getStdin
  let hout ← IO.getStdout
  loop hin hout
  hout.flush
