import RpgpModel.Armor
/-!
# CRC-24 and `LineWriter` lemmas (model: `RpgpModel/Armor.lean`)
-/
namespace Rpgp.Armor

/-! ## CRC-24 -/

theorem crcFrom_append (c : Nat) (a b : Bytes) : crcFrom c (a ++ b) = crcFrom (crcFrom c a) b := by
  simp [crcFrom, List.foldl_append]

theorem crcShift_lt (c : Nat) (h : c < 16777216) : crcShift c < 16777216 := by
  unfold crcShift
  split
  · assumption
  · have h1 : c * 2 - 16777216 < 2 ^ 24 := by omega
    have h2 : crc24Gen < 2 ^ 24 := by decide
    exact Nat.xor_lt_two_pow h1 h2

theorem crcByte_lt (c : Nat) (b : Byte) (h : c < 16777216) : crcByte c b < 16777216 := by
  unfold crcByte
  have hb := UInt8.toNat_lt b
  have h0 : c ^^^ (b.toNat * 65536) < 16777216 := by
    have h1 : c < 2 ^ 24 := by omega
    have h2 : b.toNat * 65536 < 2 ^ 24 := by omega
    exact Nat.xor_lt_two_pow h1 h2
  exact crcShift_lt _ (crcShift_lt _ (crcShift_lt _ (crcShift_lt _ (crcShift_lt _ (crcShift_lt _
    (crcShift_lt _ (crcShift_lt _ h0)))))))

theorem crcFrom_lt (d : Bytes) : ∀ c, c < 16777216 → crcFrom c d < 16777216 := by
  induction d with
  | nil => intro c h; simpa [crcFrom] using h
  | cons b r ih => intro c h; simpa [crcFrom] using ih _ (crcByte_lt c b h)

theorem crc24_lt (d : Bytes) : crc24 d < 16777216 := crcFrom_lt d _ (by decide)

/-! ## wrap -/

/-- completing the current line -/
theorem wrapAux_line (w : Nat) (l : Bytes) : ∀ (col : Nat) (rest : Bytes), l ≠ [] → col + l.length = w →
    wrapAux w col (l ++ rest) = l ++ LF :: wrapAux w 0 rest := by
  induction l with
  | nil => intro col rest h; exact absurd rfl h
  | cons b l ih =>
    intro col rest _ hlen
    cases l with
    | nil =>
      have : col + 1 = w := by simpa using hlen
      simp [wrapAux, this]
    | cons b' l' =>
      have hne : ¬ (col + 1 = w) := by simp at hlen; omega
      have := ih (col + 1) rest (by simp) (by simp at hlen ⊢; omega)
      simp only [List.cons_append] at this ⊢
      rw [wrapAux, if_neg hne, this]

theorem wrap_line (w : Nat) (l rest : Bytes) (hw : 0 < w) (hl : l.length = w) :
    wrap w (l ++ rest) = l ++ LF :: wrap w rest := by
  have hne : l ≠ [] := by intro h; subst h; simp at hl; omega
  exact wrapAux_line w l 0 rest hne (by omega)

/-- a partial last line -/
theorem wrapAux_short (w : Nat) (l : Bytes) : ∀ (col : Nat), col + l.length < w →
    wrapAux w col l = if col = 0 ∧ l = [] then [] else l ++ [LF] := by
  induction l with
  | nil => intro col _; by_cases h : col = 0 <;> simp [wrapAux, h]
  | cons b l ih =>
    intro col hlen
    have hne : ¬ (col + 1 = w) := by simp at hlen; omega
    have := ih (col + 1) (by simp at hlen ⊢; omega)
    rw [wrapAux, if_neg hne, this]
    simp

theorem wrap_short (w : Nat) (l : Bytes) (h : l.length < w) : wrap w l = lwFinish l := by
  unfold wrap lwFinish
  rw [wrapAux_short w l 0 (by omega)]
  cases l <;> simp

/-! ## LineWriter -/

theorem lwFeed_nil (w : Nat) (offers : List Nat) : ∀ extra, lwFeed w extra [] offers = ([], extra, []) := by
  induction offers with
  | nil => intro e; rfl
  | cons n ns ih => intro e; simp [lwFeed, lwWrite, ih]

/-- invariant of the line writer under an arbitrary sequence of offered writes -/
theorem lwFeed_spec (w : Nat) (hw : 0 < w) (offers : List Nat) :
    ∀ (extra data : Bytes), extra.length < w →
      ∃ consumed, data = consumed ++ (lwFeed w extra data offers).2.2 ∧
        (lwFeed w extra data offers).2.1.length < w ∧
        (lwFeed w extra data offers).1 ++ lwFinish (lwFeed w extra data offers).2.1 = wrap w (extra ++ consumed) := by
  induction offers with
  | nil =>
    intro extra data he
    exact ⟨[], by simp [lwFeed], by simpa [lwFeed] using he, by simp [lwFeed, wrap_short w extra he]⟩
  | cons n ns ih =>
    intro extra data he
    simp only [lwFeed]
    by_cases h0 : (data.take n).isEmpty
    · -- nothing offered
      have hw0 : lwWrite w extra (data.take n) = ([], 0, extra) := by simp [lwWrite, h0]
      rw [hw0]
      obtain ⟨c, h1, h2, h3⟩ := ih extra data he
      exact ⟨c, by simpa using h1, by simpa using h2, by simpa using h3⟩
    · by_cases h1 : extra.length + (data.take n).length < w
      · have hw1 : lwWrite w extra (data.take n) = ([], (data.take n).length, extra ++ data.take n) := by
          simp only [lwWrite, h0, h1, ↓reduceIte, Bool.false_eq_true]
        rw [hw1]
        obtain ⟨c, h2, h3, h4⟩ := ih (extra ++ data.take n) (data.drop (data.take n).length) (by simpa using h1)
        refine ⟨data.take n ++ c, ?_, by simpa using h3, ?_⟩
        · simp only [List.append_assoc]
          rw [← h2]
          have : (data.take n).length = min n data.length := by simp
          rw [this]
          by_cases hn : n ≤ data.length
          · rw [Nat.min_eq_left hn]; simp
          · have : data.length ≤ n := by omega
            rw [Nat.min_eq_right this, List.take_of_length_le this]; simp
        · simpa [List.append_assoc] using h4
      · have hm : min (w - extra.length) (data.take n).length = w - extra.length := by omega
        have hw2 : lwWrite w extra (data.take n) =
            (extra ++ (data.take n).take (w - extra.length) ++ [LF], w - extra.length, []) := by
          simp only [lwWrite, h0, h1, hm, ↓reduceIte, Bool.false_eq_true]
        rw [hw2]
        obtain ⟨c, h2, h3, h4⟩ := ih [] (data.drop (w - extra.length)) (by simpa using hw)
        have hk : w - extra.length ≤ (data.take n).length := by omega
        have htake : (data.take n).take (w - extra.length) = data.take (w - extra.length) := by
          rw [List.take_take]; congr 1; simp at hk; omega
        refine ⟨data.take (w - extra.length) ++ c, ?_, by simpa using h3, ?_⟩
        · simp only [List.append_assoc]; rw [← h2]; simp
        · simp only [List.nil_append] at h4
          have hlen : (extra ++ data.take (w - extra.length)).length = w := by
            simp at hk ⊢; omega
          have := wrap_line w (extra ++ data.take (w - extra.length)) c hw hlen
          simp only [List.append_assoc] at this ⊢
          rw [this, htake, ← h4]
          simp

/-- every write of a non-empty buffer makes progress, so offering the whole rest `data.length` times
(what `write_all` does) consumes everything -/
theorem lwFeed_write_all (w : Nat) (hw : 0 < w) (big : Nat) : ∀ (m : Nat) (extra data : Bytes),
    extra.length < w → data.length ≤ m → data.length ≤ big →
    (lwFeed w extra data (List.replicate m big)).2.2 = [] := by
  intro m
  induction m with
  | zero =>
    intro extra data _ hm _
    have : data = [] := List.eq_nil_of_length_eq_zero (by omega)
    simp [lwFeed, this]
  | succ m ih =>
    intro extra data he hm hb
    cases hd : data with
    | nil => simp [lwFeed_nil]
    | cons b r =>
      rw [← hd]
      simp only [List.replicate_succ, lwFeed]
      have ht : data.take big = data := List.take_of_length_le hb
      rw [ht]
      have hne : data.isEmpty = false := by simp [hd]
      by_cases h1 : extra.length + data.length < w
      · have hw1 : lwWrite w extra data = ([], data.length, extra ++ data) := by simp [lwWrite, hne, h1]
        rw [hw1]
        simp only [List.drop_length]
        rw [lwFeed_nil]
      · have hm' : min (w - extra.length) data.length = w - extra.length := by omega
        have hw2 : lwWrite w extra data = (extra ++ data.take (w - extra.length) ++ [LF], w - extra.length, []) := by
          simp only [lwWrite, hne, h1, hm']; simp
        rw [hw2]
        apply ih [] (data.drop (w - extra.length)) (by simpa using hw)
        · simp; omega
        · simp; omega

end Rpgp.Armor
