import RpgpModel.Armor
import RpgpProofs.ArmorB64
import RpgpProofs.ArmorParse
/-!
# The body stage of `Dearmor`: `Base64Reader` → 4q-token buffer → `Base64Decoder`
-/
namespace Rpgp.Armor

/-! ## byte facts by enumeration -/

theorem byte_forall (P : Byte → Prop) (h : ∀ n, n < 256 → P n.toUInt8) : ∀ c, P c := by
  intro c
  have := h c.toNat (UInt8.toNat_lt c)
  rwa [toUInt8_toNat] at this

/-- symbols that may occur in the base64 part: the alphabet and `=` -/
def isBodySym (c : Byte) : Bool := isB64Sym c || c == EQS

theorem bodySym_facts : ∀ c, isBodySym c = true →
    isB64Token c = true ∧ c ≠ CR ∧ c ≠ LF ∧ c ≠ COLON ∧ c ≠ 45 := by
  apply byte_forall
  decide +kernel

theorem isB64Sym_bodySym (c : Byte) (h : isB64Sym c = true) : isBodySym c = true := by simp [isBodySym, h]

theorem dash_not_token : isB64Token 45 = false ∧ (45 : Byte) ≠ CR ∧ (45 : Byte) ≠ LF := by decide

/-! ## body text: tokens with CR / LF anywhere between them -/

inductive BodyText : Bytes → Bytes → Prop where
  | nil : BodyText [] []
  | tok (c : Byte) (B T : Bytes) : isBodySym c = true → BodyText B T → BodyText (c :: B) (c :: T)
  | nl (c : Byte) (B T : Bytes) : (c = CR ∨ c = LF) → BodyText B T → BodyText (c :: B) T

theorem BodyText.append {B1 T1 B2 T2 : Bytes} (h1 : BodyText B1 T1) (h2 : BodyText B2 T2) :
    BodyText (B1 ++ B2) (T1 ++ T2) := by
  induction h1 with
  | nil => simpa using h2
  | tok c B T hc _ ih => exact BodyText.tok c _ _ hc ih
  | nl c B T hc _ ih => exact BodyText.nl c _ _ hc ih

theorem BodyText.noColon {B T : Bytes} (h : BodyText B T) : ∀ b ∈ B, b ≠ COLON := by
  induction h with
  | nil => intro b hb; simp at hb
  | tok c B T hc _ ih =>
    intro b hb
    rcases List.mem_cons.mp hb with rfl | hb
    · exact (bodySym_facts _ hc).2.2.2.1
    · exact ih b hb
  | nl c B T hc _ ih =>
    intro b hb
    rcases List.mem_cons.mp hb with rfl | hb
    · rcases hc with rfl | rfl <;> decide
    · exact ih b hb

theorem BodyText.of_tokens (T : Bytes) (h : ∀ c ∈ T, isBodySym c = true) : BodyText T T := by
  induction T with
  | nil => exact BodyText.nil
  | cons c r ih => exact BodyText.tok c r r (h c (by simp)) (ih (fun x hx => h x (by simp [hx])))

theorem BodyText.of_newlines (N : Bytes) (h : ∀ c ∈ N, c = CR ∨ c = LF) : BodyText N [] := by
  induction N with
  | nil => exact BodyText.nil
  | cons c r ih => exact BodyText.nl c r [] (h c (by simp)) (ih (fun x hx => h x (by simp [hx])))

/-- the line writer's output is a body text of what was written -/
theorem BodyText.wrapAux (w : Nat) (T : Bytes) (h : ∀ c ∈ T, isBodySym c = true) :
    ∀ col, BodyText (wrapAux w col T) T := by
  induction T with
  | nil =>
    intro col
    simp only [Rpgp.Armor.wrapAux]
    split
    · exact BodyText.nil
    · exact BodyText.nl LF [] [] (Or.inr rfl) BodyText.nil
  | cons c r ih =>
    intro col
    have hc := h c (by simp)
    have hr := ih (fun x hx => h x (by simp [hx]))
    simp only [Rpgp.Armor.wrapAux]
    split
    · exact BodyText.tok c _ _ hc (BodyText.nl LF _ _ (Or.inr rfl) (hr 0))
    · exact BodyText.tok c _ _ hc (hr (col + 1))

theorem BodyText.toCrlf {B T : Bytes} (h : BodyText B T) : BodyText (toCrlf B) T := by
  induction h with
  | nil => exact BodyText.nil
  | tok c B T hc _ ih =>
    have := (bodySym_facts _ hc).2.2.1
    simp only [Rpgp.Armor.toCrlf, this, if_false]
    exact BodyText.tok c _ _ hc ih
  | nl c B T hc _ ih =>
    simp only [Rpgp.Armor.toCrlf]
    split
    · exact BodyText.nl CR _ _ (Or.inl rfl) (BodyText.nl LF _ _ (Or.inr rfl) ih)
    · exact BodyText.nl c _ _ hc ih

/-! ## `Base64Reader::read` over body text -/

/-- the request is satisfied inside the body text -/
theorem b64Fill_body_le {B T : Bytes} (h : BodyText B T) : ∀ (n : Nat) (R : Bytes), n ≤ T.length →
    ∃ B', BodyText B' (T.drop n) ∧ b64Fill n (B ++ R) = (T.take n, B' ++ R) ∧ B'.length + n ≤ B.length := by
  induction h with
  | nil =>
    intro n R hn
    have : n = 0 := by simpa using hn
    subst this
    exact ⟨[], BodyText.nil, by simp [b64Fill], by simp⟩
  | tok c B T hc hB ih =>
    intro n R hn
    cases n with
    | zero => exact ⟨c :: B, by simpa using BodyText.tok c B T hc hB, by simp [b64Fill], by simp⟩
    | succ n =>
      obtain ⟨B', h1, h2, h3⟩ := ih n R (by simpa using hn)
      have hf := bodySym_facts _ hc
      refine ⟨B', by simpa using h1, ?_, by simp; omega⟩
      simp [b64Fill, hf.1, hf.2.1, hf.2.2.1, h2]
  | nl c B T hc _ ih =>
    intro n R hn
    cases n with
    | zero => exact ⟨c :: B, by simpa using BodyText.nl c B T hc ‹_›, by simp [b64Fill], by simp⟩
    | succ n =>
      obtain ⟨B', h1, h2, h3⟩ := ih (n + 1) R hn
      refine ⟨B', h1, ?_, by simp; omega⟩
      simp only [List.cons_append, b64Fill, hc, if_true, h2]

/-- the request reaches beyond the body text -/
theorem b64Fill_body_gt {B T : Bytes} (h : BodyText B T) : ∀ (n : Nat) (R : Bytes), T.length < n →
    b64Fill n (B ++ R) = (T ++ (b64Fill (n - T.length) R).1, (b64Fill (n - T.length) R).2) := by
  induction h with
  | nil => intro n R _; simp
  | tok c B T hc _ ih =>
    intro n R hn
    cases n with
    | zero => simp at hn
    | succ n =>
      have hf := bodySym_facts _ hc
      have := ih n R (by simpa using hn)
      simp [b64Fill, hf.1, hf.2.1, hf.2.2.1, this]
  | nl c B T hc _ ih =>
    intro n R hn
    cases n with
    | zero => simp at hn
    | succ n =>
      have := ih (n + 1) R hn
      simp only [List.cons_append, b64Fill, hc, if_true, this]

/-- the reader stops at the `-` of the footer line -/
theorem b64Fill_dash (n : Nat) (S' : Bytes) : b64Fill (n + 1) (45 :: S') = ([], 45 :: S') := by
  simp [b64Fill, dash_not_token.1, dash_not_token.2.1, dash_not_token.2.2]

/-! ## `try_decode_engine_slice` on an encoding followed by more tokens -/

theorem tryDecode_enc (d rest : Bytes) (m : Nat) (hm : (b64enc d).length = 4 * m) :
    tryDecode m (b64enc d ++ rest) = if m = 0 then (0, []) else (4 * m, d) := by
  cases m with
  | zero => rfl
  | succ m' =>
    have : (b64enc d ++ rest).take (4 * (m' + 1)) = b64enc d := by
      rw [← hm]; simp
    simp [tryDecode, this, b64dec_b64enc]

theorem tryDecode_skip_eqs (d : Bytes) (x y z : Byte) (s : Bytes) (m : Nat) (hm : (b64enc d).length = 4 * m) :
    tryDecode (m + 1) (b64enc d ++ EQS :: x :: y :: z :: s) = tryDecode m (b64enc d ++ EQS :: x :: y :: z :: s) := by
  have : (b64enc d ++ EQS :: x :: y :: z :: s).take (4 * (m + 1)) = b64enc d ++ [EQS, x, y, z] := by
    rw [List.take_append, hm]
    have : 4 * (m + 1) - 4 * m = 4 := by omega
    rw [List.take_of_length_le (by omega), this]
    rfl
  simp only [tryDecode, this, b64dec_eqs_quantum m (b64enc d) x y z [] hm]

theorem b64enc_eq_nil (d : Bytes) (h : b64enc d = []) : d = [] := by
  have := b64enc_length d
  rw [h] at this
  simp at this
  cases d with
  | nil => rfl
  | cons a r => simp at this; omega

/-! ## one `Base64Decoder::read` -/

theorem decodeBody_step (cap f : Nat) (buf : Bytes) (endc : Nat) (raw toks raw' : Bytes)
    (hfill : (if buf.length < 4 then b64Fill (cap - endc) raw else ([], raw)) = (toks, raw')) :
    decodeBody cap (f + 1) buf endc raw =
      if (buf ++ toks).isEmpty then ([], [], raw')
      else if (tryDecode ((buf ++ toks).length / 4) (buf ++ toks)).2.isEmpty then ([], buf ++ toks, raw')
      else
        ((tryDecode ((buf ++ toks).length / 4) (buf ++ toks)).2 ++
          (decodeBody cap f ((buf ++ toks).drop (tryDecode ((buf ++ toks).length / 4) (buf ++ toks)).1)
            (if ((buf ++ toks).drop (tryDecode ((buf ++ toks).length / 4) (buf ++ toks)).1).isEmpty then 0
             else endc + toks.length) raw').1,
         (decodeBody cap f ((buf ++ toks).drop (tryDecode ((buf ++ toks).length / 4) (buf ++ toks)).1)
            (if ((buf ++ toks).drop (tryDecode ((buf ++ toks).length / 4) (buf ++ toks)).1).isEmpty then 0
             else endc + toks.length) raw').2.1,
         (decodeBody cap f ((buf ++ toks).drop (tryDecode ((buf ++ toks).length / 4) (buf ++ toks)).1)
            (if ((buf ++ toks).drop (tryDecode ((buf ++ toks).length / 4) (buf ++ toks)).1).isEmpty then 0
             else endc + toks.length) raw').2.2) := by
  have e1 : Gen.b64DecRefillBelow = 4 := rfl
  have e2 : Gen.b64DecQuantumIn = 4 := rfl
  simp only [decodeBody, e1, e2, hfill]

end Rpgp.Armor
