import RpgpModel.Seipd
/-! SEIPDv1 (CFB + MDC) decryptor: acceptance structure, round trip, streaming soundness/completeness. -/
namespace Rpgp

/-- what `mdcOk` means -/
theorem mdcOk_iff (sha1 : Bytes → Bytes) (pre body mdc : Bytes) (hm : mdc.length = 22)
    (hs : ∀ x, (sha1 x).length = 20) :
    mdcOk sha1 pre body mdc = true ↔
      mdc = [211, 20] ++ sha1 (pre ++ body ++ [211, 20]) := by
  match mdc, hm with
  | a :: b :: rest, hm =>
    simp only [mdcOk, Gen.mdcTagOctet, Gen.mdcLenOctet, List.head?_cons, List.drop_succ_cons, List.drop_zero,
      List.take_succ_cons, List.take_zero, Bool.and_eq_true, beq_iff_eq, Option.some.injEq]
    constructor
    · rintro ⟨⟨h1, h2⟩, h3⟩
      have ha : a = 211 := by rw [h1]; decide
      have hb : b = 20 := by rw [h2]; decide
      subst ha; subst hb
      simp [h3]
    · intro h
      simp only [List.cons_append, List.nil_append, List.cons.injEq] at h
      obtain ⟨ha, hb, hr⟩ := h
      subst ha; subst hb
      refine ⟨⟨by decide, by decide⟩, hr⟩

/-- **CheckFirst releases plaintext only if the MDC relation holds** (and then exactly the body):
acceptance implies the decrypted stream is `prefix ‖ body ‖ D3 14 ‖ sha1(prefix ‖ body ‖ D3 14)` -/
theorem seipd1CheckFirst_accept (sha1 : Bytes → Bytes) (hs : ∀ x, (sha1 x).length = 20)
    (bs max : Nat) (dec body : Bytes)
    (h : seipd1CheckFirst sha1 bs max dec = some body) :
    ∃ pre, pre.length = bs + 2 ∧
      dec = pre ++ body ++ [211, 20] ++ sha1 (pre ++ body ++ [211, 20]) ∧ body.length + 22 ≤ max := by
  unfold seipd1CheckFirst at h
  simp only [Gen.mdcLen] at h
  simp only [List.length_drop] at h
  by_cases h1 : dec.length < bs + 2
  · simp [h1] at h
  by_cases h2 : max < dec.length - (bs + 2)
  · simp [h1, h2] at h
  by_cases h3 : dec.length - (bs + 2) < 22
  · simp [h1, h2, h3] at h
  simp only [h1, h2, h3, if_false] at h
  by_cases hok : mdcOk sha1 (List.take (bs + 2) dec)
      (List.take (dec.length - (bs + 2) - 22) (List.drop (bs + 2) dec))
      (List.drop (dec.length - (bs + 2) - 22) (List.drop (bs + 2) dec)) = true
  · simp only [hok, if_true, Option.some.injEq] at h
    refine ⟨dec.take (bs + 2), by simp; omega, ?_, ?_⟩
    · have hm : (List.drop (dec.length - (bs + 2) - 22) (List.drop (bs + 2) dec)).length = 22 := by
        simp; omega
      have := (mdcOk_iff sha1 _ _ _ hm hs).mp hok
      rw [h] at this
      have hsplit : dec = dec.take (bs + 2) ++ (dec.drop (bs + 2)) := (List.take_append_drop _ _).symm
      have hsplit2 : dec.drop (bs + 2) = body ++ List.drop (dec.length - (bs + 2) - 22) (List.drop (bs + 2) dec) := by
        rw [← h]; exact (List.take_append_drop _ _).symm
      rw [this] at hsplit2
      conv => lhs; rw [hsplit, hsplit2]
      simp [List.append_assoc]
    · rw [← h]; simp; omega
  · rw [if_neg hok] at h; simp at h

/-- … and conversely every honestly formed stream within the size limit is accepted and yields
exactly the plaintext (SEIPDv1 round trip, default mode) -/
theorem seipd1CheckFirst_roundtrip (sha1 : Bytes → Bytes) (hs : ∀ x, (sha1 x).length = 20)
    (bs max : Nat) (pre pt : Bytes) (hp : pre.length = bs + 2) (hmax : pt.length + 22 ≤ max) :
    seipd1CheckFirst sha1 bs max (seipd1Plain sha1 pre pt) = some pt := by
  have hplain : seipd1Plain sha1 pre pt = pre ++ (pt ++ ([211, 20] ++ sha1 (pre ++ pt ++ [211, 20]))) := by
    simp [seipd1Plain, Gen.mdcTagOctet, Gen.mdcLenOctet, List.append_assoc]
  generalize hmdc : ([211, 20] ++ sha1 (pre ++ pt ++ [211, 20]) : Bytes) = mdc at hplain
  have hml : mdc.length = 22 := by rw [← hmdc]; simp [hs]
  have hok : mdcOk sha1 pre pt mdc = true := (mdcOk_iff sha1 pre pt mdc hml hs).mpr hmdc.symm
  rw [hplain]
  unfold seipd1CheckFirst
  simp only [Gen.mdcLen]
  have h1 : ¬ ((pre ++ (pt ++ mdc)).length < bs + 2) := by simp; omega
  have htake : List.take (bs + 2) (pre ++ (pt ++ mdc)) = pre := List.take_left' hp
  have hdrop : List.drop (bs + 2) (pre ++ (pt ++ mdc)) = pt ++ mdc := List.drop_left' hp
  have h0 : ¬ (pre.length + (pt.length + 22) < bs + 2) := by omega
  simp only [h0, if_false, htake, hdrop, List.length_append, hml]
  have h2 : ¬ (max < pt.length + 22) := by omega
  have h3 : ¬ (pt.length + 22 < 22) := by omega
  simp only [h2, h3, if_false, Nat.add_sub_cancel, List.take_left' rfl, List.drop_left' rfl, hok, if_true]

end Rpgp

namespace Rpgp

/-- **Streaming mode, soundness**: whatever the input, (a) what has been released is a prefix of
the decrypted data with at least the 22 MDC octets still withheld, and (b) a clean end implies the
stream is `released ‖ mdc` with the MDC relation over everything released. -/
theorem seipd1Rounds_sound (sha1 : Bytes → Bytes) (pre : Bytes) (B : Nat) :
    ∀ (fuel : Nat) (held hashed src : Bytes) (bl : List Bytes) (ok : Bool),
    seipd1Rounds sha1 pre B fuel held hashed src = (bl, ok) →
    (∃ tail, held ++ src = bl.flatten ++ tail ∧ (bl ≠ [] → 22 ≤ tail.length)) ∧
    (ok = true → ∃ mdc, held ++ src = bl.flatten ++ mdc ∧ mdc.length = 22 ∧
        mdcOk sha1 pre (hashed ++ bl.flatten) mdc = true) := by
  intro fuel
  induction fuel with
  | zero =>
    intro held hashed src bl ok h
    simp [seipd1Rounds] at h
    obtain ⟨rfl, rfl⟩ := h
    exact ⟨⟨held ++ src, by simp, by simp⟩, by simp⟩
  | succ fuel ih =>
    intro held hashed src bl ok h
    unfold seipd1Rounds at h
    simp only [Gen.mdcLen] at h
    generalize hbuf : held ++ List.take (B - held.length) src = buf at h
    by_cases hshort : buf.length < 22
    · simp only [hshort, if_true, Prod.mk.injEq] at h
      obtain ⟨rfl, rfl⟩ := h
      exact ⟨⟨held ++ src, by simp, by simp⟩, by simp⟩
    · simp only [hshort, if_false] at h
      have hsplit : buf = buf.take (buf.length - 22) ++ buf.drop (buf.length - 22) :=
        (List.take_append_drop _ _).symm
      have hml : (buf.drop (buf.length - 22)).length = 22 := by simp; omega
      have hall : held ++ src = buf ++ src.drop (B - held.length) := by
        rw [← hbuf, List.append_assoc, List.take_append_drop]
      by_cases hlast : (List.take (B - held.length) src).length < B - held.length
      · simp only [hlast, if_true] at h
        have hdrop : src.drop (B - held.length) = [] := by
          apply List.drop_eq_nil_of_le
          simp at hlast; omega
        by_cases hok : mdcOk sha1 pre (hashed ++ List.take (buf.length - 22) buf) (List.drop (buf.length - 22) buf) = true
        · simp only [hok, if_true, Prod.mk.injEq] at h
          obtain ⟨rfl, rfl⟩ := h
          refine ⟨⟨buf.drop (buf.length - 22), ?_, fun _ => by omega⟩, fun _ => ⟨buf.drop (buf.length - 22), ?_, hml, ?_⟩⟩
          · rw [hall, hdrop]; simp
          · rw [hall, hdrop]; simp
          · simpa using hok
        · simp only [hok, if_false, Prod.mk.injEq] at h
          obtain ⟨rfl, rfl⟩ := h
          exact ⟨⟨held ++ src, by simp, by simp⟩, by simp⟩
      · simp only [hlast, if_false] at h
        generalize hrec : seipd1Rounds sha1 pre B fuel (List.drop (buf.length - 22) buf)
          (hashed ++ List.take (buf.length - 22) buf) (List.drop (B - held.length) src) = r at h
        obtain ⟨bl', ok'⟩ := r
        simp only [Prod.mk.injEq] at h
        obtain ⟨rfl, rfl⟩ := h
        obtain ⟨⟨tail, ht, htl⟩, hacc⟩ := ih _ _ _ _ _ hrec
        have hchain : held ++ src = buf.take (buf.length - 22) ++ (buf.drop (buf.length - 22) ++ src.drop (B - held.length)) := by
          rw [hall]; conv => lhs; rw [hsplit]
          rw [List.append_assoc]
        refine ⟨⟨tail, ?_, ?_⟩, ?_⟩
        · rw [hchain, ht]; simp [List.append_assoc]
        · intro _
          by_cases hb : bl' = []
          · subst hb
            simp at ht
            rw [← ht]; simp; omega
          · exact htl hb
        · intro hokk
          obtain ⟨mdc, hm1, hm2, hm3⟩ := hacc hokk
          refine ⟨mdc, ?_, hm2, ?_⟩
          · rw [hchain, hm1]; simp [List.append_assoc]
          · simpa [List.append_assoc] using hm3

end Rpgp

namespace Rpgp

/-- **Streaming mode, completeness**: if the (remaining) stream is `X ‖ mdc` with the MDC relation
over what was hashed so far plus `X`, the rounds release exactly `X` and end cleanly — for every
buffer size `B > 22` (the code uses 8192). -/
theorem seipd1Rounds_complete (sha1 : Bytes → Bytes) (pre : Bytes) (B : Nat) (hB : 22 < B) :
    ∀ (fuel : Nat) (held hashed src X mdc : Bytes),
    held.length ≤ 22 → src.length < fuel → held ++ src = X ++ mdc → mdc.length = 22 →
    mdcOk sha1 pre (hashed ++ X) mdc = true →
    ∃ bl, seipd1Rounds sha1 pre B fuel held hashed src = (bl, true) ∧ bl.flatten = X := by
  intro fuel
  induction fuel with
  | zero => intro held hashed src X mdc _ h; omega
  | succ fuel ih =>
    intro held hashed src X mdc hheld hf hall hml hok
    unfold seipd1Rounds
    simp only [Gen.mdcLen]
    generalize hbuf : held ++ List.take (B - held.length) src = buf
    have hallen : held.length + src.length = X.length + 22 := by
      have := congrArg List.length hall
      simp [hml] at this; omega
    by_cases hlast : (List.take (B - held.length) src).length < B - held.length
    · -- source exhausted in this round
      have hsl : src.length < B - held.length := by simp at hlast; omega
      have htake : List.take (B - held.length) src = src := List.take_of_length_le (by omega)
      have hbuf' : buf = X ++ mdc := by rw [← hbuf, htake, hall]
      have hnshort : ¬ (buf.length < 22) := by rw [hbuf']; simp [hml]
      have hl : buf.length - 22 = X.length := by rw [hbuf']; simp [hml]
      simp only [hnshort, if_false, hlast, if_true, hl]
      rw [hbuf', List.take_left' rfl, List.drop_left' rfl]
      simp [hok]
    · have hsl : B - held.length ≤ src.length := by simp at hlast; omega
      have hbl : buf.length = B := by rw [← hbuf]; simp; omega
      have hnshort : ¬ (buf.length < 22) := by omega
      simp only [hnshort, if_false, hlast]
      have hXl : B - 22 ≤ X.length := by omega
      -- buf is a prefix of X ++ mdc
      have hpre : buf ++ src.drop (B - held.length) = X ++ mdc := by
        rw [← hbuf, List.append_assoc, List.take_append_drop, hall]
      have havail : buf.take (buf.length - 22) = X.take (B - 22) := by
        rw [hbl]
        have h1 : (buf ++ src.drop (B - held.length)).take (B - 22) = buf.take (B - 22) := by
          rw [List.take_append_of_le_length (by omega)]
        have h2 : (X ++ mdc).take (B - 22) = X.take (B - 22) := by
          rw [List.take_append_of_le_length hXl]
        rw [← h1, hpre, h2]
      have hrest : buf.drop (buf.length - 22) ++ src.drop (B - held.length) = X.drop (B - 22) ++ mdc := by
        rw [hbl]
        have h1 : (buf ++ src.drop (B - held.length)).drop (B - 22) = buf.drop (B - 22) ++ src.drop (B - held.length) := by
          rw [List.drop_append_of_le_length (by omega)]
        have h2 : (X ++ mdc).drop (B - 22) = X.drop (B - 22) ++ mdc := by
          rw [List.drop_append_of_le_length hXl]
        rw [← h1, hpre, h2]
      have hok' : mdcOk sha1 pre (hashed ++ List.take (buf.length - 22) buf ++ X.drop (B - 22)) mdc = true := by
        rw [havail, List.append_assoc, List.take_append_drop]; exact hok
      obtain ⟨bl', hrec, hfl⟩ := ih (buf.drop (buf.length - 22)) (hashed ++ buf.take (buf.length - 22))
        (src.drop (B - held.length)) (X.drop (B - 22)) mdc (by simp; omega) (by simp; omega) hrest hml hok'
      refine ⟨buf.take (buf.length - 22) :: bl', ?_, ?_⟩
      · simp [hrec]
      · simp [hfl, havail]

/-- SEIPDv1 streaming round trip: the honestly formed stream is released in full and ends cleanly -/
theorem seipd1Streaming_roundtrip (sha1 : Bytes → Bytes) (hs : ∀ x, (sha1 x).length = 20)
    (bs B : Nat) (hB : 22 < B) (pre pt : Bytes) (hp : pre.length = bs + 2) :
    ∃ bl, seipd1Streaming sha1 bs B (seipd1Plain sha1 pre pt) = (bl, true) ∧ bl.flatten = pt := by
  have hplain : seipd1Plain sha1 pre pt = pre ++ (pt ++ ([211, 20] ++ sha1 (pre ++ pt ++ [211, 20]))) := by
    simp [seipd1Plain, Gen.mdcTagOctet, Gen.mdcLenOctet, List.append_assoc]
  generalize hmdc : ([211, 20] ++ sha1 (pre ++ pt ++ [211, 20]) : Bytes) = mdc at hplain
  have hml : mdc.length = 22 := by rw [← hmdc]; simp [hs]
  have hok : mdcOk sha1 pre pt mdc = true := (mdcOk_iff sha1 pre pt mdc hml hs).mpr hmdc.symm
  rw [hplain]
  unfold seipd1Streaming
  have h0 : ¬ ((pre ++ (pt ++ mdc)).length < bs + 2) := by simp; omega
  simp only [h0, if_false, List.take_left' hp, List.drop_left' hp]
  exact seipd1Rounds_complete sha1 pre B hB _ [] [] (pt ++ mdc) pt mdc (by simp) (by simp; omega)
    (by simp) hml (by simpa using hok)

end Rpgp
